#!/usr/bin/env python3
"""covreport.py [--root /tmp/vcov] [--file substr] [--per-prop]
Union of the coverage profiles written by cover.sh: which statements of the library no property's workload reaches.
Prints per-file union coverage and (with --file) the uncovered blocks of matching files with their source text."""
import sys, glob, os, collections, argparse
ap = argparse.ArgumentParser(); ap.add_argument('--root', default='/tmp/vcov'); ap.add_argument('--file', default=None)
ap.add_argument('--per-prop', action='store_true'); ap.add_argument('--props', default=None)
a = ap.parse_args()
blocks = {}  # (file, range) -> [stmts, set(props)]
for f in sorted(glob.glob(a.root + '/C??.txt')):
    prop = os.path.basename(f)[:3]
    if a.props and prop not in a.props.split(','): continue
    for line in open(f):
        if line.startswith('mode:'): continue
        loc, n, c = line.rsplit(' ', 2)
        fn, rng = loc.split(':')
        if not fn.startswith('github.com/go-openapi/runtime/'): continue
        fn = fn[len('github.com/go-openapi/runtime/'):]
        b = blocks.setdefault((fn, rng), [int(n), set()])
        if int(c) > 0: b[1].add(prop)
per = collections.defaultdict(lambda: [0, 0])
for (fn, rng), (n, ps) in blocks.items():
    per[fn][0] += n
    if ps: per[fn][1] += n
if not a.file:
    for fn in sorted(per):
        t, c = per[fn]
        print("%-45s %5d stmts %5.1f%% covered (union)" % (fn, t, 100.0 * c / max(t, 1)))
    T = sum(v[0] for v in per.values()); C = sum(v[1] for v in per.values())
    print("TOTAL %d stmts, %.1f%% covered by the union of the workloads" % (T, 100.0 * C / T))
else:
    for fn in sorted(per):
        if a.file not in fn: continue
        src = open('/repo/' + fn).read().split('\n')
        unc = sorted(((int(r.split(',')[0].split('.')[0]), int(r.split(',')[1].split('.')[0])) for (f2, r), (n, ps) in blocks.items() if f2 == fn and not ps and n > 0))
        print("== %s: %d uncovered blocks" % (fn, len(unc)))
        last = 0
        for s, e in unc:
            for ln in range(max(s, last + 1), e + 1):
                print("%5d  %s" % (ln, src[ln - 1]))
            last = max(last, e)
            print("       ----")
