#!/usr/bin/env python3
"""Mutation drill on a scratch copy of /repo (never touches /repo, /verif/evidence or /verif/run).
usage: drill.py <Cnn> <file> <old> <new> [--tier quick|thorough] [--skip-tests] [--count N]
Replaces exactly one occurrence (or occurrence #N with --count) of <old> by <new> in <file> of a scratch copy,
checks that the copy still builds and passes `go test ./...`, then runs the property's check against it."""
import sys, os, subprocess, shutil, tempfile, argparse
ap = argparse.ArgumentParser()
ap.add_argument('prop'); ap.add_argument('file'); ap.add_argument('old'); ap.add_argument('new')
ap.add_argument('--tier', default='quick'); ap.add_argument('--skip-tests', action='store_true'); ap.add_argument('--count', type=int, default=0)
ap.add_argument('--patch', default=None)
ap.add_argument('--also', nargs=3, action='append', default=[], metavar=('FILE','OLD','NEW'))
a = ap.parse_args()
env = dict(os.environ, GOFLAGS='-mod=mod', GOPROXY='off', GOSUMDB='off', GOTOOLCHAIN='local')
d = tempfile.mkdtemp(prefix='drill-', dir='/tmp')
repo = os.path.join(d, 'repo'); out = os.path.join(d, 'out')
try:
    subprocess.run(['rsync', '-a', '--exclude', '.git', '/repo/', repo + '/'], check=True)
    p = os.path.join(repo, a.file)
    s = open(p).read()
    n = s.count(a.old)
    if n == 0 or (n > 1 and a.count == 0):
        print("DRILL-ERROR: pattern occurs %d times" % n); sys.exit(2)
    if a.count:
        parts = s.split(a.old); s = a.old.join(parts[:a.count]) + a.new + a.old.join(parts[a.count:])
    else:
        s = s.replace(a.old, a.new)
    open(p, 'w').write(s)
    for f2, o2, n2 in a.also:
        p2 = os.path.join(repo, f2); s2 = open(p2).read()
        if s2.count(o2) != 1:
            print("DRILL-ERROR: --also pattern occurs %d times in %s" % (s2.count(o2), f2)); sys.exit(2)
        open(p2, 'w').write(s2.replace(o2, n2))
    r = subprocess.run(['go', 'build', './...'], cwd=repo, env=env, capture_output=True, text=True)
    if r.returncode != 0:
        print("DRILL: mutant does not compile\n" + r.stderr[-800:]); sys.exit(2)
    tests = 'skipped'
    if not a.skip_tests:
        r = subprocess.run(['go', 'test', '-vet=off', '-count=1', './...'], cwd=repo, env=env, capture_output=True, text=True)
        tests = 'pass' if r.returncode == 0 else 'FAIL'
        if r.returncode != 0:
            fails = [l for l in r.stdout.split('\n') if l.startswith('--- FAIL') or l.startswith('FAIL')]
            print("DRILL: repo tests fail on the mutant:", fails[:6])
    os.makedirs(out, exist_ok=True)
    e2 = dict(env, VERIF_REPO=repo, VERIF_OUT=out)
    r = subprocess.run(['/verif/check', a.prop, a.tier], env=e2, capture_output=True, text=True, errors='replace')
    vio = [l for l in r.stdout.split('\n') if l.startswith('VIOLATION')]
    summ = [l for l in r.stdout.split('\n') if l.startswith('SUMMARY') or l.startswith('BUILD-FAILED') or l.startswith('INCONCLUSIVE')]
    sigs = sorted(set(l.split('sig=')[1].split(' ')[0] for l in vio if 'sig=' in l))
    print("DRILL prop=%s tests=%s exit=%d caught=%s sigs=%s" % (a.prop, tests, r.returncode, 'YES' if r.returncode == 1 and vio else 'NO', sigs[:8]))
    for l in summ[:2]: print("  " + l[:300])
    for l in vio[:2]: print("  " + l[:400])
finally:
    shutil.rmtree(d, ignore_errors=True)
