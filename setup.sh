#!/bin/bash
# MANIFEST.setup_cmd: offline build of every check binary (warms the Go build cache, incl. the -race runtime).
set -u
cd "$(dirname "$(readlink -f "$0")")"
export GOFLAGS=-mod=mod GOPROXY=off GOSUMDB=off GOTOOLCHAIN=local
mkdir -p bin run evidence
cp /repo/go.sum harness/go.sum.repo 2>/dev/null && rm -f harness/go.sum.repo
rc=0
ids=$(python3 -c "import json;print(' '.join(c['property_id'] for c in json.load(open('MANIFEST.json'))['checks']))")
build() {
  id=$1
  case "$id" in C09|C11|C12|C13|C16) RACE=-race ;; *) RACE= ;; esac
  (cd harness && go build -tags "verif p$id" $RACE -o "../bin/vcheck-$id" ./cmd/vcheck) || return 1
}
for id in $ids; do
  build $id &
  while [ "$(jobs -r | wc -l)" -ge 6 ]; do sleep 0.2; done
done
for j in $(jobs -p); do wait $j || rc=1; done
[ $rc -eq 0 ] && echo "setup ok: $ids"
exit $rc
