#!/bin/bash
# ./cover.sh <Cnn> [quick|thorough]   statement coverage of /repo's packages under one property's workload.
# A diagnostic for the people maintaining the monitors (which library code does the workload never reach?),
# not a registered check: builds the check binary with -cover into a scratch directory, runs it, prints the
# per-function coverage of the library and leaves the profile at $COVROOT/<Cnn>.txt (default /tmp/vcov).
set -u
cd "$(dirname "$(readlink -f "$0")")"
export GOFLAGS=-mod=mod GOPROXY=off GOSUMDB=off GOTOOLCHAIN=local
id=${1:?usage: ./cover.sh Cnn [tier]}; tier=${2:-quick}
ROOT=${COVROOT:-/tmp/vcov}
mkdir -p "$ROOT/bin" "$ROOT/out-$id" "$ROOT/cov-$id"
rm -rf "$ROOT/cov-$id"/*
(cd harness && go build -cover -coverpkg=github.com/go-openapi/runtime/...,verif/cmd/vcheck -tags "verif p$id" -o "$ROOT/bin/vcheck-$id" ./cmd/vcheck) || exit 2
VERIF_HOME=/verif VERIF_OUT="$ROOT/out-$id" GOCOVERDIR="$ROOT/cov-$id" "$ROOT/bin/vcheck-$id" -prop "$id" "$tier" | grep -E "^(SUMMARY|VIOLATION|INCONCLUSIVE)" | head -5
go tool covdata textfmt -i="$ROOT/cov-$id" -o "$ROOT/$id.txt"
echo "profile: $ROOT/$id.txt"
