#!/usr/bin/env python3
"""Maintain known_findings.json (committed; never written by a check at run time).
  kf.py fixed <commit> <replay.json> "<what failed>"     record a repaired defect + pinned witness
  kf.py known <replay.json> "<what fails>"               record a genuine defect left unrepaired
"""
import json, sys, os
P = os.path.join(os.path.dirname(os.path.abspath(__file__)), 'known_findings.json')
d = {"findings": [], "fixed": [], "fixed_witnesses": []}
if os.path.exists(P):
    d = json.load(open(P))
cmd = sys.argv[1]
if cmd == 'fixed':
    commit, rf, what = sys.argv[2], json.load(open(sys.argv[3])), sys.argv[4]
    line = "fixed: property=%s %s %s" % (rf['property'], commit, what)
    if line not in d['fixed']:
        d['fixed'].append(line)
    d['fixed_witnesses'].append({"property": rf['property'], "sig": rf['sig'], "what": what, "commit": commit, "witness": rf['case']})
elif cmd == 'known':
    rf, what = json.load(open(sys.argv[2])), sys.argv[3]
    d['findings'].append({"property": rf['property'], "sig": rf['sig'], "what": what, "witness": rf['case']})
json.dump(d, open(P, 'w'), indent=1, ensure_ascii=True)
open(P, 'a').write('\n')
