#!/usr/bin/env python3
"""Generates MANIFEST.json from the table below (kept here so that the manifest stays valid and uniform)."""
import json, subprocess, os
HERE = os.path.dirname(os.path.abspath(__file__))
# id -> (built?, level, technique, level text, level note, design ref)
RACE = "Go race detector (-race build, GORACE log parsed, reports de-duplicated)"
T = {
 "C07": (True, "exploration", "differential monitor: real header.ParseAccept / NegotiateContentType / NegotiateContentEncoding and the API handler's 406 gate vs a reference written from the statement (strict RFC 7231 grammar parser, exact decimal q-values with math/big, lexicographic maximum of (q, range specificity, earlier offer)); grammar-based and arbitrary-byte header generators; structural witness shrinking",
         "Seeded exploration: ~220k (quick) / ~11M (thorough) executions of well-formed Accept/Accept-Encoding values (1-6 ranges, wildcards, parameters before and after q, names ending in q, quoted strings, q with 0-80 fractional digits, OWS, several field lines) x offer lists (order, duplicates, parameters, empty) x default present/absent, plus arbitrary bytes for totality of every exported parser, plus ~5k / ~200k requests through RoutesHandler over generated APIs with the offers read from the observed MatchedRoute.Produces. Held on what was run, not a proof.",
         "strong oracle only inside the grammar (lower-case tokens, no OWS around '=', no '*/subtype', quoted strings without ',' or 'q=') and only when distinct q-values differ by >= 1e-6; outside it only 'no panic' and 'result is an offer or the default'; trusts the ~300-line reference package and math/big", "DESIGN.md §4 C07"),
 "C08": (True, "exploration", "reference-model monitor over the real RoutesHandler: generated APIs with tagged producers, recording ServeError and scripted handler outcomes; negotiation by C07's reference over the observed produces order; producer identity by tag; witness minimisation by re-execution",
         "Seeded exploration: 19 200 (quick) / 800 000 (thorough) requests over produces lists (with/without parameters) x API default x success codes 200/201/202/204 and default-only x methods incl. HEAD x Accept headers x outcomes {value, nil, custom Responder, middleware.Error, NotImplemented, errors.Error, plain error, composite error} x basic-auth credentials with realm set/unset x unknown path / wrong method. Each response is judged for status, Content-Type, which tagged producer ran (once, same value, that exact body), HEAD/204 emptiness, Responder hand-over, error routing to api.ServeError, and the WWW-Authenticate realm.",
         "default-only operations: 'no panic' only; Responder results on HEAD or 204 operations: body not judged; upper-case produces entries are not generated", "DESIGN.md §4 C08"),
 "C15": (True, "exploration", "codec monitor: the real Consume/Produce of each built-in codec on scripted io.Reader/Writer/Closer streams (chunk sizes, bounded zero-length reads, data+EOF, fault at byte k, close counters) over every documented source/destination kind plus nil / typed-nil / non-pointer / foreign / pre-populated destinations; oracles from the statement: byte equality, reflect.DeepEqual after produce->consume, error presence, close counters, recovered panics",
         "Seeded cases plus a systematic sweep placing a stream fault at every byte offset of a fixed content for every codec x direction x documented kind (strided in quick, every offset in thorough). Held = no refuting execution among the cases run; one dependency defect (yaml.v3 block-scalar emitter) is a known finding.",
         "not exhaustive over contents or chunkings; JSON/XML/YAML values restricted to what the formats can carry (valid UTF-8, finite floats, non-empty collections); unsupported producer sources are outside the totality clause", "DESIGN.md §4 C15"),
 "C16": (True, "exploration", "differential monitor against encoding/csv with the same options: CSV texts from a grammar x option sets pushed through every destination kind (record tables fresh / pre-populated shorter / equal / longer / typed-nil; byte kinds) and every source kind on scripted streams; records/bytes compared with encoding/csv output, parser-error identity, aliasing probed by overwriting each delivered record, recovered panics; -race build for the io.WriterTo pipe",
         "Seeded (text, option set) groups each run through all kinds against one reference, so kind-to-kind agreement follows by comparison with the same expectation (quick 31k, thorough 2M evaluations); race reports counted. Held on what was run.",
         "skipped lines are counted in records; error identity is not judged for the WriterTo pipe or for invalid writer delimiters; the closing option is recorded, not judged", "DESIGN.md §4 C16"),
 "C11": (True, "exploration", "capturing-RoundTripper monitor: every payload kind through Runtime.Submit (-race build); sent bytes parsed with mime/multipart / url.ParseQuery / the producers; GetBody snapshots taken inside the auth writer compared with what was sent",
         "Seeded exploration plus a complete sweep of single-file lengths 0..520 x six content kinds x read chunkings: the body is the producer's encoding / the reader's bytes / the URL-encoded fields / a multipart document with every field value and file exactly once (field name, base file name, content, declared-or-sniffed part type); the Content-Type describes the body; GetBody inside the auth writer (0/1/3 calls) returns the bytes later sent. Held on the executions produced; one labelled-multipart behaviour pinned by the repository's own test is a known finding.",
         "trusts mime/multipart, net/url, http.DetectContentType (first <=512 content bytes) and the registered producers as differential partners; part order is not judged", "DESIGN.md §4 C11"),
 "C06": (True, "exploration", "reference-model monitor: generated consumes-list shapes x Content-Type spellings x body signalling x methods through both binding entry points (untyped RoutesHandler pipeline and Context.BindValidRequest), judged by an independent RFC 7231 media-type classifier and an admission function written from the statement; tagged consumers identify who decoded",
         "Seeded exploration (30k requests x 2 entry points per quick run, 1M x 2 per thorough run incl. ~20k over loopback TCP with real Content-Length/chunked framing): admitted <=> exactly the registered consumer ran once and the handler ran; otherwise 415 (400 unparsable) and nothing ran; body-less requests are not gated; the two entry points agree. No exhaustiveness over the header grammar.",
         "grey-zone headers (valid type/subtype with irregular parameters, lone token, empty value) are judged for safety and entry-point agreement only; status when no consumer is registered API-wide for an admitted type is not judged; upper-case consumes entries are outside the quantifier", "DESIGN.md §4 C06"),
 "C10": (True, "exploration", "differential monitor: client.New(...).CreateHttpRequest vs an independent URL builder written from the statement, over seeded base paths x patterns x hostile value maps x caller query sets x scheme lists; each case built 6-8 times with permuted SetPathParam/SetQueryParam call orders (Go map order varies per build)",
         "Seeded exploration (quick 600k builds, thorough 51M): escaped-path segment list equals base+pattern with placeholders replaced; each segment percent-decodes to its value; no added separator, query or fragment; no resubstitution of placeholder-like values; trailing slash kept; identical URL across call orders; query precedence caller > pattern > base path; https chosen whenever offered among several schemes; URL.String() re-parses to the same parts. Held on what was run.",
         "trusts the ~150-line reference builder and its own percent-decoder; static template text restricted to [A-Za-z0-9._~-]; unset placeholders, '.'/'..' static segments and the default scheme when none is offered are not judged", "DESIGN.md §4 C10"),
 "C13": (True, "exploration", "tagged-consumer/tagged-transport monitor for sequential calls plus Go race detector + correlation tokens under a verifhook scheduler for N concurrent Submit calls on a fresh Runtime (colliding client-initialising calls), GOMAXPROCS 1/4/16",
         "Seeded exploration: (a) ~10k (quick) / ~0.9M (thorough) sequential calls over response Content-Type spellings x consumer registries x status/header/body sets x operation-vs-transport client and context: the reader is handed exactly the registered (else catch-all) consumer or the call fails naming the content type, and sees status/headers/body unchanged; (b) 172 (quick) / ~10k (thorough) concurrent runs under -race with a hook callback perturbing the schedule at the four cl.submit.* points: every caller receives the response to its own request and the race log is empty. Schedules are sampled, not enumerated.",
         "the hook callback is lock-free so it adds no happens-before edges that could mask races; race reports come from the driver's race-log parser; malformed Content-Type may fail or use the catch-all consumer; over loopback 304/599 are excluded (net/http rewrites them)", "DESIGN.md §4 C13"),
 "C14": (True, "exploration", "end-to-end round-trip monitor: credentials written by client.BasicAuth/APIKeyAuth/BearerToken/Compose (default vs per-operation vs preset header) through CreateHttpRequest, serialised with Request.Write and re-parsed with http.ReadRequest (thorough: also Runtime.Submit to a loopback server), then handed to every security.BasicAuth*/APIKeyAuth*/BearerAuth* variant with recording callbacks",
         "Seeded exploration (quick 80k requests / 330k authenticator probes; thorough 4.0M wire + 160k TCP requests): the callback receives exactly the written user/password/token and the required scopes; applicable iff such a credential is carried; returned principal and error are the callback's; bearer precedence header > query > form over all 24 placement subsets with pairwise distinct tokens and foreign Authorization schemes; default authentication applied iff the operation has no AuthInfo and no Authorization header is preset. Held on what was run.",
         "header-carried tokens exclude leading/trailing whitespace and control bytes (HTTP trimming, net/http refusal); empty tokens not generated; form-body tokens only with POST/PUT/PATCH; trusts net/http's own wire parsing as 'the wire'", "DESIGN.md §4 C14"),
 "C12": (True, "fault_enumeration", "fault-placement enumeration around Submit with scripted upload sources / RoundTripper / raw TCP fault server / hook-driven cancellation; monitors = close counters, unread-byte counters, goroutine census, watchdog-ordered termination; -race build",
         "Enumerates fault placements (pre-send errors, read error at every byte offset of upload sources, transport errors before/mid/after the request body, a raw loopback server closing/resetting/stalling at every byte of a Content-Length and a chunked response under four deadline sources, cancellation at each hook point, every short Read-size sequence on the connection-reuse wrapper) crossed with payload kinds and connection reuse, and checks per placement: Submit returned while the fault was held, returned an error unless the complete response was obtained, every upload source and the response body were closed (drained when required), no goroutine with client frames remains. The enumeration is complete for the listed dimensions at the stated sizes, not for all lengths/timings.",
         "trusts the scripted collaborators, runtime.Stack for the census, and treats 200x the effective deadline without return as non-termination; a complete response lost to the (short) deadline on a loaded machine is counted inconclusive, never a violation", "DESIGN.md §4 C12"),
 "C09": (True, "exploration", "Go race detector + correlation-token isolation monitor under a PRNG hook scheduler (concurrent runs), and an online history checker (reference state machine) over accessor sequences",
         "Concurrent runs of 8..64 goroutines against one handler instance under -race, GOMAXPROCS 1/2/4/16 and a hook callback that perturbs the schedule at the inter-stage suspension points: every value visible in the pipeline and in the response must carry the token of its own request, and the race log must be empty; plus thousands of accessor sequences judged against a memoisation state machine via authenticator/consumer/lookup counters. Shows absence of violations on the interleavings actually produced (count in evidence), nothing more.",
         "trusts the Go race detector (reports only races on executed accesses), the token discipline of the harness collaborators, and the verif hook points (DESIGN Appendix A)", "DESIGN.md §4 C09"),
 "C03": (True, "exploration", "denotation-function monitor: enumerated declaration space x boundary-literal pools x presence shapes through the real untyped handler; value, Go type, 422 and panics judged per request",
         "The declaration space (3572 declarations: location x type/format x collection format x required x default x allowEmpty x validation) is enumerated completely in the thorough tier (half of it, PRNG-chosen, in quick); each declaration is driven with the boundary literals of its type and all presence shapes; the oracle is a denotation function written from the statement. Exploration, not proof: literal pools are finite.",
         "trusts strconv/time/encoding/base64 as the definition of literal grammars, net/http for delivery, and the reference denotation; zones the statement leaves open (strconv extras, empty text with validations, non-RFC3339 date-times) are not judged", "DESIGN.md §4 C03"),
 "C02": (True, "exploration", "scripted-authenticator monitor: outcome vectors injected per request, authenticator/authorizer/consumer/handler call logs judged by an OR-of-ANDs reference over the observed evaluation order",
         "Seeded requirement structures x all 4^n outcome vectors (n<=4) x authorizer modes x rebuilds (to vary the map-order of schemes) through the full handler and through Context.Authorize; an oracle written from the statement decides admission, principal, scopes, refusal status and that nothing ran on refusal. Held on the executions produced.",
         "trusts the scripted collaborators (authenticators, authorizer, counting consumer) and the reference evaluator; unconsulted schemes are treated as not having rejected (see DESIGN)", "DESIGN.md §4 C02"),
 "C01": (True, "exploration", "reference-model monitor: real router/handler pipeline vs segment-wise template matcher over generated descriptions x hostile request targets parsed by net/http's own parser (and real loopback TCP)",
         "Seeded exploration of API descriptions x request targets x methods through the real RoutesHandler; every response is judged by a matcher written from the statement (designated operation, decoded parameter texts by name, 405+Allow set, 404). Held on the executions produced; two template shapes the router does not support are recorded as known findings.",
         "trusts net/http's request parser and url.PathUnescape as the definition of 'what net/http can deliver' and 'percent-decoded', the reference matcher, and loads/analysis for description loading", "DESIGN.md §4 C01"),
 "C05": (True, "exploration", "differential monitor: real denco router vs naive per-pattern reference matcher over seeded pattern sets x hostile paths x build orders",
         "Seeded exploration of pattern sets (up to thousands of records) x insertion orders x hostile lookup paths; every lookup is judged by a reference matcher written from the statement (soundness, completeness, static and literal precedence, totality, order independence). Held-on-what-was-run, not a proof.",
         "trusts the 60-line reference matcher and Go's runtime; patterns using ':' '*' '#' as literals are outside the router's syntax and are not generated", "DESIGN.md §4 C05"),
}
ALL = ["C%02d" % i for i in range(1, 21)]
checks, na = [], []
for pid in ALL:
    if pid in T and T[pid][0]:
        _, level, tech, text, note, ref = T[pid]
        checks.append({
            "property_id": pid,
            "quick_cmd": "./check %s quick" % pid,
            "thorough_cmd": "./check %s thorough" % pid,
            "evidence_file": "evidence/%s.json" % pid,
            "replay_cmd_template": "./check %s --replay {path}" % pid,
            "engine": "vcheck",
            "level_claimed": {"category": level, "text": text, "design_ref": ref},
            "level_note": note,
            "technique": tech,
        })
    else:
        na.append({"property_id": pid, "reason": "monitor not built yet in this working state (planned in DESIGN.md §4); not claimed until its check exists"})
hook_commits = subprocess.run(["git", "-C", "/repo", "log", "--format=%H", "--grep=^verif hooks"], capture_output=True, text=True).stdout.split()
m = {
 "version": 1,
 "setup_cmd": "./setup.sh",
 "hooks": {
  "guard": "verif",
  "enable": "go build -tags verif (the harness module /verif/harness replaces github.com/go-openapi/runtime with /repo, so every check rebuilds the current working tree with the hooks compiled in)",
  "baseline_off_cmd": "cd /repo && GOFLAGS=-mod=mod GOPROXY=off GOSUMDB=off go test -vet=off -count=1 -timeout 25m ./...",
  "source_commits": hook_commits,
  "add_only": True,
 },
 "engines": [{
  "name": "vcheck", "path": "harness/cmd/vcheck",
  "serves_properties": [c["property_id"] for c in checks],
  "kind_free_text": "seeded workload driver + reference-model monitors over real executions of /repo (parent/worker processes, JSON evidence, replay files); Go race detector for C09/C11/C12/C13/C16",
 }],
 "checks": checks,
 "not_applicable": na,
 "notes": "Technique family: runtime monitoring and sanitizers. Known findings and repaired defects (with pinned witnesses that are re-executed on every run) are in known_findings.json. VERIF_SEED selects the PRNG seed.",
}
json.dump(m, open(os.path.join(HERE, "MANIFEST.json"), "w"), indent=1)
print("checks:", len(checks), "not_applicable:", len(na))
