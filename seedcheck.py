#!/usr/bin/env python3
"""Verify one seeded change (made by an independent sub-agent from the property text only) and run our check against it.
usage: seedcheck.py /tmp/seeded/Cnn-k [--tier quick|thorough] [--keep]
Steps (all in scratch git worktrees of /repo under /tmp, removed afterwards; /repo itself is never touched):
  1. patch.diff applies on /repo HEAD; the patched tree builds and its own test suite passes;
  2. demo.sh exits non-zero on the patched tree and 0 on the clean tree;
  3. ./check Cnn <tier> against the patched tree (VERIF_REPO) -> caught or not.
Writes /verif/seeded/Cnn-k/{patch.diff, demo files, README.md, meta.json}."""
import sys, os, subprocess, json, shutil, tempfile, argparse, glob

ap = argparse.ArgumentParser()
ap.add_argument('src'); ap.add_argument('--tier', default='quick'); ap.add_argument('--keep', action='store_true')
ap.add_argument('--prop', default=None)
ap.add_argument('--as', dest='as_id', default=None, help='store under this id')
a = ap.parse_args()
src = os.path.abspath(a.src.rstrip('/'))
sid = a.as_id or os.path.basename(src)
prop = a.prop or sid.split('-')[0]
env = dict(os.environ, GOFLAGS='-mod=mod', GOPROXY='off', GOSUMDB='off', GOTOOLCHAIN='local')
base = tempfile.mkdtemp(prefix='seed-%s-' % sid, dir='/tmp')
pat, cln, out = base + '/patched', base + '/clean', base + '/out'
meta = {"id": sid, "property": prop, "repo_head": subprocess.run(['git', '-C', '/repo', 'rev-parse', '--short', 'HEAD'], capture_output=True, text=True).stdout.strip()}

def sh(cmd, cwd, timeout=1500):
    try:
        r = subprocess.run(cmd, cwd=cwd, env=env, capture_output=True, text=True, errors='replace', timeout=timeout, shell=isinstance(cmd, str))
        return r.returncode, (r.stdout + r.stderr)
    except subprocess.TimeoutExpired:
        return 124, 'timeout'

try:
    for d in (pat, cln):
        subprocess.run(['git', '-C', '/repo', 'worktree', 'add', '-q', '--detach', d, 'HEAD'], check=True)
    rc, o = sh(['git', 'apply', '--3way', src + '/patch.diff'], pat)
    if rc != 0:
        rc, o = sh(['git', 'apply', src + '/patch.diff'], pat)
    meta['patch_applies'] = rc == 0
    if rc != 0:
        meta['apply_output'] = o[-1500:]
        print("SEED %s: patch does not apply on HEAD\n%s" % (sid, o[-800:]))
    else:
        rc, o = sh(['go', 'build', './...'], pat)
        meta['builds'] = rc == 0
        rc, o = sh(['go', 'test', '-vet=off', '-count=1', './...'], pat)
        if rc != 0 and 'TestRuntime_Timeout' in o:  # timing-flaky under load
            rc, o = sh(['go', 'test', '-vet=off', '-count=1', './...'], pat)
        meta['repo_tests_pass_with_change'] = rc == 0
        if rc != 0:
            meta['repo_tests_output'] = '\n'.join(l for l in o.split('\n') if 'FAIL' in l)[:1500]
        # demo on patched and clean trees
        rcp, op = sh('bash %s/demo.sh' % src, pat)
        subprocess.run(['git', 'clean', '-fdq'], cwd=pat)
        rcc, oc = sh('bash %s/demo.sh' % src, cln)
        subprocess.run(['git', 'clean', '-fdq'], cwd=cln)
        meta['demo_fails_with_change'] = rcp != 0
        meta['demo_passes_without_change'] = rcc == 0
        meta['demo_output_with_change'] = op[-1200:]
        if rcc != 0:
            meta['demo_output_without_change'] = oc[-1200:]
        # our check against the patched tree
        os.makedirs(out, exist_ok=True)
        e2 = dict(env, VERIF_REPO=pat, VERIF_OUT=out)
        r = subprocess.run(['/verif/check', prop, a.tier], env=e2, capture_output=True, text=True, errors='replace', timeout=7200)
        vio = [l for l in r.stdout.split('\n') if l.startswith('VIOLATION')]
        sigs = sorted(set(l.split('sig=')[1].split(' ')[0] for l in vio if 'sig=' in l))
        summ = [l for l in r.stdout.split('\n') if l.startswith('SUMMARY') or l.startswith('BUILD') or l.startswith('INCONCLUSIVE')]
        meta['check'] = {"command": "VERIF_REPO=<patched tree> ./check %s %s" % (prop, a.tier), "exit": r.returncode, "caught": r.returncode == 1 and bool(vio),
                         "signatures": sigs[:12], "summary": summ[:2], "first_violation": (vio[0][:600] if vio else None)}
        print("SEED %s prop=%s applies=%s tests_pass=%s demo_fail_with=%s demo_pass_without=%s CAUGHT(%s)=%s sigs=%s" % (
            sid, prop, meta['patch_applies'], meta['repo_tests_pass_with_change'], meta['demo_fails_with_change'], meta['demo_passes_without_change'],
            a.tier, meta['check']['caught'], sigs[:5]))
    dst = '/verif/seeded/' + sid
    os.makedirs(dst, exist_ok=True)
    for f in glob.glob(src + '/*'):
        if os.path.isfile(f) and os.path.realpath(src) != os.path.realpath(dst):
            shutil.copy(f, dst)
    old = {}
    mp = dst + '/meta.json'
    if os.path.exists(mp):
        old = json.load(open(mp))
    runs = old.get('runs', [])
    runs.append({k: meta[k] for k in meta if k not in ('id', 'property')})
    rd = open(src + '/README.md').read() if os.path.exists(src + '/README.md') else ''
    final = {"id": sid, "property": prop, "made_by": "independent sub-agent given only the property text and a scratch worktree",
             "needs_to_manifest": old.get('needs_to_manifest', ''), "readme_excerpt": rd[:1500], "runs": runs}
    json.dump(final, open(mp, 'w'), indent=1)
finally:
    for d in (pat, cln):
        subprocess.run(['git', '-C', '/repo', 'worktree', 'remove', '--force', d], capture_output=True)
    if not a.keep:
        shutil.rmtree(base, ignore_errors=True)
