package gen

import (
	"encoding/json"
	"fmt"
	"sort"
	"strings"

	"github.com/go-openapi/loads"
)

// Param is a non-body (or body) parameter declaration, JSON-serialisable for replay.
type Param struct {
	Name             string        `json:"name"`
	In               string        `json:"in"`
	Type             string        `json:"type,omitempty"`
	Format           string        `json:"format,omitempty"`
	Required         bool          `json:"required,omitempty"`
	Default          interface{}   `json:"default,omitempty"`
	AllowEmptyValue  bool          `json:"allowEmptyValue,omitempty"`
	CollectionFormat string        `json:"collectionFormat,omitempty"`
	ItemsType        string        `json:"itemsType,omitempty"`
	ItemsFormat      string        `json:"itemsFormat,omitempty"`
	Minimum          *float64      `json:"minimum,omitempty"`
	Maximum          *float64      `json:"maximum,omitempty"`
	Enum             []interface{} `json:"enum,omitempty"`
	MinLength        *int64        `json:"minLength,omitempty"`
	MaxLength        *int64        `json:"maxLength,omitempty"`
	Pattern          string        `json:"pattern,omitempty"`
	MinItems         *int64        `json:"minItems,omitempty"`
	MaxItems         *int64        `json:"maxItems,omitempty"`
	BodySchemaType   string        `json:"bodySchemaType,omitempty"` // for in=body: "object" | "string" | ...
}

// SecReq is one requirement alternative: scheme name -> scopes. The empty map is the anonymous alternative.
type SecReq map[string][]string

// Op is one operation.
type Op struct {
	ID          string   `json:"id"`
	Method      string   `json:"method"`
	Template    string   `json:"template"`
	Params      []Param  `json:"params,omitempty"`
	Consumes    []string `json:"consumes,omitempty"`
	Produces    []string `json:"produces,omitempty"`
	Security    []SecReq `json:"security,omitempty"`
	HasSecurity bool     `json:"hasSecurity,omitempty"` // true: emit "security" even when empty (overrides global)
	SuccessCode int      `json:"successCode,omitempty"` // default 200
	DefaultOnly bool     `json:"defaultOnly,omitempty"` // only a "default" response
}

// SecDef is a security definition.
type SecDef struct {
	Type   string            `json:"type"` // basic | apiKey | oauth2
	Name   string            `json:"name,omitempty"`
	In     string            `json:"in,omitempty"`
	Scopes map[string]string `json:"scopes,omitempty"`
}

// Desc is a structural API description from which Swagger 2.0 JSON is emitted.
type Desc struct {
	BasePath    string            `json:"basePath"`
	Consumes    []string          `json:"consumes,omitempty"`
	Produces    []string          `json:"produces,omitempty"`
	SecDefs     map[string]SecDef `json:"secDefs,omitempty"`
	Security    []SecReq          `json:"security,omitempty"`
	HasSecurity bool              `json:"hasSecurity,omitempty"`
	Ops         []Op              `json:"ops"`
	Title       string            `json:"title,omitempty"`
}

// ParamJSON renders one parameter declaration as its Swagger 2.0 JSON object.
func ParamJSON(p Param) map[string]interface{} { return paramJSON(p) }

func paramJSON(p Param) map[string]interface{} {
	m := map[string]interface{}{"name": p.Name, "in": p.In}
	if p.Required {
		m["required"] = true
	}
	if p.In == "body" {
		t := p.BodySchemaType
		if t == "" {
			t = "object"
		}
		m["schema"] = map[string]interface{}{"type": t}
		return m
	}
	m["type"] = p.Type
	if p.Format != "" {
		m["format"] = p.Format
	}
	if p.Default != nil {
		m["default"] = p.Default
	}
	if p.AllowEmptyValue {
		m["allowEmptyValue"] = true
	}
	if p.Type == "array" {
		if p.CollectionFormat != "" {
			m["collectionFormat"] = p.CollectionFormat
		}
		if p.ItemsType != "" {
			it := map[string]interface{}{"type": p.ItemsType}
			if p.ItemsFormat != "" {
				it["format"] = p.ItemsFormat
			}
			m["items"] = it
		}
	}
	if p.Minimum != nil {
		m["minimum"] = *p.Minimum
	}
	if p.Maximum != nil {
		m["maximum"] = *p.Maximum
	}
	if len(p.Enum) > 0 {
		m["enum"] = p.Enum
	}
	if p.MinLength != nil {
		m["minLength"] = *p.MinLength
	}
	if p.MaxLength != nil {
		m["maxLength"] = *p.MaxLength
	}
	if p.Pattern != "" {
		m["pattern"] = p.Pattern
	}
	if p.MinItems != nil {
		m["minItems"] = *p.MinItems
	}
	if p.MaxItems != nil {
		m["maxItems"] = *p.MaxItems
	}
	return m
}

func secJSON(reqs []SecReq) []interface{} {
	out := make([]interface{}, 0, len(reqs))
	for _, r := range reqs {
		m := map[string]interface{}{}
		for k, v := range r {
			if v == nil {
				v = []string{}
			}
			m[k] = v
		}
		out = append(out, m)
	}
	return out
}

// JSON renders the Swagger 2.0 document.
func (d *Desc) JSON() []byte {
	title := d.Title
	if title == "" {
		title = "generated"
	}
	doc := map[string]interface{}{
		"swagger": "2.0",
		"info":    map[string]interface{}{"title": title, "version": "1"},
	}
	if d.BasePath != "\x00none" {
		doc["basePath"] = d.BasePath
	}
	if d.Consumes != nil {
		doc["consumes"] = d.Consumes
	}
	if d.Produces != nil {
		doc["produces"] = d.Produces
	}
	if len(d.SecDefs) > 0 {
		sd := map[string]interface{}{}
		for n, s := range d.SecDefs {
			m := map[string]interface{}{"type": s.Type}
			switch s.Type {
			case "apiKey":
				m["name"] = s.Name
				m["in"] = s.In
			case "oauth2":
				m["flow"] = "password"
				m["tokenUrl"] = "https://example.com/token"
				sc := map[string]interface{}{}
				for k, v := range s.Scopes {
					sc[k] = v
				}
				m["scopes"] = sc
			}
			sd[n] = m
		}
		doc["securityDefinitions"] = sd
	}
	if d.HasSecurity || len(d.Security) > 0 {
		doc["security"] = secJSON(d.Security)
	}
	paths := map[string]interface{}{}
	for _, op := range d.Ops {
		pi, _ := paths[op.Template].(map[string]interface{})
		if pi == nil {
			pi = map[string]interface{}{}
			paths[op.Template] = pi
		}
		o := map[string]interface{}{"operationId": op.ID}
		if len(op.Params) > 0 {
			ps := make([]interface{}, 0, len(op.Params))
			for _, p := range op.Params {
				ps = append(ps, paramJSON(p))
			}
			o["parameters"] = ps
		}
		if op.Consumes != nil {
			o["consumes"] = op.Consumes
		}
		if op.Produces != nil {
			o["produces"] = op.Produces
		}
		if op.HasSecurity || len(op.Security) > 0 {
			o["security"] = secJSON(op.Security)
		}
		code := op.SuccessCode
		if code == 0 {
			code = 200
		}
		if op.DefaultOnly {
			o["responses"] = map[string]interface{}{"default": map[string]interface{}{"description": "d"}}
		} else {
			o["responses"] = map[string]interface{}{fmt.Sprint(code): map[string]interface{}{"description": "ok"}}
		}
		pi[strings.ToLower(op.Method)] = o
	}
	doc["paths"] = paths
	b, err := json.Marshal(doc)
	if err != nil {
		panic(err)
	}
	return b
}

// Load analyses the description.
func (d *Desc) Load() (*loads.Document, error) {
	return loads.Analyzed(json.RawMessage(d.JSON()), "")
}

// PlaceholderNames returns the {name}s of a template in order.
func PlaceholderNames(tpl string) []string {
	var out []string
	for i := 0; i < len(tpl); i++ {
		if tpl[i] == '{' {
			j := strings.IndexByte(tpl[i:], '}')
			if j < 0 {
				break
			}
			out = append(out, tpl[i+1:i+j])
			i += j
		}
	}
	return out
}

// SortedKeys returns the sorted keys of a string-keyed map.
func SortedKeys(m map[string][]string) []string {
	out := make([]string, 0, len(m))
	for k := range m {
		out = append(out, k)
	}
	sort.Strings(out)
	return out
}
