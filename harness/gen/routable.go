package gen

import (
	"net/http"
	"strings"
	"sync"

	"github.com/go-openapi/runtime"
	"github.com/go-openapi/runtime/middleware"
	"github.com/go-openapi/runtime/middleware/untyped"
	"github.com/go-openapi/spec"
	"github.com/go-openapi/strfmt"
)

// GeneratedAPI is a middleware.RoutableAPI built the way a go-swagger generated server builds one: the
// registrations (consumers, producers, authenticators, authorizer, formats, defaults) are those of an
// untyped.API, the operation handlers are plain http.Handlers registered per (METHOD, path template), each
// running the generated-server sequence RouteInfo -> Authorize -> BindValidRequest -> handler -> Respond.
// A Context over it is made with middleware.NewRoutableContext(doc, g, nil) — the constructor generated
// servers use — and handed back through SetContext so that the handlers can reach it.
type GeneratedAPI struct {
	API *untyped.API

	mu       sync.Mutex
	handlers map[string]map[string]http.Handler
	ctx      *middleware.Context
}

// NewGeneratedAPI wraps the registrations of api.
func NewGeneratedAPI(api *untyped.API) *GeneratedAPI {
	return &GeneratedAPI{API: api, handlers: map[string]map[string]http.Handler{}}
}

// SetContext tells the handlers which Context serves them (the one built from this API).
func (g *GeneratedAPI) SetContext(c *middleware.Context) {
	g.mu.Lock()
	g.ctx = c
	g.mu.Unlock()
}

// Context returns the Context set with SetContext.
func (g *GeneratedAPI) Context() *middleware.Context {
	g.mu.Lock()
	defer g.mu.Unlock()
	return g.ctx
}

// Handle registers the handler of one operation (path is the template as written in the description).
func (g *GeneratedAPI) Handle(method, path string, h http.Handler) {
	g.mu.Lock()
	defer g.mu.Unlock()
	um := strings.ToUpper(method)
	if g.handlers[um] == nil {
		g.handlers[um] = map[string]http.Handler{}
	}
	g.handlers[um][path] = h
}

// GeneratedOp is what a generated server knows about one operation.
type GeneratedOp struct {
	// NewBinder returns a fresh parameter object for one request (generated: NewXxxParams()).
	NewBinder func() middleware.RequestBinder
	// Handle is the application's handler; it returns the value, Responder or error handed to Respond.
	Handle func(r *http.Request, params middleware.RequestBinder, principal interface{}) interface{}
	// Authorized: the operation declares security (generated code then calls Context.Authorize first).
	Authorized bool
}

// Operation builds the http.Handler a generated server registers for op, and registers it.
func (g *GeneratedAPI) Operation(method, path string, op GeneratedOp) {
	g.Handle(method, path, http.HandlerFunc(func(rw http.ResponseWriter, r *http.Request) {
		c := g.Context()
		route, rCtx, _ := c.RouteInfo(r)
		if rCtx != nil {
			*r = *rCtx
		}
		var principal interface{}
		if op.Authorized {
			uprinc, aCtx, err := c.Authorize(r, route)
			if err != nil {
				c.Respond(rw, r, route.Produces, route, err)
				return
			}
			if aCtx != nil {
				*r = *aCtx
			}
			principal = uprinc
		}
		params := op.NewBinder()
		if err := c.BindValidRequest(r, route, params); err != nil {
			c.Respond(rw, r, route.Produces, route, err)
			return
		}
		c.Respond(rw, r, route.Produces, route, op.Handle(r, params, principal))
	}))
}

// ---- middleware.RoutableAPI ----

func (g *GeneratedAPI) HandlerFor(method, path string) (http.Handler, bool) {
	g.mu.Lock()
	defer g.mu.Unlock()
	h, ok := g.handlers[strings.ToUpper(method)][path]
	return h, ok
}

func (g *GeneratedAPI) ServeErrorFor(string) func(http.ResponseWriter, *http.Request, error) {
	return func(rw http.ResponseWriter, r *http.Request, err error) { g.API.ServeError(rw, r, err) }
}

func (g *GeneratedAPI) ConsumersFor(mediaTypes []string) map[string]runtime.Consumer {
	return g.API.ConsumersFor(mediaTypes)
}

func (g *GeneratedAPI) ProducersFor(mediaTypes []string) map[string]runtime.Producer {
	return g.API.ProducersFor(mediaTypes)
}

func (g *GeneratedAPI) AuthenticatorsFor(schemes map[string]spec.SecurityScheme) map[string]runtime.Authenticator {
	return g.API.AuthenticatorsFor(schemes)
}

func (g *GeneratedAPI) Authorizer() runtime.Authorizer { return g.API.Authorizer() }
func (g *GeneratedAPI) Formats() strfmt.Registry       { return g.API.Formats() }
func (g *GeneratedAPI) DefaultProduces() string        { return g.API.DefaultProduces }
func (g *GeneratedAPI) DefaultConsumes() string        { return g.API.DefaultConsumes }

var _ middleware.RoutableAPI = (*GeneratedAPI)(nil)
