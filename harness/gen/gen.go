// Package gen holds the seeded generators shared by the property workloads.
package gen

import "math/rand"

// Words is the small segment alphabet that forces shared prefixes and static/parameter siblings.
var Words = []string{"a", "ab", "abc", "b", "users", "x"}

// Pick returns a random element.
func Pick(r *rand.Rand, l []string) string { return l[r.Intn(len(l))] }

// HostileBytes are bytes that the router, URL and header layers treat specially.
var HostileBytes = []byte{':', '*', '#', ';', '=', '%', '+', ' ', '{', '}', '?', '&', '.', '~', '"', '\\', '<', '>', 0x00, 0x7f, 0xc3, 0xa9, 0xff}

// Value returns a hostile value of 1..max bytes: letters mixed with reserved bytes.
// If slash is true the value may contain '/'.
func Value(r *rand.Rand, max int, slash bool) string {
	n := 1 + r.Intn(max)
	b := make([]byte, 0, n)
	for len(b) < n {
		switch k := r.Intn(10); {
		case k < 5:
			b = append(b, "abxyz019"[r.Intn(8)])
		case k < 9:
			b = append(b, HostileBytes[r.Intn(len(HostileBytes))])
		default:
			if slash {
				b = append(b, '/')
			} else {
				b = append(b, 'q')
			}
		}
	}
	return string(b)
}

// Perm returns a random permutation of 0..n-1.
func Perm(r *rand.Rand, n int) []int { return r.Perm(n) }
