// Package c11 monitors what the client transport sends: the body is the payload (by kind), the
// Content-Type describes it, and what an authentication writer saw through GetBody is what is sent.
package c11

import (
	"bytes"
	"encoding/json"
	"fmt"
	"io"
	"math/rand"
	"mime"
	"mime/multipart"
	"net/http"
	"net/url"
	"path/filepath"
	"sort"
	"strings"
	"sync/atomic"

	rt "github.com/go-openapi/runtime"
	"github.com/go-openapi/runtime/client"
	"github.com/go-openapi/strfmt"

	"verif/mon"
)

func init() {
	mon.Register(&mon.Property{
		ID:    "C11",
		Level: "exploration",
		Race:  true,
		Rule: "payload kinds (none; value x each registered producer json/xml/yaml/text/html/csv/octet-stream; io.Reader; io.ReadCloser; form fields only; files only; both; several values and files per field; names with quotes, backslashes, directories) " +
			"x file contents of every length 0..520 plus large ones, text/HTML/binary/PNG/JSON, delivered in full or in short reads, with and without a declared content type x media types x auth writers calling GetBody 0, 1 or 3 times; " +
			"each request goes through Runtime.Submit into a capturing RoundTripper that reads and closes the body like a transport (no network; -race build). Oracle: mime/multipart, url.ParseQuery, http.DetectContentType on the first <=512 content bytes, the producers themselves. " +
			"non-trivial = every judged request; distinct by (payload kind, media type, value kind, #fields, file name/kind/length/chunking/declared type, GetBody count)",
		Assumptions: []string{
			"the expected encoding of a value is what the registered producer writes for it into a plain buffer (differential: the transport must not alter, truncate or re-encode it)",
			"multipart parts may come in any order (fields and files are kept in maps); every value and file must appear exactly once",
			"the type sniffed from content is http.DetectContentType of its first min(512, len) bytes (the function's documented window)",
		},
		MinNontrivial: 200,
		Run:           run,
		Replay:        replay,
	})
}

// FileSpec is one upload source.
type FileSpec struct {
	Field    string `json:"field"`
	Name     string `json:"name"`
	Kind     string `json:"kind"` // text | html | binary | png | json | empty-ish
	Len      int    `json:"len"`
	Chunk    int    `json:"chunk,omitempty"`    // >0: short reads of that size
	Declared string `json:"declared,omitempty"` // ContentType() of the source, "" = none
	// Renamed: the source is runtime.NamedReader(Name, <a named source called Renamed>): the part must
	// carry Name, the name the caller gave last
	Renamed string `json:"renamedFrom,omitempty"`
}

// Case is one client request.
type Case struct {
	Method    string              `json:"method"`
	MediaType string              `json:"mediaType"`
	Payload   string              `json:"payload"` // none | value | reader | readcloser
	ValueKind string              `json:"valueKind,omitempty"`
	BodyLen   int                 `json:"bodyLen,omitempty"`
	Fields    map[string][]string `json:"fields,omitempty"`
	Files     []FileSpec          `json:"files,omitempty"`
	GetBody   int                 `json:"getBody"` // -1: no auth writer
}

func content(kind string, n int) []byte {
	var pat []byte
	switch kind {
	case "html":
		pat = []byte("<html><body><p>hello</p></body></html>\n")
	case "binary":
		pat = []byte{0x00, 0x01, 0xff, 0xfe, 0x10, 0x80, 0x7f, 0x00}
	case "png":
		pat = []byte("\x89PNG\r\n\x1a\n\x00\x00\x00\rIHDR\x00\x00")
	case "json":
		pat = []byte(`{"a":[1,2,3],"b":"text"} `)
	case "ws-then-html":
		pat = []byte("   \n\t<!DOCTYPE html><title>x</title>")
	default:
		pat = []byte("The quick brown fox jumps over the lazy dog. ")
	}
	out := make([]byte, n)
	for i := range out {
		out[i] = pat[i%len(pat)]
	}
	return out
}

type upload struct {
	spec   FileSpec
	data   []byte
	pos    int
	closed int32
}

func (u *upload) Name() string { return u.spec.Name }
func (u *upload) Read(p []byte) (int, error) {
	if u.pos >= len(u.data) {
		return 0, io.EOF
	}
	n := len(u.data) - u.pos
	if n > len(p) {
		n = len(p)
	}
	if u.spec.Chunk > 0 && n > u.spec.Chunk {
		n = u.spec.Chunk
	}
	copy(p, u.data[u.pos:u.pos+n])
	u.pos += n
	return n, nil
}
func (u *upload) Close() error { atomic.AddInt32(&u.closed, 1); return nil }

type typedUpload struct{ *upload }

func (t typedUpload) ContentType() string { return t.spec.Declared }

type onlyReader struct{ r io.Reader }

func (o onlyReader) Read(p []byte) (int, error) { return o.r.Read(p) }

type capture struct {
	header  http.Header
	body    []byte
	hadBody bool
	err     error
	method  string
}

func (c *capture) RoundTrip(r *http.Request) (*http.Response, error) {
	c.header = r.Header.Clone()
	c.method = r.Method
	if r.Body != nil {
		c.hadBody = true
		c.body, c.err = io.ReadAll(r.Body)
		r.Body.Close()
	}
	return &http.Response{StatusCode: 200, Status: "200 OK", Proto: "HTTP/1.1", ProtoMajor: 1, ProtoMinor: 1,
		Header: http.Header{"Content-Type": {"application/json"}}, Body: io.NopCloser(strings.NewReader(`{}`)), Request: r}, nil
}

type xmlDoc struct {
	XMLName struct{} `xml:"doc" json:"-" yaml:"-"`
	A       string   `xml:"a" json:"a" yaml:"a"`
	N       int      `xml:"n" json:"n" yaml:"n"`
}

func valueFor(kind string, n int) interface{} {
	s := string(content("text", n))
	switch kind {
	case "map":
		return map[string]interface{}{"k": s, "n": n, "html": "<b>&</b>"}
	case "struct":
		return xmlDoc{A: s, N: n}
	case "string":
		return s
	case "bytes":
		return content("binary", n)
	case "records":
		return [][]string{{"a", "b"}, {s, "x,y"}, {"q\"uote", "new\nline"}}
	}
	return s
}

var producerKinds = map[string][]string{
	"application/json":         {"map", "struct", "string"},
	"application/xml":          {"struct"},
	"application/x-yaml":       {"map", "struct", "string"},
	"text/plain":               {"string", "bytes"},
	"text/html":                {"string"},
	"text/csv":                 {"records"},
	"application/octet-stream": {"string", "bytes"},
}

func runCase(m *mon.M, c *Case) {
	m.Eval(1)
	cap := &capture{}
	r := client.New("example.invalid", "/api", []string{"http"})
	r.Transport = cap
	var uploads []*upload
	var stream []byte
	var sawBodies [][]byte
	params := rt.ClientRequestWriterFunc(func(req rt.ClientRequest, _ strfmt.Registry) error {
		switch c.Payload {
		case "value":
			_ = req.SetBodyParam(valueFor(c.ValueKind, c.BodyLen))
		case "reader":
			stream = content("json", c.BodyLen)
			_ = req.SetBodyParam(onlyReader{bytes.NewReader(stream)})
		case "readcloser":
			stream = content("binary", c.BodyLen)
			_ = req.SetBodyParam(io.NopCloser(bytes.NewReader(stream)))
		case "bytes.Buffer": // a caller-owned buffer: the same concrete type the request uses internally
			stream = content("json", c.BodyLen)
			_ = req.SetBodyParam(bytes.NewBuffer(append([]byte(nil), stream...)))
		case "bytes.Reader":
			stream = content("binary", c.BodyLen)
			_ = req.SetBodyParam(bytes.NewReader(stream))
		case "strings.Reader":
			stream = content("text", c.BodyLen)
			_ = req.SetBodyParam(strings.NewReader(string(stream)))
		}
		for k, v := range c.Fields {
			_ = req.SetFormParam(k, v...)
		}
		byField := map[string][]rt.NamedReadCloser{}
		var order []string
		for _, fs := range c.Files {
			u := &upload{spec: fs, data: content(fs.Kind, fs.Len)}
			uploads = append(uploads, u)
			if _, ok := byField[fs.Field]; !ok {
				order = append(order, fs.Field)
			}
			switch {
			case fs.Declared != "":
				byField[fs.Field] = append(byField[fs.Field], typedUpload{u})
			case fs.Renamed != "":
				inner := *u
				inner.spec.Name = fs.Renamed
				wrapped := rt.NamedReader(fs.Name, &inner)
				uploads[len(uploads)-1] = &inner // the bytes are read from the inner source
				byField[fs.Field] = append(byField[fs.Field], wrapped)
			default:
				byField[fs.Field] = append(byField[fs.Field], u)
			}
		}
		for _, f := range order {
			_ = req.SetFileParam(f, byField[f]...)
		}
		return nil
	})
	var auth rt.ClientAuthInfoWriter
	if c.GetBody >= 0 {
		auth = rt.ClientAuthInfoWriterFunc(func(req rt.ClientRequest, _ strfmt.Registry) error {
			for i := 0; i < c.GetBody; i++ {
				b := req.GetBody()
				sawBodies = append(sawBodies, append([]byte(nil), b...))
			}
			return req.SetHeaderParam("X-Signed", fmt.Sprint(c.GetBody))
		})
	}
	op := &rt.ClientOperation{ID: "x", Method: c.Method, PathPattern: "/things", ConsumesMediaTypes: []string{c.MediaType}, ProducesMediaTypes: []string{"application/json"},
		Params: params, AuthInfo: auth, Reader: rt.ClientResponseReaderFunc(func(rt.ClientResponse, rt.Consumer) (interface{}, error) { return nil, nil })}
	var subErr error
	pv, st := mon.Catch(func() { _, subErr = r.Submit(op) })
	feat := c.feature()
	m.NT(c.fingerprint())
	if pv != nil {
		m.Violate("panic/"+feat, fmt.Sprintf("%v\n%s", pv, st), c)
		return
	}
	if subErr != nil {
		m.Violate("submit-failed/"+feat, fmt.Sprintf("Submit failed: %v ; %s", subErr, c.describe()), c)
		return
	}
	if cap.err != nil {
		m.Violate("body-read-error/"+feat, fmt.Sprintf("the transport could not read the body: %v ; %s", cap.err, c.describe()), c)
		return
	}
	ct := cap.header.Get("Content-Type")
	// what auth saw is what is sent
	for i, b := range sawBodies {
		if !bytes.Equal(b, cap.body) {
			m.Violate(fmt.Sprintf("getbody-differs-from-sent/%s", feat), fmt.Sprintf("GetBody call #%d returned %d bytes %.60q, sent %d bytes %.60q ; %s", i+1, len(b), b, len(cap.body), cap.body, c.describe()), c)
			return
		}
	}
	hasForm := len(c.Fields) > 0 || len(c.Files) > 0
	switch {
	case hasForm && (len(c.Files) > 0 || c.MediaType == "multipart/form-data"):
		judgeMultipart(m, c, cap, ct, uploads, feat)
	case hasForm:
		if mt, _, err := mime.ParseMediaType(ct); err != nil || mt != c.MediaType {
			m.Violate("content-type-does-not-describe-body/"+feat, fmt.Sprintf("url-encoded form sent under Content-Type %q ; %s", ct, c.describe()), c)
			return
		}
		got, err := url.ParseQuery(string(cap.body))
		if err != nil || !sameValues(got, c.Fields) {
			m.Violate("form-encoding-differs/"+feat, fmt.Sprintf("sent %q, fields %v ; %s", cap.body, c.Fields, c.describe()), c)
			return
		}
		m.Class("urlencoded-ok")
	case c.Payload == "value":
		var want bytes.Buffer
		prod := r.Producers[c.MediaType]
		if prod == nil {
			m.Class("no-producer")
			return
		}
		if err := prod.Produce(&want, valueFor(c.ValueKind, c.BodyLen)); err != nil {
			m.Class("producer-refuses-value")
			return
		}
		if !bytes.Equal(want.Bytes(), cap.body) {
			m.Violate("value-encoding-differs/"+feat, fmt.Sprintf("sent %d bytes %.80q, producer writes %d bytes %.80q ; %s", len(cap.body), cap.body, want.Len(), want.Bytes(), c.describe()), c)
			return
		}
		if ct != c.MediaType {
			m.Violate("content-type-does-not-describe-body/"+feat, fmt.Sprintf("value encoded as %s sent under Content-Type %q", c.MediaType, ct), c)
			return
		}
		m.Class("value-ok")
	case c.Payload == "reader" || c.Payload == "readcloser" || c.Payload == "bytes.Buffer" || c.Payload == "bytes.Reader" || c.Payload == "strings.Reader":
		if !bytes.Equal(stream, cap.body) {
			m.Violate("stream-bytes-differ/"+feat, fmt.Sprintf("sent %d bytes, the reader held %d ; %s", len(cap.body), len(stream), c.describe()), c)
			return
		}
		if ct != c.MediaType {
			m.Violate("content-type-does-not-describe-body/"+feat, fmt.Sprintf("stream sent under Content-Type %q, media type %q", ct, c.MediaType), c)
			return
		}
		m.Class("stream-ok")
	default:
		if len(cap.body) != 0 {
			m.Violate("body-without-payload/"+feat, fmt.Sprintf("%d body bytes sent without any payload", len(cap.body)), c)
			return
		}
		m.Class("no-payload-ok")
	}
	if m.WantSample() {
		m.Sample(c)
	}
}

func judgeMultipart(m *mon.M, c *Case, cap *capture, ct string, uploads []*upload, feat string) {
	mt, params, err := mime.ParseMediaType(ct)
	if err != nil || params["boundary"] == "" {
		m.Violate("multipart-content-type-unusable/"+feat, fmt.Sprintf("Content-Type %q ; %s", ct, c.describe()), c)
		return
	}
	mr := multipart.NewReader(bytes.NewReader(cap.body), params["boundary"])
	type part struct {
		field, file, ctype string
		data               []byte
	}
	var parts []part
	for {
		p, err := mr.NextRawPart()
		if err == io.EOF {
			break
		}
		if err != nil {
			m.Violate("multipart-unparsable/"+feat, fmt.Sprintf("%v ; body %.120q ; %s", err, cap.body, c.describe()), c)
			return
		}
		b, _ := io.ReadAll(p)
		// FileName() applies filepath.Base itself; read the raw parameter instead
		_, dp, _ := mime.ParseMediaType(p.Header.Get("Content-Disposition"))
		parts = append(parts, part{field: p.FormName(), file: dp["filename"], ctype: p.Header.Get("Content-Type"), data: b})
	}
	// fields
	gotFields := map[string][]string{}
	var fileParts []part
	for _, p := range parts {
		if _, isFile := hasFilename(p.field, p.file, cap.body); isFile || p.file != "" {
			fileParts = append(fileParts, p)
			continue
		}
		gotFields[p.field] = append(gotFields[p.field], string(p.data))
	}
	if !sameValues(gotFields, c.Fields) {
		m.Violate("multipart-fields-differ/"+feat, fmt.Sprintf("sent fields %v, set %v ; %s", gotFields, c.Fields, c.describe()), c)
		return
	}
	if len(fileParts) != len(c.Files) {
		m.Violate("multipart-file-count/"+feat, fmt.Sprintf("%d file parts sent, %d files set ; %s", len(fileParts), len(c.Files), c.describe()), c)
		return
	}
	used := make([]bool, len(fileParts))
	for i, fs := range c.Files {
		data := uploads[i].data
		idx := -1
		for j, p := range fileParts {
			if !used[j] && p.field == fs.Field && bytes.Equal(p.data, data) && p.file == filepath.Base(fs.Name) {
				idx = j
				break
			}
		}
		if idx < 0 {
			var seen []string
			for _, p := range fileParts {
				seen = append(seen, fmt.Sprintf("{field=%q file=%q len=%d}", p.field, p.file, len(p.data)))
			}
			m.Violate("multipart-file-missing-or-altered/"+feat, fmt.Sprintf("file field=%q name=%q (base %q) len=%d not found among parts %v ; %s", fs.Field, fs.Name, filepath.Base(fs.Name), len(data), seen, c.describe()), c)
			return
		}
		used[idx] = true
		want := fs.Declared
		if want == "" {
			w := data
			if len(w) > 512 {
				w = w[:512]
			}
			want = http.DetectContentType(w)
		}
		if fileParts[idx].ctype != want {
			lc := "len>=512"
			if len(data) < 512 {
				lc = "len<512"
			}
			if fs.Chunk > 0 {
				lc += "+short-reads"
			}
			if fs.Declared != "" {
				lc = "declared"
			}
			m.Violate("file-part-content-type/"+lc, fmt.Sprintf("part Content-Type %q, expected %q for %s content of %d bytes ; %s", fileParts[idx].ctype, want, fs.Kind, len(data), c.describe()), c)
			return
		}
	}
	if mt != "multipart/form-data" {
		m.Violate("content-type-does-not-describe-body/multipart-labelled-"+mt, fmt.Sprintf("a multipart document was sent under Content-Type %q ; %s", ct, c.describe()), c)
		return
	}
	m.Class("multipart-ok")
}

func hasFilename(field, file string, _ []byte) (string, bool) { return file, file != "" }

func sameValues(a, b map[string][]string) bool {
	norm := func(m map[string][]string) string {
		var ks []string
		for k, v := range m {
			if len(v) == 0 {
				continue
			}
			vs := append([]string(nil), v...)
			sort.Strings(vs)
			ks = append(ks, fmt.Sprintf("%q=%q", k, vs))
		}
		sort.Strings(ks)
		return strings.Join(ks, "&")
	}
	return norm(a) == norm(b)
}

func (c *Case) feature() string {
	f := c.Payload
	if len(c.Files) > 0 {
		f = "files"
		if len(c.Fields) > 0 {
			f = "files+fields"
		}
	} else if len(c.Fields) > 0 {
		f = "fields"
	}
	g := "no-auth"
	if c.GetBody >= 0 {
		g = fmt.Sprintf("getbody-%d", c.GetBody)
	}
	return f + "/" + c.MediaType + "/" + g
}

func (c *Case) fingerprint() string {
	b, _ := json.Marshal(c)
	return string(b)
}

func (c *Case) describe() string {
	b, _ := json.Marshal(c)
	if len(b) > 500 {
		b = b[:500]
	}
	return "case " + string(b)
}

// ---------- generation ----------

var hostileNames = []string{"a.txt", "dir/sub/b.bin", `q"uote.txt`, `back\slash.txt`, "é.txt", "sp ace.html", "noext", `C:\x\y.png`, `a\\b.txt`, `copy\(1).txt`, `trailing\`, `q"and\back.txt`, `\`}
var fieldNames = []string{"file", "f2", `we"ird`, "a b"}
var fileKinds = []string{"text", "html", "binary", "png", "json", "ws-then-html"}

func genFiles(r *rand.Rand, n int, lenPick func() int) []FileSpec {
	var out []FileSpec
	for i := 0; i < n; i++ {
		fs := FileSpec{Field: fieldNames[r.Intn(2)], Name: hostileNames[r.Intn(len(hostileNames))], Kind: fileKinds[r.Intn(len(fileKinds))], Len: lenPick()}
		if r.Intn(4) == 0 {
			fs.Field = fieldNames[r.Intn(len(fieldNames))]
		}
		switch r.Intn(5) {
		case 0:
			fs.Chunk = 1
		case 1:
			fs.Chunk = 100
		}
		switch r.Intn(8) {
		case 0, 1:
			// declared types are sent as declared, however they are spelled
			fs.Declared = []string{"image/png", "text/x-custom; charset=utf-8", "application/pdf", "text/plain;charset=utf-8", "IMAGE/PNG", `text/x-q; b=2; a="1"`, "application/vnd.x+json;  v=1"}[r.Intn(7)]
		case 2:
			fs.Renamed = []string{"tmp-123.bin", "upload.tmp", "other/inner.txt"}[r.Intn(3)]
		}
		out = append(out, fs)
	}
	return out
}

func genFields(r *rand.Rand) map[string][]string {
	out := map[string][]string{}
	n := 1 + r.Intn(3)
	vals := []string{"v", "", "a b&c=d", "é", "line\nbreak", "x\"y", strings.Repeat("long", 300)}
	for i := 0; i < n; i++ {
		k := []string{"name", "tag", "a b", "k&=", "é"}[r.Intn(5)]
		nv := 1 + r.Intn(3)
		var vs []string
		for j := 0; j < nv; j++ {
			vs = append(vs, vals[r.Intn(len(vals))])
		}
		out[k] = vs
	}
	return out
}

func run(m *mon.M) {
	r := m.Rand("c11")
	getBodies := []int{-1, 0, 1, 3}
	// (1) every file length around the sniffing window, one file
	maxLen := 520
	for l := 0; l <= maxLen; l++ {
		if (l%m.NShards) != m.Shard && !(m.Quick() && false) {
			continue
		}
		for _, kind := range fileKinds {
			if m.Quick() && r.Intn(3) != 0 {
				continue
			}
			for _, chunk := range []int{0, 1, 200} {
				if m.Quick() && chunk == 1 && l > 64 && r.Intn(4) != 0 {
					continue
				}
				c := &Case{Method: "POST", MediaType: "multipart/form-data", Payload: "none", GetBody: getBodies[r.Intn(4)],
					Files: []FileSpec{{Field: "file", Name: hostileNames[r.Intn(len(hostileNames))], Kind: kind, Len: l, Chunk: chunk}}}
				m.Begin(c)
				runCase(m, c)
			}
		}
	}
	// (2) random mixes
	n := m.N(700, 15000)
	lens := func() int {
		switch r.Intn(6) {
		case 0:
			return r.Intn(8)
		case 1:
			return 505 + r.Intn(16)
		case 2:
			return 70000
		default:
			return r.Intn(2000)
		}
	}
	mts := []string{"application/json", "application/xml", "application/x-yaml", "text/plain", "text/html", "text/csv", "application/octet-stream", "multipart/form-data", "application/x-www-form-urlencoded"}
	for i := 0; i < n; i++ {
		c := &Case{Method: []string{"POST", "PUT", "PATCH", "POST"}[r.Intn(4)], GetBody: getBodies[r.Intn(4)]}
		switch r.Intn(11) {
		case 10:
			c.MediaType = mts[r.Intn(7)]
			c.Payload = []string{"bytes.Buffer", "bytes.Reader", "strings.Reader"}[r.Intn(3)]
			c.BodyLen = lens()
		case 0, 1, 2: // value
			c.MediaType = mts[r.Intn(7)]
			c.Payload = "value"
			ks := producerKinds[c.MediaType]
			c.ValueKind = ks[r.Intn(len(ks))]
			c.BodyLen = lens()
		case 3:
			c.MediaType = mts[r.Intn(7)]
			c.Payload = []string{"reader", "readcloser", "bytes.Buffer", "bytes.Reader", "strings.Reader"}[r.Intn(5)]
			c.BodyLen = lens()
		case 4: // fields only
			c.MediaType = []string{"application/x-www-form-urlencoded", "multipart/form-data"}[r.Intn(2)]
			c.Payload = "none"
			c.Fields = genFields(r)
		case 5, 6: // files only
			c.MediaType = []string{"multipart/form-data", "multipart/form-data", "application/x-www-form-urlencoded", "application/json"}[r.Intn(4)]
			c.Payload = "none"
			c.Files = genFiles(r, 1+r.Intn(3), lens)
		case 7, 8: // both
			c.MediaType = []string{"multipart/form-data", "multipart/form-data", "application/x-www-form-urlencoded"}[r.Intn(3)]
			c.Payload = "none"
			c.Fields = genFields(r)
			c.Files = genFiles(r, 1+r.Intn(3), lens)
		default:
			c.MediaType = mts[r.Intn(len(mts))]
			c.Payload = "none"
			if r.Intn(2) == 0 {
				c.Method = "GET"
			}
		}
		m.Begin(c)
		runCase(m, c)
	}
}

func replay(m *mon.M, raw json.RawMessage) {
	var c Case
	if err := json.Unmarshal(raw, &c); err != nil {
		m.Violate("bad-replay-case", err.Error(), nil)
		return
	}
	runCase(m, &c)
}
