// Package c11 monitors what the client transport sends: the body is the payload (by kind), the
// Content-Type describes it, and what an authentication writer saw through GetBody is what is sent.
package c11

import (
	"bytes"
	"encoding/json"
	"errors"
	"fmt"
	"io"
	"math/rand"
	"mime"
	"mime/multipart"
	"net/http"
	"net/url"
	"os"
	"path/filepath"
	"reflect"
	"sort"
	"strings"
	"sync/atomic"

	rt "github.com/go-openapi/runtime"
	"github.com/go-openapi/runtime/client"
	"github.com/go-openapi/strfmt"

	"verif/mon"
)

func init() {
	mon.Register(&mon.Property{
		ID:    "C11",
		Level: "exploration",
		Race:  true,
		Rule: "payload kinds (none; value x each registered producer json/xml/yaml/text/html/csv/octet-stream; io.Reader; io.ReadCloser; form fields only; files only; both; several values and files per field; names with quotes, backslashes, directories) " +
			"x file contents of every length 0..520 plus large ones, text/HTML/binary/PNG/JSON, delivered in full or in short reads, with and without a declared content type x media types x auth writers calling GetBody 0, 1 or 3 times; " +
			"each request goes through Runtime.Submit into a capturing RoundTripper that reads and closes the body like a transport (no network; -race build). Oracle: mime/multipart, url.ParseQuery, http.DetectContentType on the first <=512 content bytes, the producers themselves. " +
			"around the payload: methods POST/PUT/PATCH and GET/DELETE/OPTIONS/HEAD/QUERY, a Content-Type header preset by the params writer, offers [T] ['',T] [] ['',''] [T,other] ['',T,other] (Runtime.DefaultMediaType = T when nothing is offered), variant spellings of T registered by the caller (parameters, case), " +
			"reader payloads with short reads and data+EOF, seekable upload sources handed over at offsets 0..700 of a longer file, Runtime.Debug on; the transport also records Request.ContentLength and re-reads Request.GetBody. A refuted case is re-run with each decoration taken away, so that witness and signature keep only what matters. " +
			"upload sources are the harness's own types, real *os.File values (scratch files, at offset 0 and partly read) and runtime.NamedReader over a *bytes.Reader or over a value with a Read method only; a sixth of the random mixes are submitted after 1-2 other requests of the mix on the same Runtime; " +
			"per shard 40 (400) requests have one upload source whose Read fails with a non-EOF error after 0..33000 bytes (inside, at the end of and after the sniffing window; alone, before, between and after healthy files): such a request must fail (Submit, or the transport's read of the body), or else hold every file in full. " +
			"in a quarter of the requests that have one the authentication writer is installed as Runtime.DefaultAuthentication instead of ClientOperation.AuthInfo; a third of the writers also read GetMethod, GetPath, GetBodyParam and GetFileParam before and after their GetBody calls (half of those on a pattern /things/{id} with values that need escaping); " +
			"an eighth of the JSON/XML values have no encoding (the producer refuses them), half of the ReadCloser payloads fail on Close: such a request must fail or else be sent like any other; a request without payload carries no Content-Type. " +
			"a sixth of the value payloads, and a sweep over every media type with a producer x GetBody 0/1/3 times or no auth writer, are pointers (*struct, *string, *map) and typed-nil pointers (a nil *struct, *string, *map, *[]byte, *[][]string held in the interface): what the producer writes for them into a plain buffer is what must be sent and shown, and what it refuses must make the request fail. " +
			"per shard 60 (600) value requests are made after 1-2 others on the same Runtime for the same media type under the same spelling (as registered; a variant with parameters or upper-case letters that is a key of Producers; one that is not; a vendor type the caller registers), the producer registered for that type (the standard one, or one of two of the caller's own that mark what they write) being replaced between the requests, also at random in the mixes: the body is the encoding of the producer registered when the request is made. " +
			"a variant spelling that is a key of Producers has, in half of the value requests that offer one, in the histories and in a sweep over every variant x offer shape x GetBody count, a producer of the caller's own registered under it that differs from the one under the key's bare lower-case form: the body sent under that spelling is the encoding of the producer registered under that spelling. " +
			"per shard 60 (600) upload requests, and a fifth of those of the mixes, have a params writer that calls SetFileParam twice for one field, the second call listing some of the same values again and dropping 0-2 others; the values are pointers (*upload, *os.File, runtime.NamedReader) and comparable structs (around a harness source, around a real *os.File, with and without ContentType): every file of the final list arrives in full, exactly once, a dropped one is not sent and is closed; a harness source that is closed has nothing more to read, like a file. " +
			"non-trivial = every judged request; distinct by (payload kind, media type, value kind, #fields, file name/kind/length/chunking/declared type, GetBody count)",
		Assumptions: []string{
			"the expected encoding of a value is what the registered producer writes for it into a plain buffer (differential: the transport must not alter, truncate or re-encode it)",
			"multipart parts of different fields may come in any order (fields and files are kept in maps); every value and file must appear exactly once; the values of one field and the files of one field are lists: they are sent in the order in which they were given to SetFormParam / SetFileParam (urlencoded bodies likewise, per field)",
			"a file whose reader returns an error other than io.EOF has no full content to send: the request must not be reported as sent (Submit fails, or the transport is given a body whose Read fails)",
			"the Runtime is configured for each request (transport, default media type, debug flag, the producers registered: by assignments to the Runtime's own Producers map); what was submitted on it before does not enter the expectation: the producer of the chosen media type is the one registered when the request is made",
			"when Producers has a key spelled exactly like the media type that is chosen (and that the Content-Type names), the producer under that key is the producer for the chosen media type, whatever is registered under the key's bare lower-case form; cases where only a DIFFERENT parametrised spelling is a key are not generated",
			"the files of a field are the ones given to the last SetFileParam call for it, whatever an earlier call had listed; the files an earlier call listed and the last one does not are the request's to close (nobody else holds them); upload values that cannot be compared (a struct holding a slice) are not generated",
			"the type sniffed from content is http.DetectContentType of its first min(512, len) bytes (the function's documented window)",
			"the content of an upload is what its reader has to offer from the position at which it is handed over",
			"the media type that describes a reader payload is the one chosen for the operation, whatever Content-Type the params writer had put in the header parameters and whatever the method",
			"which of several offered media types is chosen is not judged: the Content-Type must be one of the non-empty offered ones (the Runtime's default when none is offered) and the body must be that type's encoding",
			"an authentication writer that is installed (for the operation or as the Runtime's default) is run on the request that is sent; what it reads through GetMethod, GetPath (the pattern with the values as given: the path sent, decoded, is the base path followed by it), GetBodyParam (the value, or the very reader, handed to SetBodyParam) and GetFileParam (the upload sources by field, in order) is what was handed over and what is sent",
			"a request without payload, form fields and files sends nothing: a Content-Type header on it describes no body and is refuted (none is preset in such a case)",
			"a value for which the chosen type's producer has no encoding, written into a plain buffer, cannot be sent: the request must fail; a ReadCloser payload whose Close fails may make the request fail",
			"a failure of the harness's own scratch files (os-file sources) is an environment class (env:...), tried twice, never judged",
			"a declared Request.ContentLength binds the transport (net/http: > 0, or 0 with no body) and must equal the number of body bytes; Request.GetBody, when set, must give the bytes of the body",
		},
		MinNontrivial: 200,
		Run:           run,
		Replay:        replay,
	})
}

// FileSpec is one upload source.
type FileSpec struct {
	Field    string `json:"field"`
	Name     string `json:"name"`
	Kind     string `json:"kind"` // text | html | binary | png | json | empty-ish
	Len      int    `json:"len"`
	Chunk    int    `json:"chunk,omitempty"`    // >0: short reads of that size
	Declared string `json:"declared,omitempty"` // ContentType() of the source, "" = none
	// Renamed: the source is runtime.NamedReader(Name, <a named source called Renamed>): the part must
	// carry Name, the name the caller gave last
	Renamed string `json:"renamedFrom,omitempty"`
	// Seekable: the source also implements io.Seeker; Offset: it holds Offset other bytes in front of the
	// content and is handed over positioned after them (a file the caller has partly read). What the
	// reader has to offer, and so what must be sent and sniffed, is the content only.
	Seekable bool `json:"seekable,omitempty"`
	Offset   int  `json:"offset,omitempty"`
	// Fails: once FailAt bytes of the content have been delivered, every Read of the source returns an
	// error that is not io.EOF (FailWithData: the first time together with the last bytes it delivers).
	// A request with such a source cannot hold "every file with its full content": it must fail.
	Fails        bool `json:"fails,omitempty"`
	FailAt       int  `json:"failAt,omitempty"`
	FailWithData bool `json:"failWithData,omitempty"`
	// Source: what is handed to SetFileParam. "" = the harness's own types (above); "os-file" = a real
	// *os.File (a file called Name in a scratch directory, holding Offset other bytes and then the content,
	// positioned at Offset); "named-bytes-reader" = runtime.NamedReader(Name, *bytes.Reader) and
	// "named-plain-reader" = runtime.NamedReader(Name, <a value with a Read method only>).
	// "struct-os-file" = a comparable struct VALUE around a real *os.File (the idiom of the library's own test for an
	// upload that declares its type): with Declared it has a ContentType method, without it has none.
	Source string `json:"source,omitempty"`
	// Early: the params writer had listed this very value already in an earlier SetFileParam call for its field
	// (a decorating writer that reads GetFileParam and sets the field again with more files; attachments added one
	// by one with the growing list). The file belongs to the final set like any other.
	Early bool `json:"setEarlier,omitempty"`
}

// structValued: what is handed to SetFileParam for the file is a (comparable) struct value, not a pointer.
func (fs *FileSpec) structValued() bool {
	switch {
	case fs.Source == "struct-os-file":
		return true
	case fs.Source != "":
		return false
	case fs.Declared != "":
		return true
	case fs.Renamed != "":
		return false
	}
	return fs.Seekable
}

var errUploadSource = errors.New("c11: the upload source failed")

// a harness source behaves like a file: once it is closed there is nothing to read from it any more
var errClosedSource = errors.New("c11: read of an upload source that has been closed")

func (fs *FileSpec) failing() bool { return fs.Fails && fs.FailAt < fs.Len }

// Case is one client request.
type Case struct {
	Method    string              `json:"method"`
	MediaType string              `json:"mediaType"`
	Payload   string              `json:"payload"` // none | value | reader | readcloser
	ValueKind string              `json:"valueKind,omitempty"`
	BodyLen   int                 `json:"bodyLen,omitempty"`
	Fields    map[string][]string `json:"fields,omitempty"`
	Files     []FileSpec          `json:"files,omitempty"`
	GetBody   int                 `json:"getBody"` // -1: no auth writer

	// PresetCT: the params writer also sets a Content-Type header parameter of its own.
	PresetCT string `json:"presetContentType,omitempty"`
	// Consumes is the shape of ClientOperation.ConsumesMediaTypes around the media type T meant to be chosen
	// (T = Variant when set, else MediaType): "" = [T]; "empty-first" = ["", T]; "none" = nil and
	// "all-empty" = ["", ""] (then Runtime.DefaultMediaType is set to T); "then-other" = [T, Other];
	// "empty-then-two" = ["", T, Other].
	Consumes string `json:"consumesShape,omitempty"`
	Other    string `json:"otherMediaType,omitempty"`
	// Variant: another spelling of MediaType (parameters, case) under which the caller registers
	// MediaType's producer; it is what the operation offers.
	Variant string `json:"mediaTypeVariant,omitempty"`
	// BodyChunk > 0: a reader/readcloser payload delivers at most that many bytes per Read; BodyEOF: its last
	// bytes come together with io.EOF.
	BodyChunk int  `json:"bodyChunk,omitempty"`
	BodyEOF   bool `json:"bodyEOF,omitempty"`
	// Debug: Runtime.Debug is on (the request is dumped, body included, before it is sent).
	Debug bool `json:"debug,omitempty"`
	// Prior are other requests submitted on the same Runtime before this one (each with a transport of its
	// own). They are not judged here; what is sent for this case must not depend on them.
	Prior []Case `json:"prior,omitempty"`
	// AuthDefault: the authentication writer is installed as Runtime.DefaultAuthentication (the signer of a whole
	// transport) instead of ClientOperation.AuthInfo.
	AuthDefault bool `json:"authDefault,omitempty"`
	// AuthReads: the authentication writer also reads the request's other views (GetMethod, GetPath, GetBodyParam,
	// GetFileParam), before and after its GetBody calls; what they say must agree with what is sent.
	AuthReads bool `json:"authReads,omitempty"`
	// PathValue: when not empty the path pattern is /things/{id} and the params writer sets id to this value.
	PathValue string `json:"pathValue,omitempty"`
	// BodyCloseErr: the Close of a readcloser payload returns an error. Such a request may fail; when it is
	// reported as sent, what is sent is judged like any other.
	BodyCloseErr bool `json:"bodyCloseErr,omitempty"`
	// Producer: "" = when this request is made, the producer the Runtime came with is the one registered for
	// MediaType; otherwise the caller has put a producer of its own there (Producers[MediaType] = p) before this
	// request: p writes the line "<<Producer>>" and then what the standard producer writes (the JSON producer for a
	// media type the Runtime comes without). The registration is made anew for every request of a sequence (Prior),
	// so that the producer registered for a media type can change between two requests on one Runtime.
	Producer string `json:"producer,omitempty"`
	// VariantNotKey: the Variant spelling is what the operation offers, and it is NOT a key of Producers: the
	// producer is registered under MediaType only.
	VariantNotKey bool `json:"variantNotRegistered,omitempty"`
	// VariantProducer: the Variant spelling is a key of Producers with a producer OF ITS OWN (Producers[Variant] = p,
	// p writing the line "<<VariantProducer>>" first), next to the one registered under MediaType, the key's bare
	// lower-case form (two revisions of a vendor format told apart by a parameter; a charset-specific producer). The
	// operation offers the Variant spelling: the producer registered under the very spelling that is chosen, and that
	// the Content-Type then names, is the one whose encoding is owed. Ignored with VariantNotKey.
	VariantProducer string `json:"variantProducer,omitempty"`
	// Replaced: files that the params writer lists in a first SetFileParam call for their field (after the Early
	// files of Files for that field) and not in the second, final one (which lists the field's files of Files). They
	// are not part of the request: they must not be sent, and they are closed. Ignored for a field without final files.
	Replaced []FileSpec `json:"replacedFiles,omitempty"`
}

// callerProducer is a producer that the caller registers in place of the one the Runtime came with.
type callerProducer struct {
	tag   string
	inner rt.Producer
}

func (p callerProducer) Produce(w io.Writer, v interface{}) error {
	if _, err := io.WriteString(w, "<<"+p.tag+">>\n"); err != nil {
		return err
	}
	return p.inner.Produce(w, v)
}

// fileValue and typedFileValue are comparable struct values around an open file.
type fileValue struct{ rt.NamedReadCloser }

type typedFileValue struct {
	rt.NamedReadCloser
	contentType string
}

func (t typedFileValue) ContentType() string { return t.contentType }

// ownVariantProducer: the variant spelling offered is a key of Producers that has a producer of its own.
func (c *Case) ownVariantProducer() bool {
	return c.Variant != "" && !c.VariantNotKey && c.VariantProducer != ""
}

// owedKey is the key of Producers whose producer has to encode a value sent under the spelling meant to be chosen:
// the spelling itself when the caller registered a producer of its own under it, else the media type it spells.
func (c *Case) owedKey() string {
	if c.ownVariantProducer() {
		return c.Variant
	}
	return c.MediaType
}

func (c *Case) twoSteps() bool {
	if len(c.Replaced) > 0 {
		return true
	}
	for i := range c.Files {
		if c.Files[i].Early {
			return true
		}
	}
	return false
}

var errPayloadClose = errors.New("c11: the payload's Close failed")

type errCloser struct{ io.Reader }

func (errCloser) Close() error { return errPayloadClose }

// authView is what the request says about itself to an authentication writer, apart from the body bytes.
type authView struct {
	method, path string
	bodyParam    interface{}
	files        map[string][]string // field -> Name() of every source, in order
}

func content(kind string, n int) []byte {
	var pat []byte
	switch kind {
	case "html":
		pat = []byte("<html><body><p>hello</p></body></html>\n")
	case "binary":
		pat = []byte{0x00, 0x01, 0xff, 0xfe, 0x10, 0x80, 0x7f, 0x00}
	case "png":
		pat = []byte("\x89PNG\r\n\x1a\n\x00\x00\x00\rIHDR\x00\x00")
	case "json":
		pat = []byte(`{"a":[1,2,3],"b":"text"} `)
	case "ws-then-html":
		pat = []byte("   \n\t<!DOCTYPE html><title>x</title>")
	default:
		pat = []byte("The quick brown fox jumps over the lazy dog. ")
	}
	out := make([]byte, n)
	for i := range out {
		out[i] = pat[i%len(pat)]
	}
	return out
}

type upload struct {
	spec   FileSpec
	data   []byte // what the source has to offer from where it is handed over: what must be sent
	all    []byte // the whole underlying "file": Offset other bytes, then data
	pos    int    // read position in all
	closed int32
}

func newUpload(fs FileSpec) *upload {
	u := &upload{spec: fs, data: content(fs.Kind, fs.Len)}
	u.all = u.data
	if fs.Seekable && fs.Offset > 0 {
		pre := "png" // bytes of another nature than the content, so that sniffing them gives another type
		if fs.Kind == "png" || fs.Kind == "binary" {
			pre = "html"
		}
		u.all = append(content(pre, fs.Offset), u.data...)
		u.pos = fs.Offset
	}
	return u
}

func (u *upload) Name() string { return u.spec.Name }
func (u *upload) Read(p []byte) (int, error) {
	if atomic.LoadInt32(&u.closed) > 0 {
		return 0, errClosedSource
	}
	if u.pos >= len(u.all) {
		return 0, io.EOF
	}
	n := len(u.all) - u.pos
	if n > len(p) {
		n = len(p)
	}
	if u.spec.Chunk > 0 && n > u.spec.Chunk {
		n = u.spec.Chunk
	}
	failNow := false
	if u.spec.failing() {
		left := (len(u.all) - len(u.data)) + u.spec.FailAt - u.pos
		if left <= 0 {
			return 0, errUploadSource
		}
		if n >= left {
			n, failNow = left, u.spec.FailWithData
		}
	}
	copy(p, u.all[u.pos:u.pos+n])
	u.pos += n
	if failNow {
		return n, errUploadSource
	}
	return n, nil
}
func (u *upload) Close() error { atomic.AddInt32(&u.closed, 1); return nil }

// seekUpload is an upload that can also seek, over the whole underlying file.
type seekUpload struct{ *upload }

func (s seekUpload) Seek(off int64, whence int) (int64, error) {
	var base int64
	switch whence {
	case io.SeekStart:
	case io.SeekCurrent:
		base = int64(s.pos)
	case io.SeekEnd:
		base = int64(len(s.all))
	default:
		return 0, fmt.Errorf("bad whence %d", whence)
	}
	if base+off < 0 {
		return 0, fmt.Errorf("negative position")
	}
	s.pos = int(base + off)
	return base + off, nil
}

type typedUpload struct{ *upload }

func (t typedUpload) ContentType() string { return t.spec.Declared }

type onlyReader struct{ r io.Reader }

func (o onlyReader) Read(p []byte) (int, error) { return o.r.Read(p) }

// chunkReader delivers data in short reads and, if asked, its last bytes together with io.EOF.
type chunkReader struct {
	data        []byte
	pos, chunk  int
	eofWithData bool
}

func (c *chunkReader) Read(p []byte) (int, error) {
	if c.pos >= len(c.data) {
		return 0, io.EOF
	}
	n := len(c.data) - c.pos
	if n > len(p) {
		n = len(p)
	}
	if c.chunk > 0 && n > c.chunk {
		n = c.chunk
	}
	copy(p, c.data[c.pos:c.pos+n])
	c.pos += n
	if c.eofWithData && c.pos >= len(c.data) {
		return n, io.EOF
	}
	return n, nil
}

type discardLogger struct{}

func (discardLogger) Printf(string, ...interface{}) {}
func (discardLogger) Debugf(string, ...interface{}) {}

type capture struct {
	header  http.Header
	body    []byte
	hadBody bool
	err     error
	method  string
	path    string // URL.Path: the path sent, decoded
	// what a real transport goes by besides the bytes it can read
	contentLength int64
	lengthKnown   bool // the declared length binds the transport (it is not "unknown")
	hasGetBody    bool
	again         []byte // what Request.GetBody gives (used to send the body once more)
	againErr      error
}

func (c *capture) RoundTrip(r *http.Request) (*http.Response, error) {
	c.header = r.Header.Clone()
	c.method = r.Method
	c.path = r.URL.Path
	c.contentLength = r.ContentLength
	// net/http: for an outgoing request, 0 with a non-nil Body (other than NoBody) means unknown, as does -1
	c.lengthKnown = r.ContentLength > 0 || (r.ContentLength == 0 && (r.Body == nil || r.Body == http.NoBody))
	if r.Body != nil {
		c.hadBody = true
		c.body, c.err = io.ReadAll(r.Body)
		r.Body.Close()
	}
	if r.GetBody != nil {
		c.hasGetBody = true
		rc, err := r.GetBody()
		if err != nil {
			c.againErr = err
		} else {
			c.again, c.againErr = io.ReadAll(rc)
			rc.Close()
		}
	}
	return &http.Response{StatusCode: 200, Status: "200 OK", Proto: "HTTP/1.1", ProtoMajor: 1, ProtoMinor: 1,
		Header: http.Header{"Content-Type": {"application/json"}}, Body: io.NopCloser(strings.NewReader(`{}`)), Request: r}, nil
}

type xmlDoc struct {
	XMLName struct{} `xml:"doc" json:"-" yaml:"-"`
	A       string   `xml:"a" json:"a" yaml:"a"`
	N       int      `xml:"n" json:"n" yaml:"n"`
}

func valueFor(kind string, n int) interface{} {
	s := string(content("text", n))
	switch kind {
	case "map":
		return map[string]interface{}{"k": s, "n": n, "html": "<b>&</b>"}
	case "struct":
		return xmlDoc{A: s, N: n}
	case "string":
		return s
	case "bytes":
		return content("binary", n)
	case "records":
		return [][]string{{"a", "b"}, {s, "x,y"}, {"q\"uote", "new\nline"}}
	case "unencodable": // no JSON and no XML encoding exists for it
		return map[string]interface{}{"k": s, "c": make(chan int)}
	// pointers, as a hand-written params writer hands its Body field over: pointing at a value, and nil ("typed nil":
	// the interface is not nil, the pointer in it is). The producer decides what such a value is written as.
	case "*struct":
		return &xmlDoc{A: s, N: n}
	case "*string":
		return &s
	case "*map":
		return &map[string]interface{}{"k": s, "n": n}
	case "nil-*struct":
		return (*xmlDoc)(nil)
	case "nil-*string":
		return (*string)(nil)
	case "nil-*map":
		return (*map[string]interface{})(nil)
	case "nil-*bytes":
		return (*[]byte)(nil)
	case "nil-*records":
		return (*[][]string)(nil)
	}
	return s
}

// pointerKinds: the pointer-typed payload values, for every media type that has a producer. What each producer
// writes for them (or that it refuses them) is asked of the producer itself, on a plain buffer.
var pointerKinds = []string{"*struct", "*string", "*map", "nil-*struct", "nil-*string", "nil-*map", "nil-*bytes", "nil-*records"}

func typedNilKind(kind string) bool { return strings.HasPrefix(kind, "nil-") }

func isPointerKind(kind string) bool {
	for _, k := range pointerKinds {
		if k == kind {
			return true
		}
	}
	return false
}

var producerKinds = map[string][]string{
	"application/json":         {"map", "struct", "string"},
	"application/xml":          {"struct"},
	"application/x-yaml":       {"map", "struct", "string"},
	"text/plain":               {"string", "bytes"},
	"text/html":                {"string"},
	"text/csv":                 {"records"},
	"application/octet-stream": {"string", "bytes"},
	vendorType:                 {"map", "struct", "string"},
}

// vendorType is a media type the Runtime comes without a producer for: the caller registers one.
const vendorType = "application/vnd.acme+json"

// chosen is the media type the operation means to be chosen, as offered.
func (c *Case) chosen() string {
	if c.Variant != "" {
		return c.Variant
	}
	return c.MediaType
}

// consumes gives the ConsumesMediaTypes list of the operation and whether the Runtime's default media type
// has to stand in for an empty offer.
func (c *Case) consumes() (list []string, viaDefault bool) {
	t := c.chosen()
	switch c.Consumes {
	case "empty-first":
		return []string{"", t}, false
	case "none":
		return nil, true
	case "all-empty":
		return []string{"", ""}, true
	case "then-other":
		return []string{t, c.Other}, false
	case "empty-then-two":
		return []string{"", t, c.Other}, false
	}
	return []string{t}, false
}

// sameMediaType: two Content-Type values that say the same thing (type compared without case, same parameters).
func sameMediaType(a, b string) bool {
	if a == b {
		return true
	}
	ta, pa, ea := mime.ParseMediaType(a)
	tb, pb, eb := mime.ParseMediaType(b)
	if ea != nil || eb != nil || ta != tb || len(pa) != len(pb) {
		return false
	}
	for k, v := range pa {
		if pb[k] != v {
			return false
		}
	}
	return true
}

// labelled finds which of the offered media types the Content-Type names; base is the registered type whose
// producer (or form encoding) then has to have made the body. The comparison is the exact one for plain
// offers; a form type is recognised whatever parameters follow it, a variant spelling by its meaning.
func (c *Case) labelled(ct string) (base string, first, ok bool) {
	hasForm := len(c.Fields) > 0 || len(c.Files) > 0
	match := func(offer string) bool {
		if ct == offer {
			return true
		}
		if hasForm {
			t1, _, e1 := mime.ParseMediaType(ct)
			t2, _, e2 := mime.ParseMediaType(offer)
			return e1 == nil && e2 == nil && t1 == t2
		}
		return c.Variant != "" && offer == c.Variant && sameMediaType(ct, offer)
	}
	if match(c.chosen()) {
		return c.MediaType, true, true
	}
	if (c.Consumes == "then-other" || c.Consumes == "empty-then-two") && c.Other != "" && match(c.Other) {
		return c.Other, false, true
	}
	return "", false, false
}

// verdict is a refuting observation: the signature (failure kind / input feature) and what was seen.
type verdict struct{ sig, detail string }

// runCase executes and judges a case. When it is refuted, the decorations of the case (method, preset
// Content-Type, offer shape, variant spelling, short reads, debug mode, seekable sources) that the refutation
// does not need are taken away one by one, so that the witness is minimal and the signature names only the
// input features that matter.
func runCase(m *mon.M, c *Case) {
	m.Eval(1)
	m.NT(c.fingerprint())
	v := evalCase(c, m.Class)
	if v == nil {
		if m.WantSample() {
			m.Sample(c)
		}
		return
	}
	min := *c
	for _, strip := range strippers {
		try := min
		try.Files = append([]FileSpec(nil), min.Files...)
		if !strip(&try) {
			continue
		}
		if v2 := evalCase(&try, func(string) {}); v2 != nil && v2.sig == v.sig {
			min, v = try, v2
		}
	}
	m.Violate(v.sig+min.decorations(), v.detail, &min)
}

// strippers each take one decoration away; they report whether there was anything to take.
var strippers = []func(*Case) bool{
	func(c *Case) bool { had := len(c.Prior) > 0; c.Prior = nil; return had },
	func(c *Case) bool {
		had := false
		for i := range c.Files {
			had = had || c.Files[i].Source != ""
			c.Files[i].Source = ""
		}
		return had
	},
	func(c *Case) bool { had := c.Debug; c.Debug = false; return had },
	func(c *Case) bool { had := c.AuthDefault; c.AuthDefault = false; return had },
	func(c *Case) bool { had := c.AuthReads; c.AuthReads = false; return had },
	func(c *Case) bool { had := c.PathValue != ""; c.PathValue = ""; return had },
	func(c *Case) bool { had := c.BodyCloseErr; c.BodyCloseErr = false; return had },
	func(c *Case) bool { had := c.BodyChunk > 0 || c.BodyEOF; c.BodyChunk, c.BodyEOF = 0, false; return had },
	func(c *Case) bool { had := c.Consumes != ""; c.Consumes, c.Other = "", ""; return had },
	func(c *Case) bool { had := c.VariantNotKey; c.VariantNotKey = false; return had },
	func(c *Case) bool { had := c.ownVariantProducer(); c.VariantProducer = ""; return had },
	func(c *Case) bool {
		had := c.Variant != ""
		c.Variant, c.VariantNotKey, c.VariantProducer = "", false, ""
		return had
	},
	func(c *Case) bool { had := c.Producer != ""; c.Producer = ""; return had },
	func(c *Case) bool {
		had := c.twoSteps()
		c.Replaced = nil
		for i := range c.Files {
			c.Files[i].Early = false
		}
		return had
	},
	func(c *Case) bool { had := c.PresetCT != ""; c.PresetCT = ""; return had },
	func(c *Case) bool {
		switch c.Method {
		case "POST", "PUT", "PATCH", "":
			return false
		}
		c.Method = "POST"
		return true
	},
	func(c *Case) bool {
		had := false
		for i := range c.Files {
			had = had || c.Files[i].Seekable
			c.Files[i].Seekable, c.Files[i].Offset = false, 0
		}
		return had
	},
}

func evalCase(c *Case, class func(string)) *verdict {
	r := client.New("example.invalid", "/api", []string{"http"})
	// the producers as registered, kept aside for the expectation
	producers := map[string]rt.Producer{}
	for k, v := range r.Producers {
		producers[k] = v
	}
	defaultMT := r.DefaultMediaType
	// the Runtime takes its transport once (first Submit): one transport for its life, which hands every
	// request to the capture of the case being submitted
	sw := &switchTransport{}
	r.Transport = sw
	for i := range c.Prior {
		p := c.Prior[i]
		p.Prior = nil
		mon.Catch(func() { submitOn(r, sw, producers, defaultMT, &p, func(string) {}) })
	}
	if len(c.Prior) > 0 {
		class(fmt.Sprintf("runtime-reused/after-%d-other-requests", len(c.Prior)))
	}
	return submitOn(r, sw, producers, defaultMT, c, class)
}

type switchTransport struct{ to *capture }

// replacedSource is a file that an earlier SetFileParam call listed and the final one does not.
type replacedSource struct {
	spec FileSpec
	read *upload
	file *os.File
}

func (rp *replacedSource) isClosed() bool {
	if rp.file != nil {
		_, err := rp.file.Seek(0, io.SeekCurrent)
		return errors.Is(err, os.ErrClosed)
	}
	return atomic.LoadInt32(&rp.read.closed) > 0
}

func (s *switchTransport) RoundTrip(r *http.Request) (*http.Response, error) {
	return s.to.RoundTrip(r)
}

// submitOn submits one case on the given Runtime, configured for it, with a transport of its own, and
// judges what that transport was given.
func submitOn(r *client.Runtime, sw *switchTransport, standard map[string]rt.Producer, defaultMT string, c *Case, class func(string)) *verdict {
	cap := &capture{}
	sw.to = cap
	// the caller's registrations for this request, made on the Runtime's own map: the standard producers, the
	// caller's own producer for MediaType if it has one, the variant spelling as a further key unless it is not one.
	// producers is what is registered when the request is made, kept aside for the expectation.
	producers := map[string]rt.Producer{}
	for k := range r.Producers {
		if _, ok := standard[k]; !ok {
			delete(r.Producers, k)
		}
	}
	for k, v := range standard {
		r.Producers[k], producers[k] = v, v
	}
	if c.Producer != "" {
		inner := standard[c.MediaType]
		if inner == nil {
			inner = rt.JSONProducer()
		}
		p := callerProducer{tag: c.Producer, inner: inner}
		r.Producers[c.MediaType], producers[c.MediaType] = p, p
		class("producer-registered-by-the-caller")
	}
	if c.Variant != "" && !c.VariantNotKey {
		r.Producers[c.Variant] = producers[c.MediaType]
	}
	if c.ownVariantProducer() {
		inner := standard[c.MediaType]
		if inner == nil {
			inner = rt.JSONProducer()
		}
		p := callerProducer{tag: c.VariantProducer, inner: inner}
		r.Producers[c.Variant], producers[c.Variant] = p, p
		class("media-type-variant/a-key-of-Producers-with-a-producer-of-its-own")
	}
	if c.Variant != "" && c.VariantNotKey {
		class("media-type-variant/not-a-key-of-Producers")
	}
	consumes, viaDefault := c.consumes()
	r.DefaultMediaType = defaultMT
	if viaDefault {
		r.DefaultMediaType = c.chosen()
	}
	r.DefaultAuthentication = nil
	r.Debug = false
	if c.Debug {
		r.SetLogger(discardLogger{})
		r.Debug = true
	}
	scratch := ""
	defer func() {
		if scratch != "" {
			os.RemoveAll(scratch)
		}
	}()
	var uploads []*upload
	var stream []byte
	var sawBodies [][]byte
	var sawViews []authView
	var payloadObj interface{} // the very object handed to SetBodyParam
	var scratchErr error       // a failure of the harness's own scratch files: nothing of the library's
	var replaced []replacedSource
	defer func() {
		for _, rp := range replaced { // whatever the library did with them, nothing stays open
			if rp.file != nil {
				rp.file.Close()
			}
		}
	}()
	pattern := "/things"
	if c.PathValue != "" {
		pattern = "/things/{id}"
	}
	params := rt.ClientRequestWriterFunc(func(req rt.ClientRequest, _ strfmt.Registry) error {
		if c.PresetCT != "" {
			_ = req.SetHeaderParam("Content-Type", c.PresetCT)
		}
		if c.PathValue != "" {
			_ = req.SetPathParam("id", c.PathValue)
		}
		setBody := func(v interface{}) { payloadObj = v; _ = req.SetBodyParam(v) }
		switch c.Payload {
		case "value":
			setBody(valueFor(c.ValueKind, c.BodyLen))
		case "reader":
			stream = content("json", c.BodyLen)
			if c.BodyChunk > 0 || c.BodyEOF {
				setBody(&chunkReader{data: append([]byte(nil), stream...), chunk: c.BodyChunk, eofWithData: c.BodyEOF})
			} else {
				setBody(onlyReader{bytes.NewReader(append([]byte(nil), stream...))})
			}
		case "readcloser":
			stream = content("binary", c.BodyLen)
			var src io.Reader = bytes.NewReader(append([]byte(nil), stream...))
			if c.BodyChunk > 0 || c.BodyEOF {
				src = &chunkReader{data: append([]byte(nil), stream...), chunk: c.BodyChunk, eofWithData: c.BodyEOF}
			}
			if c.BodyCloseErr {
				setBody(errCloser{src})
			} else {
				setBody(io.NopCloser(src))
			}
		case "bytes.Buffer": // a caller-owned buffer: the same concrete type the request uses internally
			stream = content("json", c.BodyLen)
			setBody(bytes.NewBuffer(append([]byte(nil), stream...)))
		case "bytes.Reader":
			stream = content("binary", c.BodyLen)
			setBody(bytes.NewReader(append([]byte(nil), stream...)))
		case "strings.Reader":
			stream = content("text", c.BodyLen)
			setBody(strings.NewReader(string(stream)))
		}
		for k, v := range c.Fields {
			// the request gets slices of its own: the expectation is c.Fields, which it cannot reach
			_ = req.SetFormParam(k, append([]string(nil), v...)...)
		}
		byField := map[string][]rt.NamedReadCloser{}
		first := map[string][]rt.NamedReadCloser{} // what an earlier SetFileParam call for the field lists
		var order []string
		var made []rt.NamedReadCloser
		nsrc := 0
		// source makes what is handed to SetFileParam for a file; read is the upload the bytes are read from, file
		// the real file of an os-file source
		source := func(fs FileSpec) (src rt.NamedReadCloser, read *upload, file *os.File, err error) {
			u := newUpload(fs)
			nsrc++
			if fs.Source != "" {
				class(fmt.Sprintf("upload-source/%s/at-offset=%v", fs.Source, fs.Offset > 0))
			}
			switch {
			case fs.Source == "os-file" || fs.Source == "struct-os-file":
				f, err := scratchFile(&scratch, nsrc, fs.Name, u.all, u.pos)
				if err != nil {
					return nil, nil, nil, err
				}
				switch {
				case fs.Source == "os-file":
					return f, u, f, nil
				case fs.Declared != "":
					return typedFileValue{f, fs.Declared}, u, f, nil
				}
				return fileValue{f}, u, f, nil
			case fs.Source == "named-bytes-reader":
				return rt.NamedReader(fs.Name, bytes.NewReader(append([]byte(nil), u.data...))), u, nil, nil
			case fs.Source == "named-plain-reader":
				return rt.NamedReader(fs.Name, onlyReader{bytes.NewReader(append([]byte(nil), u.data...))}), u, nil, nil
			case fs.Declared != "":
				return typedUpload{u}, u, nil, nil
			case fs.Renamed != "":
				inner := *u
				inner.spec.Name = fs.Renamed
				return rt.NamedReader(fs.Name, &inner), &inner, nil, nil // the bytes are read from the inner source
			case fs.Seekable:
				return seekUpload{u}, u, nil, nil
			}
			return u, u, nil, nil
		}
		giveUp := func(err error) error {
			// the harness could not make its own scratch file (full or refusing file system): the request is
			// abandoned and nothing is judged
			scratchErr = err
			for _, src := range made {
				src.Close()
			}
			return fmt.Errorf("c11 harness: scratch file: %w", err)
		}
		for _, fs := range c.Files {
			src, u, _, err := source(fs)
			if err != nil {
				return giveUp(err)
			}
			made = append(made, src)
			uploads = append(uploads, u)
			if _, ok := byField[fs.Field]; !ok {
				order = append(order, fs.Field)
			}
			byField[fs.Field] = append(byField[fs.Field], src)
			if fs.Early {
				first[fs.Field] = append(first[fs.Field], src)
			}
		}
		for _, fs := range c.Replaced {
			if _, ok := byField[fs.Field]; !ok {
				continue
			}
			src, u, f, err := source(fs)
			if err != nil {
				return giveUp(err)
			}
			made = append(made, src)
			replaced = append(replaced, replacedSource{spec: fs, read: u, file: f})
			first[fs.Field] = append(first[fs.Field], src)
		}
		for _, f := range order {
			if len(first[f]) > 0 {
				_ = req.SetFileParam(f, first[f]...)
				class("files-of-a-field-set-twice")
			}
			_ = req.SetFileParam(f, byField[f]...)
		}
		return nil
	})
	var auth rt.ClientAuthInfoWriter
	if c.GetBody >= 0 {
		view := func(req rt.ClientRequest) {
			if !c.AuthReads {
				return
			}
			v := authView{method: req.GetMethod(), path: req.GetPath(), bodyParam: req.GetBodyParam(), files: map[string][]string{}}
			for field, l := range req.GetFileParam() {
				for _, src := range l {
					v.files[field] = append(v.files[field], src.Name())
				}
			}
			sawViews = append(sawViews, v)
		}
		auth = rt.ClientAuthInfoWriterFunc(func(req rt.ClientRequest, _ strfmt.Registry) error {
			view(req)
			for i := 0; i < c.GetBody; i++ {
				b := req.GetBody()
				sawBodies = append(sawBodies, append([]byte(nil), b...))
			}
			view(req)
			return req.SetHeaderParam("X-Signed", fmt.Sprint(c.GetBody))
		})
	}
	op := &rt.ClientOperation{ID: "x", Method: c.Method, PathPattern: pattern, ConsumesMediaTypes: consumes, ProducesMediaTypes: []string{"application/json"},
		Params: params, AuthInfo: auth, Reader: rt.ClientResponseReaderFunc(func(rt.ClientResponse, rt.Consumer) (interface{}, error) { return nil, nil })}
	if c.AuthDefault && auth != nil {
		op.AuthInfo = nil
		r.DefaultAuthentication = auth
		class("auth-writer/as-default-authentication")
	}
	var subErr error
	pv, st := mon.Catch(func() { _, subErr = r.Submit(op) })
	feat := c.baseFeature()
	if scratchErr != nil {
		scratchFailed(class, scratchErr)
		return nil
	}
	if pv != nil {
		return &verdict{"panic/" + feat, fmt.Sprintf("%v\n%s", pv, st)}
	}
	if where := c.failingUpload(); where != "" {
		// a file whose reader fails cannot be sent "with its full content": the request has to fail, at Submit
		// or in the hands of the transport that reads the body
		if subErr != nil || cap.err != nil {
			class("failing-upload/request-fails/" + where)
			return nil
		}
		v := judgeMultipart(func(string) {}, c, cap, cap.header.Get("Content-Type"), uploads, feat)
		if v == nil {
			class("failing-upload/document-complete-all-the-same")
			return nil
		}
		return &verdict{"failed-upload-sent-as-complete/" + where, fmt.Sprintf("Submit succeeded and the transport read a body of %d bytes to its end without error, although an upload source failed; the document: %s: %s", len(cap.body), v.sig, v.detail)}
	}
	if c.Payload == "value" && (c.ValueKind == "unencodable" || isPointerKind(c.ValueKind)) && len(c.Fields) == 0 && len(c.Files) == 0 {
		// a value for which the media type's producer has no encoding cannot be sent as "the producer's encoding
		// of the value": the request has to fail
		tag := "unencodable-value"
		if c.ValueKind != "unencodable" {
			tag = "pointer-value/" + c.ValueKind
		}
		var refusal error
		prod := producers[c.owedKey()]
		if prod != nil {
			if ppv, _ := mon.Catch(func() { refusal = prod.Produce(&bytes.Buffer{}, valueFor(c.ValueKind, c.BodyLen)) }); ppv != nil {
				// the producer itself panics for the value, on a plain buffer: nothing of the transport's (C15 judges producers)
				class(tag + "/producer-panics-on-a-plain-buffer(not judged)")
				return nil
			}
		}
		if prod != nil && refusal != nil {
			if subErr != nil || cap.err != nil {
				class(tag + "/request-fails")
				return nil
			}
			return &verdict{"unencodable-value-sent/" + feat, fmt.Sprintf("Submit succeeded and the transport read a body of %d bytes %.60q under Content-Type %q, although the producer refuses the value (%v) ; %s", len(cap.body), cap.body, cap.header.Get("Content-Type"), refusal, c.describe())}
		}
		if c.ValueKind == "unencodable" {
			tag += "/producer-accepts-it-after-all"
		} else {
			tag += "/producer-accepts-it"
		}
		class(tag)
	}
	if c.BodyCloseErr && c.Payload == "readcloser" && (subErr != nil || cap.err != nil) {
		// the payload's own Close failed: the request may be given up; nothing was reported as sent
		class("payload-close-error/request-fails")
		return nil
	}
	if subErr != nil {
		return &verdict{"submit-failed/" + feat, fmt.Sprintf("Submit failed: %v ; %s", subErr, c.describe())}
	}
	if cap.err != nil {
		return &verdict{"body-read-error/" + feat, fmt.Sprintf("the transport could not read the body: %v ; %s", cap.err, c.describe())}
	}
	if c.BodyCloseErr && c.Payload == "readcloser" {
		class("payload-close-error/request-sent")
	}
	// what a transport goes by: a binding declared length is the number of bytes there are to send, and the
	// means to send the body once more gives the same bytes
	if cap.lengthKnown && cap.contentLength != int64(len(cap.body)) {
		return &verdict{"content-length-differs/" + feat, fmt.Sprintf("Request.ContentLength %d, the body holds %d bytes ; %s", cap.contentLength, len(cap.body), c.describe())}
	}
	if cap.hasGetBody && (cap.againErr != nil || !bytes.Equal(cap.again, cap.body)) {
		return &verdict{"request-getbody-differs/" + feat, fmt.Sprintf("Request.GetBody gives %d bytes %.60q (err %v), the body sent holds %d bytes %.60q ; %s", len(cap.again), cap.again, cap.againErr, len(cap.body), cap.body, c.describe())}
	}
	if cap.lengthKnown {
		class("content-length/known")
	} else {
		class("content-length/unknown")
	}
	ct := cap.header.Get("Content-Type")
	if n := len(cap.header.Values("Content-Type")); n > 1 {
		return &verdict{"several-content-types/" + feat, fmt.Sprintf("%d Content-Type header values %q ; %s", n, cap.header.Values("Content-Type"), c.describe())}
	}
	// an authentication writer that was installed did its work on the request that is sent
	if c.GetBody >= 0 {
		if got := cap.header.Values("X-Signed"); len(got) != 1 || got[0] != fmt.Sprint(c.GetBody) || len(sawBodies) != c.GetBody {
			return &verdict{"auth-writer-did-not-run/" + feat, fmt.Sprintf("the request sent carries X-Signed %q, the authentication writer sets %q; it made %d of its %d GetBody calls ; %s", got, fmt.Sprint(c.GetBody), len(sawBodies), c.GetBody, c.describe())}
		}
	}
	// what auth saw is what is sent
	for i, b := range sawBodies {
		if !bytes.Equal(b, cap.body) {
			return &verdict{fmt.Sprintf("getbody-differs-from-sent/%s", feat), fmt.Sprintf("GetBody call #%d returned %d bytes %.60q, sent %d bytes %.60q ; %s", i+1, len(b), b, len(cap.body), cap.body, c.describe())}
		}
	}
	if v := c.judgeViews(sawViews, cap, payloadObj, feat); v != nil {
		return v
	}
	if len(sawViews) > 0 {
		class("auth-views-agree-with-what-is-sent")
	}
	// the files that the params writer has replaced by setting their field again are not part of the request: nobody
	// but the request, which was given them, can close them
	for _, rp := range replaced {
		if !rp.isClosed() {
			kind := "pointer-valued"
			if rp.spec.structValued() {
				kind = "struct-valued"
			}
			return &verdict{"replaced-file-not-closed/" + kind, fmt.Sprintf("the file %q of field %q, listed by the first SetFileParam call and not by the second, is still open after the request was sent ; %s", rp.spec.Name, rp.spec.Field, c.describe())}
		}
	}
	if len(replaced) > 0 {
		class("replaced-files-closed")
	}
	hasForm := len(c.Fields) > 0 || len(c.Files) > 0
	base, first, offered := c.labelled(ct)
	noteFirst := func() {
		if !first {
			class("chosen/a-later-offered-type(which one: not judged)")
		} else if c.Consumes != "" || c.Variant != "" {
			class("chosen/first-non-empty:" + c.Consumes + ":variant=" + fmt.Sprint(c.Variant != ""))
		}
	}
	switch {
	case hasForm && (len(c.Files) > 0 || (offered && base == "multipart/form-data")):
		return judgeMultipart(class, c, cap, ct, uploads, feat)
	case hasForm:
		if !offered || base != "application/x-www-form-urlencoded" {
			return &verdict{"content-type-does-not-describe-body/" + feat, fmt.Sprintf("form fields sent under Content-Type %q (offered %q) ; %s", ct, consumes, c.describe())}
		}
		got, err := url.ParseQuery(string(cap.body))
		if err != nil || !sameValues(got, c.Fields) {
			return &verdict{"form-encoding-differs/" + feat, fmt.Sprintf("sent %q, fields %v ; %s", cap.body, c.Fields, c.describe())}
		}
		if !sameValuesInOrder(got, c.Fields) {
			return &verdict{"form-value-order-differs/" + feat, fmt.Sprintf("sent %q: the values of a field come in another order than they were set in, fields %v ; %s", cap.body, c.Fields, c.describe())}
		}
		noteFirst()
		class("urlencoded-ok")
	case c.Payload == "value":
		if !offered {
			if producers[c.MediaType] == nil {
				class("no-producer")
				return nil
			}
			return &verdict{"content-type-does-not-describe-body/" + feat, fmt.Sprintf("value sent under Content-Type %q, offered %q ; %s", ct, consumes, c.describe())}
		}
		var want bytes.Buffer
		prod := producers[base]
		if first {
			// the spelling meant to be chosen is the one named: the producer registered under that very spelling, when
			// the caller registered one, else the one of the media type it spells
			prod = producers[c.owedKey()]
		}
		if prod == nil {
			class("no-producer")
			return nil
		}
		if err := prod.Produce(&want, valueFor(c.ValueKind, c.BodyLen)); err != nil {
			class("producer-refuses-value")
			return nil
		}
		if !bytes.Equal(want.Bytes(), cap.body) {
			return &verdict{"value-encoding-differs/" + feat, fmt.Sprintf("sent %d bytes %.80q under Content-Type %q, its producer writes %d bytes %.80q ; %s", len(cap.body), cap.body, ct, want.Len(), want.Bytes(), c.describe())}
		}
		noteFirst()
		class("value-ok")
	case c.Payload == "reader" || c.Payload == "readcloser" || c.Payload == "bytes.Buffer" || c.Payload == "bytes.Reader" || c.Payload == "strings.Reader":
		if !bytes.Equal(stream, cap.body) {
			return &verdict{"stream-bytes-differ/" + feat, fmt.Sprintf("sent %d bytes, the reader held %d ; %s", len(cap.body), len(stream), c.describe())}
		}
		if !offered {
			return &verdict{"content-type-does-not-describe-body/" + feat, fmt.Sprintf("stream sent under Content-Type %q, offered %q ; %s", ct, consumes, c.describe())}
		}
		noteFirst()
		class("stream-ok")
	default:
		if len(cap.body) != 0 {
			return &verdict{"body-without-payload/" + feat, fmt.Sprintf("%d body bytes sent without any payload", len(cap.body))}
		}
		// nothing was sent: a Content-Type would describe a body that is not there (no case of this branch presets one)
		if ct != "" && c.PresetCT == "" {
			return &verdict{"content-type-without-body/" + feat, fmt.Sprintf("Content-Type %q on a request without payload and without body ; %s", ct, c.describe())}
		}
		class("no-payload-ok")
	}
	return nil
}

// judgeViews: what the request said about itself to the authentication writer (method, path, body parameter,
// upload sources), each time it was asked, agrees with what was handed over and with what is sent.
func (c *Case) judgeViews(views []authView, cap *capture, payloadObj interface{}, feat string) *verdict {
	for i, v := range views {
		when := []string{"before", "after"}[i%2] + " its GetBody calls"
		if v.method != cap.method {
			return &verdict{"auth-saw-other-method-than-sent/" + feat, fmt.Sprintf("GetMethod gave %q %s, the request sent has method %q ; %s", v.method, when, cap.method, c.describe())}
		}
		// the path the writer is shown is the pattern with the values as the caller gave them; the path sent is the
		// base path followed by it, percent-escaped: decoded, it must read the same
		if "/api"+v.path != cap.path {
			return &verdict{"auth-saw-other-path-than-sent/" + feat, fmt.Sprintf("GetPath gave %q %s, the request sent has the path %q (decoded; base path /api) ; %s", v.path, when, cap.path, c.describe())}
		}
		switch {
		case c.Payload == "value" && c.ValueKind != "unencodable":
			if want := valueFor(c.ValueKind, c.BodyLen); !reflect.DeepEqual(v.bodyParam, want) {
				return &verdict{"auth-saw-other-body-param/" + feat, fmt.Sprintf("GetBodyParam gave %.80v (%T) %s, the body parameter set is %.80v (%T) ; %s", v.bodyParam, v.bodyParam, when, want, want, c.describe())}
			}
		case c.Payload == "none" || c.Payload == "":
			if v.bodyParam != nil {
				return &verdict{"auth-saw-other-body-param/" + feat, fmt.Sprintf("GetBodyParam gave a %T %s, no body parameter was set ; %s", v.bodyParam, when, c.describe())}
			}
		default: // a stream, or a value without encoding: the very object that was handed over
			if !sameObject(v.bodyParam, payloadObj) {
				return &verdict{"auth-saw-other-body-param/" + feat, fmt.Sprintf("GetBodyParam gave a %T %s that is not the %T handed to SetBodyParam ; %s", v.bodyParam, when, payloadObj, c.describe())}
			}
		}
		want := map[string][]string{}
		for _, fs := range c.Files {
			want[fs.Field] = append(want[fs.Field], filepath.Base(fs.Name))
		}
		got := map[string][]string{}
		for field, names := range v.files {
			for _, n := range names {
				got[field] = append(got[field], filepath.Base(n))
			}
		}
		if !sameValues(got, want) || !sameValuesInOrder(got, want) {
			return &verdict{"auth-saw-other-files/" + feat, fmt.Sprintf("GetFileParam gave the sources (field -> base names) %q %s, handed over and sent were %q ; %s", got, when, want, c.describe())}
		}
	}
	return nil
}

// sameObject: two interface values holding the same pointer, or equal values of one comparable type.
func sameObject(a, b interface{}) (same bool) {
	defer func() {
		if recover() != nil { // values of a type that cannot be compared
			same = reflect.DeepEqual(a, b)
		}
	}()
	return a == b
}

var scratchFailures int

// scratchFile makes the real file of an os-file source: a file called name in a directory of its own under the
// case's scratch directory, holding all, positioned at pos. It tries twice (a fresh scratch directory the second time).
func scratchFile(scratch *string, n int, name string, all []byte, pos int) (f *os.File, err error) {
	for attempt := 0; attempt < 2; attempt++ {
		if *scratch == "" {
			if *scratch, err = os.MkdirTemp("", "c11-upload-"); err != nil {
				*scratch = ""
				continue
			}
		}
		path := filepath.Join(*scratch, fmt.Sprintf("%d.%d", n, attempt), name)
		if err = os.MkdirAll(filepath.Dir(path), 0o700); err != nil {
			continue
		}
		if f, err = os.Create(path); err != nil {
			continue
		}
		if _, err = f.Write(all); err == nil {
			_, err = f.Seek(int64(pos), io.SeekStart)
		}
		if err == nil {
			return f, nil
		}
		f.Close()
	}
	return nil, err
}

// scratchFailed counts a case that was given up because the harness could not make a scratch file. It says
// nothing about the property. A worker that keeps meeting it observes nothing useful any more: it stops in the
// way the driver reports as INCONCLUSIVE (a worker that died of a machine resource).
func scratchFailed(class func(string), err error) {
	class("env:harness-scratch-file-failed(not judged)")
	scratchFailures++
	if scratchFailures >= 25 {
		panic(fmt.Sprintf("c11: the machine refuses the harness's scratch files (no space left on device, or the like): %d failures, last: %v", scratchFailures, err))
	}
}

func judgeMultipart(class func(string), c *Case, cap *capture, ct string, uploads []*upload, feat string) *verdict {
	mt, params, err := mime.ParseMediaType(ct)
	if err != nil || params["boundary"] == "" {
		return &verdict{"multipart-content-type-unusable/" + feat, fmt.Sprintf("Content-Type %q ; %s", ct, c.describe())}
	}
	mr := multipart.NewReader(bytes.NewReader(cap.body), params["boundary"])
	type part struct {
		field, file, ctype string
		data               []byte
	}
	var parts []part
	for {
		p, err := mr.NextRawPart()
		if err == io.EOF {
			break
		}
		if err != nil {
			return &verdict{"multipart-unparsable/" + feat, fmt.Sprintf("%v ; body %.120q ; %s", err, cap.body, c.describe())}
		}
		b, _ := io.ReadAll(p)
		// FileName() applies filepath.Base itself; read the raw parameter instead
		_, dp, _ := mime.ParseMediaType(p.Header.Get("Content-Disposition"))
		parts = append(parts, part{field: p.FormName(), file: dp["filename"], ctype: p.Header.Get("Content-Type"), data: b})
	}
	// fields
	gotFields := map[string][]string{}
	var fileParts []part
	for _, p := range parts {
		if _, isFile := hasFilename(p.field, p.file, cap.body); isFile || p.file != "" {
			fileParts = append(fileParts, p)
			continue
		}
		gotFields[p.field] = append(gotFields[p.field], string(p.data))
	}
	if !sameValues(gotFields, c.Fields) {
		return &verdict{"multipart-fields-differ/" + feat, fmt.Sprintf("sent fields %v, set %v ; %s", gotFields, c.Fields, c.describe())}
	}
	if !sameValuesInOrder(gotFields, c.Fields) {
		return &verdict{"multipart-field-value-order-differs/" + feat, fmt.Sprintf("sent fields %v: the values of a field come in another order than they were set in, %v ; %s", gotFields, c.Fields, c.describe())}
	}
	if len(fileParts) != len(c.Files) {
		return &verdict{"multipart-file-count/" + feat, fmt.Sprintf("%d file parts sent, %d files set ; %s", len(fileParts), len(c.Files), c.describe())}
	}
	used := make([]bool, len(fileParts))
	partOf := make([]int, len(c.Files))
	for i, fs := range c.Files {
		data := uploads[i].data
		idx := -1
		for j, p := range fileParts {
			if !used[j] && p.field == fs.Field && bytes.Equal(p.data, data) && p.file == filepath.Base(fs.Name) {
				idx = j
				break
			}
		}
		if idx < 0 {
			var seen []string
			for _, p := range fileParts {
				seen = append(seen, fmt.Sprintf("{field=%q file=%q len=%d}", p.field, p.file, len(p.data)))
			}
			return &verdict{"multipart-file-missing-or-altered/" + feat, fmt.Sprintf("file field=%q name=%q (base %q) len=%d not found among parts %v ; %s", fs.Field, fs.Name, filepath.Base(fs.Name), len(data), seen, c.describe())}
		}
		used[idx] = true
		partOf[i] = idx
		want := fs.Declared
		if want == "" {
			w := data
			if len(w) > 512 {
				w = w[:512]
			}
			want = http.DetectContentType(w)
		}
		if fileParts[idx].ctype != want {
			lc := "len>=512"
			if len(data) < 512 {
				lc = "len<512"
			}
			if fs.Chunk > 0 {
				lc += "+short-reads"
			}
			if fs.Declared != "" {
				lc = "declared"
			}
			return &verdict{"file-part-content-type/" + lc, fmt.Sprintf("part Content-Type %q, expected %q for %s content of %d bytes ; %s", fileParts[idx].ctype, want, fs.Kind, len(data), c.describe())}
		}
	}
	// the files of one field are a list: their parts come in the order in which they were handed over
	for i := range c.Files {
		for j := i + 1; j < len(c.Files); j++ {
			if c.Files[i].Field == c.Files[j].Field && partOf[i] > partOf[j] {
				return &verdict{"multipart-file-order-differs/" + feat, fmt.Sprintf("field %q: file #%d (%q, %d bytes) was handed over before file #%d (%q, %d bytes) and is sent after it (parts %d and %d) ; %s",
					c.Files[i].Field, i, c.Files[i].Name, c.Files[i].Len, j, c.Files[j].Name, c.Files[j].Len, partOf[i], partOf[j], c.describe())}
			}
		}
	}
	if mt != "multipart/form-data" {
		// the recorded mislabelling is the one of files sent for the chosen type application/x-www-form-urlencoded,
		// labelled with that type; a multipart document mislabelled in any other situation names the chosen type too
		sig := "content-type-does-not-describe-body/multipart-labelled-" + mt
		if !(c.MediaType == "application/x-www-form-urlencoded" && mt == c.MediaType && len(c.Files) > 0) {
			sig += "/chosen-" + c.MediaType
		}
		return &verdict{sig, fmt.Sprintf("a multipart document was sent under Content-Type %q ; %s", ct, c.describe())}
	}
	class("multipart-ok")
	return nil
}

func hasFilename(field, file string, _ []byte) (string, bool) { return file, file != "" }

func sameValues(a, b map[string][]string) bool {
	norm := func(m map[string][]string) string {
		var ks []string
		for k, v := range m {
			if len(v) == 0 {
				continue
			}
			vs := append([]string(nil), v...)
			sort.Strings(vs)
			ks = append(ks, fmt.Sprintf("%q=%q", k, vs))
		}
		sort.Strings(ks)
		return strings.Join(ks, "&")
	}
	return norm(a) == norm(b)
}

// failingUpload says whether a file of the case fails while it is read, and where the first such file
// fails: inside the window read for sniffing, after it, or in a file that declares its type.
func (c *Case) failingUpload() string {
	for i, fs := range c.Files {
		if !fs.failing() {
			continue
		}
		w := "after-the-sniffing-window"
		switch {
		case fs.Declared != "":
			w = "file-with-declared-type"
		case fs.FailAt < 512:
			w = "within-the-sniffing-window"
		}
		if i < len(c.Files)-1 {
			w += "+files-after-it"
		}
		return w
	}
	return ""
}

// sameValuesInOrder: every field has the same values in the same order (fields without values do not count).
func sameValuesInOrder(a, b map[string][]string) bool {
	for k, v := range a {
		if len(v) == 0 {
			continue
		}
		w := b[k]
		if len(w) != len(v) {
			return false
		}
		for i := range v {
			if v[i] != w[i] {
				return false
			}
		}
	}
	for k, w := range b {
		if len(w) > 0 && len(a[k]) != len(w) {
			return false
		}
	}
	return true
}

func (c *Case) baseFeature() string {
	f := c.Payload
	if c.Payload == "value" && typedNilKind(c.ValueKind) {
		f = "value-typed-nil-pointer"
	}
	if len(c.Files) > 0 {
		f = "files"
		if len(c.Fields) > 0 {
			f = "files+fields"
		}
	} else if len(c.Fields) > 0 {
		f = "fields"
	}
	g := "no-auth"
	if c.GetBody >= 0 {
		g = fmt.Sprintf("getbody-%d", c.GetBody)
	}
	return f + "/" + c.MediaType + "/" + g
}

// decorations names the further input features of a case, for the shapes that have them only.
func (c *Case) decorations() string {
	f := ""
	switch c.Method {
	case "POST", "PUT", "PATCH", "":
	default:
		f += "/method-" + c.Method
	}
	if c.PresetCT != "" {
		f += "/content-type-preset-by-params"
	}
	if c.Variant != "" {
		f += "/media-type-variant"
	}
	if c.Consumes != "" {
		f += "/consumes-" + c.Consumes
	}
	if c.BodyChunk > 0 || c.BodyEOF {
		f += "/short-reads"
	}
	if c.Debug {
		f += "/debug"
	}
	if c.AuthDefault && c.GetBody >= 0 {
		f += "/default-authentication"
	}
	if c.PathValue != "" {
		f += "/path-parameter"
	}
	if c.BodyCloseErr {
		f += "/payload-close-fails"
	}
	for _, fs := range c.Files {
		if fs.Source != "" {
			f += "/" + fs.Source + "-source"
			break
		}
	}
	if c.Variant != "" && c.VariantNotKey {
		f += "/variant-not-a-key-of-producers"
	}
	if c.ownVariantProducer() {
		f += "/variant-key-with-a-producer-of-its-own"
	}
	if c.Producer != "" {
		f += "/producer-registered-by-the-caller"
	}
	if c.twoSteps() {
		kept := ""
		for i := range c.Files {
			if c.Files[i].Early && c.Files[i].structValued() {
				kept = "/keeping-a-struct-valued-file"
				break
			} else if c.Files[i].Early {
				kept = "/keeping-a-pointer-valued-file"
			}
		}
		f += "/files-of-a-field-set-twice" + kept
	}
	if len(c.Prior) > 0 {
		f += "/after-other-requests-on-the-runtime"
	}
	for _, fs := range c.Files {
		if fs.Seekable {
			if fs.Offset > 0 {
				f += "/seekable-source-at-offset"
			} else {
				f += "/seekable-source"
			}
			break
		}
	}
	return f
}

func (c *Case) fingerprint() string {
	b, _ := json.Marshal(c)
	return string(b)
}

func (c *Case) describe() string {
	b, _ := json.Marshal(c)
	if len(b) > 500 {
		b = b[:500]
	}
	return "case " + string(b)
}

// ---------- generation ----------

var hostileNames = []string{"a.txt", "dir/sub/b.bin", `q"uote.txt`, `back\slash.txt`, "é.txt", "sp ace.html", "noext", `C:\x\y.png`, `a\\b.txt`, `copy\(1).txt`, `trailing\`, `q"and\back.txt`, `\`}
var fieldNames = []string{"file", "f2", `we"ird`, "a b"}
var fileKinds = []string{"text", "html", "binary", "png", "json", "ws-then-html"}

func genFiles(r *rand.Rand, n int, lenPick func() int) []FileSpec {
	var out []FileSpec
	for i := 0; i < n; i++ {
		fs := FileSpec{Field: fieldNames[r.Intn(2)], Name: hostileNames[r.Intn(len(hostileNames))], Kind: fileKinds[r.Intn(len(fileKinds))], Len: lenPick()}
		if r.Intn(4) == 0 {
			fs.Field = fieldNames[r.Intn(len(fieldNames))]
		}
		switch r.Intn(5) {
		case 0:
			fs.Chunk = 1
		case 1:
			fs.Chunk = 100
		}
		switch r.Intn(8) {
		case 0, 1:
			// declared types are sent as declared, however they are spelled
			fs.Declared = []string{"image/png", "text/x-custom; charset=utf-8", "application/pdf", "text/plain;charset=utf-8", "IMAGE/PNG", `text/x-q; b=2; a="1"`, "application/vnd.x+json;  v=1"}[r.Intn(7)]
		case 2:
			fs.Renamed = []string{"tmp-123.bin", "upload.tmp", "other/inner.txt"}[r.Intn(3)]
		case 3, 4:
			// a source that can seek, most of the time handed over somewhere past its start
			fs.Seekable = true
			fs.Offset = []int{0, 1, 16, 300, 512, 600}[r.Intn(6)]
		case 5:
			// what generated clients hand over: a real *os.File, at its start or partly read; or a plain
			// reader given a name
			switch r.Intn(5) {
			case 0, 1:
				fs.Source = "os-file"
				fs.Seekable = true
				fs.Offset = []int{0, 0, 1, 300, 512, 600}[r.Intn(6)]
			case 4:
				// a struct value around the open file, with or without a declared type
				fs.Source = "struct-os-file"
				fs.Seekable = true
				fs.Offset = []int{0, 0, 300}[r.Intn(3)]
				if r.Intn(2) == 0 {
					fs.Declared = []string{"text/csv", "image/png", "application/vnd.x+json;  v=1"}[r.Intn(3)]
				}
			case 2:
				fs.Source = "named-bytes-reader"
			default:
				fs.Source = "named-plain-reader"
			}
			fs.Chunk = 0
		}
		out = append(out, fs)
	}
	return out
}

func genFields(r *rand.Rand) map[string][]string {
	out := map[string][]string{}
	n := 1 + r.Intn(3)
	vals := []string{"v", "", "a b&c=d", "é", "line\nbreak", "x\"y", strings.Repeat("long", 300), " pad ", "B", "b"}
	for i := 0; i < n; i++ {
		k := []string{"name", "tag", "a b", "k&=", "é"}[r.Intn(5)]
		nv := 1 + r.Intn(3)
		var vs []string
		for j := 0; j < nv; j++ {
			vs = append(vs, vals[r.Intn(len(vals))])
		}
		out[k] = vs
	}
	return out
}

// A typed-nil pointer body parameter with the media type text/csv made Runtime.Submit panic (CSVProducer called
// reflect.Indirect(...).Type() on the zero Value; signature panic/value-typed-nil-pointer/text/csv/<auth>): repaired in
// the library by 44c3a57 (the producer refuses a nil pointer source), witness /tmp/alarms4/C11-csv-producer-typed-nil-source.json.
// Nothing is kept out of the generator: the switch stays for the next shape that needs triage.
const triagePendingCSVTypedNil = false

func triagePending(c *Case) bool {
	return triagePendingCSVTypedNil && c.Payload == "value" && c.MediaType == "text/csv" && typedNilKind(c.ValueKind)
}

func run(m *mon.M) {
	r := m.Rand("c11")
	getBodies := []int{-1, 0, 1, 3}
	// (1) every file length around the sniffing window, one file
	maxLen := 520
	for l := 0; l <= maxLen; l++ {
		if (l%m.NShards) != m.Shard && !(m.Quick() && false) {
			continue
		}
		for _, kind := range fileKinds {
			if m.Quick() && r.Intn(3) != 0 {
				continue
			}
			for _, chunk := range []int{0, 1, 200} {
				if m.Quick() && chunk == 1 && l > 64 && r.Intn(4) != 0 {
					continue
				}
				c := &Case{Method: "POST", MediaType: "multipart/form-data", Payload: "none", GetBody: getBodies[r.Intn(4)],
					Files: []FileSpec{{Field: "file", Name: hostileNames[r.Intn(len(hostileNames))], Kind: kind, Len: l, Chunk: chunk}}}
				if chunk == 0 && r.Intn(4) == 0 {
					c.Files[0].Seekable, c.Files[0].Offset = true, []int{16, 512, 700}[r.Intn(3)]
				}
				decorateAuth(r, c)
				m.Begin(c)
				runCase(m, c)
			}
		}
	}
	// (2) random mixes
	n := m.N(700, 15000)
	lens := func() int {
		switch r.Intn(6) {
		case 0:
			return r.Intn(8)
		case 1:
			return 505 + r.Intn(16)
		case 2:
			return 70000
		default:
			return r.Intn(2000)
		}
	}
	for i := 0; i < n; i++ {
		c := genMix(r, lens)
		if r.Intn(6) == 0 {
			// two or three consecutive requests on one Runtime: the last one is the one judged
			for k, np := 0, 1+r.Intn(2); k < np; k++ {
				c.Prior = append(c.Prior, *genMix(r, lens))
			}
		}
		if triagePending(c) {
			m.Class("triage-pending/shape-not-run")
			continue
		}
		m.Begin(c)
		runCase(m, c)
	}
	// (3) upload sources that fail while they are read, before, at and after the end of the sniffing window,
	// alone, first, in the middle and last among the files of the request
	for _, c := range genFailing(r, m.N(40, 400)) {
		m.Begin(c)
		runCase(m, c)
	}
	// (4) pointer-typed body parameters, nil ones included, for every media type that has a producer, with and
	// without an authentication writer that asks for the body
	k := 0
	for _, mt := range mixTypes[:7] {
		for _, kind := range pointerKinds {
			for _, gb := range getBodies {
				if k++; k%m.NShards != m.Shard {
					continue
				}
				c := &Case{Method: []string{"POST", "PUT", "PATCH"}[k%3], MediaType: mt, Payload: "value", ValueKind: kind, BodyLen: []int{0, 5, 700}[(k/3)%3], GetBody: gb}
				if triagePending(c) {
					m.Class("triage-pending/shape-not-run")
					continue
				}
				m.Begin(c)
				runCase(m, c)
			}
		}
	}
	// (5) the producer registered for a media type is replaced between the requests made on one Runtime, the media
	// type being offered as registered or in a variant spelling that is, or is not, a key of Producers
	for i, n := 0, m.N(60, 600); i < n; i++ {
		c := genProducerHistory(r)
		m.Begin(c)
		runCase(m, c)
	}
	// (6) params writers that set the files of a field twice, the second call listing some of the same values again:
	// pointer-valued and struct-valued sources, kept and replaced
	for i, n := 0, m.N(60, 600); i < n; i++ {
		c := &Case{Method: "POST", MediaType: "multipart/form-data", Payload: "none", GetBody: getBodies[r.Intn(4)]}
		c.Files = genFiles(r, 1+r.Intn(3), func() int { return []int{0, 3, 400, 512, 900, 3000, 40000}[r.Intn(7)] })
		if r.Intn(2) == 0 {
			for j := range c.Files {
				c.Files[j].Field = c.Files[0].Field
			}
		}
		if r.Intn(3) == 0 {
			c.Fields = genFields(r)
		}
		setTwice(r, c)
		decorateAuth(r, c)
		m.Begin(c)
		runCase(m, c)
	}
	// (7) every variant spelling as a key of Producers with a producer of its own next to the one registered under the
	// key's bare form (the standard one, or one of the caller's), offered in every shape of the consumes list, with and
	// without an authentication writer that asks for the body
	k = 0
	var variantTypes []string
	for mt := range variantsOf {
		variantTypes = append(variantTypes, mt)
	}
	sort.Strings(variantTypes)
	for _, mt := range variantTypes {
		for _, variant := range variantsOf[mt] {
			for _, shape := range append([]string{""}, shapes...) {
				for _, gb := range getBodies {
					if k++; k%m.NShards != m.Shard {
						continue
					}
					if m.Quick() && shape != "" && r.Intn(2) == 0 {
						continue
					}
					ks := producerKinds[mt]
					c := &Case{Method: []string{"POST", "PUT", "PATCH"}[k%3], MediaType: mt, Payload: "value", ValueKind: ks[r.Intn(len(ks))], BodyLen: []int{0, 5, 700}[(k/3)%3], GetBody: gb,
						Variant: variant, VariantProducer: variantProducers[k%2], Consumes: shape}
					if shape == "then-other" || shape == "empty-then-two" {
						c.Other = "text/html"
					}
					if mt == vendorType || r.Intn(3) == 0 {
						c.Producer = callerProducers[r.Intn(len(callerProducers))]
					}
					decorateAuth(r, c)
					m.Begin(c)
					runCase(m, c)
				}
			}
		}
	}
}

var mixTypes = []string{"application/json", "application/xml", "application/x-yaml", "text/plain", "text/html", "text/csv", "application/octet-stream", "multipart/form-data", "application/x-www-form-urlencoded"}

var failPoints = []int{0, 1, 100, 511, 512, 513, 600, 700, 1024, 2999, 4096, 33000}

func genFailing(r *rand.Rand, n int) []*Case {
	var out []*Case
	getBodies := []int{-1, -1, 0, 1, 3}
	for i := 0; i < n; i++ {
		c := &Case{Method: []string{"POST", "PUT", "PATCH"}[r.Intn(3)], MediaType: "multipart/form-data", Payload: "none", GetBody: getBodies[r.Intn(len(getBodies))]}
		lens := func() int { return []int{0, 3, 400, 512, 900, 3000, 40000}[r.Intn(7)] }
		nBefore, nAfter := r.Intn(2), r.Intn(3)
		if i%3 == 0 {
			nBefore, nAfter = 0, 1+r.Intn(2)
		}
		c.Files = genFiles(r, nBefore+1+nAfter, lens)
		for j := range c.Files { // the healthy ones are plain harness sources
			c.Files[j].Source = ""
		}
		f := &c.Files[nBefore]
		f.Renamed, f.Source = "", ""
		f.FailAt = failPoints[r.Intn(len(failPoints))]
		f.Len = f.FailAt + []int{1, 2, 300, 2500}[r.Intn(4)]
		f.Fails = true
		f.FailWithData = r.Intn(3) == 0
		if r.Intn(2) == 0 { // the files after it under the same field
			for j := nBefore + 1; j < len(c.Files); j++ {
				c.Files[j].Field = f.Field
			}
		}
		if r.Intn(3) == 0 {
			c.Fields = genFields(r)
		}
		if r.Intn(10) == 0 {
			c.Debug = true
		}
		if c.GetBody >= 0 && r.Intn(4) == 0 {
			c.AuthDefault = true
		}
		out = append(out, c)
	}
	return out
}

func genMix(r *rand.Rand, lens func() int) *Case {
	mts := mixTypes
	getBodies := []int{-1, 0, 1, 3}
	{
		c := &Case{Method: []string{"POST", "PUT", "PATCH", "POST"}[r.Intn(4)], GetBody: getBodies[r.Intn(4)]}
		switch r.Intn(11) {
		case 10:
			c.MediaType = mts[r.Intn(7)]
			c.Payload = []string{"bytes.Buffer", "bytes.Reader", "strings.Reader"}[r.Intn(3)]
			c.BodyLen = lens()
		case 0, 1, 2: // value
			c.MediaType = mts[r.Intn(7)]
			c.Payload = "value"
			ks := producerKinds[c.MediaType]
			c.ValueKind = ks[r.Intn(len(ks))]
			c.BodyLen = lens()
			if (c.MediaType == "application/json" || c.MediaType == "application/xml") && r.Intn(8) == 0 {
				c.ValueKind = "unencodable"
			}
			if r.Intn(6) == 0 {
				c.ValueKind = pointerKinds[r.Intn(len(pointerKinds))]
			}
		case 3:
			c.MediaType = mts[r.Intn(7)]
			c.Payload = []string{"reader", "readcloser", "bytes.Buffer", "bytes.Reader", "strings.Reader"}[r.Intn(5)]
			c.BodyLen = lens()
		case 4: // fields only
			c.MediaType = []string{"application/x-www-form-urlencoded", "multipart/form-data"}[r.Intn(2)]
			c.Payload = "none"
			c.Fields = genFields(r)
		case 5, 6: // files only
			c.MediaType = []string{"multipart/form-data", "multipart/form-data", "application/x-www-form-urlencoded", "application/json"}[r.Intn(4)]
			c.Payload = "none"
			c.Files = genFiles(r, 1+r.Intn(3), lens)
		case 7, 8: // both
			c.MediaType = []string{"multipart/form-data", "multipart/form-data", "application/x-www-form-urlencoded"}[r.Intn(3)]
			c.Payload = "none"
			c.Fields = genFields(r)
			c.Files = genFiles(r, 1+r.Intn(3), lens)
		default:
			c.MediaType = mts[r.Intn(len(mts))]
			c.Payload = "none"
			if r.Intn(2) == 0 {
				c.Method = "GET"
			}
		}
		decorate(r, c)
		return c
	}
}

var (
	otherMethods = []string{"GET", "DELETE", "OPTIONS", "HEAD", "QUERY", "GET"}
	presetTypes  = []string{"text/plain", "application/json", "application/x-preset", "application/octet-stream; x=1"}
	variantsOf   = map[string][]string{
		"application/json":         {"application/json; charset=utf-8", "application/json;charset=UTF-8", "Application/JSON"},
		"text/plain":               {"text/plain; charset=utf-8", "TEXT/plain"},
		"application/xml":          {"application/xml; charset=utf-8"},
		"application/octet-stream": {"application/octet-stream; type=x"},
		vendorType:                 {vendorType + "; version=1", "Application/vnd.ACME+json", vendorType + "; version=2"},
	}
	callerProducers = []string{"envelope-1", "envelope-2"}
	// what the caller's producers registered under a variant spelling (a key with parameters or capitals) mark
	variantProducers = []string{"revision-2", "revision-3"}
	shapes          = []string{"empty-first", "none", "all-empty", "then-other", "empty-then-two"}
)

// decorate varies what surrounds the payload: the method, a Content-Type preset by the params writer, the
// shape of the list of offered media types, a variant spelling, short reads of a reader payload, debug mode.
func decorate(r *rand.Rand, c *Case) {
	hasForm := len(c.Fields) > 0 || len(c.Files) > 0
	streamy := c.Payload == "reader" || c.Payload == "readcloser"
	if r.Intn(4) == 0 && (c.Payload != "none" || hasForm) {
		c.Method = otherMethods[r.Intn(len(otherMethods))]
	}
	if r.Intn(5) == 0 && (c.Payload != "none" || hasForm) {
		c.PresetCT = presetTypes[r.Intn(len(presetTypes))]
	}
	if !hasForm && c.Payload != "none" && r.Intn(8) == 0 {
		if vs := variantsOf[c.MediaType]; len(vs) > 0 {
			c.Variant = vs[r.Intn(len(vs))]
			c.VariantNotKey = r.Intn(2) == 0
			if !c.VariantNotKey && c.Payload == "value" && r.Intn(2) == 0 {
				c.VariantProducer = variantProducers[r.Intn(len(variantProducers))]
			}
		}
	}
	if !hasForm && c.Payload == "value" && r.Intn(8) == 0 {
		c.Producer = callerProducers[r.Intn(len(callerProducers))]
	}
	if len(c.Files) > 0 && r.Intn(5) == 0 {
		setTwice(r, c)
	}
	if r.Intn(4) == 0 {
		c.Consumes = shapes[r.Intn(len(shapes))]
		if c.Consumes == "then-other" || c.Consumes == "empty-then-two" {
			c.Other = []string{"application/json", "text/plain", "application/xml", "application/octet-stream", "multipart/form-data", "application/x-www-form-urlencoded"}[r.Intn(6)]
			if c.Other == c.MediaType {
				c.Other = "text/html"
			}
		}
	}
	if streamy && r.Intn(3) == 0 {
		c.BodyChunk = []int{0, 1, 7, 512, 4096}[r.Intn(5)]
		c.BodyEOF = c.BodyChunk == 0 || r.Intn(2) == 0
	}
	if r.Intn(12) == 0 {
		c.Debug = true
	}
	decorateAuth(r, c)
	if c.Payload == "readcloser" && r.Intn(2) == 0 {
		c.BodyCloseErr = true
	}
}

// setTwice makes the params writer set the files of one field in two steps: the first call lists some of the
// field's files (the same values again in the second call) and up to two files that the second call drops.
func setTwice(r *rand.Rand, c *Case) {
	field := c.Files[r.Intn(len(c.Files))].Field
	n := 0
	for i := range c.Files {
		if c.Files[i].Field == field && r.Intn(3) != 0 {
			c.Files[i].Early = true
			n++
		}
	}
	nr := r.Intn(3)
	if n == 0 && nr == 0 {
		nr = 1
	}
	for _, fs := range genFiles(r, nr, func() int { return []int{0, 3, 400, 512, 900, 3000}[r.Intn(6)] }) {
		fs.Field = field
		if fs.Source == "named-bytes-reader" || fs.Source == "named-plain-reader" { // nothing to observe a Close on
			fs.Source = ""
		}
		fs.Renamed = ""
		c.Replaced = append(c.Replaced, fs)
	}
}

// genProducerHistory gives a value request made after one or two others on the same Runtime, all for one media
// type under one spelling (as registered; a variant that is a key of Producers; a variant that is not), the
// producer registered for the media type being another one for each request than for the one before.
func genProducerHistory(r *rand.Rand) *Case {
	mt := []string{"application/json", "application/json", "text/plain", "application/xml", "application/octet-stream", vendorType}[r.Intn(6)]
	c := &Case{Method: []string{"POST", "PUT", "PATCH"}[r.Intn(3)], MediaType: mt, Payload: "value"}
	if r.Intn(5) != 0 {
		vs := variantsOf[mt]
		c.Variant = vs[r.Intn(len(vs))]
		c.VariantNotKey = r.Intn(4) != 0
	}
	ownKey := c.Variant != "" && !c.VariantNotKey && r.Intn(2) == 0
	switch r.Intn(6) {
	case 0:
		c.Consumes = "empty-first"
	case 1:
		c.Consumes = []string{"none", "all-empty"}[r.Intn(2)]
	}
	regs := []string{"", callerProducers[0], callerProducers[1]}
	if mt == vendorType {
		regs = regs[1:]
	}
	np := 1 + r.Intn(2)
	seq := make([]string, np+1)
	for i := range seq {
		seq[i] = regs[r.Intn(len(regs))]
		for i > 0 && seq[i] == seq[i-1] {
			seq[i] = regs[r.Intn(len(regs))]
		}
	}
	one := func(reg string) Case {
		q := *c
		q.Producer = reg
		if ownKey && r.Intn(4) != 0 { // the variant key's own producer comes, goes and changes between the requests too
			q.VariantProducer = variantProducers[r.Intn(len(variantProducers))]
		}
		ks := producerKinds[mt]
		q.ValueKind = ks[r.Intn(len(ks))]
		q.BodyLen = []int{0, 5, 40, 700}[r.Intn(4)]
		q.GetBody = []int{-1, 0, 1, 3}[r.Intn(4)]
		decorateAuth(r, &q)
		return q
	}
	last := one(seq[np])
	for _, reg := range seq[:np] {
		last.Prior = append(last.Prior, one(reg))
	}
	return &last
}

var pathValues = []string{"7", "a b", "x/y", "\u00e9", "100%", "q?x=1", "{id}", "..", "a#b", "%2F"}

// decorateAuth varies the authentication writer: installed for the whole transport (Runtime.DefaultAuthentication)
// instead of for the operation, and reading the request's other views; half of the latter on an operation with a
// path parameter.
func decorateAuth(r *rand.Rand, c *Case) {
	if c.GetBody < 0 {
		return
	}
	if r.Intn(4) == 0 {
		c.AuthDefault = true
	}
	if r.Intn(3) == 0 {
		c.AuthReads = true
		if r.Intn(2) == 0 {
			c.PathValue = pathValues[r.Intn(len(pathValues))]
		}
	}
}

func replay(m *mon.M, raw json.RawMessage) {
	var c Case
	if err := json.Unmarshal(raw, &c); err != nil {
		m.Violate("bad-replay-case", err.Error(), nil)
		return
	}
	runCase(m, &c)
}
