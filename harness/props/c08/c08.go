// Package c08 monitors response rendering (Context.Respond and the library responders): status,
// Content-Type, which registered producer wrote the body (tagged producers), HEAD/204, Responder
// hand-over, routing of errors to the API's error responder, and the basic-auth challenge.
package c08

import (
	"context"
	"encoding/base64"
	"encoding/json"
	"fmt"
	"io"
	"math/rand"
	"net/http"
	"net/http/httptest"
	"sort"
	"strings"

	"github.com/go-openapi/errors"
	"github.com/go-openapi/loads"
	"github.com/go-openapi/runtime"
	"github.com/go-openapi/runtime/middleware"
	"github.com/go-openapi/runtime/middleware/header"
	"github.com/go-openapi/runtime/middleware/untyped"
	"github.com/go-openapi/runtime/security"

	"verif/gen"
	"verif/mon"
	"verif/props/c07/accept"
)

func init() {
	mon.Register(&mon.Property{
		ID:    "C08",
		Level: "exploration",
		Rule: "generated Swagger 2.0 APIs (1-4 operations; produces lists of 1-4 types over the 10-type vocabulary of C07 (with type-prefix siblings such as text / texture / textile), entries with and without parameters such as '; charset=utf-8', op-level or global; API default type " +
			"application/json / another type / none; the default listed in produces or not; one declared 2xx code of {200,201,202,204} - or, for a quarter of the operations, several of them (200+204, 200+201+202, ...) - plus non-2xx/default responses, or default-only; methods GET POST PUT DELETE PATCH HEAD; " +
			"basic-auth operations with realm set/unset, optionally an API authorizer that denies chosen requests (errors.Error 403 or a plain error); operations with a required query parameter that a request may omit; half of the POST/PUT/PATCH operations take a JSON body: requests with an admitted body, a non-admitted type (415) or an unparsable Content-Type (400); the basic scheme registered through BasicAuth/BasicAuthRealm or their Ctx flavours, the credential callback refusing with a go-openapi 401, another errors.Error (403, 429) or a plain error; one API in six registers producers under bare media types only and skips api.Validate()) served by the real RoutesHandler over an untyped.API whose every producer is tagged and whose registrations pass api.Validate(); " +
			"requests = Accept headers from C07's grammar generator x handler outcomes {value, nil, custom Responder, a Responder that also implements error (returned as the result), middleware.Error(code<=0|4xx|5xx, data, headers), NotImplemented, errors.Error, plain error, composite error} " +
			"x credentials {none, wrong, malformed, right} x unknown path / wrong method. " +
			"Round 3: a quarter of the requests are served by a gen.GeneratedAPI (a middleware.RoutableAPI running RouteInfo, Authorize, BindValidRequest, handler, Respond) on a context made with middleware.NewRoutableContext; " +
			"one request in 25 is preceded by the application assigning a new function to api.ServeError (contexts and handlers exist by then): from then on only that function is the API's error responder; " +
			"one request in 12 is rendered outside a matched operation: Context.Respond with route nil or with a hand-made MatchedRoute without Operation (1-3 produces entries of the description, value / nil / error data, GET POST DELETE HEAD) and Context.NotFound; " +
			"one API in 8 declares a media type for which no producer is registered (the library's fall-back to the default producer); one default type in 10 is written with parameters; [{key},{basic}] security alternatives; " +
			"round 4: one description in seven declares (and registers producers for) media types spelled with upper-case letters - vendor types, Text/Plain - with and without parameters, next to lower-case types, with (4 in 5) and without an API default producer; two Accept headers in three of such an operation name the offers verbatim in the plain form; " +
			"round 5: three APIs in four keep 1-2 LONG-LIVED library responders (one middleware.Error(code, data, headers) / NotImplemented value built once and returned by the handlers of one request in five, whatever the operation, Accept header or flow, route-less Respond included): every response such a value writes is owed what a responder built for the occasion owes - the body the producer of the type negotiated for THAT request writes; a violation names the earlier uses (first two, last two) as earlier_requests; " +
			"a request for a declared operation that reaches the Builder middleware or the generated handler without a MatchedRoute is a violation. Oracle from the statement; the offers are computed from the DECLARED produces (operation, else spec) plus the API default, the observed MatchedRoute.Produces must be that set and only lends its order. " +
			"non-trivial = request that reached the stage it was meant for; distinct by (entry shape of the negotiated type, Accept flavour, outcome kind, method, declared code, stage)",
		Assumptions: []string{
			"negotiated type = C07's reference selection over the statement's offer list (declared produces without the API default in the order the router holds them, default last); the router's list must hold exactly the declared types plus the default; when header.ParseAccept already fails C07's oracle on the header, the announced Content-Type is taken as negotiated and only the remaining clauses are judged",
			"'the producer registered for that media type (parameters ignored)' = the producer registered under the announced type with its parameters stripped; every registration is tagged and api.Validate() passes (a catalogue operation lists every registered key)",
			"operations with only a 'default' response (no declared success status) are judged for absence of panics only",
			"a Responder result (custom or the library's own) on HEAD or for a 204 operation writes what it wants: body not judged there",
			"404/405 answers: 'the error responder is invoked once with an error of that code and a Content-Type is set, which is a produces entry of the API, its default type or JSON' is judged (the offers are a map-ordered list that cannot be observed)",
			"basic auth: the authenticate callback reports bad credentials with an error; realm unset or \"\" means the library default security.DefaultRealmName; the challenge is parsed as RFC 7235 (scheme Basic, realm as quoted-string or token)",
			"produces entries spelled with upper-case letters (one description in seven: vendor types such as application/vnd.Acme.v2+json, Text/Plain, text/CSV) are declared and registered under that spelling; media types are case-insensitive (RFC 7231 3.1.1.1): 'the producer registered for that media type' is the one registered under the type in whatever letter case (tags are the registration keys in lower case), and the announced Content-Type is the declared entry; their negotiation is judged by C07's mixed-case reading (plain 'range[;q=value]' headers, and only when every (range, offer) pair matches verbatim iff it matches with case ignored), else the announced type is taken as negotiated; the API default stays in lower case and its media type is not declared in another letter case; one media type appears once per produces list whatever the letter case; a direct entry whose negotiation is not judged and for which the library announces no type at all is not judged (nothing acceptable cannot be refuted)",
			"an operation that declares several 2xx codes: its declared success status is the lowest of them (the rule spec.Operation.SuccessResponse documents), for every response alike",
			"a request that is both unacceptable (406) and lacks a required parameter may be refused with either error; a denied authorization is judged like a failed authentication (before the 406 gate)",
			"the API's error responder is the function that api.ServeError holds when the error is served (the field is exported and documented as the hook): after the application has reassigned it, an invocation of an earlier function is a violation",
			"a response rendered without a matched operation (route-less Respond, NotFound) has no declared status: its status is not judged; its offers are the produces handed in (NotFound: the API default alone) without the API default, the default last; a value when nothing is acceptable is not judged there (no 406 gate ran)",
			"a long-lived responder value (middleware.Error / NotImplemented kept by the application and returned for several requests) owes each response what a fresh one owes; when it has written an earlier response and does not call the producer it is handed, the response is judged by its body alone (the statement fixes the body, not how often a long-lived value asks the producer for it); HEAD: a Responder's body is not judged",
			"a negotiated type for which no producer is registered (declared_types_without_producer; api.Validate() would refuse the configuration): who writes the body, or a 'can't find a producer' panic, is not judged; judged: nothing is produced twice, a producer that ran got the handler's value and the body is its output; HEAD/204 and errors as everywhere",
		},
		MinNontrivial: 150,
		Run:           run,
		Replay:        replay,
	})
}

// ---- case ----

// APIDesc is the structural description of a generated API.
type APIDesc struct {
	DefaultProduces string   `json:"default_produces"` // "" = WithoutJSONDefaults
	Global          []string `json:"global_produces,omitempty"`
	Ops             []OpDesc `json:"ops"`
	Realm           *string  `json:"realm,omitempty"`            // nil: security.BasicAuth (library default realm)
	NoOpIDs         bool     `json:"no_operation_ids,omitempty"` // the operations declare no operationId
	Authorizer      bool     `json:"authorizer,omitempty"`       // an API-wide authorizer is registered (it denies the requests that say so)
	// CtxAuth: the basic scheme is registered through security.BasicAuthCtx / BasicAuthRealmCtx (the credential
	// callback hands a context back)
	CtxAuth bool `json:"basic_auth_ctx,omitempty"`
	// BareOnly: producers are registered under the bare media types only (no key with parameters) and
	// api.Validate() is not called (it demands a registration under every spelling the spec uses)
	BareOnly bool `json:"bare_keys_only,omitempty"`
	// Unregistered: bare media types that operations declare in produces but for which NO producer is registered
	// (never the API default; api.Validate() is not called): the statement's "producer registered for that media
	// type" does not exist there
	Unregistered []string `json:"declared_types_without_producer,omitempty"`
}

func (d *APIDesc) unregistered(t string) bool {
	n := strings.ToLower(accept.NormOffer(t))
	for _, u := range d.Unregistered {
		if u == n {
			return true
		}
	}
	return false
}

// OpDesc is one operation at /op<i>.
type OpDesc struct {
	Method   string   `json:"method"`
	Produces []string `json:"produces,omitempty"`
	Codes    []int    `json:"codes,omitempty"` // declared status-code responses
	Default  bool     `json:"default_response,omitempty"`
	Secured  bool     `json:"secured,omitempty"`
	Alt      bool     `json:"alt_key_after_basic,omitempty"`  // secured by [{basic},{key}]: basic is not the last alternative
	KeyFirst bool     `json:"alt_key_before_basic,omitempty"` // with Alt: secured by [{key},{basic}]: basic is not the first alternative
	ReqParam bool     `json:"required_query_param,omitempty"` // declares the required query parameter "need"
	// BodyParam: declares an optional body parameter and consumes application/json (POST, PUT, PATCH operations)
	BodyParam bool `json:"body_param,omitempty"`
}

// twoXX lists the declared 2xx codes in ascending order.
func (o *OpDesc) twoXX() []int {
	var out []int
	for _, c := range o.Codes {
		if c >= 200 && c < 300 {
			out = append(out, c)
		}
	}
	sort.Ints(out)
	return out
}

// Outcome is what the operation handler returns.
type Outcome struct {
	Kind    string              `json:"kind"` // value nil responder lib-error not-implemented api-error plain-error composite-error
	Code    int                 `json:"code,omitempty"`
	Headers map[string][]string `json:"headers,omitempty"`
	Data    string              `json:"data,omitempty"`
	// LongLived (lib-error, not-implemented): the handler does not build a responder for this request; it returns the
	// ONE responder value the application keeps for this outcome (a canned 4xx answer, a stub for operations that are
	// not implemented yet: built with middleware.Error / NotImplemented the first time it is needed, and returned by every
	// handler - of whatever operation of the API - whose request carries the same outcome). What is owed for the
	// response is the same as for a responder built for the occasion.
	LongLived bool `json:"long_lived_responder,omitempty"`
}

// stubKey identifies the long-lived responder of an outcome (everything but the flag).
func (o Outcome) stubKey() string {
	o.LongLived = false
	b, _ := json.Marshal(o)
	return string(b)
}

// ReqDesc is one request.
type ReqDesc struct {
	Op      int     `json:"op"`
	Route   string  `json:"route,omitempty"` // "" routed, "unknown-path", "wrong-method"
	Absent  bool    `json:"accept_absent,omitempty"`
	Accept  []mon.Q `json:"accept"`
	Flavour string  `json:"flavour,omitempty"`
	Auth    string  `json:"auth,omitempty"` // none wrong malformed right
	// Flow: "" the reflective (untyped) operation handler; "generated": the sequence a generated server's operation runs
	// (RouteInfo, Authorize, BindValidRequest, Respond) on the NewContext context; "generated-routable": the same sequence
	// run by a middleware.RoutableAPI (gen.GeneratedAPI) on a context made with middleware.NewRoutableContext, the
	// constructor generated servers use. For the direct entries (Entry != "") the flow only selects the context.
	Flow    string  `json:"flow,omitempty"`
	Outcome Outcome `json:"outcome"`
	// Entry: "" the request goes through the router; otherwise the response is rendered outside a matched operation,
	// the way middleware that is not an operation of the description uses the context: "respond-without-route"
	// Context.Respond(rw, r, Produces, nil, data), "respond-route-without-operation" the same with a hand-made
	// MatchedRoute that carries no Operation, "not-found" Context.NotFound(rw, r)
	Entry string `json:"entry,omitempty"`
	// Method, Produces: the request method and the produces list handed to Respond by a direct entry
	Method   string   `json:"method,omitempty"`
	Produces []string `json:"respond_produces,omitempty"`
	// SwapResponder: just before this request is served (the contexts and handlers exist by then) the application
	// assigns a new function to api.ServeError: from then on THAT function is the API's error responder
	SwapResponder bool `json:"error_responder_replaced,omitempty"`
	// OmitParam: the request leaves out the required query parameter of its operation (if it declares one)
	OmitParam bool `json:"omit_required_param,omitempty"`
	// Deny: the API authorizer (if registered, and reached) refuses this request: "api-error" with an errors.Error 403, "plain-error" with a plain error
	Deny string `json:"authorizer_denies,omitempty"`
	// Refuse: what the basic-auth credential callback refuses wrong credentials with: "" errors.Unauthenticated (a
	// go-openapi 401), "plain" a plain Go error, "wrapped-401" a plain error wrapping a 401, "403" / "429" errors.Error of that code
	// Body: the request carries a body (operations with a body parameter): "admitted" application/json,
	// "non-admitted" text/csv (415 is due), "malformed" an unparsable Content-Type (400 is due)
	Body   string `json:"body,omitempty"`
	Refuse string `json:"callback_refuses_with,omitempty"`
	// AuthCtx: which context the Ctx flavour of the credential callback hands back: "" one derived from the
	// request's with WithValue, "background" context.Background() (refusals only)
	AuthCtx string `json:"callback_context,omitempty"`
}

// Case is one replayable case.
type Case struct {
	API       *APIDesc `json:"api"`
	Req       ReqDesc  `json:"req"`
	WantOrder []string `json:"observed_produces_order,omitempty"`
	// Warm: the requests served by the same handler just before this one (state kept across requests
	// is part of what is judged); a replay serves them first, unjudged.
	Warm []ReqDesc `json:"earlier_requests,omitempty"`
	// Repeat: a replay serves the request up to this many times (each response judged) and stops at the first
	// violation: for failures that depend on a map iteration order inside the library
	Repeat int `json:"repeat,omitempty"`
}

func (r *ReqDesc) lines() []string {
	if r.Absent {
		return nil
	}
	l := mon.SQ(r.Accept)
	if l == nil {
		l = []string{}
	}
	return l
}

func (o *OpDesc) success() (int, bool) {
	best := 0
	for _, c := range o.Codes {
		if c >= 200 && c < 300 && (best == 0 || c < best) {
			best = c
		}
	}
	return best, best != 0
}

// ---- building the API ----

func (d *APIDesc) regKeys() []string {
	set := map[string]bool{}
	add := func(t string) {
		if d.unregistered(t) {
			return // declared, but nobody registers a producer for it
		}
		if !d.BareOnly {
			set[t] = true
		}
		set[accept.NormOffer(t)] = true
	}
	for _, t := range d.Global {
		add(t)
	}
	for _, op := range d.Ops {
		for _, t := range op.Produces {
			add(t)
		}
	}
	if d.DefaultProduces != "" {
		add(d.DefaultProduces)
	}
	var out []string
	for k := range set {
		out = append(out, k)
	}
	sort.Strings(out)
	return out
}

func (d *APIDesc) anySecured() bool {
	for _, op := range d.Ops {
		if op.Secured {
			return true
		}
	}
	return false
}

func (d *APIDesc) anyBody() bool {
	for _, op := range d.Ops {
		if op.BodyParam {
			return true
		}
	}
	return false
}

func (d *APIDesc) anyAlt() bool {
	for _, op := range d.Ops {
		if op.Secured && op.Alt {
			return true
		}
	}
	return false
}

func (d *APIDesc) swagger() []byte {
	paths := map[string]interface{}{}
	for i, op := range d.Ops {
		resp := map[string]interface{}{}
		for _, c := range op.Codes {
			resp[fmt.Sprint(c)] = map[string]interface{}{"description": fmt.Sprintf("r%d", c)}
		}
		if op.Default || len(op.Codes) == 0 {
			resp["default"] = map[string]interface{}{"description": "default"}
		}
		o := map[string]interface{}{"responses": resp}
		if !d.NoOpIDs {
			o["operationId"] = fmt.Sprintf("op%d", i)
		}
		if len(op.Produces) > 0 {
			o["produces"] = op.Produces
		}
		var params []interface{}
		if op.ReqParam {
			params = append(params, map[string]interface{}{"name": "need", "in": "query", "required": true, "type": "string"})
		}
		if op.BodyParam {
			params = append(params, map[string]interface{}{"name": "body", "in": "body", "schema": map[string]interface{}{"type": "object"}})
			o["consumes"] = []string{"application/json"}
		}
		if len(params) > 0 {
			o["parameters"] = params
		}
		if op.Secured {
			o["security"] = []interface{}{map[string]interface{}{"basic": []string{}}}
			if op.Alt {
				o["security"] = []interface{}{map[string]interface{}{"basic": []string{}}, map[string]interface{}{"key": []string{}}}
				if op.KeyFirst {
					o["security"] = []interface{}{map[string]interface{}{"key": []string{}}, map[string]interface{}{"basic": []string{}}}
				}
			}
		}
		paths[fmt.Sprintf("/op%d", i)] = map[string]interface{}{strings.ToLower(op.Method): o}
	}
	// the catalogue operation mentions every registered producer key so that api.Validate() passes
	paths["/catalogue"] = map[string]interface{}{"get": map[string]interface{}{
		"operationId": "catalogue", "produces": d.regKeys(),
		"responses": map[string]interface{}{"200": map[string]interface{}{"description": "ok"}},
	}}
	doc := map[string]interface{}{
		"swagger":  "2.0",
		"info":     map[string]interface{}{"title": "c08", "version": "1"},
		"basePath": "/",
		"paths":    paths,
	}
	if len(d.Global) > 0 {
		doc["produces"] = d.Global
	}
	if d.anySecured() {
		defs := map[string]interface{}{"basic": map[string]interface{}{"type": "basic"}}
		if d.anyAlt() {
			defs["key"] = map[string]interface{}{"type": "apiKey", "name": "X-Key", "in": "header"}
		}
		doc["securityDefinitions"] = defs
	}
	b, _ := json.Marshal(doc)
	return b
}

type payload struct{ Token string }

func render(v interface{}) string {
	switch t := v.(type) {
	case nil:
		return "<nil>"
	case *payload:
		return "payload:" + t.Token
	case string:
		return "string:" + t
	}
	return fmt.Sprintf("%T:%v", v, v)
}

type prodCall struct {
	tag      string
	v        interface{}
	rendered string // what the value looked like when the producer got it
}

type errCall struct {
	err     error
	ctEntry string
	gen     int // which of the successively installed error responders was invoked (built.respGen when it was installed)
}

type observation struct {
	routed      bool
	produces    []string
	ran         int
	returned    interface{} // value or Responder handed back by the handler
	returnedErr error
	produced    []prodCall
	respCalls   int
	respProd    runtime.Producer
	respCT      string
	serveErr    []errCall
	authCalls   int
	authzCalls  int
	denyErr     error // the error the authorizer returned
	refuseErr   error // the error the credential callback refused the credentials with
	bindErr     error // the error the generated-flow binder returned
	// noRouteInHandler: the operation handler of the generated-routable flow got a request without a MatchedRoute
	noRouteInHandler bool
}

type built struct {
	desc *APIDesc
	doc  *loads.Document
	api  *untyped.API
	obs  *observation
	cur  *ReqDesc
	// respGen counts the replacements of api.ServeError since the API was built: the function installed last is
	// the API's error responder
	respGen int
	// the handler and context of the generated-routable flow, shared by the API's served sets
	rh   http.Handler
	rctx *middleware.Context
	// the long-lived responders of the application (by Outcome.stubKey), the requests whose handler returned each of
	// them so far (in order), and the media types (parameters stripped, lower case) their responses announced
	stubs     map[string]middleware.Responder
	stubUses  map[string][]ReqDesc
	stubTypes map[string]map[string]bool
}

// longLived returns the one responder value the application keeps for the outcome, building it the first time.
func (b *built) longLived(o Outcome, fresh func() middleware.Responder) middleware.Responder {
	k := o.stubKey()
	if b.stubs == nil {
		b.stubs, b.stubUses, b.stubTypes = map[string]middleware.Responder{}, map[string][]ReqDesc{}, map[string]map[string]bool{}
	}
	if b.stubs[k] == nil {
		b.stubs[k] = fresh()
	}
	if b.cur != nil {
		b.stubUses[k] = append(b.stubUses[k], *b.cur)
	}
	return b.stubs[k]
}

// usesBefore: the requests whose handler returned the long-lived responder of this outcome so far (a copy).
func (b *built) usesBefore(o Outcome) []ReqDesc {
	if !o.LongLived {
		return nil
	}
	return append([]ReqDesc(nil), b.stubUses[o.stubKey()]...)
}

// noteStubUse classes one use of a long-lived responder by the media types its earlier responses announced.
func (b *built) noteStubUse(m *mon.M, o Outcome, prior []ReqDesc, announced string) (reuse string) {
	k := o.stubKey()
	t := strings.ToLower(accept.NormOffer(announced))
	seen := b.stubTypes[k]
	switch {
	case len(prior) == 0:
		reuse = "first-use"
	case len(seen) == 1 && seen[t]:
		reuse = "reused/every-earlier-response-announced-the-same-media-type"
	default:
		reuse = "reused/an-earlier-response-announced-another-media-type"
	}
	if seen == nil {
		seen = map[string]bool{}
		b.stubTypes[k] = seen
	}
	seen[t] = true
	m.Class("long-lived-responder:" + reuse)
	return reuse
}

// longLivedFeature is appended to the signature of a violation on a response written by a long-lived responder value
// that had written an earlier response.
const longLivedFeature = "+responder-value-that-wrote-an-earlier-response"

// historyFor turns the earlier uses of a long-lived responder into the requests a replay serves first (at most the
// first two and the last two), on a description reduced to the operations they need: ops holds the operation of
// the judged request at index 0 and is extended.
func (b *built) historyFor(prior []ReqDesc, ops []OpDesc, cur int) ([]OpDesc, []ReqDesc) {
	if len(prior) > 4 {
		prior = append(append([]ReqDesc(nil), prior[:2]...), prior[len(prior)-2:]...)
	}
	idx := map[int]int{}
	if cur >= 0 {
		idx[cur] = 0
	}
	var warm []ReqDesc
	for _, w := range prior {
		if w.Entry != "" {
			// a direct entry: the produces it hands to Respond must be registered
			if len(w.Produces) > 0 {
				ops = append(ops, OpDesc{Method: "GET", Produces: dedupStrings(w.Produces), Codes: []int{200}})
			}
			w.Op = 0
		} else {
			n, ok := idx[w.Op]
			if !ok {
				n = len(ops)
				idx[w.Op] = n
				ops = append(ops, b.desc.Ops[w.Op])
			}
			w.Op = n
		}
		warm = append(warm, w)
	}
	return ops, warm
}

// installResponder assigns a recording error responder to api.ServeError; it remembers which generation it is.
func (b *built) installResponder(api *untyped.API) {
	gen := b.respGen
	api.ServeError = func(rw http.ResponseWriter, r *http.Request, err error) {
		b.obs.serveErr = append(b.obs.serveErr, errCall{err, rw.Header().Get("Content-Type"), gen})
		errors.ServeError(rw, r, err)
	}
}

// swapResponder is the application replacing the error responder of a live API.
func (b *built) swapResponder() {
	b.respGen++
	b.installResponder(b.api)
}

type tagProducer struct {
	tag string
	b   *built
}

func (p *tagProducer) Produce(w io.Writer, v interface{}) error {
	p.b.obs.produced = append(p.b.obs.produced, prodCall{p.tag, v, render(v)})
	if pl, ok := v.(*payload); ok && strings.HasPrefix(pl.Token, failingToken) {
		// a producer that fails half-way: what it wrote must not leak into any other response
		_, _ = io.WriteString(w, "[PARTIAL-OUTPUT-OF-A-FAILED-PRODUCER]")
		return fmt.Errorf("producer %s failed half-way", p.tag)
	}
	_, err := io.WriteString(w, "["+p.tag+"]"+render(v))
	return err
}

const failingToken = "FAILING-PRODUCER:"

type customResponder struct {
	b    *built
	code int
	data interface{}
}

func (c *customResponder) WriteResponse(rw http.ResponseWriter, p runtime.Producer) {
	c.b.obs.respCalls++
	c.b.obs.respProd = p
	c.b.obs.respCT = rw.Header().Get("Content-Type")
	rw.WriteHeader(c.code)
	if p != nil {
		_ = p.Produce(rw, c.data)
	}
}

// errResponder is a result that knows how to write itself AND is usable as a Go error (a typed "problem"
// response): returned in the result slot it is a result like any other Responder.
type errResponder struct{ customResponder }

func (e *errResponder) Error() string { return "a responder that is also an error" }

type ctxMark struct{}

const goodUser, goodPass = "u", "p"

func build(d *APIDesc) (*built, error) {
	doc, err := loads.Analyzed(json.RawMessage(d.swagger()), "")
	if err != nil {
		return nil, err
	}
	b := &built{desc: d, doc: doc, obs: &observation{}}
	// every registration is ours: the JSON consumer/producer that NewAPI installs are removed (the
	// generated specs mention no consumes, so a registered consumer would fail api.Validate())
	api := untyped.NewAPI(doc).WithoutJSONDefaults()
	api.DefaultProduces = d.DefaultProduces
	for _, k := range d.regKeys() {
		// registered under the declared spelling (capitals included), tagged with the key in lower case (media types are
		// case-insensitive): the bare key and a key with parameters are told apart
		api.RegisterProducer(k, &tagProducer{tag: strings.ToLower(k), b: b})
	}
	if d.anyBody() {
		api.RegisterConsumer("application/json", runtime.JSONConsumer())
	}
	if d.anySecured() {
		authn := func(u, p string) (interface{}, error) {
			b.obs.authCalls++
			if u == goodUser && p == goodPass {
				return "principal:" + u, nil
			}
			var err error = errors.Unauthenticated("basic")
			if b.cur != nil {
				switch b.cur.Refuse {
				case "plain":
					err = fmt.Errorf("unknown user (plain error)")
				case "wrapped-401":
					err = fmt.Errorf("credential store: %w", errors.Unauthenticated("basic"))
				case "403":
					err = errors.New(http.StatusForbidden, "account is locked")
				case "429":
					err = errors.New(http.StatusTooManyRequests, "too many attempts")
				}
			}
			b.obs.refuseErr = err
			return nil, err
		}
		authnCtx := func(ctx context.Context, u, p string) (context.Context, interface{}, error) {
			pr, err := authn(u, p)
			if err != nil && b.cur != nil && b.cur.AuthCtx == "background" {
				return context.Background(), pr, err
			}
			return context.WithValue(ctx, ctxMark{}, "seen-by-the-callback"), pr, err
		}
		switch {
		case d.Realm == nil && d.CtxAuth:
			api.RegisterAuth("basic", security.BasicAuthCtx(authnCtx))
		case d.Realm == nil:
			api.RegisterAuth("basic", security.BasicAuth(authn))
		case d.CtxAuth:
			api.RegisterAuth("basic", security.BasicAuthRealmCtx(*d.Realm, authnCtx))
		default:
			api.RegisterAuth("basic", security.BasicAuthRealm(*d.Realm, authn))
		}
	}
	if d.anyAlt() {
		// never applicable in the generated requests (no X-Key header is sent)
		api.RegisterAuth("key", security.APIKeyAuth("X-Key", "header", func(string) (interface{}, error) { return nil, errors.Unauthenticated("key") }))
	}
	if d.Authorizer {
		api.RegisterAuthorizer(runtime.AuthorizerFunc(func(_ *http.Request, _ interface{}) error {
			b.obs.authzCalls++
			if b.cur == nil {
				return nil
			}
			switch b.cur.Deny {
			case "api-error":
				b.obs.denyErr = errors.New(http.StatusForbidden, "denied by the authorizer")
			case "plain-error":
				b.obs.denyErr = fmt.Errorf("denied by the authorizer (plain error)")
			}
			return b.obs.denyErr
		}))
	}
	for i, op := range d.Ops {
		api.RegisterOperation(op.Method, fmt.Sprintf("/op%d", i), runtime.OperationHandlerFunc(func(interface{}) (interface{}, error) {
			return b.handle()
		}))
	}
	api.RegisterOperation("get", "/catalogue", runtime.OperationHandlerFunc(func(interface{}) (interface{}, error) { return "catalogue", nil }))
	b.installResponder(api)
	if !d.BareOnly && len(d.Unregistered) == 0 {
		if err := api.Validate(); err != nil {
			return nil, fmt.Errorf("validate: %w", err)
		}
	}
	b.api = api
	return b, nil
}

func (b *built) handle() (interface{}, error) {
	b.obs.ran++
	o := b.cur.Outcome
	var res interface{}
	var err error
	switch o.Kind {
	case "value":
		res = &payload{Token: o.Data}
	case "value-producer-fails":
		res = &payload{Token: failingToken + o.Data}
	case "nil":
	case "responder":
		res = &customResponder{b: b, code: o.Code, data: &payload{Token: o.Data}}
	case "responder-error":
		res = &errResponder{customResponder{b: b, code: o.Code, data: &payload{Token: o.Data}}}
	case "lib-error":
		var hs []http.Header
		if len(o.Headers) > 0 {
			// the library gets its own copy: the case's map is what the response is judged against
			hc := http.Header{}
			for k, vs := range o.Headers {
				hc[k] = append([]string(nil), vs...)
			}
			hs = append(hs, hc)
		}
		if o.LongLived {
			res = b.longLived(o, func() middleware.Responder { return middleware.Error(o.Code, o.Data, hs...) })
		} else {
			res = middleware.Error(o.Code, o.Data, hs...)
		}
	case "not-implemented":
		if o.LongLived {
			res = b.longLived(o, func() middleware.Responder { return middleware.NotImplemented(o.Data) })
		} else {
			res = middleware.NotImplemented(o.Data)
		}
	case "api-error":
		err = errors.New(int32(o.Code), "api error %s", o.Data)
	case "plain-error":
		err = fmt.Errorf("plain error %s", o.Data)
	case "composite-error":
		err = errors.CompositeValidationError(errors.New(int32(o.Code), "first %s", o.Data), errors.Required("x", "query", nil))
	}
	b.obs.returned, b.obs.returnedErr = res, err
	return res, err
}

// served is what serves the requests of one built API: a context made with NewContext over the untyped API
// (reflective handlers; the "generated" flow is run from its Builder middleware) and a context made with
// NewRoutableContext over a gen.GeneratedAPI (the "generated-routable" flow), each behind the real RoutesHandler.
type served struct {
	b    *built
	h    http.Handler
	ctx  *middleware.Context
	rh   http.Handler
	rctx *middleware.Context
}

func (s *served) ServeHTTP(w http.ResponseWriter, r *http.Request) {
	if s.b.cur != nil && s.b.cur.Flow == flowRoutable {
		s.rh.ServeHTTP(w, r)
		return
	}
	s.h.ServeHTTP(w, r)
}

// contextFor is the context that serves a request of that flow.
func (s *served) contextFor(flow string) *middleware.Context {
	if flow == flowRoutable {
		return s.rctx
	}
	return s.ctx
}

const flowRoutable = "generated-routable"

// upperCaseFeature is appended to the signature of a violation on an operation (or a direct entry) whose declared
// produces list holds a media type spelled with upper-case letters.
const upperCaseFeature = "+declared-type-with-upper-case-letters"

func (b *built) handler() *served {
	s := &served{b: b}
	s.ctx = middleware.NewContext(b.doc, b.api, nil)
	ctx := s.ctx
	s.h = ctx.RoutesHandler(func(next http.Handler) http.Handler {
		return http.HandlerFunc(func(w http.ResponseWriter, r *http.Request) {
			if mr := middleware.MatchedRouteFrom(r); mr != nil {
				b.obs.routed = true
				b.obs.produces = append([]string(nil), mr.Produces...)
			}
			if b.cur != nil && b.cur.Flow == "generated" && middleware.MatchedRouteFrom(r) != nil {
				b.generated(ctx, w, r)
				return
			}
			next.ServeHTTP(w, r)
		})
	})
	if b.rh == nil {
		b.rh, b.rctx = b.routable() // one per built API (a replay that looks for a route order resets it)
	}
	s.rh, s.rctx = b.rh, b.rctx
	return s
}

// routable builds the API the way a generated server does: a middleware.RoutableAPI whose operation handlers run
// RouteInfo, Authorize, BindValidRequest, the handler and Respond, on a context made with NewRoutableContext.
func (b *built) routable() (http.Handler, *middleware.Context) {
	g := gen.NewGeneratedAPI(b.api)
	for i, op := range b.desc.Ops {
		g.Operation(op.Method, fmt.Sprintf("/op%d", i), gen.GeneratedOp{
			NewBinder:  func() middleware.RequestBinder { return genBinder{b} },
			Authorized: op.Secured,
			Handle: func(r *http.Request, _ middleware.RequestBinder, _ interface{}) interface{} {
				if middleware.MatchedRouteFrom(r) == nil {
					b.obs.noRouteInHandler = true
				}
				res, err := b.handle()
				if err != nil {
					return err
				}
				return res
			},
		})
	}
	g.Operation("get", "/catalogue", gen.GeneratedOp{
		NewBinder: func() middleware.RequestBinder { return genBinder{b} },
		Handle:    func(*http.Request, middleware.RequestBinder, interface{}) interface{} { return "catalogue" },
	})
	rctx := middleware.NewRoutableContext(b.doc, g, nil)
	g.SetContext(rctx)
	rh := rctx.RoutesHandler(func(next http.Handler) http.Handler {
		return http.HandlerFunc(func(w http.ResponseWriter, r *http.Request) {
			if mr := middleware.MatchedRouteFrom(r); mr != nil {
				b.obs.routed = true
				b.obs.produces = append([]string(nil), mr.Produces...)
			}
			next.ServeHTTP(w, r)
		})
	})
	return rh, rctx
}

// genBinder is the parameter binding of a generated operation: it checks the required query parameter
// itself (BindValidRequest leaves parameters to the binder).
type genBinder struct{ b *built }

func (g genBinder) BindRequest(r *http.Request, _ *middleware.MatchedRoute) error {
	b := g.b
	if b.cur != nil && b.cur.Op >= 0 && b.cur.Op < len(b.desc.Ops) && b.desc.Ops[b.cur.Op].ReqParam {
		if _, ok := r.URL.Query()["need"]; !ok {
			b.obs.bindErr = errors.CompositeValidationError(errors.Required("need", "query", nil))
			return b.obs.bindErr
		}
	}
	return nil
}

// generated serves the request the way the ServeHTTP method of a go-swagger generated operation does.
func (b *built) generated(ctx *middleware.Context, rw http.ResponseWriter, r *http.Request) {
	route, rCtx, _ := ctx.RouteInfo(r)
	if rCtx != nil {
		*r = *rCtx
	}
	_, aCtx, err := ctx.Authorize(r, route)
	if err != nil {
		ctx.Respond(rw, r, route.Produces, route, err)
		return
	}
	if aCtx != nil {
		*r = *aCtx
	}
	if err := ctx.BindValidRequest(r, route, genBinder{b}); err != nil {
		ctx.Respond(rw, r, route.Produces, route, err)
		return
	}
	res, herr := b.handle()
	if herr != nil {
		ctx.Respond(rw, r, route.Produces, route, herr)
		return
	}
	ctx.Respond(rw, r, route.Produces, route, res)
}

func producesOf(ctx *middleware.Context, method string, op int) []string {
	req := httptest.NewRequest(method, fmt.Sprintf("/op%d", op), nil)
	if mr, ok := ctx.LookupRoute(req); ok {
		return mr.Produces
	}
	return nil
}

func sameList(a, b []string) bool {
	if len(a) != len(b) {
		return false
	}
	for i := range a {
		if a[i] != b[i] {
			return false
		}
	}
	return true
}

// ---- the basic-auth challenge ----

// parseBasicChallenge extracts the realm of a "Basic" challenge (RFC 7235: auth-param values are
// tokens or quoted-strings with quoted-pairs).
func parseBasicChallenge(v string) (realm string, ok bool) {
	v = strings.TrimSpace(v)
	if len(v) < 5 || !strings.EqualFold(v[:5], "basic") {
		return "", false
	}
	rest := strings.TrimLeft(v[5:], " \t")
	for rest != "" {
		eq := strings.IndexByte(rest, '=')
		if eq < 0 {
			return "", false
		}
		name := strings.TrimSpace(rest[:eq])
		rest = strings.TrimLeft(rest[eq+1:], " \t")
		var val string
		if strings.HasPrefix(rest, `"`) {
			var sb strings.Builder
			i := 1
			closed := false
			for i < len(rest) {
				if rest[i] == '\\' && i+1 < len(rest) {
					sb.WriteByte(rest[i+1])
					i += 2
					continue
				}
				if rest[i] == '"' {
					closed = true
					i++
					break
				}
				sb.WriteByte(rest[i])
				i++
			}
			if !closed {
				return "", false
			}
			val, rest = sb.String(), rest[i:]
		} else {
			i := strings.IndexAny(rest, ", \t")
			if i < 0 {
				i = len(rest)
			}
			val, rest = rest[:i], rest[i:]
		}
		if strings.EqualFold(name, "realm") {
			return val, true
		}
		rest = strings.TrimLeft(rest, " \t,")
	}
	return "", false
}

// ---- running one case ----

func shapeOf(ct string) string {
	if i := strings.IndexByte(ct, ';'); i > 0 && (ct[i-1] == ' ' || ct[i-1] == '\t') {
		return "type-with-params-and-ows-before-semicolon"
	}
	if strings.Contains(ct, ";") {
		return "type-with-params"
	}
	return "plain-type"
}

func outcomeClass(kind string) string {
	switch kind {
	case "value", "nil":
		return "value"
	case "lib-error", "not-implemented":
		return "library-responder"
	case "responder":
		return "custom-responder"
	case "responder-error":
		return "custom-responder-that-is-an-error"
	}
	return kind
}

func errCode(err error) int {
	switch e := err.(type) {
	case *errors.CompositeError:
		for _, s := range e.Errors {
			if c := errCode(s); c != 0 && c != 422 {
				return c
			}
		}
		if len(e.Errors) > 0 {
			return errCode(e.Errors[0])
		}
		return int(e.Code())
	case errors.Error:
		return int(e.Code())
	}
	return 0
}

func runCaseOn(m *mon.M, c *Case, b *built, h *served) (violated bool) {
	if c.Req.Entry != "" {
		return runDirect(m, c, b, h)
	}
	d := b.desc
	rq := &c.Req
	op := d.Ops[rq.Op]
	lines := rq.lines()
	m.Eval(1)
	*b.obs = observation{}
	b.cur = rq
	if rq.SwapResponder {
		b.swapResponder() // the contexts and handlers exist: the new function is the API's error responder from now on
	}
	method, path := op.Method, fmt.Sprintf("/op%d", rq.Op)
	switch rq.Route {
	case "unknown-path":
		path = "/nowhere"
	case "wrong-method":
		method = "OPTIONS"
	}
	if op.ReqParam && !rq.OmitParam {
		path += "?need=v"
	}
	req := httptest.NewRequest(method, path, nil)
	bodyRefused := 0 // the status the content-type gate owes this request (0: none)
	if op.BodyParam && rq.Body != "" {
		req = httptest.NewRequest(method, path, strings.NewReader(`{"a":1}`))
		switch rq.Body {
		case "admitted":
			req.Header.Set("Content-Type", "application/json")
		case "non-admitted":
			req.Header.Set("Content-Type", "text/csv")
			bodyRefused = http.StatusUnsupportedMediaType
		case "malformed":
			req.Header.Set("Content-Type", "application/json/v2;;")
			bodyRefused = http.StatusBadRequest
		}
	}
	if lines != nil {
		req.Header["Accept"] = append([]string{}, lines...) // the library gets its own copy
	}
	declared := op.Produces
	if len(declared) == 0 {
		declared = d.Global
	}
	multi := len(op.twoXX()) > 1
	switch rq.Auth {
	case "wrong":
		req.SetBasicAuth(goodUser, "not-"+goodPass)
	case "right":
		req.SetBasicAuth(goodUser, goodPass)
	case "malformed":
		req.Header.Set("Authorization", "Basic "+base64.StdEncoding.EncodeToString([]byte("no-colon")))
	}
	rec := httptest.NewRecorder()
	prior := b.usesBefore(rq.Outcome) // the earlier responses of the long-lived responder this request's handler returns
	minimal := func() *Case {
		ops, warm := b.historyFor(prior, []OpDesc{op}, rq.Op)
		dd := &APIDesc{DefaultProduces: d.DefaultProduces, Global: d.Global, Ops: ops, Realm: d.Realm, Authorizer: d.Authorizer, CtxAuth: d.CtxAuth, BareOnly: d.BareOnly, Unregistered: d.Unregistered}
		r2 := *rq
		r2.Op = 0
		// the responder was replaced by an earlier request of this API: the case says so itself, so that it replays alone
		r2.SwapResponder = rq.SwapResponder || b.respGen > 0
		cs := &Case{API: dd, Req: r2, WantOrder: b.obs.produces, Warm: warm}
		if multi {
			cs.Repeat = 200 // which of the declared 2xx codes comes out may depend on a map order
		}
		return cs
	}
	violate := func(sig, detail string) {
		violated = true
		if accept.HasOWSBeforeSemicolon(declared...) && !strings.Contains(sig, "ows-before-semicolon") {
			sig += "+declared-type-with-ows-before-semicolon"
		}
		if hasUpperCase(declared...) {
			sig += upperCaseFeature
		}
		if len(prior) > 0 && b.obs.ran > 0 {
			sig += longLivedFeature
		}
		cs := minimal()
		if !inTrial && shrinks[sig] < 3 {
			shrinks[sig]++
			cs, detail = shrinkCase(cs, sig, detail)
		}
		m.Violate(sig, detail, cs)
	}
	pv, st := mon.Catch(func() { h.ServeHTTP(rec, req) })
	if rq.Outcome.Kind == "value-producer-fails" {
		// the statement says nothing about a failing producer (the code panics for a recovery middleware):
		// this request is not judged; it is there for what it may leave behind for the next ones
		m.Class("producer-failure-injected")
		return false
	}
	obs := *b.obs
	res := rec.Result()
	body := rec.Body.String()
	status := rec.Code
	ct := res.Header.Get("Content-Type")
	oc := outcomeClass(rq.Outcome.Kind)
	stage := "handler"

	// ---- expectations that do not need a route ----
	if rq.Route != "" {
		want := http.StatusNotFound
		if rq.Route == "wrong-method" {
			want = http.StatusMethodNotAllowed
		}
		m.Class("stage:" + rq.Route)
		if pv != nil {
			violate("panic/"+rq.Route, fmt.Sprintf("%s %s panicked: %v\n%s", method, path, pv, st))
			return violated
		}
		m.NT(fmt.Sprintf("%s|%s|%s", rq.Route, rq.Flavour, d.DefaultProduces))
		switch {
		case obs.ran != 0:
			violate("handler-ran/"+rq.Route, fmt.Sprintf("%s %s ran the operation handler", method, path))
		case staleResponder(&obs, b.respGen):
			violate("error-routed-to-a-replaced-error-responder/"+rq.Route, fmt.Sprintf("%s %s: api.ServeError was reassigned after the context was built (%d times); the error went to a function that is no longer the API's error responder (status %d)", method, path, b.respGen, status))
		case len(obs.serveErr) != 1:
			violate("error-not-routed-to-error-responder/"+rq.Route, fmt.Sprintf("%s %s: error responder invoked %d times, status %d", method, path, len(obs.serveErr), status))
		case errCode(obs.serveErr[0].err) != want:
			violate("error-responder-got-different-error/"+rq.Route, fmt.Sprintf("%s %s: error responder got %v (code %d), expected code %d", method, path, obs.serveErr[0].err, errCode(obs.serveErr[0].err), want))
		case obs.serveErr[0].ctEntry == "":
			violate("error-content-type/"+rq.Route, fmt.Sprintf("%s %s: no Content-Type set when the error responder was invoked", method, path))
		default:
			// whatever was negotiated is a type the API produces (or JSON when nothing was)
			known := map[string]bool{runtime.JSONMime: true, d.DefaultProduces: true}
			for _, t := range d.Global {
				known[t] = true
			}
			for _, o2 := range d.Ops {
				for _, t := range o2.Produces {
					known[t] = true
				}
			}
			for _, t := range d.regKeys() { // (the catalogue operation lists the registered keys)
				known[t] = true
			}
			if !known[obs.serveErr[0].ctEntry] {
				violate("error-content-type/"+rq.Route+"/not-a-type-of-the-api", fmt.Sprintf("%s %s Accept=%q: Content-Type %q when the error responder was invoked: neither a produces entry of the API, nor its default, nor JSON", method, path, lines, obs.serveErr[0].ctEntry))
			}
		}
		return violated
	}
	if !obs.routed {
		if pv != nil {
			violate("panic/before-routing", fmt.Sprintf("%v\n%s", pv, st))
			return violated
		}
		// a request for a declared path and method: the Builder middleware (installed through RoutesHandler) must get
		// the request that carries the matched route
		fl := rq.Flow
		if fl == "" {
			fl = "reflective"
		}
		violate("builder-did-not-see-matched-route/"+fl, fmt.Sprintf("%s %s is a declared operation, but the handler installed through the Builder got a request without a MatchedRoute (status %d, handler ran %d times)", method, path, status, obs.ran))
		return violated
	}
	if obs.noRouteInHandler {
		violate("handler-did-not-see-matched-route/"+rq.Flow, fmt.Sprintf("%s %s is a declared operation, but its handler got a request without a MatchedRoute after Context.RouteInfo", method, path))
		return violated
	}
	m.SetAdd("observed-produces-orders", strings.Join(obs.produces, " | "))

	// ---- the operation's offers: what it DECLARES plus the API default; the router's list must be that set ----
	if f, det := accept.OfferSetDiff(obs.produces, declared, d.DefaultProduces); f != "" {
		violate("offers-differ-from-declaration/"+f, fmt.Sprintf("%s %s: MatchedRoute.Produces: %s", method, path, det))
	}
	if lines != nil && !sameList(req.Header["Accept"], lines) {
		violate("caller-header-modified", fmt.Sprintf("%s %s: Accept lines %q sent, %q in the request afterwards", method, path, lines, req.Header["Accept"]))
	}
	offers := accept.StatementOffers(obs.produces, declared, d.DefaultProduces)

	// ---- reference negotiation ----
	p, mixedCase, why := parseJudged(lines, offers)
	negOK := why == ""
	if negOK && p.Present {
		var specs []header.AcceptSpec
		mon.Catch(func() { specs = header.ParseAccept(http.Header{"Accept": append([]string{}, lines...)}, "Accept") })
		vals := make([]string, len(specs))
		qs := make([]float64, len(specs))
		for i, s := range specs {
			vals[i], qs[i] = s.Value, s.Q
		}
		if !parseAgrees(vals, qs, p.Ranges, mixedCase) {
			negOK = false
			m.Class("negotiation-not-judged:ParseAccept-fails-C07-oracle")
		}
	} else if !negOK {
		m.Class("negotiation-not-judged:" + why)
	}
	if hasUpperCase(declared...) {
		m.Class(fmt.Sprintf("upper-case-declared-type:negotiation-judged=%v", negOK))
	}
	var gate, neg accept.Pick
	if negOK {
		neg = accept.Select(p.Present, p.Ranges, offers, true)
		gate = neg // 406 <=> nothing of the declared types (default included) is acceptable
	}
	wantCT := func() (string, bool) { // the negotiated type per the statement, when it can be told
		if !negOK {
			return "", false
		}
		if neg.None {
			return "", true
		}
		return neg.Offer, true
	}

	// ---- which stage answers ----
	authFails := op.Secured && rq.Auth != "right"
	denied := op.Secured && !authFails && d.Authorizer && rq.Deny != ""
	missing := op.ReqParam && rq.OmitParam
	switch {
	case authFails:
		stage = "auth"
	case denied:
		stage = "authorizer"
	case bodyRefused != 0 && rq.Route == "":
		stage = "content-type-gate"
	case missing && (!negOK || gate.None):
		stage = "406-or-422"
	case missing:
		stage = "bind"
	case negOK && gate.None:
		stage = "406"
	case !negOK && obs.ran == 0 && pv == nil:
		// negotiation cannot be told and the handler did not run: all we can say is that an error must have been served
		stage = "unknown-early"
	}
	m.Class("stage:" + stage)
	if rq.Flow != "" {
		m.Class("flow:" + rq.Flow)
	}
	shape := shapeOf(ct)
	if w, ok := wantCT(); ok && w != "" {
		shape = shapeOf(w)
	}
	if pv != nil {
		cls := "other"
		if strings.Contains(fmt.Sprint(pv), "can't find a producer") {
			cls = "no-producer-found"
		}
		if stage != "handler" {
			oc = "stage-" + stage
		}
		if w, ok := wantCT(); cls == "no-producer-found" && len(d.Unregistered) > 0 && (!ok || w == "" || d.unregistered(w)) {
			// nobody registered a producer for the negotiated type: the statement does not say what is written then
			m.Class("no-producer-registered:panic(not judged)")
			return violated
		}
		violate(fmt.Sprintf("panic-%s/%s/%s", cls, oc, shape), fmt.Sprintf("%s %s Accept=%q produces=%q default=%q outcome=%s: panic: %v\n%s", method, path, lines, obs.produces, d.DefaultProduces, rq.Outcome.Kind, pv, st))
		return violated
	}
	succ, hasSucc := op.success()
	upper := ""
	if w, ok := wantCT(); (ok && hasUpperCase(w)) || (!ok && hasUpperCase(ct)) {
		upper = "|upper-case-type" // the negotiated (else the announced) type is spelled with capitals
		m.Class("upper-case-negotiated-type:" + stage + ":" + oc)
	}
	if rq.Outcome.LongLived && obs.ran == 1 {
		if reuse := b.noteStubUse(m, rq.Outcome, prior, ct); reuse != "first-use" {
			upper += "|long-lived-responder-" + reuse
		}
	}
	m.NT(fmt.Sprintf("%s|%s|%s|%s|%s|%d|%v|%s|%v|%s%s", stage, shape, rq.Flavour, rq.Outcome.Kind, op.Method, succ, d.DefaultProduces != "", rq.Flow, multi, rq.Deny, upper))
	ctx := fmt.Sprintf("%s %s Accept=%q produces=%q default=%q", method, path, lines, obs.produces, d.DefaultProduces)

	isValidation := func(code int) bool { return code == http.StatusUnprocessableEntity || code >= 600 }
	checkErrorRouted := func(kind string, wantErr error, wantCode int) bool {
		codeOK := func(got int) bool {
			switch wantCode {
			case codeValidation:
				return isValidation(got)
			case codeValidationOr406:
				return isValidation(got) || got == http.StatusNotAcceptable
			}
			return got == wantCode
		}
		switch {
		case staleResponder(&obs, b.respGen):
			violate("error-routed-to-a-replaced-error-responder/"+kind, fmt.Sprintf("%s: api.ServeError was reassigned after the context was built (%d times); the error went to a function that is no longer the API's error responder (status %d)", ctx, b.respGen, status))
			return false
		case len(obs.serveErr) != 1:
			violate("error-not-routed-to-error-responder/"+kind, fmt.Sprintf("%s: error responder invoked %d times (status %d)", ctx, len(obs.serveErr), status))
			return false
		case wantErr != nil && obs.serveErr[0].err != wantErr:
			violate("error-responder-got-different-error/"+kind, fmt.Sprintf("%s: handler returned %v, error responder got %v", ctx, wantErr, obs.serveErr[0].err))
			return false
		case wantErr == nil && wantCode != 0 && !codeOK(errCode(obs.serveErr[0].err)):
			violate("error-responder-got-different-error/"+kind, fmt.Sprintf("%s: expected %s, error responder got %v (code %d)", ctx, codeText(wantCode), obs.serveErr[0].err, errCode(obs.serveErr[0].err)))
			return false
		}
		if len(obs.produced) != 0 {
			violate("producer-ran-on-error/"+kind, fmt.Sprintf("%s: producer %q ran although an error was served", ctx, obs.produced[0].tag))
			return false
		}
		if w, ok := wantCT(); ok {
			if w == "" {
				w = runtime.JSONMime
			}
			if obs.serveErr[0].ctEntry != w {
				violate("error-content-type/"+kind, fmt.Sprintf("%s: Content-Type %q when the error responder was invoked, expected %q", ctx, obs.serveErr[0].ctEntry, w))
				return false
			}
		}
		return true
	}

	switch stage {
	case "auth":
		if obs.ran != 0 {
			violate("handler-ran/failed-basic-auth", fmt.Sprintf("%s auth=%s: handler ran", ctx, rq.Auth))
			return violated
		}
		refusal := "" // how the credential callback refused (it runs for well-formed wrong credentials only)
		if rq.Auth == "wrong" && rq.Refuse != "" {
			refusal = "/refused-with-" + rq.Refuse
		}
		switch {
		case refusal == "":
			if !checkErrorRouted("failed-basic-auth", nil, http.StatusUnauthorized) {
				return violated
			}
		case rq.Refuse == "403" || rq.Refuse == "429":
			// the errors.Error of the callback is the error the stage returns: the responder must get that very error
			if obs.refuseErr == nil {
				violate("credential-callback-not-invoked", fmt.Sprintf("%s auth=%s: the credential callback did not run", ctx, rq.Auth))
				return violated
			}
			if !checkErrorRouted("failed-basic-auth"+refusal, obs.refuseErr, 0) {
				return violated
			}
		default:
			// a plain error of the callback: an error must be served (which code is not the statement's business)
			if !checkErrorRouted("failed-basic-auth"+refusal, nil, 0) {
				return violated
			}
		}
		wantRealm := security.DefaultRealmName
		if d.Realm != nil && *d.Realm != "" {
			wantRealm = *d.Realm
		}
		ctxFlavour := "" // registered through BasicAuthCtx / BasicAuthRealmCtx, and the callback ran
		if d.CtxAuth && rq.Auth == "wrong" {
			ctxFlavour = "+ctx-callback"
			if rq.AuthCtx != "" {
				ctxFlavour += "-returning-" + rq.AuthCtx + "-context"
			}
		}
		ch := res.Header.Values("WWW-Authenticate")
		found, anyBasic := false, false
		for _, v := range ch {
			if r, ok := parseBasicChallenge(v); ok {
				anyBasic = true
				if r == wantRealm {
					found = true
				}
			}
		}
		switch {
		case !anyBasic:
			violate("basic-auth-challenge-missing/"+rq.Auth+"-credentials"+refusal+ctxFlavour, fmt.Sprintf("%s auth=%s: status %d, WWW-Authenticate=%q, expected a Basic challenge for realm %q", ctx, rq.Auth, status, ch, wantRealm))
		case !found:
			violate("basic-auth-wrong-realm"+ctxFlavour, fmt.Sprintf("%s auth=%s: WWW-Authenticate=%q does not name the configured realm %q", ctx, rq.Auth, ch, wantRealm))
		}
		m.Class("auth:" + rq.Auth + refusal)
		if d.CtxAuth {
			m.Class("auth:ctx-flavour:" + rq.Auth + "/" + rq.AuthCtx)
		}
		return violated
	case "authorizer":
		if obs.ran != 0 {
			violate("handler-ran/authorizer-denied", fmt.Sprintf("%s authorizer denies with %s: handler ran", ctx, rq.Deny))
			return violated
		}
		if rq.Deny == "api-error" {
			// an errors.Error of the authorizer is the error the stage returns: the responder must get that very error
			checkErrorRouted("authorizer-denied", obs.denyErr, 0)
		} else {
			checkErrorRouted("authorizer-denied", nil, http.StatusForbidden)
		}
		m.Class("authorizer:" + rq.Deny)
		return violated
	case "content-type-gate":
		kind := "unsupported-media-type"
		if bodyRefused == http.StatusBadRequest {
			kind = "malformed-content-type"
		}
		if obs.ran != 0 {
			violate("handler-ran/"+kind, fmt.Sprintf("%s body=%s: handler ran", ctx, rq.Body))
			return violated
		}
		checkErrorRouted(kind, nil, bodyRefused)
		return violated
	case "bind", "406-or-422":
		want := codeValidation
		if stage == "406-or-422" {
			want = codeValidationOr406
		}
		if rq.Flow != "" && obs.bindErr != nil {
			// the generated-flow binder's own error is what BindValidRequest returns
			checkErrorRouted("missing-required-parameter", obs.bindErr, 0)
		} else {
			checkErrorRouted("missing-required-parameter", nil, want)
		}
		return violated
	case "406":
		if obs.ran != 0 {
			violate("handler-ran/nothing-acceptable", fmt.Sprintf("%s: handler ran although nothing is acceptable", ctx))
			return violated
		}
		checkErrorRouted("not-acceptable", nil, http.StatusNotAcceptable)
		return violated
	case "unknown-early":
		if staleResponder(&obs, b.respGen) {
			violate("error-routed-to-a-replaced-error-responder/early-stage", fmt.Sprintf("%s: api.ServeError was reassigned after the context was built; the error went to a function that is no longer the API's error responder (status %d)", ctx, status))
		} else if len(obs.serveErr) != 1 {
			violate("error-not-routed-to-error-responder/early-stage", fmt.Sprintf("%s: handler did not run, error responder invoked %d times, status %d", ctx, len(obs.serveErr), status))
		}
		return violated
	}

	// ---- the handler was due ----
	if obs.ran != 1 {
		if !negOK && obs.ran == 0 {
			return violated
		}
		violate("handler-ran-not-once", fmt.Sprintf("%s: handler ran %d times, status %d", ctx, obs.ran, status))
		return violated
	}
	m.Class("outcome:" + rq.Outcome.Kind)
	if len(d.Unregistered) > 0 {
		// is the negotiated type one that nobody registered a producer for? Then "the producer registered for that
		// media type" does not exist and the statement does not say who writes the body (or whether one is written)
		noProd := false
		if w, ok := wantCT(); ok {
			noProd = d.unregistered(w)
		} else if rq.Outcome.Kind == "responder" || rq.Outcome.Kind == "responder-error" {
			noProd = d.unregistered(obs.respCT)
		} else {
			noProd = d.unregistered(ct)
		}
		bodyDue := true
		switch rq.Outcome.Kind {
		case "value", "nil":
			bodyDue = !hasSucc || (op.Method != http.MethodHead && succ != http.StatusNoContent)
		case "api-error", "plain-error", "composite-error":
			bodyDue = false // the error responder needs no producer: judged as everywhere
		}
		if noProd && bodyDue {
			judgeNoProducer(m, &obs, rq, d, body, ctx, violate)
			return violated
		}
	}
	// the type announced, and the one the statement negotiates
	announced := ct
	if w, ok := wantCT(); ok {
		switch rq.Outcome.Kind {
		case "api-error", "plain-error", "composite-error":
			// judged at the error responder's entry (it sets its own type afterwards)
		case "responder", "responder-error":
			if obs.respCalls == 1 && obs.respCT != w {
				violate("wrong-content-type/"+oc, fmt.Sprintf("%s: Content-Type %q when the Responder was invoked, statement negotiates %q", ctx, obs.respCT, w))
				return violated
			}
			announced = obs.respCT
		default:
			if hasSucc || oc != "value" {
				if ct != w {
					violate("wrong-content-type/"+oc, fmt.Sprintf("%s: Content-Type %q, statement negotiates %q", ctx, ct, w))
					return violated
				}
			}
		}
	} else if rq.Outcome.Kind == "responder" || rq.Outcome.Kind == "responder-error" {
		announced = obs.respCT
	}
	wantTag := strings.ToLower(accept.NormOffer(announced))
	shape = shapeOf(announced)

	switch rq.Outcome.Kind {
	case "value", "nil":
		if !hasSucc {
			m.Class("default-only:not-judged")
			return violated
		}
		if status != succ {
			sig := "wrong-status/value"
			for _, c2 := range op.twoXX() {
				if multi && c2 == status {
					sig = "wrong-status/value/another-of-several-declared-2xx-codes"
				}
			}
			violate(sig, fmt.Sprintf("%s: status %d, declared success status %d (responses %v)", ctx, status, succ, op.Codes))
			return violated
		}
		if op.Method == http.MethodHead || succ == http.StatusNoContent {
			why := "head"
			if succ == http.StatusNoContent {
				why = "204"
			}
			if len(obs.produced) != 0 || body != "" {
				violate("body-for-"+why, fmt.Sprintf("%s: %d producer calls, body %q", ctx, len(obs.produced), body))
			}
			m.Class("no-body:" + why)
			return violated
		}
		switch {
		case len(obs.produced) == 0:
			violate("wrong-producer/value/"+shape, fmt.Sprintf("%s: Content-Type %q but no registered (tagged) producer ran; body %q", ctx, announced, clip(body)))
		case len(obs.produced) != 1:
			violate("producer-ran-not-once/value", fmt.Sprintf("%s: %d producer calls", ctx, len(obs.produced)))
		case obs.produced[0].tag != wantTag:
			violate("wrong-producer/value/"+shape, fmt.Sprintf("%s: Content-Type %q but the body was written by the producer registered for %q; body %q", ctx, announced, obs.produced[0].tag, clip(body)))
		case obs.produced[0].v != obs.returned || obs.produced[0].rendered != wantRendered(&rq.Outcome):
			violate("producer-got-different-value/value", fmt.Sprintf("%s: handler returned %s, producer got %s", ctx, wantRendered(&rq.Outcome), obs.produced[0].rendered))
		case body != "["+wantTag+"]"+wantRendered(&rq.Outcome):
			violate("body-mismatch/value", fmt.Sprintf("%s: body %q, the producer wrote %q", ctx, clip(body), "["+wantTag+"]"+wantRendered(&rq.Outcome)))
		}
	case "responder", "responder-error":
		switch {
		case obs.respCalls != 1 && rq.Outcome.Kind == "responder-error":
			violate("responder-invoked-not-once/result-that-is-also-an-error", fmt.Sprintf("%s: the result (a Responder that also implements error, returned in the result slot) was asked to write itself %d times; error responder invoked %d times, status %d", ctx, obs.respCalls, len(obs.serveErr), status))
		case obs.respCalls != 1:
			violate("responder-invoked-not-once", fmt.Sprintf("%s: Responder invoked %d times", ctx, obs.respCalls))
		default:
			tp, ok := obs.respProd.(*tagProducer)
			switch {
			case !ok:
				violate("wrong-producer/custom-responder/"+shape, fmt.Sprintf("%s: Content-Type %q but the Responder was handed %T, not a registered producer", ctx, announced, obs.respProd))
			case tp.tag != wantTag:
				violate("wrong-producer/custom-responder/"+shape, fmt.Sprintf("%s: Content-Type %q but the Responder was handed the producer registered for %q", ctx, announced, tp.tag))
			}
		}
	case "lib-error", "not-implemented":
		wantStatus := rq.Outcome.Code
		if rq.Outcome.Kind == "not-implemented" {
			wantStatus = http.StatusNotImplemented
		}
		if wantStatus <= 0 {
			wantStatus = http.StatusInternalServerError
		}
		if status != wantStatus {
			violate("wrong-status/library-responder", fmt.Sprintf("%s: middleware.Error(%d, …) answered %d", ctx, rq.Outcome.Code, status))
			return violated
		}
		for k, vs := range rq.Outcome.Headers {
			got := res.Header.Values(k)
			for _, v := range vs {
				if !containsStr(got, v) {
					violate("library-responder-header-missing", fmt.Sprintf("%s: header %s: %q supplied to middleware.Error, response has %q", ctx, k, vs, got))
					return violated
				}
			}
		}
		switch {
		case len(obs.produced) == 0 && len(prior) > 0 && (op.Method == http.MethodHead || body == "["+wantTag+"]"+render(rq.Outcome.Data)):
			// a responder value that has written earlier responses and did not call the producer this time: the statement
			// fixes the body ("exactly what the producer registered for that media type writes for the result"), not how
			// often a long-lived value asks for it - the body is the one owed (HEAD: a Responder's body is not judged)
			m.Class("long-lived-responder:owed-body-written-without-a-producer-call")
		case len(obs.produced) == 0:
			violate("wrong-producer/library-responder/"+shape, fmt.Sprintf("%s: Content-Type %q but no registered producer ran; body %q", ctx, announced, clip(body)))
		case len(obs.produced) != 1:
			violate("producer-ran-not-once/library-responder", fmt.Sprintf("%s: %d producer calls", ctx, len(obs.produced)))
		case obs.produced[0].tag != wantTag:
			violate("wrong-producer/library-responder/"+shape, fmt.Sprintf("%s: Content-Type %q but the body was written by the producer registered for %q", ctx, announced, obs.produced[0].tag))
		case obs.produced[0].v != interface{}(rq.Outcome.Data):
			violate("producer-got-different-value/library-responder", fmt.Sprintf("%s: data %q, producer got %v", ctx, rq.Outcome.Data, obs.produced[0].v))
		case op.Method != http.MethodHead && body != "["+wantTag+"]"+render(rq.Outcome.Data):
			violate("body-mismatch/library-responder", fmt.Sprintf("%s: body %q", ctx, clip(body)))
		}
	case "api-error", "plain-error", "composite-error":
		checkErrorRouted(rq.Outcome.Kind, obs.returnedErr, 0)
	}
	return violated
}

// negotiate is the reference negotiation of one request over the statement's offer list (C07's oracle); ok is false
// when it cannot be told (a header outside the strict grammar's judged zone, or one that header.ParseAccept
// already mis-parses by C07's oracle).
func negotiate(m *mon.M, lines []string, offers []string) (neg accept.Pick, ok bool) {
	p, mixedCase, why := parseJudged(lines, offers)
	ok = why == ""
	if ok && p.Present {
		var specs []header.AcceptSpec
		mon.Catch(func() { specs = header.ParseAccept(http.Header{"Accept": append([]string{}, lines...)}, "Accept") })
		vals := make([]string, len(specs))
		qs := make([]float64, len(specs))
		for i, s := range specs {
			vals[i], qs[i] = s.Value, s.Q
		}
		if !parseAgrees(vals, qs, p.Ranges, mixedCase) {
			ok = false
			m.Class("negotiation-not-judged:ParseAccept-fails-C07-oracle")
		}
	} else if !ok {
		m.Class("negotiation-not-judged:" + why)
	}
	if ok {
		neg = accept.Select(p.Present, p.Ranges, offers, true)
	}
	return neg, ok
}

func dedupStrings(l []string) []string {
	seen := map[string]bool{}
	var out []string
	for _, e := range l {
		if !seen[e] {
			seen[e] = true
			out = append(out, e)
		}
	}
	return out
}

const (
	entryNoRoute = "respond-without-route"
	entryNoOp    = "respond-route-without-operation"
	entryNF      = "not-found"
)

// runDirect judges a response rendered outside a matched operation: Context.Respond without a route (or with a
// hand-made route that has no Operation), the way middleware that is not an operation of the description borrows
// the context's negotiation and producers, and Context.NotFound. What the statement says about such a response:
// Content-Type = the type negotiated over the produces handed in (API default last), body = what the producer
// registered for that type (parameters ignored) writes for the value, nothing for HEAD, errors to the API's error
// responder (JSON content type if nothing was negotiated). There is no declared status: the status is not judged.
func runDirect(m *mon.M, c *Case, b *built, s *served) (violated bool) {
	d := b.desc
	rq := &c.Req
	lines := rq.lines()
	m.Eval(1)
	*b.obs = observation{}
	b.cur = rq
	if rq.SwapResponder {
		b.swapResponder()
	}
	method := rq.Method
	if method == "" {
		method = http.MethodGet
	}
	req := httptest.NewRequest(method, "/outside-the-description", nil)
	if lines != nil {
		req.Header["Accept"] = append([]string{}, lines...)
	}
	declared := dedupStrings(rq.Produces)
	kind := rq.Outcome.Kind
	if rq.Entry == entryNF {
		kind = "not-found"
		declared = nil
		if d.DefaultProduces != "" {
			declared = []string{d.DefaultProduces} // NotFound offers the API default only
		}
	}
	handed := append([]string(nil), rq.Produces...) // the library gets its own copy
	var route *middleware.MatchedRoute
	if rq.Entry == entryNoOp {
		route = &middleware.MatchedRoute{}
		route.Produces = append([]string(nil), rq.Produces...)
	}
	mctx := s.contextFor(rq.Flow)
	prior := b.usesBefore(rq.Outcome)
	var data interface{}
	if rq.Entry != entryNF {
		res, err := b.handle() // what the middleware wants rendered
		data = res
		if err != nil {
			data = err
		}
	}
	rec := httptest.NewRecorder()
	pv, st := mon.Catch(func() {
		if rq.Entry == entryNF {
			mctx.NotFound(rec, req)
			return
		}
		mctx.Respond(rec, req, handed, route, data)
	})
	obs := *b.obs
	res := rec.Result()
	body := rec.Body.String()
	status := rec.Code
	ct := res.Header.Get("Content-Type")
	oc := outcomeClass(kind)

	violate := func(sig, detail string) {
		violated = true
		if accept.HasOWSBeforeSemicolon(declared...) && !strings.Contains(sig, "ows-before-semicolon") {
			sig += "+declared-type-with-ows-before-semicolon"
		}
		if hasUpperCase(declared...) {
			sig += upperCaseFeature
		}
		if len(prior) > 0 {
			sig += longLivedFeature
		}
		// the smallest API that registers what the entry needs
		op := OpDesc{Method: "GET", Produces: declared, Codes: []int{200}}
		if len(declared) == 0 {
			op = d.Ops[rq.Op]
		}
		dd := &APIDesc{DefaultProduces: d.DefaultProduces, Ops: []OpDesc{op}, BareOnly: d.BareOnly, Unregistered: d.Unregistered}
		if len(declared) == 0 {
			dd.Global = d.Global
		}
		r2 := *rq
		r2.Op = 0
		r2.SwapResponder = rq.SwapResponder || b.respGen > 0
		cs := &Case{API: dd, Req: r2}
		if len(prior) > 0 {
			// the earlier responses of the long-lived responder, on the operations they need
			dd.Ops, cs.Warm = b.historyFor(prior, dd.Ops, -1)
			dd.Global, dd.Realm, dd.Authorizer, dd.CtxAuth = d.Global, d.Realm, d.Authorizer, d.CtxAuth
		}
		m.Violate(sig, detail, cs)
	}

	offers := accept.StatementOffers(declared, declared, d.DefaultProduces)
	neg, negOK := negotiate(m, lines, offers)
	shape := shapeOf(ct)
	if negOK && !neg.None {
		shape = shapeOf(neg.Offer)
	}
	m.Class("stage:direct:" + rq.Entry)
	if rq.Flow == flowRoutable {
		m.Class("flow:direct-on-routable-context")
	}
	desc := fmt.Sprintf("%s: %s Accept=%q produces=%q default=%q data=%s", rq.Entry, method, lines, rq.Produces, d.DefaultProduces, kind)
	isErr := kind == "api-error" || kind == "plain-error" || kind == "composite-error" || kind == "not-found"

	if rq.Entry != entryNF && !sameList(handed, rq.Produces) {
		violate("caller-produces-modified/"+rq.Entry, fmt.Sprintf("%s: the produces list handed to Respond is %q afterwards", desc, handed))
	}
	if pv != nil {
		cls := "other"
		if strings.Contains(fmt.Sprint(pv), "can't find a producer") {
			cls = "no-producer-found"
		}
		if !isErr && cls == "no-producer-found" && (!negOK || neg.None || d.unregistered(neg.Offer)) {
			// nothing acceptable, or nobody registered a producer for the negotiated type: the statement does not say
			// what a value is rendered with then
			m.Class("direct:nothing-acceptable-or-no-producer:panic(not judged)")
			return violated
		}
		violate(fmt.Sprintf("panic-%s/%s/%s/%s", cls, rq.Entry, oc, shape), fmt.Sprintf("%s: panic: %v\n%s", desc, pv, st))
		return violated
	}
	upperD := ""
	if (negOK && !neg.None && hasUpperCase(neg.Offer)) || (!negOK && hasUpperCase(ct)) {
		upperD = "|upper-case-type"
		m.Class("upper-case-negotiated-type:direct:" + oc)
	}
	if rq.Outcome.LongLived && kind == "lib-error" {
		if reuse := b.noteStubUse(m, rq.Outcome, prior, ct); reuse != "first-use" {
			upperD += "|long-lived-responder-" + reuse
		}
	}
	m.NT(fmt.Sprintf("direct|%s|%s|%s|%s|%s|%s%s", rq.Entry, shape, rq.Flavour, kind, method, rq.Flow, upperD))
	m.Class("outcome:direct:" + kind)

	if isErr {
		switch {
		case staleResponder(&obs, b.respGen):
			violate("error-routed-to-a-replaced-error-responder/"+rq.Entry, fmt.Sprintf("%s: api.ServeError was reassigned after the context was built (%d times); the error went to a function that is no longer the API's error responder (status %d)", desc, b.respGen, status))
		case len(obs.serveErr) != 1:
			violate("error-not-routed-to-error-responder/"+rq.Entry, fmt.Sprintf("%s: error responder invoked %d times (status %d)", desc, len(obs.serveErr), status))
		case kind != "not-found" && obs.serveErr[0].err != obs.returnedErr:
			violate("error-responder-got-different-error/"+rq.Entry, fmt.Sprintf("%s: Respond was given %v, the error responder got %v", desc, obs.returnedErr, obs.serveErr[0].err))
		case kind == "not-found" && errCode(obs.serveErr[0].err) != http.StatusNotFound:
			violate("error-responder-got-different-error/"+rq.Entry, fmt.Sprintf("%s: the error responder got %v (code %d), expected a 404", desc, obs.serveErr[0].err, errCode(obs.serveErr[0].err)))
		case len(obs.produced) != 0:
			violate("producer-ran-on-error/"+rq.Entry, fmt.Sprintf("%s: producer %q ran although an error was served", desc, obs.produced[0].tag))
		case negOK:
			w := neg.Offer
			if neg.None {
				w = runtime.JSONMime // nothing was negotiated
			}
			if obs.serveErr[0].ctEntry != w {
				violate("error-content-type/"+rq.Entry, fmt.Sprintf("%s: Content-Type %q when the error responder was invoked, expected %q", desc, obs.serveErr[0].ctEntry, w))
			}
		}
		return violated
	}
	if negOK && neg.None {
		m.Class("direct:nothing-acceptable(not judged)")
		return violated
	}
	if announcedD := map[bool]string{true: obs.respCT, false: ct}[kind == "responder" && obs.respCalls == 1]; !negOK && announcedD == "" && hasUpperCase(offers...) {
		// offers with capitals under a header whose negotiation is not judged (a range and an offer that differ in letter
		// case only, or a header outside the plain form), and the library announces nothing: "nothing is acceptable" cannot
		// be refuted, and a value or Responder when nothing is acceptable is not judged here (no 406 gate ran)
		m.Class("direct:upper-case-offers:negotiation-not-judged-and-nothing-announced(not judged)")
		return violated
	}
	m.Class(fmt.Sprintf("direct:status:%d", status))

	switch kind {
	case "value", "nil":
		if negOK && ct != neg.Offer {
			violate("wrong-content-type/"+rq.Entry+"/value", fmt.Sprintf("%s: Content-Type %q, statement negotiates %q", desc, ct, neg.Offer))
			return violated
		}
		if method == http.MethodHead {
			if len(obs.produced) != 0 || body != "" {
				violate("body-for-head/"+rq.Entry, fmt.Sprintf("%s: %d producer calls, body %q", desc, len(obs.produced), body))
			}
			m.Class("no-body:head:direct")
			return violated
		}
		if d.unregistered(ct) {
			m.Class("direct:no-producer-registered(not judged)")
			return violated
		}
		wantTag := strings.ToLower(accept.NormOffer(ct))
		shape = shapeOf(ct)
		switch {
		case len(obs.produced) == 0:
			violate("wrong-producer/"+rq.Entry+"/value/"+shape, fmt.Sprintf("%s: Content-Type %q but no registered (tagged) producer ran; body %q", desc, ct, clip(body)))
		case len(obs.produced) != 1:
			violate("producer-ran-not-once/"+rq.Entry+"/value", fmt.Sprintf("%s: %d producer calls", desc, len(obs.produced)))
		case obs.produced[0].tag != wantTag:
			violate("wrong-producer/"+rq.Entry+"/value/"+shape, fmt.Sprintf("%s: Content-Type %q but the body was written by the producer registered for %q; body %q", desc, ct, obs.produced[0].tag, clip(body)))
		case obs.produced[0].v != obs.returned || obs.produced[0].rendered != wantRendered(&rq.Outcome):
			violate("producer-got-different-value/"+rq.Entry+"/value", fmt.Sprintf("%s: Respond was given %s, the producer got %s", desc, wantRendered(&rq.Outcome), obs.produced[0].rendered))
		case body != "["+wantTag+"]"+wantRendered(&rq.Outcome):
			violate("body-mismatch/"+rq.Entry+"/value", fmt.Sprintf("%s: body %q, the producer wrote %q", desc, clip(body), "["+wantTag+"]"+wantRendered(&rq.Outcome)))
		}
	case "responder":
		switch {
		case obs.respCalls != 1:
			violate("responder-invoked-not-once/"+rq.Entry, fmt.Sprintf("%s: Responder invoked %d times", desc, obs.respCalls))
		case negOK && obs.respCT != neg.Offer:
			violate("wrong-content-type/"+rq.Entry+"/custom-responder", fmt.Sprintf("%s: Content-Type %q when the Responder was invoked, statement negotiates %q", desc, obs.respCT, neg.Offer))
		case d.unregistered(obs.respCT):
			m.Class("direct:no-producer-registered(not judged)")
		default:
			wantTag := strings.ToLower(accept.NormOffer(obs.respCT))
			if tp, ok := obs.respProd.(*tagProducer); !ok || tp.tag != wantTag {
				violate("wrong-producer/"+rq.Entry+"/custom-responder/"+shapeOf(obs.respCT), fmt.Sprintf("%s: Content-Type %q but the Responder was handed %T (%v), not the producer registered for that type", desc, obs.respCT, obs.respProd, obs.respProd))
			}
		}
	case "lib-error":
		wantStatus := rq.Outcome.Code
		if wantStatus <= 0 {
			wantStatus = http.StatusInternalServerError
		}
		wantTag := strings.ToLower(accept.NormOffer(ct))
		switch {
		case status != wantStatus:
			violate("wrong-status/"+rq.Entry+"/library-responder", fmt.Sprintf("%s: middleware.Error(%d, …) answered %d", desc, rq.Outcome.Code, status))
		case negOK && ct != neg.Offer:
			violate("wrong-content-type/"+rq.Entry+"/library-responder", fmt.Sprintf("%s: Content-Type %q, statement negotiates %q", desc, ct, neg.Offer))
		case d.unregistered(ct):
			m.Class("direct:no-producer-registered(not judged)")
		case len(obs.produced) == 0 && len(prior) > 0 && (method == http.MethodHead || body == "["+wantTag+"]"+render(rq.Outcome.Data)):
			// (as for a routed request: a long-lived responder value that writes the owed body without calling the producer again)
			m.Class("long-lived-responder:owed-body-written-without-a-producer-call")
		case len(obs.produced) != 1 || obs.produced[0].tag != wantTag:
			violate("wrong-producer/"+rq.Entry+"/library-responder/"+shapeOf(ct), fmt.Sprintf("%s: Content-Type %q, producer calls %d (first: %v)", desc, ct, len(obs.produced), obs.produced))
		case obs.produced[0].v != interface{}(rq.Outcome.Data):
			violate("producer-got-different-value/"+rq.Entry+"/library-responder", fmt.Sprintf("%s: data %q, producer got %v", desc, rq.Outcome.Data, obs.produced[0].v))
		case method != http.MethodHead && body != "["+wantTag+"]"+render(rq.Outcome.Data):
			violate("body-mismatch/"+rq.Entry+"/library-responder", fmt.Sprintf("%s: body %q", desc, clip(body)))
		}
	}
	return violated
}

// staleResponder: an error responder that the application has replaced since was invoked.
func staleResponder(obs *observation, current int) bool {
	for _, ec := range obs.serveErr {
		if ec.gen != current {
			return true
		}
	}
	return false
}

// judgeNoProducer judges a response whose negotiated type has no registered producer: which producer writes
// the body (the library falls back to the API default's) or whether the request fails is not the statement's
// business; what remains is that nothing is written twice and that a producer that ran got the handler's value
// and its output is the body.
func judgeNoProducer(m *mon.M, obs *observation, rq *ReqDesc, d *APIDesc, body, ctx string, violate func(sig, detail string)) {
	const feat = "/no-producer-registered-for-the-negotiated-type"
	who := "nobody"
	if len(obs.produced) > 0 {
		who = "another-producer"
		if obs.produced[0].tag == strings.ToLower(accept.NormOffer(d.DefaultProduces)) {
			who = "default-producer"
		}
	}
	m.Class("no-producer-registered:" + outcomeClass(rq.Outcome.Kind) + ":written-by-" + who)
	switch rq.Outcome.Kind {
	case "value", "nil":
		switch {
		case len(obs.produced) > 1:
			violate("producer-ran-not-once/value"+feat, fmt.Sprintf("%s: %d producer calls", ctx, len(obs.produced)))
		case len(obs.produced) == 1 && (obs.produced[0].v != obs.returned || obs.produced[0].rendered != wantRendered(&rq.Outcome)):
			violate("producer-got-different-value/value"+feat, fmt.Sprintf("%s: handler returned %s, producer got %s", ctx, wantRendered(&rq.Outcome), obs.produced[0].rendered))
		case len(obs.produced) == 1 && body != "["+obs.produced[0].tag+"]"+wantRendered(&rq.Outcome):
			violate("body-mismatch/value"+feat, fmt.Sprintf("%s: body %q, the producer that ran (%s) wrote %q", ctx, clip(body), obs.produced[0].tag, "["+obs.produced[0].tag+"]"+wantRendered(&rq.Outcome)))
		}
	case "responder", "responder-error":
		if obs.respCalls > 1 {
			violate("responder-invoked-not-once"+feat, fmt.Sprintf("%s: Responder invoked %d times", ctx, obs.respCalls))
		}
	case "lib-error", "not-implemented":
		if len(obs.produced) > 1 {
			violate("producer-ran-not-once/library-responder"+feat, fmt.Sprintf("%s: %d producer calls", ctx, len(obs.produced)))
		}
	}
}

// pseudo codes for checkErrorRouted
const (
	codeValidation      = -422 // a validation failure: 422 or one of the 6xx validation codes
	codeValidationOr406 = -406 // ... or 406
)

func codeText(c int) string {
	switch c {
	case codeValidation:
		return "a validation error (422 / 6xx)"
	case codeValidationOr406:
		return "a validation error (422 / 6xx) or 406"
	}
	return fmt.Sprintf("an error of code %d", c)
}

// wantRendered is what the value the handler returns looks like, computed from the case alone.
func wantRendered(o *Outcome) string {
	switch o.Kind {
	case "value":
		return render(&payload{Token: o.Data})
	case "nil":
		return render(nil)
	}
	return ""
}

// ---- witness minimisation ----

var (
	inTrial bool
	shrinks = map[string]int{}
)

// sigsOf re-executes a candidate case on a throw-away monitor and returns its violations.
func sigsOf(c *Case) map[string]string {
	inTrial = true
	defer func() { inTrial = false }()
	sm := mon.New("C08", "quick", 0, 0, 1, "")
	sm.SetReplayMode()
	runReplayCase(sm, c)
	out := map[string]string{}
	for _, v := range sm.Result().Violations {
		out[v.Sig] = v.Detail
	}
	return out
}

func cloneCase(c *Case) *Case {
	b, _ := json.Marshal(c)
	var o Case
	_ = json.Unmarshal(b, &o)
	return &o
}

func without(l []string, s string) []string {
	var out []string
	for _, e := range l {
		if e != s {
			out = append(out, e)
		}
	}
	return out
}

// shrinkCase simplifies a single-operation case while it keeps producing the same signature.
func shrinkCase(c *Case, sig, detail string) (*Case, string) {
	for steps := 0; steps < 20; steps++ {
		var cands []*Case
		op := c.API.Ops[0]
		// the earlier responses of a long-lived responder: one fewer
		for i := range c.Warm {
			n := cloneCase(c)
			n.Warm = append(n.Warm[:i:i], n.Warm[i+1:]...)
			cands = append(cands, n)
		}
		if len(op.Produces) == 0 && len(c.API.Global) > 0 {
			n := cloneCase(c)
			n.API.Ops[0].Produces, n.API.Global = c.API.Global, nil
			cands = append(cands, n)
		}
		// Accept: strictly simpler forms only (absent < "*/*" < one bare type < anything else)
		rank := 3
		switch {
		case c.Req.Absent:
			rank = 0
		case len(c.Req.Accept) == 1 && c.Req.Accept[0] == "*/*":
			rank = 1
		case len(c.Req.Accept) == 1 && !strings.ContainsAny(string(c.Req.Accept[0]), ",; \t"):
			rank = 2
		}
		if rank > 0 {
			n := cloneCase(c)
			n.Req.Absent, n.Req.Accept, n.Req.Flavour = true, nil, "absent"
			cands = append(cands, n)
		}
		if rank > 1 {
			n := cloneCase(c)
			n.Req.Absent, n.Req.Accept, n.Req.Flavour = false, []mon.Q{"*/*"}, "star"
			cands = append(cands, n)
		}
		if rank > 2 {
			for _, t := range c.WantOrder {
				n := cloneCase(c)
				n.Req.Absent, n.Req.Accept, n.Req.Flavour = false, []mon.Q{mon.Q(accept.NormOffer(t))}, "plain"
				cands = append(cands, n)
			}
		}
		if len(op.Produces) > 1 {
			for _, t := range op.Produces {
				n := cloneCase(c)
				n.API.Ops[0].Produces = without(op.Produces, t)
				n.WantOrder = without(c.WantOrder, t)
				cands = append(cands, n)
			}
		}
		if len(op.Codes) > 1 {
			if s, ok := op.success(); ok {
				n := cloneCase(c)
				n.API.Ops[0].Codes = []int{s}
				cands = append(cands, n)
			}
		}
		if op.Default && len(op.Codes) > 0 {
			n := cloneCase(c)
			n.API.Ops[0].Default = false
			cands = append(cands, n)
		}
		if op.Secured && c.Req.Auth == "right" && c.Req.Deny == "" {
			n := cloneCase(c)
			n.API.Ops[0].Secured, n.API.Ops[0].Alt, n.API.Realm, n.API.Authorizer, n.Req.Auth = false, false, nil, false, ""
			cands = append(cands, n)
		}
		if op.ReqParam && !c.Req.OmitParam {
			n := cloneCase(c)
			n.API.Ops[0].ReqParam = false
			cands = append(cands, n)
		}
		if op.BodyParam && c.Req.Body == "" {
			n := cloneCase(c)
			n.API.Ops[0].BodyParam = false
			cands = append(cands, n)
		}
		if op.BodyParam && c.Req.Body == "admitted" {
			n := cloneCase(c)
			n.Req.Body = ""
			cands = append(cands, n)
		}
		if c.API.Authorizer && c.Req.Deny == "" {
			n := cloneCase(c)
			n.API.Authorizer = false
			cands = append(cands, n)
		}
		if len(op.twoXX()) > 2 {
			// several 2xx codes: the lowest and one other are enough
			for _, other := range op.twoXX()[1:] {
				n := cloneCase(c)
				var keep []int
				for _, c2 := range op.Codes {
					if c2 < 200 || c2 >= 300 || c2 == op.twoXX()[0] || c2 == other {
						keep = append(keep, c2)
					}
				}
				n.API.Ops[0].Codes = keep
				cands = append(cands, n)
			}
		}
		if len(op.twoXX()) > 1 {
			var non2 []int
			for _, c2 := range op.Codes {
				if c2 < 200 || c2 >= 300 {
					non2 = append(non2, c2)
				}
			}
			if len(non2) > 0 {
				n := cloneCase(c)
				var keep []int
				for _, c2 := range op.Codes {
					if c2 >= 200 && c2 < 300 {
						keep = append(keep, c2)
					}
				}
				n.API.Ops[0].Codes = keep
				cands = append(cands, n)
			}
		}
		if len(c.Req.Outcome.Headers) > 1 {
			for k := range c.Req.Outcome.Headers {
				n := cloneCase(c)
				delete(n.Req.Outcome.Headers, k)
				cands = append(cands, n)
			}
		}
		progressed := false
		for _, n := range cands {
			if d, ok := sigsOf(n)[sig]; ok {
				c, detail, progressed = n, d, true
				break
			}
		}
		if !progressed {
			break
		}
	}
	return c, detail
}

func containsStr(l []string, s string) bool {
	for _, e := range l {
		if e == s {
			return true
		}
	}
	return false
}

func clip(s string) string {
	if len(s) > 120 {
		return s[:120] + "…"
	}
	return s
}

// ---- generation ----

var methods = []string{"GET", "GET", "POST", "PUT", "DELETE", "PATCH", "HEAD", "HEAD"}
var paramSuffix = []string{"; charset=utf-8", ";charset=utf-8", "; version=1"}
var realms = []string{"API", "My Realm", "r-1_x", `quo"te`, `back\slash`, "a,b=c", "realm é", ""}

// genAPI draws one description. ru is a PRNG of its own for the upper-case dimension: the draws of r for a
// description that stays in lower case are what they were without it.
func genAPI(r, ru *rand.Rand) *APIDesc {
	d := &APIDesc{}
	// one description in seven declares media types spelled with upper-case letters (vendor types, Text/Plain): in
	// produces lists of operations and of the description, with and without parameters, next to lower-case types; they
	// are registered under the declared spelling; the API default (present in four descriptions out of five) stays in
	// lower case
	vocabulary := accept.Types
	upperAPI := ru.Intn(7) == 0
	pickUpper := ru.Perm(len(upperTypes))[:2+ru.Intn(4)]
	pickLower := ru.Perm(len(accept.Types))[:3]

	switch k := r.Intn(20); {
	case k < 10:
		d.DefaultProduces = "application/json"
	case k < 16:
		d.DefaultProduces = accept.Types[r.Intn(len(accept.Types))]
	default:
		d.DefaultProduces = ""
	}
	if d.DefaultProduces != "" && r.Intn(10) == 0 {
		// an API default written with parameters
		d.DefaultProduces += paramSuffix[r.Intn(len(paramSuffix))]
	}
	if upperAPI {
		vocabulary = nil
		for _, i := range pickUpper {
			// (never the API default's own media type in another letter case: "default producer included or not" is about
			// the default's entry, a second spelling of it in the list is outside the quantifier)
			if !strings.EqualFold(upperTypes[i], accept.NormOffer(d.DefaultProduces)) {
				vocabulary = append(vocabulary, upperTypes[i])
			}
		}
		for _, i := range pickLower {
			vocabulary = append(vocabulary, accept.Types[i])
		}
	}
	list := func() []string {
		n := 1 + r.Intn(4)
		perm := r.Perm(len(vocabulary))
		var out []string
		folded := map[string]bool{}
		for i := 0; i < n; i++ {
			t := vocabulary[perm[i]]
			if folded[strings.ToLower(t)] {
				continue // one media type once per list, whatever the letter case
			}
			folded[strings.ToLower(t)] = true
			if r.Intn(4) == 0 {
				t += paramSuffix[r.Intn(len(paramSuffix))]
			} else if accept.JudgeOWSBeforeSemicolon && r.Intn(12) == 0 {
				t += accept.OWSOfferParams[r.Intn(len(accept.OWSOfferParams))]
			}
			out = append(out, t)
		}
		// default producer included or not
		if d.DefaultProduces != "" && r.Intn(3) == 0 {
			present := false
			for _, t := range out {
				if strings.EqualFold(accept.NormOffer(t), accept.NormOffer(d.DefaultProduces)) {
					present = true
				}
			}
			if !present {
				out = append(out, d.DefaultProduces)
				r.Shuffle(len(out), func(i, j int) { out[i], out[j] = out[j], out[i] })
			}
		}
		return out
	}
	if r.Intn(3) == 0 {
		d.Global = list()
	}
	nops := 1 + r.Intn(4)
	for i := 0; i < nops; i++ {
		op := OpDesc{Method: methods[r.Intn(len(methods))]}
		if len(d.Global) == 0 || r.Intn(3) > 0 {
			op.Produces = list()
		}
		switch k := r.Intn(20); {
		case k < 2:
			op.Default = true // default-only
		default:
			op.Codes = []int{[]int{200, 200, 201, 202, 204}[r.Intn(5)]}
			if r.Intn(4) == 0 {
				// several declared 2xx codes (200+204, 200+201+202, 201+204, ...): the declared success status is the lowest
				for _, more := range r.Perm(4)[:1+r.Intn(2)] {
					if c2 := []int{200, 201, 202, 204}[more]; c2 != op.Codes[0] {
						op.Codes = append(op.Codes, c2)
					}
				}
			}
			for _, extra := range []int{400, 404, 500, 301} {
				if r.Intn(4) == 0 {
					op.Codes = append(op.Codes, extra)
				}
			}
			op.Default = r.Intn(3) == 0
		}
		op.Secured = r.Intn(4) == 0
		op.Alt = op.Secured && r.Intn(2) == 0
		op.KeyFirst = op.Alt && r.Intn(2) == 0
		op.ReqParam = r.Intn(5) == 0
		if (op.Method == "POST" || op.Method == "PUT" || op.Method == "PATCH") && r.Intn(2) == 0 {
			op.BodyParam = true
		}
		d.Ops = append(d.Ops, op)
	}
	d.NoOpIDs = r.Intn(4) == 0
	d.CtxAuth = d.anySecured() && r.Intn(2) == 0
	d.BareOnly = r.Intn(6) == 0
	d.Authorizer = d.anySecured() && r.Intn(2) == 0
	if d.anySecured() && r.Intn(3) > 0 {
		s := realms[r.Intn(len(realms))]
		d.Realm = &s
	}
	if r.Intn(8) == 0 {
		// one declared type (never the API default) that nobody registers a producer for
		var cands []string
		for _, t := range d.declaredTypes() {
			if n := strings.ToLower(accept.NormOffer(t)); n != strings.ToLower(accept.NormOffer(d.DefaultProduces)) {
				cands = append(cands, n)
			}
		}
		if len(cands) > 0 {
			d.Unregistered = []string{cands[r.Intn(len(cands))]}
		}
	}
	return d
}

// declaredTypes lists the produces entries of the description (spec level and operations), as written, in order
// of first appearance.
func (d *APIDesc) declaredTypes() []string {
	l := append([]string(nil), d.Global...)
	for _, op := range d.Ops {
		l = append(l, op.Produces...)
	}
	return dedupStrings(l)
}

var outcomeKinds = []string{"value", "value", "value", "value", "value-producer-fails", "nil", "responder", "responder", "responder-error", "lib-error", "lib-error", "not-implemented", "api-error", "plain-error", "composite-error"}

func genOutcome(r *rand.Rand, i int) Outcome {
	o := Outcome{Kind: outcomeKinds[r.Intn(len(outcomeKinds))], Data: fmt.Sprintf("tok%d", i)}
	switch o.Kind {
	case "responder":
		o.Code = []int{200, 207, 299, 418}[r.Intn(4)]
	case "responder-error":
		o.Code = []int{200, 409, 422, 503}[r.Intn(4)]
	case "lib-error":
		o.Code = []int{0, -1, 400, 404, 409, 422, 500, 503, 200}[r.Intn(9)]
		if r.Intn(2) == 0 {
			o.Headers = map[string][]string{"X-Rate": {"1"}}
			if r.Intn(2) == 0 {
				o.Headers["X-Multi"] = []string{"a", "b"}
			}
			if r.Intn(4) == 0 {
				o.Headers["Retry-After"] = []string{"120"}
			}
		}
	case "api-error", "composite-error":
		o.Code = []int{400, 401, 403, 404, 409, 422, 500, 503}[r.Intn(8)]
	}
	return o
}

// Context.Respond(rw, r, produces, nil, aResponder) dereferenced the nil route (middleware/context.go, `route.Producers`;
// signatures panic-other/respond-without-route/custom-responder/* and .../library-responder/*). Repaired in the library by
// de11287 and pinned in known_findings.json; the shape (a Responder - custom, or the library's middleware.Error - handed to a
// route-less Respond) is generated and judged by runDirect.
var responderWithoutRoute = true

var directOutcomes = []string{"value", "value", "value", "value", "nil", "api-error", "plain-error", "composite-error", "responder", "lib-error"}

func genReq(r, ru *rand.Rand, d *APIDesc, i int) ReqDesc {
	rq := ReqDesc{Op: r.Intn(len(d.Ops))}
	op := d.Ops[rq.Op]
	direct := r.Intn(12) == 0
	if direct {
		// a response rendered outside a matched operation
		rq.Entry = []string{entryNoRoute, entryNoRoute, entryNoRoute, entryNoRoute, entryNoRoute, entryNoRoute, entryNoOp, entryNoOp, entryNF, entryNF}[r.Intn(10)]
		rq.Method = []string{"GET", "GET", "GET", "POST", "DELETE", "HEAD"}[r.Intn(6)]
		if rq.Entry != entryNF {
			// 1-3 produces entries among those the description declares (each media type in one spelling), the API
			// default among them or not
			pool := d.declaredTypes()
			if d.DefaultProduces != "" && r.Intn(3) == 0 {
				pool = append(pool, d.DefaultProduces)
			}
			seen := map[string]bool{}
			n := 1 + r.Intn(3)
			for _, pi := range r.Perm(len(pool)) {
				if t := pool[pi]; !seen[strings.ToLower(accept.NormOffer(t))] && len(rq.Produces) < n {
					seen[strings.ToLower(accept.NormOffer(t))] = true
					rq.Produces = append(rq.Produces, t)
				}
			}
		}
	} else {
		switch r.Intn(40) {
		case 0:
			rq.Route = "unknown-path"
		case 1:
			rq.Route = "wrong-method"
		}
	}
	types := accept.Types
	if r.Intn(3) > 0 {
		src := op.Produces
		if len(src) == 0 {
			src = d.Global
		}
		if direct {
			src = rq.Produces
		}
		var t []string
		for _, s := range src {
			t = append(t, accept.NormOffer(s))
		}
		if d.DefaultProduces != "" {
			t = append(t, accept.NormOffer(d.DefaultProduces))
		}
		if len(t) > 0 {
			types = t
		}
	}
	switch k := r.Intn(20); {
	case k < 2:
		rq.Absent, rq.Flavour = true, "absent"
	case k < 4:
		rq.Accept, rq.Flavour = []mon.Q{"*/*"}, "star"
	default:
		fl := accept.PickFlavour(r)
		if r.Intn(2) == 0 {
			fl = accept.Plain // keep most requests on headers whose negotiation is judged even while C07's parser defects exist
		}
		rq.Accept = mon.QS(accept.WithEmptyElements(r, accept.GenHeader(r, fl, types).Render(accept.OWS(r))))
		rq.Flavour = accept.FlavourNames[fl]
	}
	if src := reqOffers(d, &rq); hasUpperCase(src...) && !rq.Absent && rq.Flavour != "star" && ru.Intn(3) > 0 {
		// an operation that declares types with capitals: two headers in three are of the plain form that names the
		// offers verbatim (the form whose negotiation is judged there)
		rq.Accept, rq.Flavour = mon.QS(genMixedAccept(ru, src)), "plain-verbatim-upper-case"
	}
	if op.Secured {
		rq.Auth = []string{"none", "wrong", "malformed", "right", "right", "right"}[r.Intn(6)]
		if rq.Auth == "wrong" && r.Intn(2) == 0 {
			rq.Refuse = []string{"plain", "wrapped-401", "403", "429"}[r.Intn(4)]
		}
		if d.CtxAuth && rq.Auth == "wrong" && r.Intn(3) == 0 {
			rq.AuthCtx = "background"
		}
	}
	rq.Outcome = genOutcome(r, i)
	switch k := r.Intn(12); {
	case k < 2:
		rq.Flow = "generated"
	case k < 5:
		rq.Flow = flowRoutable
	}
	rq.SwapResponder = r.Intn(25) == 0
	if direct {
		// no operation: nothing of what follows applies
		rq.Auth = ""
		rq.Refuse, rq.AuthCtx = "", ""
		for {
			rq.Outcome = genOutcome(r, i)
			ok := false
			for _, k := range directOutcomes {
				ok = ok || k == rq.Outcome.Kind
			}
			if isResp := rq.Outcome.Kind == "responder" || rq.Outcome.Kind == "lib-error"; ok && (!isResp || (rq.Entry == entryNoRoute && responderWithoutRoute)) {
				break
			}
		}
		if rq.Flow == "generated" {
			rq.Flow = "" // the flow of a direct entry only selects the context
		}
		return rq
	}
	if op.ReqParam && r.Intn(4) == 0 {
		rq.OmitParam = true
	}
	if op.BodyParam {
		rq.Body = []string{"", "admitted", "admitted", "admitted", "non-admitted", "malformed"}[r.Intn(6)]
	}
	if d.Authorizer && op.Secured && r.Intn(4) == 0 {
		rq.Deny = []string{"api-error", "plain-error"}[r.Intn(2)]
	}
	return rq
}

// genCanned draws the outcomes for which the application keeps ONE long-lived responder value (0-2 per API): canned
// middleware.Error answers and NotImplemented stubs.
func genCanned(r *rand.Rand) []Outcome {
	var out []Outcome
	for k, n := 0, []int{0, 1, 1, 2}[r.Intn(4)]; k < n; k++ {
		o := Outcome{Kind: "lib-error", Data: fmt.Sprintf("canned%d", k), LongLived: true}
		if r.Intn(3) == 0 {
			o.Kind = "not-implemented"
		} else {
			o.Code = []int{0, 400, 404, 409, 422, 500, 503, 200}[r.Intn(8)]
			if r.Intn(2) == 0 {
				o.Headers = map[string][]string{"X-Rate": {"1"}}
				if r.Intn(2) == 0 {
					o.Headers["X-Multi"] = []string{"a", "b"}
				}
			}
		}
		out = append(out, o)
	}
	return out
}

// useCanned: one request in five of an API that keeps long-lived responders has its handler return one of them
// (whatever the operation, the Accept header, the flow; a direct entry: a route-less Respond with a middleware.Error).
func useCanned(r *rand.Rand, canned []Outcome, rq *ReqDesc) {
	if len(canned) == 0 || rq.Route != "" || r.Intn(5) != 0 {
		return
	}
	o := canned[r.Intn(len(canned))]
	if rq.Entry != "" && (rq.Entry != entryNoRoute || !responderWithoutRoute || o.Kind != "lib-error") {
		return
	}
	if o.Headers != nil {
		hc := map[string][]string{}
		for k, vs := range o.Headers {
			hc[k] = append([]string(nil), vs...)
		}
		o.Headers = hc
	}
	rq.Outcome = o
}

// reqOffers: the offers of the request's operation (or of its direct entry): declared produces plus the API default.
func reqOffers(d *APIDesc, rq *ReqDesc) []string {
	src := d.Ops[rq.Op].Produces
	if len(src) == 0 {
		src = d.Global
	}
	if rq.Entry != "" {
		src = rq.Produces
	}
	src = append([]string(nil), src...)
	if d.DefaultProduces != "" {
		src = append(src, d.DefaultProduces)
	}
	return src
}

func run(m *mon.M) {
	r := m.Rand("apis")
	ru := m.Rand("upper-case")
	rl := m.Rand("long-lived-responders") // a PRNG of its own: the other draws are what they were without this dimension
	napi := m.N(400, 3000)
	nreq := m.N(80, 100)
	for a := 0; a < napi; a++ {
		d := genAPI(r, ru)
		canned := genCanned(rl)
		m.Begin(map[string]interface{}{"kind": "api", "api": d})
		b, err := build(d)
		if err != nil {
			m.Class("config-rejected")
			m.Note("config_rejected", 1)
			continue
		}
		m.Class("config:default=" + map[bool]string{true: "none", false: "set"}[d.DefaultProduces == ""])
		if hasUpperCase(d.declaredTypes()...) {
			m.Class("config:upper-case-declared-types:default=" + map[bool]string{true: "none", false: "set"}[d.DefaultProduces == ""])
		}
		var hs []*served
		for k := 0; k < 3; k++ {
			hs = append(hs, b.handler())
		}
		var recent []ReqDesc
		for q := 0; q < nreq; q++ {
			c := &Case{API: d, Req: genReq(r, ru, d, q), Warm: append([]ReqDesc(nil), recent...)}
			useCanned(rl, canned, &c.Req)
			recent = append(recent, c.Req)
			if len(recent) > 3 {
				recent = recent[1:]
			}
			m.Begin(c)
			runCaseOn(m, c, b, hs[q%len(hs)])
			if m.WantSample() {
				m.Sample(map[string]interface{}{"op": d.Ops[c.Req.Op], "default_produces": d.DefaultProduces, "req": c.Req})
			}
		}
	}
}

func replay(m *mon.M, raw json.RawMessage) {
	var c Case
	if err := json.Unmarshal(raw, &c); err != nil || c.API == nil || c.Req.Op < 0 || c.Req.Op >= len(c.API.Ops) {
		m.Violate("bad-replay-case", fmt.Sprint(err), nil)
		return
	}
	inTrial = true // a replay reports the recorded case as it is
	runReplayCase(m, &c)
}

func runReplayCase(m *mon.M, c *Case) {
	b, err := build(c.API)
	if err != nil {
		m.Class("config-rejected")
		return
	}
	var h *served
	for i := 0; i < 400; i++ {
		b.rh, b.rctx = nil, nil
		h = b.handler()
		if len(c.WantOrder) == 0 || sameList(producesOf(h.contextFor(c.Req.Flow), c.API.Ops[c.Req.Op].Method, c.Req.Op), c.WantOrder) {
			break
		}
	}
	if len(c.Warm) > 0 {
		scratch := mon.New("C08", "quick", 0, 0, 1, "")
		scratch.SetReplayMode()
		for i := range c.Warm {
			runCaseOn(scratch, &Case{API: c.API, Req: c.Warm[i]}, b, h)
		}
	}
	for i := 0; i == 0 || i < c.Repeat; i++ {
		if runCaseOn(m, c, b, h) {
			break
		}
	}
}
