package c08

import (
	"math/rand"
	"strings"

	"verif/props/c07/accept"
)

// ---- produces entries spelled with upper-case letters ----
//
// "All produces lists" are not limited to lower case: IANA registers application/vnd.ms-excel.sheet.macroEnabled.12,
// vendors write application/vnd.Acme.v2+json, a description may say Text/Plain. Media types are case-insensitive
// (RFC 7231 3.1.1.1), so "the producer registered for that media type" is the one registered under the type in
// whatever letter case (the registration below uses the declared spelling, capitals included; tags are the keys in
// lower case). What is judged for such a description: status, the announced Content-Type, the identity of the
// producer that wrote the body / that a Responder was handed, HEAD/204, errors - as everywhere.
//
// Negotiation: the strong oracle of package accept is defined on lower-case ranges and offers. Whether a range and
// an offer that differ in letter case only match is not said by the statement (C07's assumption); a pair of header
// and offer list with upper-case letters is negotiated by the reference (same selection rule) exactly when every
// (range, offer) pair matches verbatim iff it matches with case ignored, and only for headers of the plain form
// 'range[;q=value]'. Otherwise the announced type is taken as negotiated, like for every header outside the
// judged grammar. (The small parser below is a copy of C07's, package c07 cannot be imported: it registers C07.)

// upperTypes: media types with upper-case letters; the last three are case variants of vocabulary entries.
var upperTypes = []string{
	"application/vnd.ms-excel.sheet.macroEnabled.12", "application/vnd.Acme.v2+json", "application/vnd.Acme.Ledger+csv",
	"Text/X-Markdown", "Image/SVG+xml", "application/X-Yaml",
	"Text/Plain", "text/CSV", "Application/XML",
}

func hasUpperCase(types ...string) bool {
	for _, t := range types {
		n := accept.NormOffer(t)
		if n != strings.ToLower(n) {
			return true
		}
	}
	return false
}

func mixedToken(s string) bool {
	if s == "" {
		return false
	}
	for i := 0; i < len(s); i++ {
		b := s[i]
		if !(b >= 'a' && b <= 'z' || b >= 'A' && b <= 'Z' || b >= '0' && b <= '9' || b == '.' || b == '+' || b == '-' || b == '_') {
			return false
		}
	}
	return true
}

func mixedRange(t string) bool {
	parts := strings.Split(t, "/")
	switch {
	case len(parts) != 2:
		return false
	case parts[0] == "*":
		return parts[1] == "*"
	case parts[1] == "*":
		return mixedToken(parts[0])
	}
	return mixedToken(parts[0]) && mixedToken(parts[1])
}

// parseMixed reads field lines of the grammar
//
//	line    = element *( OWS "," OWS element )
//	element = range [ OWS ";" OWS "q=" qvalue ]          (qvalue with at most 5 fraction digits)
//
// where a range is made of tokens over letters of both cases, digits and ". + - _". Anything else is not this
// grammar's business: ok = false.
func parseMixed(lines []string) (ranges []accept.Range, ok bool) {
	for _, l := range lines {
		if l == "" || l[0] == ' ' || l[0] == '\t' || l[len(l)-1] == ' ' || l[len(l)-1] == '\t' {
			return nil, false
		}
		for _, el := range strings.Split(l, ",") {
			el = strings.Trim(el, " \t")
			rg := accept.Range{Type: el}
			if i := strings.IndexByte(el, ';'); i >= 0 {
				rg.Type = strings.TrimRight(el[:i], " \t")
				rest := strings.TrimLeft(el[i+1:], " \t")
				if !strings.HasPrefix(rest, "q=") {
					return nil, false
				}
				rg.HasQ, rg.QText = true, rest[2:]
				if !accept.ValidQ(rg.QText) || accept.FractionDigits(rg.QText) > 5 {
					return nil, false
				}
			}
			if !mixedRange(rg.Type) {
				return nil, false
			}
			ranges = append(ranges, rg)
		}
	}
	if lines != nil && len(ranges) == 0 {
		return nil, false
	}
	return ranges, true
}

func mixedOffers(offers []string) bool {
	for _, o := range offers {
		parts := strings.Split(accept.NormOffer(o), "/")
		if len(parts) != 2 || !mixedToken(parts[0]) || !mixedToken(parts[1]) {
			return false
		}
	}
	return true
}

// caseUnambiguous: every (range, offer) pair matches verbatim exactly when it matches with letter case ignored.
func caseUnambiguous(ranges []accept.Range, offers []string) bool {
	for i := range ranges {
		lr := strings.ToLower(ranges[i].Type)
		for _, o := range offers {
			if (accept.Specificity(ranges[i].Type, o, true) >= 0) != (accept.Specificity(lr, strings.ToLower(o), true) >= 0) {
				return false
			}
		}
	}
	return true
}

// parseJudged is the strict parse of the header when header and offers are inside the lower-case grammar, else the
// mixed-case reading when that applies; why != "" = the negotiation is not judged.
func parseJudged(lines, offers []string) (p accept.Parsed, mixed bool, why string) {
	p = accept.ParseStrict(lines, true)
	switch {
	case !p.Judged:
		why = p.Why
		if why == "" {
			why = "header-outside-grammar"
		}
	case !accept.CleanOffers(offers, true):
		why = "offers-outside-grammar"
	default:
		return p, false, ""
	}
	if why != "upper-case-range" && why != "offers-outside-grammar" {
		return p, false, why
	}
	rs, ok := parseMixed(lines)
	if !ok || !mixedOffers(offers) {
		return p, false, why
	}
	if !caseUnambiguous(rs, offers) {
		return p, false, "mixed-case:range-and-offer-differ-in-case-only"
	}
	return accept.Parsed{Present: lines != nil, Judged: true, Ranges: rs}, true, ""
}

// parseAgrees: header.ParseAccept's reading of the header (values, qualities) passes C07's oracle; in the mixed-case
// reading the letter case of the ranges it hands out is not judged.
func parseAgrees(vals []string, qs []float64, ranges []accept.Range, mixed bool) bool {
	if mixed {
		fv := make([]string, len(vals))
		for i, v := range vals {
			fv[i] = strings.ToLower(v)
		}
		fr := make([]accept.Range, len(ranges))
		for i, rg := range ranges {
			rg.Type = strings.ToLower(rg.Type)
			fr[i] = rg
		}
		vals, ranges = fv, fr
	}
	md, _ := accept.CheckParse(vals, qs, ranges)
	return md == ""
}

// ---- generation ----

var mixedQ = []string{"", "", "", "", "1", "0.9", "0.8", "0.5", "0.5", "0.3", "0.1", "0.01", "0", "0.0"}

// genMixedAccept: a header of the plain form whose ranges name the offers verbatim (exactly, or through the verbatim
// "type/*"), next to "*/*", other upper-case types and lower-case competitors.
func genMixedAccept(r *rand.Rand, offers []string) []string {
	var rs []accept.Range
	for i := 0; i < 1+r.Intn(4); i++ {
		o := accept.NormOffer(offers[r.Intn(len(offers))])
		var rg accept.Range
		switch k := r.Intn(20); {
		case k < 11:
			rg.Type = o
		case k < 14:
			rg.Type = o
			if j := strings.IndexByte(o, '/'); j >= 0 {
				rg.Type = o[:j] + "/*"
			}
		case k < 16:
			rg.Type = "*/*"
		case k < 18:
			rg.Type = upperTypes[r.Intn(len(upperTypes))]
		default:
			rg.Type = accept.Types[r.Intn(len(accept.Types))]
		}
		if q := mixedQ[r.Intn(len(mixedQ))]; q != "" {
			rg.HasQ, rg.QText = true, q
		}
		rs = append(rs, rg)
	}
	h := accept.Header{rs}
	if len(rs) > 1 && r.Intn(6) == 0 {
		cut := 1 + r.Intn(len(rs)-1)
		h = accept.Header{rs[:cut], rs[cut:]}
	}
	return h.Render(accept.OWS(r))
}
