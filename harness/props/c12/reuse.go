package c12

// Kind "reuse": consecutive calls of one Runtime over a REAL http.Transport (keep-alive connections to a loopback
// net/http server), with a response reader that returns before the end of the body.
//
// The statement: "the response body has been closed (after being drained when connection reuse is enabled and its end
// was not yet seen)". A scripted body cannot show whether the drain really happens on the live exchange: a net/http
// body obeys the context of the request, so a drain that starts once the call's context is gone reads nothing. Here
// the body the transport hands out is wrapped (watchedBody) below the connection-reuse wrapper of the library, and
// the verdict is taken from what that body saw at its first Close: its end, or every byte the server has to send.
// Whether the next call then travels over the same connection is what the server saw; it is counted, not judged
// (net/http has a timing rule of its own there: a request body not confirmed written within 50 ms forfeits the reuse).
//
// Nothing is decided by the clock: the server sends the first RespHead bytes of the body and then WAITS for the event
// "the response reader of this call has returned" before it sends the rest, so the rest is outstanding on the network
// when Submit comes to close the body, however fast or slow the machine is.

import (
	"context"
	"fmt"
	"io"
	"log"
	"net"
	"net/http"
	"strconv"
	"strings"
	"sync"
	"sync/atomic"
	"time"

	rt "github.com/go-openapi/runtime"
	"github.com/go-openapi/runtime/client"

	"verif/mon"
)

// watchedBody is the body of the real transport, observed.
type watchedBody struct {
	rc io.ReadCloser
	mu sync.Mutex
	// running account
	n       int64
	sawEOF  bool
	lastErr error
	closes  int
	// the picture at the first Close
	nAtClose   int64
	eofAtClose bool
	errAtClose error
}

func (b *watchedBody) Read(p []byte) (int, error) {
	n, err := b.rc.Read(p)
	b.mu.Lock()
	b.n += int64(n)
	if err == io.EOF {
		b.sawEOF = true
	} else if err != nil {
		b.lastErr = err
	}
	b.mu.Unlock()
	return n, err
}

func (b *watchedBody) Close() error {
	b.mu.Lock()
	b.closes++
	if b.closes == 1 {
		b.nAtClose, b.eofAtClose, b.errAtClose = b.n, b.sawEOF, b.lastErr
	}
	b.mu.Unlock()
	return b.rc.Close()
}

func (b *watchedBody) readSoFar() int64 {
	b.mu.Lock()
	defer b.mu.Unlock()
	return b.n
}

// watchRT wraps the bodies of the responses of the transport below it.
type watchRT struct {
	next   http.RoundTripper
	mu     sync.Mutex
	bodies []*watchedBody
}

func (w *watchRT) RoundTrip(r *http.Request) (*http.Response, error) {
	resp, err := w.next.RoundTrip(r)
	if err == nil && resp != nil && resp.Body != nil {
		wb := &watchedBody{rc: resp.Body}
		resp.Body = wb
		w.mu.Lock()
		w.bodies = append(w.bodies, wb)
		w.mu.Unlock()
	}
	return resp, err
}

func (w *watchRT) taken() []*watchedBody {
	w.mu.Lock()
	defer w.mu.Unlock()
	return append([]*watchedBody(nil), w.bodies...)
}

// reuseServer is a net/http server on a loopback listener that counts connections and requests.
type reuseServer struct {
	ln        net.Listener
	srv       *http.Server
	wg        sync.WaitGroup
	conns     int32
	requests  int32
	completed int32 // answers written to their end
	gates     []chan struct{}
	gateOnce  []sync.Once
	wind      chan struct{}
	windOnce  sync.Once
	mu        sync.Mutex
	closing   bool
}

func (s *reuseServer) open(i int) {
	if i >= 0 && i < len(s.gates) {
		s.gateOnce[i].Do(func() { close(s.gates[i]) })
	}
}

func (s *reuseServer) openAll() {
	for i := range s.gates {
		s.open(i)
	}
}

func (s *reuseServer) windUp() {
	s.windOnce.Do(func() { close(s.wind) })
	s.openAll()
	s.mu.Lock()
	s.closing = true
	s.mu.Unlock()
	_ = s.srv.Close()
	s.wg.Wait()
}

func startReuseServer(calls int, data []byte, head int, chunked bool) (*reuseServer, error) {
	ln, err := net.Listen("tcp", "127.0.0.1:0")
	if err != nil {
		return nil, err
	}
	s := &reuseServer{ln: ln, wind: make(chan struct{}), gates: make([]chan struct{}, calls), gateOnce: make([]sync.Once, calls)}
	for i := range s.gates {
		s.gates[i] = make(chan struct{})
	}
	s.srv = &http.Server{
		ErrorLog: log.New(io.Discard, "", 0),
		ConnState: func(_ net.Conn, st http.ConnState) {
			if st == http.StateNew {
				atomic.AddInt32(&s.conns, 1)
			}
		},
		Handler: http.HandlerFunc(func(w http.ResponseWriter, r *http.Request) {
			s.mu.Lock()
			if s.closing {
				s.mu.Unlock()
				return
			}
			s.wg.Add(1)
			s.mu.Unlock()
			defer s.wg.Done()
			idx := int(atomic.AddInt32(&s.requests, 1)) - 1
			_, _ = io.Copy(io.Discard, r.Body)
			w.Header().Set("Content-Type", "application/json")
			if !chunked {
				w.Header().Set("Content-Length", strconv.Itoa(len(data)))
			}
			rest := data
			if head > 0 && head < len(data) {
				if _, err := w.Write(data[:head]); err != nil {
					return
				}
				if f, ok := w.(http.Flusher); ok {
					f.Flush()
				}
				rest = data[head:]
				var gate chan struct{}
				if idx < len(s.gates) {
					gate = s.gates[idx]
				}
				// the rest is held back until the response reader of this call has returned (or the client has gone, or
				// the case is over)
				select {
				case <-gate:
				case <-r.Context().Done():
				case <-s.wind:
				}
			}
			if _, err := w.Write(rest); err != nil {
				return
			}
			if f, ok := w.(http.Flusher); ok {
				f.Flush()
			}
			atomic.AddInt32(&s.completed, 1)
		}),
	}
	s.wg.Add(1)
	go func() { defer s.wg.Done(); _ = s.srv.Serve(ln) }()
	return s, nil
}

// longDeadlines: the deadline sources of the reuse kind. No deadline is meant to be hit: both are an hour away, so
// that only the ORDER in which Submit gives up its context and closes the body can make a difference.
func longDeadlines(c *Case) (reqTimeout time.Duration, ctx context.Context, cancel context.CancelFunc) {
	switch c.Deadline {
	case "long-context":
		ctx, cancel = context.WithTimeout(context.Background(), longDeadline)
		return 0, ctx, cancel
	case "long-both":
		ctx, cancel = context.WithTimeout(context.Background(), longDeadline)
		return longDeadline, ctx, cancel
	case "cancel-only":
		ctx, cancel = context.WithCancel(context.Background())
		return 0, ctx, cancel
	case "no-deadline":
		return 0, context.Background(), func() {}
	default: // long-request
		return longDeadline, context.Background(), func() {}
	}
}

// needsWholeBody: the reader kinds that cannot return before they were given more than the first head bytes (the
// server must not hold anything back for them: it would wait for a reader that waits for the server).
func needsWholeBody(c *Case, head int) bool {
	if c.Debug { // the response dump reads the body before the reader runs
		return true
	}
	switch {
	case readsAll(c.Reader), strings.HasSuffix(c.Reader, "+close"):
		// (a reader that closes the body itself has it drained there and then: it does not return before the end came)
		return true
	case movesBody(c.Reader):
		return c.WriteFailAt >= head
	}
	return false
}

// submitWatchedLift is submitWatched with a way out for the harness's own hold: when the call is found parked at the
// watchdog, lift() is run once and the call gets another round before the verdict "did not return".
func submitWatchedLift(r *client.Runtime, op *rt.ClientOperation, limit time.Duration, lift func()) (o outcome, lifted bool) {
	done := make(chan outcome, 1)
	go func() {
		var o outcome
		pv, st := mon.Catch(func() { o.res, o.err = r.Submit(op) })
		if pv != nil {
			o.err = fmt.Errorf("PANIC: %v\n%s", pv, st)
		}
		o.returned = true
		done <- o
	}()
	for round := 0; ; round++ {
		select {
		case o := <-done:
			return o, lifted
		case <-time.After(limit):
		}
		dump := allStacks()
		if round < 5 && callStillActiveIn(dump, "verif/props/c12.submitWatchedLift.func1") {
			continue
		}
		if !lifted {
			lifted = true
			lift()
			continue
		}
		if len(dump) > 1<<16 {
			dump = dump[:1<<16]
		}
		select {
		case o := <-done:
			return o, lifted
		default:
		}
		return outcome{returned: false, dump: dump}, lifted
	}
}

func callStillActiveIn(dump, frame string) bool {
	for _, g := range strings.Split(dump, "\n\n") {
		if strings.Contains(g, frame) && strings.Contains(g, "client.(*Runtime).Submit") {
			return !parkedStates[goState(g)]
		}
	}
	return false
}

func runReuse(m *mon.M, c *Case) {
	calls := c.Calls
	if calls < 1 {
		calls = 2
	}
	if calls > 8 {
		calls = 8
	}
	rl := c.RespLen
	if rl <= 0 {
		rl = 1 << 20
	}
	data := []byte(`{"k":"` + strings.Repeat("r", rl) + `"}`)
	total := int64(len(data))
	head := c.RespHead
	if head >= len(data) || needsWholeBody(c, head) {
		head = 0
	}
	srv, err := startReuseServer(calls, data, head, c.Chunked)
	if err != nil {
		m.Class("listen-failed")
		return
	}
	defer srv.windUp()
	h := &harness{}
	defer h.osfilesClosed()
	before := census()
	timeout, ctx, cancel := longDeadlines(c)
	defer cancel()
	tr := &http.Transport{} // keep-alive connections: whether one is used again depends on how the call leaves the body
	defer tr.CloseIdleConnections()
	wrt := &watchRT{next: tr}

	feat := "reader-" + c.Reader + "/" + c.Deadline
	if c.Chunked {
		feat += "/chunked"
	}
	if c.OpClient {
		feat += "/operation-client"
	}
	if c.CtxVia != "" {
		feat += "/context-from-" + c.CtxVia
	}
	if c.ReuseVia != "" {
		feat += "/reuse-" + c.ReuseVia
	}

	var r *client.Runtime
	var first *rt.ClientOperation
	confirmed, drainedAll := 0, true
	for i := 0; i < calls; i++ {
		i := i
		inner := h.reader(c)
		var atReturn int64 = -1
		var wbAtReturn *watchedBody
		reader := rt.ClientResponseReaderFunc(func(resp rt.ClientResponse, cons rt.Consumer) (interface{}, error) {
			defer func() {
				// what the body had given when the reader returned, then the event the server waits for
				if bs := wrt.taken(); len(bs) > 0 {
					wbAtReturn = bs[len(bs)-1]
					atReturn = wbAtReturn.readSoFar()
				}
				srv.open(i)
			}()
			return inner.ReadResponse(resp, cons)
		})
		op := &rt.ClientOperation{ID: "x", Method: "POST", PathPattern: "/things", ConsumesMediaTypes: consumesFor(c), ProducesMediaTypes: []string{"application/json"},
			Params: h.params(c, timeout, false), Reader: reader, Context: ctx}
		if i == 0 {
			r = wire(m, c, srv.ln.Addr().String(), wrt, op)
			debugOn(r, c)
			first = op
		} else {
			op.Client = first.Client
			if c.CtxVia != "" {
				op.Context = nil
			}
		}
		nBefore := len(wrt.taken())
		h.readerCalled = false
		o, lifted := submitWatchedLift(r, op, 200*baseDeadline, func() { srv.open(i) })
		if !o.returned {
			m.Violate("reuse/did-not-return/"+feat, fmt.Sprintf("call %d of %d had not returned although the server holds nothing back any more; case %s\n%s", i+1, calls, c.key(), o.dump), c)
			return
		}
		if harnessFailed(m, h) {
			return
		}
		if lifted {
			// the call was waiting for the part of the body the harness's server held back: the case was scripted badly
			m.Class("reuse-hold-had-to-be-lifted-inconclusive")
			return
		}
		if o.err != nil && strings.HasPrefix(o.err.Error(), "PANIC") {
			m.Violate("reuse/panic/"+feat, o.err.Error(), c)
			return
		}
		bodies := wrt.taken()
		if len(bodies) != nBefore+1 {
			// no response (or more than one exchange) for this call: the loopback exchange itself failed
			m.Class("reuse-exchange-failed-inconclusive")
			return
		}
		wb := bodies[nBefore]
		if !h.readerCalled || wbAtReturn != wb {
			m.Class("reuse-reader-not-reached-inconclusive")
			return
		}
		if c.Reader != "err" && !(movesBody(c.Reader) && h.dest != nil && h.dest.failed) && o.err != nil {
			// a healthy exchange over the loopback that failed: nothing scripted explains it (the machine), and the other
			// kinds judge failures of healthy exchanges on scripted transports
			m.Class("reuse-healthy-call-failed-inconclusive")
			return
		}
		wb.mu.Lock()
		closes, nAtClose, eofAtClose, errAtClose := wb.closes, wb.nAtClose, wb.eofAtClose, wb.errAtClose
		wb.mu.Unlock()
		early := atReturn >= 0 && atReturn < total
		if early {
			confirmed++
			m.Class("reuse-reader-returned-before-the-end")
		} else {
			m.Class("reuse-reader-had-seen-the-end")
		}
		if closes == 0 {
			m.Violate("reuse/response-body-not-closed/"+feat, fmt.Sprintf("call %d of %d: the body handed out by the transport was not closed when Submit returned; case %s", i+1, calls, c.key()), c)
			return
		}
		if c.Reuse && !eofAtClose && nAtClose < total {
			m.Violate("reuse/response-body-closed-undrained/"+feat, fmt.Sprintf("call %d of %d: connection reuse is on, the reader returned after %d of %d body bytes, and the body of the transport was closed after %d bytes without its end having been seen (last read error: %v); the server had the rest ready as soon as the reader returned; case %s", i+1, calls, atReturn, total, nAtClose, errAtClose, c.key()), c)
			return
		}
		if !eofAtClose && nAtClose < total {
			drainedAll = false
		}
	}
	if confirmed > 0 || readsAll(c.Reader) {
		m.NT(c.key())
	}
	conns, reqs := atomic.LoadInt32(&srv.conns), atomic.LoadInt32(&srv.requests)
	switch {
	case !c.Reuse:
		m.Class("reuse-off:connections-not-judged")
	case int(reqs) != calls:
		m.Class("reuse-server-saw-another-number-of-requests")
	case conns == 1:
		m.Class("reuse-on:every-call-travelled-over-one-connection")
	case drainedAll:
		m.Class("probe:reuse-on-every-body-drained-yet-more-than-one-connection")
	}
	tr.CloseIdleConnections()
	srv.windUp()
	if checkReleased(m, c, h, before, "reuse/"+feat) {
		m.Class("reuse-ok")
	}
}
