package c12

import (
	"fmt"
	"sort"
	"strings"

	rt "github.com/go-openapi/runtime"
)

// Payload "file-history": the parameter writer calls SetFileParam several times in one WriteToRequest (a writer that
// first attaches a default and then applies the caller's choice, a wrapper that overrides what the wrapped writer
// set, a helper that re-applies parameters). Case.History spells the calls out:
//
//	call ( "|" call )*        call = field ":" [ id ( "," id )* ]
//
// e.g. "file:a|file:" (one file under "file", then the field set again with no file), "file:a|other:b|file:a,c".
// An id names one source VALUE: the same id in two calls is the same value handed over again.
//
// What the statement owes is independent of what the library makes of the sequence: every source handed over by a
// SetFileParam call that returned nil has been handed over for upload and must have been closed once the call has
// settled -- whichever call of the sequence carried it, whether or not a later call replaced it, for the success and
// for every way the exchange fails. The only thing the harness derives from the sequence itself is which sources
// are still named by the LAST call for their field (they are the ones that can be read, so one of them carries the
// source fault of an upload case): that is the meaning of "sets the files of a field", not an observation.

type historyCall struct {
	field string
	ids   []string
}

func parseHistory(spec string) ([]historyCall, error) {
	if spec == "" {
		return nil, fmt.Errorf("empty history")
	}
	var calls []historyCall
	for _, part := range strings.Split(spec, "|") {
		i := strings.IndexByte(part, ':')
		if i <= 0 {
			return nil, fmt.Errorf("history call %q: want field:ids", part)
		}
		hc := historyCall{field: part[:i]}
		if rest := part[i+1:]; rest != "" {
			for _, id := range strings.Split(rest, ",") {
				if id == "" {
					return nil, fmt.Errorf("history call %q: empty source id", part)
				}
				hc.ids = append(hc.ids, id)
			}
		}
		calls = append(calls, hc)
	}
	return calls, nil
}

// historyFinal: the ids named by the last call for each field, fields in name order (no map order in a verdict).
func historyFinal(calls []historyCall) []string {
	last := map[string][]string{}
	for _, hc := range calls {
		last[hc.field] = hc.ids
	}
	fields := make([]string, 0, len(last))
	for f := range last {
		fields = append(fields, f)
	}
	sort.Strings(fields)
	var ids []string
	seen := map[string]bool{}
	for _, f := range fields {
		for _, id := range last[f] {
			if !seen[id] {
				seen[id] = true
				ids = append(ids, id)
			}
		}
	}
	return ids
}

// historyClass: the input feature class of a history (signatures stay narrow): the number of fields, and what the
// repeated calls do -- a field set again with no file at all ("taken-back"), with a source it already held
// ("handed-over-again"), or with other sources ("replaced"); "set-once" when no field is set twice.
func historyClass(spec string) string {
	calls, err := parseHistory(spec)
	if err != nil {
		return "unparsable"
	}
	held := map[string][]string{}
	setBefore := map[string]bool{}
	takenBack, again, replaced := false, false, false
	for _, hc := range calls {
		if setBefore[hc.field] {
			switch {
			case len(hc.ids) == 0:
				takenBack = true
			default:
				kept := false
				for _, id := range hc.ids {
					for _, old := range held[hc.field] {
						if id == old {
							kept = true
						}
					}
				}
				if kept {
					again = true
				} else {
					replaced = true
				}
			}
		}
		setBefore[hc.field] = true
		held[hc.field] = hc.ids
	}
	kind := "set-once"
	switch {
	case takenBack:
		kind = "taken-back"
	case again:
		kind = "handed-over-again"
	case replaced:
		kind = "replaced"
	}
	return fmt.Sprintf("%d-field-%s", len(setBefore), kind)
}

// payloadFeat: the payload part of a signature.
func payloadFeat(c *Case) string {
	if c.Payload == "file-history" {
		return "file-history:" + historyClass(c.History)
	}
	return c.Payload
}

// historyHasUploaded: some source is still named by the last call for its field (it can carry a source fault).
func historyHasUploaded(spec string) bool { return historyUploaded(spec) > 0 }

// historyUploaded: the number of sources still named by the last call for their field.
func historyUploaded(spec string) int {
	calls, err := parseHistory(spec)
	if err != nil {
		return 0
	}
	return len(historyFinal(calls))
}

// applyHistory plays the calls of c.History on req. Sources are registered with the harness (and so judged) once
// the SetFileParam call that carried them has returned nil; a call that answers with an error hands nothing over
// (the harness's sources have no way to make SetFileParam fail: it is filed as scaffolding).
func (h *harness) applyHistory(c *Case, req rt.ClientRequest) error {
	calls, err := parseHistory(c.History)
	if err != nil {
		h.harnessErr = err
		return errHarness
	}
	final := historyFinal(calls)
	carrier := ""
	if len(final) > 0 {
		carrier = final[c.FaultSrc%len(final)]
	}
	byID := map[string]*source{}
	registered := map[string]bool{}
	for ci, hc := range calls {
		files := make([]rt.NamedReadCloser, 0, len(hc.ids))
		for _, id := range hc.ids {
			s := byID[id]
			if s == nil {
				if id == carrier {
					s = newSource(id+".bin", c.Len, failAtFor(c), c.Chunk)
				} else {
					s = newSource(id+".txt", 30, -1, 0)
				}
				byID[id] = s
			}
			files = append(files, s)
		}
		var perr error
		if len(files) == 0 && ci%2 == 1 {
			// both spellings of "no file": no variadic argument at all (odd positions), and an empty slice
			perr = req.SetFileParam(hc.field)
		} else {
			perr = req.SetFileParam(hc.field, files...)
		}
		if perr != nil {
			h.harnessErr = fmt.Errorf("SetFileParam(%q, %d sources) answered %v", hc.field, len(files), perr)
			return errHarness
		}
		for _, id := range hc.ids {
			if !registered[id] {
				registered[id] = true
				h.sources = append(h.sources, byID[id])
			}
		}
	}
	return nil
}

// histories: the sequences of the enumeration. One field: set again with no file, with the same file, with more,
// with fewer, with a set that keeps one; three calls; no file first. Two fields: the same, interleaved.
var histories = []string{
	// one field, two calls
	"file:a|file:",
	"file:a,b|file:",
	"file:a|file:a",
	"file:a,b|file:a,b",
	"file:a|file:b,c",
	"file:a|file:a,b",
	"file:a,b|file:c",
	"file:a,b|file:b",
	"file:|file:a",
	// one field, three calls
	"file:a|file:b|file:c",
	"file:a|file:b|file:",
	"file:a|file:|file:b",
	"file:a|file:|file:",
	"file:a|file:a|file:a",
	// two fields
	"file:a|other:b|file:|other:",
	"file:a|other:b|other:",
	"other:a|file:b|other:",
	"file:a|other:b,c|file:",
	"file:a|other:b|file:c|other:d,e",
	"file:a|other:b|file:a|other:b",
	"file:a|other:b,c|other:c|file:d",
	"file:a|other:b|file:c|other:|file:",
}
