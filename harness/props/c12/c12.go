// Package c12 enumerates fault placements around client.Runtime.Submit and monitors termination,
// release of what the call holds (upload sources, response body, goroutines) and fault surfacing.
package c12

import (
	"bufio"
	"bytes"
	"context"
	"encoding/json"
	"errors"
	"fmt"
	"io"
	"net"
	"net/http"
	"regexp"
	"runtime"
	"strings"
	"sync"
	"sync/atomic"
	"time"

	rt "github.com/go-openapi/runtime"
	"github.com/go-openapi/runtime/client"
	"github.com/go-openapi/runtime/verifhook"
	"github.com/go-openapi/strfmt"

	"verif/mon"
)

func init() {
	mon.Register(&mon.Property{
		ID:    "C12",
		Level: "fault_enumeration",
		Race:  true,
		Rule: "enumeration of fault placements around Submit: (presend) parameter-writer / auth-writer / unparsable URL / invalid method errors after upload sources were handed over; (upload) read error at every byte offset of file and stream sources of every length 0..L; " +
			"(roundtrip) scripted RoundTripper failing before/after consuming the request body, and scripted response bodies x reader behaviours x connection reuse; (server) a raw loopback TCP server that closes, resets, stalls or truncates at every byte offset of a canned response (Content-Length and chunked); " +
			"(cancel) context cancelled at each hook point of Submit; (drain) every Read-size sequence then Close on the connection-reuse body wrapper. Monitors: close counters on every source and response body, bytes left unread at Close, goroutine census on client frames (before/after, settle loop), what the fault point actually delivered, Submit's error. " +
			"non-trivial = a case whose fault was confirmed to have fired where scripted; distinct by (kind, fault, offset, payload, reuse, deadline source)",
		Assumptions: []string{
			"'no later than the deadline' is judged as termination: Submit must return while the fault is still held; a call that has not returned after 200x its effective deadline is a violation (non-termination is what the property forbids)",
			"a scripted RoundTripper honours the RoundTripper contract (it closes the request body)",
			"goroutines are attributed to the call by frames of package github.com/go-openapi/runtime/client; net/http's own connection goroutines are not counted",
			"when the response reader does not read the body to its end, 'complete response obtained' is not decidable by the call: server-fault cases use a reader that consumes the body through the consumer",
		},
		MinNontrivial: 100,
		QuickShards:   4,
		ThorShards:    16,
		Run:           run,
		Replay:        replay,
		Exhaustive:    func(string) bool { return false },
	})
}

// Case is one fault placement.
type Case struct {
	Kind    string `json:"kind"` // presend | upload | roundtrip | server | cancel | drain
	Payload string `json:"payload,omitempty"`
	Fault   string `json:"fault,omitempty"`
	Offset  int    `json:"offset,omitempty"`
	Len     int    `json:"len,omitempty"`
	Chunk   int    `json:"chunk,omitempty"`
	Reuse   bool   `json:"reuse,omitempty"`
	// ReuseVia: how connection reuse is switched on: "" New + EnableConnectionReuse before the first call;
	// "with-client" NewWithClient + EnableConnectionReuse; "after-first-call" enabled once a first call has been made
	ReuseVia string `json:"reuseVia,omitempty"`
	// RespLen > 0: size of the scripted response body (otherwise Len)
	RespLen int `json:"respLen,omitempty"`
	// RespCT: Content-Type of the scripted response ("" = application/json)
	RespCT string `json:"respContentType,omitempty"`
	// RespStatus (0 = 200), RespKnownLen (ContentLength = len(body) instead of -1), RespFailAt (> 0: the
	// scripted response body fails with an error once that many bytes were read)
	RespStatus   int  `json:"respStatus,omitempty"`
	RespKnownLen bool `json:"respKnownLength,omitempty"`
	RespFailAt   int  `json:"respFailAt,omitempty"`
	// Debug: Runtime.Debug on (the request and the response are dumped through a discarding logger)
	Debug bool `json:"debug,omitempty"`
	// AuthGetBody: the operation has an auth writer that calls GetBody (cancel kind: reaches cl.getbody.copy)
	AuthGetBody bool `json:"authGetBody,omitempty"`
	// CloseFails: Close of every upload source reports an error (after releasing the source)
	CloseFails bool `json:"closeFails,omitempty"`
	// FaultSrc: which upload source of a multi-file payload carries the fault (0 first, 1 second)
	FaultSrc  int    `json:"faultSource,omitempty"`
	Deadline  string `json:"deadline,omitempty"` // request | context | both-request-shorter | both-context-shorter
	Reader    string `json:"reader,omitempty"`   // all | none | half | err
	Chunked   bool   `json:"chunked,omitempty"`
	HookPoint string `json:"hookPoint,omitempty"`
	Sizes     []int  `json:"sizes,omitempty"`
	EOFWith   bool   `json:"eofWithData,omitempty"`
	// Perturb > 0: a PRNG-driven callback yields / sleeps at the client hook points during the case
	Perturb int `json:"perturb,omitempty"`
}

func (c *Case) key() string {
	return fmt.Sprintf("%s|%s|%s|%d|%d|%d|%v|%s|%s|%v|%s|%v|%v|%d", c.Kind, c.Payload, c.Fault, c.Offset, c.Len, c.Chunk, c.Reuse, c.Deadline, c.Reader, c.Chunked, c.HookPoint, c.Sizes, c.EOFWith, c.Perturb) + "|" + c.ReuseVia + fmt.Sprintf("|%d|%s|%v|%d|%d|%v|%d|%v|%v", c.RespLen, c.RespCT, c.CloseFails, c.FaultSrc, c.RespStatus, c.RespKnownLen, c.RespFailAt, c.Debug, c.AuthGetBody)
}

// switchRT serves a first, benign exchange itself and hands every later request to next.
type switchRT struct {
	next   http.RoundTripper
	warmed int32
}

func (s *switchRT) RoundTrip(r *http.Request) (*http.Response, error) {
	if atomic.CompareAndSwapInt32(&s.warmed, 0, 1) {
		if r.Body != nil {
			_, _ = io.Copy(io.Discard, r.Body)
			r.Body.Close()
		}
		return &http.Response{StatusCode: 200, Status: "200 OK", Proto: "HTTP/1.1", ProtoMajor: 1, ProtoMinor: 1,
			Header: http.Header{"Content-Type": {"application/json"}}, Body: io.NopCloser(strings.NewReader(`{"warm":1}`)), ContentLength: -1, Request: r}, nil
	}
	return s.next.RoundTrip(r)
}

// newRuntime builds the client runtime of a case over the given transport, switching connection reuse
// on through the entry point the case names.
func newRuntime(c *Case, host string, tr http.RoundTripper) *client.Runtime {
	if !c.Reuse {
		r := client.New(host, "/api", []string{"http"})
		r.Transport = tr
		return r
	}
	switch c.ReuseVia {
	case "with-client":
		r := client.NewWithClient(host, "/api", []string{"http"}, &http.Client{Transport: tr})
		r.EnableConnectionReuse()
		return r
	case "after-first-call":
		r := client.New(host, "/api", []string{"http"})
		r.Transport = &switchRT{next: tr}
		warm := &rt.ClientOperation{ID: "warm", Method: "GET", PathPattern: "/warm", ProducesMediaTypes: []string{"application/json"},
			Params: rt.ClientRequestWriterFunc(func(rt.ClientRequest, strfmt.Registry) error { return nil }),
			Reader: rt.ClientResponseReaderFunc(func(resp rt.ClientResponse, _ rt.Consumer) (interface{}, error) {
				_, _ = io.Copy(io.Discard, resp.Body())
				return nil, nil
			}), Context: context.Background()}
		_, _ = r.Submit(warm)
		r.EnableConnectionReuse()
		return r
	}
	r := client.New(host, "/api", []string{"http"})
	r.Transport = tr
	r.EnableConnectionReuse()
	return r
}

// ---------- scripted collaborators ----------

var errInjected = errors.New("injected-fault")

type source struct {
	name       string
	data       []byte
	pos        int
	failAt     int // -1: never
	chunk      int
	closed     int32
	readsAfter int32
	closeErr   bool
	mu         sync.Mutex
}

func newSource(name string, n, failAt, chunk int) *source {
	d := make([]byte, n)
	for i := range d {
		d[i] = byte('a' + i%23)
	}
	return &source{name: name, data: d, failAt: failAt, chunk: chunk}
}

func (s *source) Name() string { return s.name }
func (s *source) Read(p []byte) (int, error) {
	s.mu.Lock()
	defer s.mu.Unlock()
	if atomic.LoadInt32(&s.closed) > 0 {
		atomic.AddInt32(&s.readsAfter, 1)
		return 0, errors.New("read after close")
	}
	if len(p) == 0 {
		return 0, nil
	}
	limit := len(s.data)
	if s.failAt >= 0 && s.failAt < limit {
		limit = s.failAt
	}
	if s.pos >= limit {
		if s.failAt >= 0 && s.pos >= s.failAt {
			return 0, errInjected
		}
		return 0, io.EOF
	}
	n := limit - s.pos
	if n > len(p) {
		n = len(p)
	}
	if s.chunk > 0 && n > s.chunk {
		n = s.chunk
	}
	copy(p, s.data[s.pos:s.pos+n])
	s.pos += n
	return n, nil
}
func (s *source) Close() error {
	atomic.AddInt32(&s.closed, 1)
	if s.closeErr {
		return errors.New("close reports an error (the source is released all the same)")
	}
	return nil
}

// plainReader hides Close (an io.Reader payload).
type plainReader struct{ s *source }

func (p plainReader) Read(b []byte) (int, error) { return p.s.Read(b) }

type respBody struct {
	data    []byte
	pos     int
	chunk   int // >0: at most that many bytes per Read (short reads while more remain)
	eofWith bool
	failAt  int // > 0: reads fail with errInjected once pos reaches failAt
	failed  bool
	closed  int32
	sawEOF  bool
	mu      sync.Mutex
}

func (b *respBody) Read(p []byte) (int, error) {
	b.mu.Lock()
	defer b.mu.Unlock()
	if b.closed > 0 {
		return 0, errors.New("read after close")
	}
	if b.failAt > 0 && b.pos >= b.failAt {
		b.failed = true
		return 0, errInjected
	}
	if b.pos >= len(b.data) {
		b.sawEOF = true
		return 0, io.EOF
	}
	if b.failAt > 0 && len(p) > b.failAt-b.pos {
		p = p[:b.failAt-b.pos]
	}
	if b.chunk > 0 && len(p) > b.chunk {
		p = p[:b.chunk]
	}
	n := copy(p, b.data[b.pos:])
	b.pos += n
	if b.eofWith && b.pos >= len(b.data) && n > 0 {
		b.sawEOF = true
		return n, io.EOF
	}
	return n, nil
}
func (b *respBody) Close() error { atomic.AddInt32(&b.closed, 1); return nil }
func (b *respBody) left() int {
	b.mu.Lock()
	defer b.mu.Unlock()
	return len(b.data) - b.pos
}

type scriptedRT struct {
	status   int    // 0 = 200
	knownLen bool   // ContentLength = len(body) instead of -1
	ct       string // Content-Type of the answer ("" = application/json)
	mode     string // ok | err-before | err-after | err-mid
	body     *respBody
	consumed int64
	bodyErr  error
	calls    int32
}

func (s *scriptedRT) RoundTrip(r *http.Request) (*http.Response, error) {
	atomic.AddInt32(&s.calls, 1)
	if s.mode == "err-before" {
		if r.Body != nil {
			r.Body.Close()
		}
		return nil, errInjected
	}
	if r.Body != nil {
		if s.mode == "err-mid" {
			buf := make([]byte, 10)
			n, _ := io.ReadFull(r.Body, buf)
			s.consumed = int64(n)
			r.Body.Close()
			return nil, errInjected
		}
		n, err := io.Copy(io.Discard, r.Body)
		s.consumed = n
		s.bodyErr = err
		r.Body.Close()
		if err != nil {
			return nil, err
		}
	}
	if s.mode == "err-after" || s.mode == "err-mid" {
		return nil, errInjected
	}
	ct := s.ct
	if ct == "" {
		ct = "application/json"
	}
	st := s.status
	if st == 0 {
		st = 200
	}
	cl := int64(-1)
	if s.knownLen {
		cl = int64(len(s.body.data))
	}
	return &http.Response{StatusCode: st, Status: fmt.Sprintf("%d %s", st, http.StatusText(st)), Proto: "HTTP/1.1", ProtoMajor: 1, ProtoMinor: 1,
		Header: http.Header{"Content-Type": {ct}}, Body: s.body, ContentLength: cl, Request: r}, nil
}

// ---------- goroutine census ----------

var gidRe = regexp.MustCompile(`^goroutine (\d+) `)

func census() map[string]string {
	buf := make([]byte, 1<<20)
	for {
		n := runtime.Stack(buf, true)
		if n < len(buf) {
			buf = buf[:n]
			break
		}
		buf = make([]byte, 2*len(buf))
	}
	out := map[string]string{}
	for _, g := range strings.Split(string(buf), "\n\n") {
		if !strings.Contains(g, "github.com/go-openapi/runtime/client.") {
			continue
		}
		if strings.Contains(g, "verif/props/c12.submitWatched") { // a call the harness itself is still making
			continue
		}
		if m := gidRe.FindStringSubmatch(g); m != nil {
			out[m[1]] = g
		}
	}
	return out
}

// leaked waits (bounded) for the goroutines that appeared during the call to go away.
func leaked(before map[string]string) map[string]string {
	var cur map[string]string
	for i := 0; i < 300; i++ {
		cur = census()
		for id := range before {
			delete(cur, id)
		}
		if len(cur) == 0 {
			return nil
		}
		if i < 50 {
			runtime.Gosched()
		} else {
			time.Sleep(2 * time.Millisecond)
		}
	}
	return cur
}

// ---------- running Submit under a watchdog ----------

type outcome struct {
	res      interface{}
	err      error
	returned bool
	dump     string
}

func submitWatched(r *client.Runtime, op *rt.ClientOperation, limit time.Duration) outcome {
	done := make(chan outcome, 1)
	go func() {
		var o outcome
		pv, st := mon.Catch(func() { o.res, o.err = r.Submit(op) })
		if pv != nil {
			o.err = fmt.Errorf("PANIC: %v\n%s", pv, st)
		}
		o.returned = true
		done <- o
	}()
	select {
	case o := <-done:
		return o
	case <-time.After(limit):
		buf := make([]byte, 1<<16)
		n := runtime.Stack(buf, true)
		return outcome{returned: false, dump: string(buf[:n])}
	}
}

const baseDeadline = 60 * time.Millisecond

// longDeadline is the longer of two deadlines: far beyond the 200 x baseDeadline watchdog, so that a call
// which honours the wrong one shows as "did not return while the fault was held".
const longDeadline = time.Hour

func deadlines(c *Case) (reqTimeout time.Duration, ctx context.Context, cancel context.CancelFunc) {
	ctx, cancel = context.Background(), func() {}
	switch c.Deadline {
	case "context":
		ctx, cancel = context.WithTimeout(context.Background(), baseDeadline)
		return 0, ctx, cancel
	case "both-request-shorter":
		ctx, cancel = context.WithTimeout(context.Background(), longDeadline)
		return baseDeadline, ctx, cancel
	case "both-context-shorter":
		ctx, cancel = context.WithTimeout(context.Background(), baseDeadline)
		return longDeadline, ctx, cancel
	case "negative-request":
		// a request timeout that is already used up (SetTimeout(time.Until(budgetEnd)) past the budget)
		return -time.Second, ctx, cancel
	default:
		return baseDeadline, ctx, cancel
	}
}

type nullLogger struct{}

func (nullLogger) Printf(string, ...interface{}) {}
func (nullLogger) Debugf(string, ...interface{}) {}

func debugOn(r *client.Runtime, c *Case) {
	if c.Debug {
		r.SetLogger(nullLogger{})
		r.Debug = true // (SetDebug would also switch the middleware package's global flag)
	}
}

type harness struct {
	sources []*source
	stream  *source
	gotBody []byte
	readErr error
}

// params builds the ClientRequestWriter for a payload kind.
func (h *harness) params(c *Case, timeout time.Duration, failWriter bool) rt.ClientRequestWriter {
	return rt.ClientRequestWriterFunc(func(req rt.ClientRequest, _ strfmt.Registry) error {
		_ = req.SetTimeout(timeout)
		switch c.Payload {
		case "json":
			_ = req.SetBodyParam(map[string]string{"k": strings.Repeat("v", c.Len)})
		case "reader":
			h.stream = newSource("stream", c.Len, failAtFor(c), c.Chunk)
			_ = req.SetBodyParam(plainReader{h.stream})
		case "readcloser":
			h.stream = newSource("stream", c.Len, failAtFor(c), c.Chunk)
			_ = req.SetBodyParam(io.ReadCloser(h.stream))
		case "file":
			s := newSource("dir/f1.bin", c.Len, failAtFor(c), c.Chunk)
			h.sources = append(h.sources, s)
			_ = req.SetFileParam("file", s)
		case "files+fields":
			s1 := newSource("a.txt", c.Len, failAtFor(c), c.Chunk)
			s2 := newSource("b.txt", 30, -1, 0)
			if c.FaultSrc == 1 { // the second file of the field carries the fault
				s1 = newSource("a.txt", 30, -1, 0)
				s2 = newSource("b.txt", c.Len, failAtFor(c), c.Chunk)
			}
			h.sources = append(h.sources, s1, s2)
			_ = req.SetFormParam("field", "v1", "v2")
			_ = req.SetFileParam("file", s1, s2)
		case "files-2-fields":
			s1 := newSource("a.txt", 30, -1, 0)
			s2 := newSource("b.txt", c.Len, failAtFor(c), c.Chunk)
			s3 := newSource("c.txt", 30, -1, 0)
			if c.FaultSrc == 0 {
				s1, s2 = newSource("a.txt", c.Len, failAtFor(c), c.Chunk), newSource("b.txt", 30, -1, 0)
			}
			h.sources = append(h.sources, s1, s2, s3)
			_ = req.SetFileParam("file", s1)
			_ = req.SetFileParam("other", s2, s3)
		}
		for _, src := range h.sources {
			src.closeErr = c.CloseFails
		}
		if failWriter {
			return errInjected
		}
		return nil
	})
}

func failAtFor(c *Case) int {
	if c.Kind == "upload" {
		return c.Offset
	}
	return -1
}

func (h *harness) reader(c *Case) rt.ClientResponseReader {
	return rt.ClientResponseReaderFunc(func(resp rt.ClientResponse, cons rt.Consumer) (interface{}, error) {
		switch c.Reader {
		case "none":
			return "ignored", nil
		case "half":
			buf := make([]byte, 8)
			_, _ = resp.Body().Read(buf)
			return "half", nil
		case "err":
			return nil, errors.New("reader-refuses")
		default:
			b, err := io.ReadAll(resp.Body())
			h.gotBody, h.readErr = b, err
			if err != nil {
				return nil, err
			}
			var v interface{}
			if err := cons.Consume(bytes.NewReader(b), &v); err != nil {
				return nil, err
			}
			return v, nil
		}
	})
}

func consumesFor(c *Case) []string {
	switch c.Payload {
	case "file", "files+fields", "files-2-fields":
		return []string{"multipart/form-data"}
	case "reader", "readcloser":
		return []string{"application/octet-stream"}
	}
	return []string{"application/json"}
}

func checkReleased(m *mon.M, c *Case, h *harness, before map[string]string, sigPrefix string) bool {
	ok := true
	// goroutines first: the settle loop also gives a finishing upload goroutine the time to run its deferred closes
	lk := leaked(before)
	if len(lk) > 0 {
		var sb strings.Builder
		for _, g := range lk {
			sb.WriteString(g)
			sb.WriteString("\n\n")
			if sb.Len() > 3000 {
				break
			}
		}
		m.Violate(sigPrefix+"/goroutine-left-behind", fmt.Sprintf("%d goroutine(s) with client frames remain after the call; case %s\n%s", len(lk), c.key(), sb.String()), c)
		ok = false
	}
	for _, s := range h.sources {
		if atomic.LoadInt32(&s.closed) == 0 {
			m.Violate(sigPrefix+"/upload-source-not-closed", fmt.Sprintf("file %q handed over for upload was never closed; case %s", s.name, c.key()), c)
			ok = false
			break
		}
	}
	return ok
}

// ---------- case kinds ----------

func runCase(m *mon.M, c *Case) {
	m.Eval(1)
	if c.Perturb > 0 && c.Kind != "cancel" && c.Kind != "drain" {
		var mu sync.Mutex
		state := uint64(c.Perturb)*2654435761 + 12345
		verifhook.Set(func(string) {
			mu.Lock()
			state = state*6364136223846793005 + 1442695040888963407
			d := state >> 60
			mu.Unlock()
			switch {
			case d < 6:
			case d < 12:
				runtime.Gosched()
			default:
				time.Sleep(time.Duration(20*d) * time.Microsecond)
			}
		})
		defer verifhook.Set(nil)
		m.Class("schedule-perturbed")
	}
	switch c.Kind {
	case "presend":
		runPresend(m, c)
	case "upload":
		runUpload(m, c)
	case "roundtrip":
		runRoundtrip(m, c)
	case "server":
		runServer(m, c)
	case "cancel":
		runCancel(m, c)
	case "drain":
		runDrain(m, c)
	}
}

func runPresend(m *mon.M, c *Case) {
	h := &harness{}
	before := census()
	srt := &scriptedRT{mode: "ok", body: &respBody{data: []byte(`{"ok":1}`)}}
	base := "/api"
	pattern := "/things"
	method := "POST"
	var auth rt.ClientAuthInfoWriter
	failWriter := false
	switch c.Fault {
	case "writer-error":
		failWriter = true
	case "auth-error":
		auth = rt.ClientAuthInfoWriterFunc(func(rt.ClientRequest, strfmt.Registry) error { return errInjected })
	case "auth-error-after-getbody":
		auth = rt.ClientAuthInfoWriterFunc(func(r rt.ClientRequest, _ strfmt.Registry) error { _ = r.GetBody(); return errInjected })
	case "bad-base-path":
		base = "/%zz"
	case "bad-path-pattern":
		pattern = "/%zz"
	case "bad-method":
		method = "PO ST"
	}
	consumes := consumesFor(c)
	switch c.Fault { // a value payload for which no producer can encode the chosen media type: a parameter error before sending
	case "value-body-on-urlencoded":
		consumes = []string{"application/x-www-form-urlencoded", "application/json"}
	case "value-body-on-multipart":
		consumes = []string{"multipart/form-data"}
	case "unregistered-media-type":
		consumes = []string{"application/vnd.nobody-registered", "application/json"}
	}
	r := client.New("example.invalid", base, []string{"http"})
	if c.Fault == "producer-fails" {
		r.Producers["application/json"] = rt.ProducerFunc(func(w io.Writer, _ interface{}) error {
			_, _ = w.Write([]byte(`{"half":`))
			return errInjected
		})
	}
	if c.Fault == "bad-base-path" {
		r.BasePath = base
	}
	r.Transport = srt
	if c.Reuse {
		r.EnableConnectionReuse()
	}
	debugOn(r, c)
	op := &rt.ClientOperation{ID: "x", Method: method, PathPattern: pattern, ConsumesMediaTypes: consumes, ProducesMediaTypes: []string{"application/json"},
		Params: h.params(c, baseDeadline, failWriter), Reader: h.reader(c), AuthInfo: auth, Context: context.Background()}
	o := submitWatched(r, op, 200*baseDeadline)
	feat := c.Fault + "/" + c.Payload
	if !o.returned {
		m.Violate("presend/did-not-return/"+feat, "Submit did not return; case "+c.key()+"\n"+o.dump, c)
		return
	}
	m.NT(c.key())
	if o.err == nil {
		m.Violate("presend/no-error/"+feat, "Submit returned nil error although request construction failed; case "+c.key(), c)
		return
	}
	if strings.HasPrefix(o.err.Error(), "PANIC") {
		m.Violate("presend/panic/"+feat, o.err.Error(), c)
		return
	}
	if atomic.LoadInt32(&srt.calls) != 0 {
		m.Violate("presend/sent-anyway/"+feat, "the transport was invoked although request construction failed", c)
		return
	}
	if checkReleased(m, c, h, before, "presend/"+feat) {
		m.Class("presend-ok")
	}
}

func runUpload(m *mon.M, c *Case) {
	h := &harness{}
	before := census()
	srt := &scriptedRT{mode: "ok", body: &respBody{data: []byte(`{"ok":1}`)}}
	r := client.New("example.invalid", "/api", []string{"http"})
	r.Transport = srt
	if c.Reuse {
		r.EnableConnectionReuse()
	}
	debugOn(r, c)
	var auth rt.ClientAuthInfoWriter
	if c.Fault == "with-getbody-auth" {
		auth = rt.ClientAuthInfoWriterFunc(func(r rt.ClientRequest, _ strfmt.Registry) error { _ = r.GetBody(); return nil })
	}
	op := &rt.ClientOperation{ID: "x", Method: "POST", PathPattern: "/things", ConsumesMediaTypes: consumesFor(c), ProducesMediaTypes: []string{"application/json"},
		Params: h.params(c, baseDeadline, false), Reader: h.reader(c), AuthInfo: auth, Context: context.Background()}
	o := submitWatched(r, op, 200*baseDeadline)
	feat := c.Payload
	if c.Fault != "" {
		feat += "+" + c.Fault
	}
	if !o.returned {
		m.Violate("upload/did-not-return/"+feat, "Submit did not return; case "+c.key()+"\n"+o.dump, c)
		return
	}
	faulty := c.Offset >= 0 && c.Offset < c.Len
	if c.Offset == c.Len && c.Offset >= 0 {
		faulty = true // error instead of EOF at the very end
	}
	m.NT(c.key())
	if o.err != nil && strings.HasPrefix(o.err.Error(), "PANIC") {
		m.Violate("upload/panic/"+feat, o.err.Error(), c)
		return
	}
	if faulty && o.err == nil {
		m.Violate("upload/failing-source-reported-as-success/"+feat, fmt.Sprintf("source fails at byte %d of %d but Submit returned (%v, nil); transport consumed %d bytes (body error: %v); case %s", c.Offset, c.Len, o.res, srt.consumed, srt.bodyErr, c.key()), c)
		return
	}
	if !faulty && o.err != nil {
		m.Violate("upload/healthy-source-failed/"+feat, fmt.Sprintf("no fault scripted but Submit failed: %v; case %s", o.err, c.key()), c)
		return
	}
	if checkReleased(m, c, h, before, "upload/"+feat) {
		m.Class("upload-ok")
	}
}

func runRoundtrip(m *mon.M, c *Case) {
	h := &harness{}
	before := census()
	rl := c.Len
	if c.RespLen > 0 {
		rl = c.RespLen
	}
	body := &respBody{data: []byte(`{"k":"` + strings.Repeat("r", rl) + `"}`), eofWith: c.EOFWith, failAt: c.RespFailAt}
	srt := &scriptedRT{mode: c.Fault, body: body, ct: c.RespCT, status: c.RespStatus, knownLen: c.RespKnownLen}
	r := newRuntime(c, "example.invalid", srt)
	debugOn(r, c)
	op := &rt.ClientOperation{ID: "x", Method: "POST", PathPattern: "/things", ConsumesMediaTypes: consumesFor(c), ProducesMediaTypes: []string{"application/json"},
		Params: h.params(c, baseDeadline, false), Reader: h.reader(c), Context: context.Background()}
	o := submitWatched(r, op, 200*baseDeadline)
	feat := c.Fault + "/" + c.Payload + "/reader-" + c.Reader
	if !o.returned {
		m.Violate("roundtrip/did-not-return/"+feat, "Submit did not return; case "+c.key()+"\n"+o.dump, c)
		return
	}
	m.NT(c.key())
	if o.err != nil && strings.HasPrefix(o.err.Error(), "PANIC") {
		m.Violate("roundtrip/panic/"+feat, o.err.Error(), c)
		return
	}
	if c.Fault != "ok" {
		if o.err == nil {
			m.Violate("roundtrip/transport-error-swallowed/"+feat, "the transport failed but Submit returned nil error; case "+c.key(), c)
			return
		}
	} else {
		if c.RespCT != "" {
			// the answer's Content-Type cannot be parsed, or nothing is registered for it: the exchange ends with
			// an error before the reader runs -- and the body still has to be closed (drained under reuse)
			feat += "/unusable-response-content-type"
			if o.err == nil {
				m.Violate("roundtrip/unusable-content-type-accepted/"+feat, fmt.Sprintf("response Content-Type %q but Submit returned nil error", c.RespCT), c)
				return
			}
		}
		if c.RespCT == "" && c.Reader == "err" && o.err == nil {
			m.Violate("roundtrip/reader-error-swallowed/"+feat, "the response reader failed but Submit returned nil error", c)
			return
		}
		if c.RespFailAt > 0 && c.RespCT == "" && c.Reader == "all" && o.err == nil {
			m.Violate("roundtrip/response-body-error-swallowed/"+feat, fmt.Sprintf("the response body failed after %d of %d bytes but Submit returned nil error", c.RespFailAt, len(body.data)), c)
			return
		}
		if c.RespFailAt == 0 && c.RespCT == "" && c.Reader != "err" && o.err != nil {
			m.Violate("roundtrip/healthy-exchange-failed/"+feat, fmt.Sprintf("Submit failed: %v; case %s", o.err, c.key()), c)
			return
		}
		if c.RespFailAt == 0 && c.RespCT == "" && c.Reader == "all" && string(h.gotBody) != string(body.data) {
			m.Violate("roundtrip/body-altered/"+feat, fmt.Sprintf("reader saw %q, sent %q", h.gotBody, body.data), c)
			return
		}
		if atomic.LoadInt32(&body.closed) == 0 {
			m.Violate("roundtrip/response-body-not-closed/"+feat, "the response body was not closed; case "+c.key(), c)
			return
		}
		if c.Reuse && c.RespFailAt > 0 && !body.failed && !body.sawEOF {
			m.Violate("roundtrip/response-body-closed-undrained/"+feat, fmt.Sprintf("connection reuse is on and the body was closed after %d bytes without reading on to its end (it would have failed at byte %d); case %s", len(body.data)-body.left(), c.RespFailAt, c.key()), c)
			return
		}
		if c.Reuse && c.RespFailAt == 0 && !body.sawEOF && body.left() > 0 {
			m.Violate("roundtrip/response-body-closed-undrained/"+feat, fmt.Sprintf("connection reuse is on, the end of the body was not seen, and %d bytes were left unread at Close; case %s", body.left(), c.key()), c)
			return
		}
	}
	if checkReleased(m, c, h, before, "roundtrip/"+feat) {
		m.Class("roundtrip-ok")
	}
}

// ---------- raw TCP fault server ----------

type faultServer struct {
	ln      net.Listener
	release chan struct{}
	sentCh  chan int
}

func cannedResponse(chunked bool) []byte {
	body := `{"k":"0123456789abcdefghij"}`
	if chunked {
		half := len(body) / 2
		return []byte(fmt.Sprintf("HTTP/1.1 200 OK\r\nContent-Type: application/json\r\nTransfer-Encoding: chunked\r\n\r\n%x\r\n%s\r\n%x\r\n%s\r\n0\r\n\r\n", half, body[:half], len(body)-half, body[half:]))
	}
	return []byte(fmt.Sprintf("HTTP/1.1 200 OK\r\nContent-Type: application/json\r\nContent-Length: %d\r\n\r\n%s", len(body), body))
}

func readRequest(br *bufio.Reader) error {
	req, err := http.ReadRequest(br)
	if err != nil {
		return err
	}
	_, err = io.Copy(io.Discard, req.Body)
	return err
}

func startFaultServer(action string, offset int, chunked bool) (*faultServer, error) {
	ln, err := net.Listen("tcp", "127.0.0.1:0")
	if err != nil {
		return nil, err
	}
	fs := &faultServer{ln: ln, release: make(chan struct{}), sentCh: make(chan int, 4)}
	resp := cannedResponse(chunked)
	go func() {
		for {
			conn, err := ln.Accept()
			if err != nil {
				return
			}
			go func(conn net.Conn) {
				defer conn.Close()
				br := bufio.NewReader(conn)
				if err := readRequest(br); err != nil {
					fs.sentCh <- -1
					return
				}
				n := offset
				if n > len(resp) {
					n = len(resp)
				}
				_, _ = conn.Write(resp[:n])
				fs.sentCh <- n
				switch action {
				case "close":
				case "reset":
					if tc, ok := conn.(*net.TCPConn); ok {
						_ = tc.SetLinger(0)
					}
				case "stall":
					<-fs.release
				}
			}(conn)
		}
	}()
	return fs, nil
}

func runServer(m *mon.M, c *Case) {
	fs, err := startFaultServer(c.Fault, c.Offset, c.Chunked)
	if err != nil {
		m.Class("listen-failed")
		return
	}
	released := false
	rel := func() {
		if !released {
			released = true
			close(fs.release)
		}
	}
	defer func() { rel(); fs.ln.Close() }()
	h := &harness{}
	before := census()
	timeout, ctx, cancel := deadlines(c)
	defer cancel()
	tr := &http.Transport{DisableKeepAlives: !c.Reuse}
	defer tr.CloseIdleConnections()
	r := newRuntime(c, fs.ln.Addr().String(), tr)
	c2 := *c
	if c2.Reader == "" {
		c2.Reader = "all"
	}
	op := &rt.ClientOperation{ID: "x", Method: "POST", PathPattern: "/things", ConsumesMediaTypes: consumesFor(c), ProducesMediaTypes: []string{"application/json"},
		Params: h.params(c, timeout, false), Reader: h.reader(&c2), Context: ctx}
	o := submitWatched(r, op, 200*baseDeadline)
	full := len(cannedResponse(c.Chunked))
	complete := c.Offset >= full
	feat := c.Fault + "/" + c.Deadline
	if !o.returned {
		m.Violate("server/did-not-return-while-fault-held/"+feat, fmt.Sprintf("Submit had not returned after 200x the effective deadline; case %s\n%s", c.key(), o.dump), c)
		rel()
		return
	}
	sent := -2
	select {
	case sent = <-fs.sentCh:
	case <-time.After(2 * time.Second):
	}
	if sent >= 0 {
		m.NT(c.key())
	} else {
		m.Class("fault-not-reached")
	}
	if o.err != nil && strings.HasPrefix(o.err.Error(), "PANIC") {
		m.Violate("server/panic/"+feat, o.err.Error(), c)
		return
	}
	if c2.Reader != "all" {
		// a reader that stops early: whether the call fails depends on where the fault lies; what is owed is
		// the return (above), and the release of everything once the fault is lifted
		rel()
		if checkReleased(m, c, h, before, "server/"+feat+"/reader-"+c2.Reader) {
			m.Class("server-early-reader-ok")
		}
		return
	}
	if !complete && o.err == nil {
		m.Violate("server/incomplete-response-reported-as-success/"+feat, fmt.Sprintf("the server delivered %d of %d response bytes then %s, but Submit returned (%v, nil); reader saw %q", sent, full, c.Fault, o.res, h.gotBody), c)
		return
	}
	if complete && o.err != nil && isDeadline(o.err) {
		// the complete response raced the (short) deadline on a loaded machine: nothing can be concluded
		m.Class("complete-response-lost-to-deadline-inconclusive")
	} else if complete && o.err != nil && c.Fault != "reset" {
		m.Violate("server/complete-response-failed/"+feat, fmt.Sprintf("the complete response was delivered but Submit failed: %v; case %s", o.err, c.key()), c)
		return
	}
	rel()
	if checkReleased(m, c, h, before, "server/"+feat) {
		if o.err == nil {
			m.Class("server-complete-ok")
		} else {
			m.Class("server-fault-surfaced")
		}
	}
}

func isDeadline(err error) bool {
	if errors.Is(err, context.DeadlineExceeded) {
		return true
	}
	var ne net.Error
	return errors.As(err, &ne) && ne.Timeout()
}

// ---------- cancellation at hook points ----------

func runCancel(m *mon.M, c *Case) {
	ln, err := net.Listen("tcp", "127.0.0.1:0")
	if err != nil {
		m.Class("listen-failed")
		return
	}
	respBytes := []byte(`{"k":"` + strings.Repeat("z", 2000) + `"}`)
	srv := &http.Server{Handler: http.HandlerFunc(func(w http.ResponseWriter, r *http.Request) {
		_, _ = io.Copy(io.Discard, r.Body)
		w.Header().Set("Content-Type", "application/json")
		_, _ = w.Write(respBytes)
	})}
	go func() { _ = srv.Serve(ln) }()
	defer srv.Close()
	h := &harness{}
	before := census()
	ctx, cancel := context.WithCancel(context.Background())
	defer cancel()
	var fired int32
	verifhook.Set(func(p string) {
		if p == c.HookPoint && atomic.CompareAndSwapInt32(&fired, 0, 1) {
			cancel()
		}
	})
	defer verifhook.Set(nil)
	r := client.New(ln.Addr().String(), "/api", []string{"http"})
	tr := &http.Transport{DisableKeepAlives: !c.Reuse}
	defer tr.CloseIdleConnections()
	r.Transport = tr
	if c.Reuse {
		r.EnableConnectionReuse()
	}
	c2 := *c
	c2.Reader = "all"
	var auth rt.ClientAuthInfoWriter
	if c.AuthGetBody {
		auth = rt.ClientAuthInfoWriterFunc(func(r rt.ClientRequest, _ strfmt.Registry) error { _ = r.GetBody(); return nil })
	}
	op := &rt.ClientOperation{ID: "x", Method: "POST", PathPattern: "/things", ConsumesMediaTypes: consumesFor(c), ProducesMediaTypes: []string{"application/json"},
		Params: h.params(c, 100*baseDeadline, false), Reader: h.reader(&c2), AuthInfo: auth, Context: ctx}
	o := submitWatched(r, op, 200*baseDeadline)
	feat := c.HookPoint + "/" + c.Payload
	if !o.returned {
		m.Violate("cancel/did-not-return/"+feat, "Submit did not return after cancellation; case "+c.key()+"\n"+o.dump, c)
		return
	}
	if atomic.LoadInt32(&fired) == 1 {
		m.NT(c.key())
	} else {
		m.Class("hook-not-reached")
	}
	if o.err != nil && strings.HasPrefix(o.err.Error(), "PANIC") {
		m.Violate("cancel/panic/"+feat, o.err.Error(), c)
		return
	}
	if o.err == nil && string(h.gotBody) != string(respBytes) {
		m.Violate("cancel/incomplete-response-reported-as-success/"+feat, fmt.Sprintf("Submit returned nil error but the reader saw %d of %d body bytes", len(h.gotBody), len(respBytes)), c)
		return
	}
	if checkReleased(m, c, h, before, "cancel/"+feat) {
		if o.err == nil {
			m.Class("cancel-too-late-complete")
		} else {
			m.Class("cancel-surfaced")
		}
	}
}

// ---------- the connection-reuse body wrapper alone ----------

type onceRT struct{ body *respBody }

func (o onceRT) RoundTrip(r *http.Request) (*http.Response, error) {
	return &http.Response{StatusCode: 200, Body: o.body, Header: http.Header{}, Request: r}, nil
}

func runDrain(m *mon.M, c *Case) {
	body := &respBody{data: bytes.Repeat([]byte("d"), c.Len), eofWith: c.EOFWith, chunk: c.Chunk}
	krt := client.KeepAliveTransport(onceRT{body})
	req, _ := http.NewRequest("GET", "http://example.invalid/", nil)
	resp, err := krt.RoundTrip(req)
	if err != nil {
		m.Violate("drain/roundtrip-error", err.Error(), c)
		return
	}
	var got []byte
	sawEOF := false
	pv, st := mon.Catch(func() {
		for _, sz := range c.Sizes {
			buf := make([]byte, sz)
			n, err := resp.Body.Read(buf)
			got = append(got, buf[:n]...)
			if err == io.EOF {
				sawEOF = true
				break
			}
		}
		_ = resp.Body.Close()
	})
	m.NT(c.key())
	zero := "no-zero-length-read"
	for _, s := range c.Sizes {
		if s == 0 {
			zero = "zero-length-read"
		}
	}
	if pv != nil {
		m.Violate("drain/panic/"+zero, fmt.Sprintf("%v\n%s", pv, st), c)
		return
	}
	if !bytes.Equal(got, body.data[:len(got)]) {
		m.Violate("drain/bytes-altered/"+zero, "bytes read through the wrapper differ from the body", c)
		return
	}
	if n := atomic.LoadInt32(&body.closed); n != 1 {
		m.Violate("drain/close-count/"+zero, fmt.Sprintf("underlying body closed %d times", n), c)
		return
	}
	if !sawEOF && body.left() > 0 {
		m.Violate("drain/closed-undrained/"+zero, fmt.Sprintf("the end of the body was not seen (reads %v) yet %d of %d bytes were left unread at Close", c.Sizes, body.left(), c.Len), c)
		return
	}
	m.Class("drain-ok")
}

// ---------- enumeration ----------

func enumerate(m *mon.M) []*Case {
	var cs []*Case
	quick := m.Quick()
	payloads := []string{"file", "files+fields", "json", "reader", "readcloser", "none"}
	for _, f := range []string{"writer-error", "auth-error", "auth-error-after-getbody", "bad-base-path", "bad-path-pattern", "bad-method"} {
		for _, p := range payloads {
			for _, reuse := range []bool{false, true} {
				cs = append(cs, &Case{Kind: "presend", Fault: f, Payload: p, Len: 700, Reuse: reuse, Reader: "all"})
			}
		}
	}
	// a value payload that no producer can encode for the chosen media type, a producer that fails half-way, a media type nobody registered
	for _, f := range []string{"value-body-on-urlencoded", "value-body-on-multipart", "producer-fails"} {
		for _, reuse := range []bool{false, true} {
			cs = append(cs, &Case{Kind: "presend", Fault: f, Payload: "json", Len: 700, Reuse: reuse, Reader: "all"})
		}
	}
	for _, p := range payloads {
		cs = append(cs, &Case{Kind: "presend", Fault: "unregistered-media-type", Payload: p, Len: 700, Reader: "all"})
	}
	// upload-source faults at every offset
	maxLen := 64
	lens := []int{0, 1, 2, 7, 64, 600} // 600: beyond the 512 bytes read to sniff the type of a file part
	if !quick {
		maxLen = 70000
		lens = nil
		for l := 0; l <= 64; l++ {
			lens = append(lens, l)
		}
		lens = append(lens, 100, 255, 256, 257, 510, 511, 512, 513, 514, 600, 1023, 1024, 1500, 4095, 4096, 4097, 70000)
	}
	_ = maxLen
	for _, p := range []string{"file", "files+fields", "reader", "readcloser"} {
		for _, l := range lens {
			step := 1
			switch {
			case l > 2000:
				step = l / 40
			case l > 600 || (quick && l > 128):
				step = 7
			}
			for off := 0; off <= l; off += step {
				for _, chunk := range []int{0, 1} {
					if chunk == 1 && l > 128 && off%3 != 0 {
						continue
					}
					cs = append(cs, &Case{Kind: "upload", Payload: p, Len: l, Offset: off, Chunk: chunk, Reader: "all"})
				}
			}
			cs = append(cs, &Case{Kind: "upload", Payload: p, Len: l, Offset: -1, Chunk: 1, Reader: "all"}) // healthy, 1-byte reads
			cs = append(cs, &Case{Kind: "upload", Payload: p, Len: l, Offset: l / 2, Fault: "with-getbody-auth", Reader: "all"})
		}
	}
	// faults in the second source / in another field; sources whose Close reports an error
	for _, p := range []string{"files+fields", "files-2-fields"} {
		for _, fs := range []int{0, 1} {
			for _, cf := range []bool{false, true} {
				for _, l := range []int{7, 600} {
					for _, off := range []int{-1, 0, l / 2, l} {
						cs = append(cs, &Case{Kind: "upload", Payload: p, Len: l, Offset: off, Reader: "all", FaultSrc: fs, CloseFails: cf})
					}
				}
			}
		}
	}
	for _, f := range []string{"writer-error", "auth-error", "bad-path-pattern"} {
		for _, p := range []string{"file", "files+fields", "files-2-fields"} {
			cs = append(cs, &Case{Kind: "presend", Fault: f, Payload: p, Len: 700, Reader: "all", CloseFails: true})
		}
	}
	// answers whose Content-Type is unusable, and bodies far larger than any buffer, left unread
	for _, p := range []string{"json", "file"} {
		for _, reuse := range []bool{false, true} {
			for _, ct := range []string{"%%%", "application/x-nobody-registered", ""} {
				for _, rd := range []string{"none", "half", "all"} {
					for _, rl := range []int{300, 300000, 1 << 20} {
						if ct == "" && rl == 300 {
							continue // covered below
						}
						if quick && rl == 1<<20 && (ct != "" || rd == "all") {
							continue
						}
						cs = append(cs, &Case{Kind: "roundtrip", Fault: "ok", Payload: p, Len: 300, RespLen: rl, RespCT: ct, Reuse: reuse, Reader: rd})
					}
				}
			}
		}
	}
	// answers of other statuses, with a declared length, and bodies that fail while being read
	for _, p := range []string{"json", "file"} {
		for _, reuse := range []bool{false, true} {
			for _, st := range []int{200, 404, 500} {
				for _, kl := range []bool{false, true} {
					for _, rd := range []string{"all", "none", "half"} {
						for _, fa := range []int{0, 100, 300000} {
							rl := 300
							if fa > 300 || (kl && rd != "all") {
								rl = 400000 // a long declared length that is left unread
							}
							if st == 200 && !kl && fa == 0 {
								continue // the plain case, covered below
							}
							cs = append(cs, &Case{Kind: "roundtrip", Fault: "ok", Payload: p, Len: 300, RespLen: rl, RespStatus: st, RespKnownLen: kl, RespFailAt: fa, Reuse: reuse, Reader: rd})
						}
					}
				}
			}
		}
	}
	// Runtime.Debug on: the dumps read the request and the response before they are used
	for _, p := range payloads {
		cs = append(cs, &Case{Kind: "roundtrip", Fault: "ok", Payload: p, Len: 300, Reuse: true, Reader: "half", Debug: true})
		cs = append(cs, &Case{Kind: "roundtrip", Fault: "ok", Payload: p, Len: 300, Reader: "all", Debug: true})
		cs = append(cs, &Case{Kind: "presend", Fault: "auth-error-after-getbody", Payload: p, Len: 700, Reader: "all", Debug: true})
		if p != "json" && p != "none" {
			cs = append(cs, &Case{Kind: "upload", Payload: p, Len: 600, Offset: 550, Reader: "all", Debug: true})
			cs = append(cs, &Case{Kind: "upload", Payload: p, Len: 64, Offset: -1, Reader: "all", Debug: true})
		}
	}
	// scripted transport
	for _, f := range []string{"ok", "err-before", "err-after", "err-mid"} {
		for _, p := range payloads {
			for _, reuse := range []bool{false, true} {
				for _, rd := range []string{"all", "none", "half", "err"} {
					for _, ew := range []bool{false, true} {
						if f != "ok" && (rd != "all" || ew) {
							continue
						}
						cs = append(cs, &Case{Kind: "roundtrip", Fault: f, Payload: p, Len: 300, Reuse: reuse, Reader: rd, EOFWith: ew})
						if reuse && f == "ok" {
							for _, via := range []string{"with-client", "after-first-call"} {
								cs = append(cs, &Case{Kind: "roundtrip", Fault: f, Payload: p, Len: 300, Reuse: reuse, ReuseVia: via, Reader: rd, EOFWith: ew})
							}
						}
					}
				}
			}
		}
	}
	// raw server faults at every response offset
	for _, chunked := range []bool{false, true} {
		full := len(cannedResponse(chunked))
		for _, act := range []string{"close", "reset", "stall"} {
			for off := 0; off <= full; off++ {
				if quick && off%4 != m.Shard%4 && off != full && off != 0 {
					continue
				}
				for _, reuse := range []bool{false, true} {
					dls := []string{"request"}
					if act == "stall" {
						dls = []string{"request", "context", "both-request-shorter", "both-context-shorter", "negative-request"}
						if quick {
							dls = []string{dls[off%5]}
						}
					}
					for _, dl := range dls {
						pl := "json"
						if off%5 == 0 {
							pl = "file"
						}
						via := ""
						if reuse {
							via = []string{"", "with-client", "after-first-call"}[off%3]
						}
						cs = append(cs, &Case{Kind: "server", Fault: act, Offset: off, Chunked: chunked, Reuse: reuse, ReuseVia: via, Deadline: dl, Payload: pl, Len: 40, Reader: "all"})
						if act != "reset" && off%3 == 0 {
							// a reader that stops early meets the stalled or truncated body (drain on close under reuse)
							cs = append(cs, &Case{Kind: "server", Fault: act, Offset: off, Chunked: chunked, Reuse: reuse, ReuseVia: via, Deadline: dl, Payload: pl, Len: 40, Reader: []string{"none", "half"}[(off/3)%2]})
						}
					}
				}
			}
		}
	}
	// cancellation at the hook points
	for _, hp := range []string{"cl.submit.built", "cl.submit.clientReady", "cl.submit.beforeDo", "cl.submit.afterDo", "cl.multipart.part", "cl.getbody.copy"} {
		for _, p := range []string{"file", "files+fields", "json", "reader"} {
			if hp == "cl.multipart.part" && (p == "json" || p == "reader") {
				continue // no multipart document is written for these payloads: the point cannot be reached
			}
			for _, reuse := range []bool{false, true} {
				// cl.getbody.copy lies in GetBody, which only an auth writer calls
				cs = append(cs, &Case{Kind: "cancel", HookPoint: hp, Payload: p, Len: 5000, Reuse: reuse, AuthGetBody: hp == "cl.getbody.copy"})
			}
		}
	}
	// drain sequences over bodies larger than any fixed budget
	for _, l := range []int{256<<10 + 1, 300000, 1 << 20} {
		for _, ch := range []int{0, 4096} {
			for _, szs := range [][]int{nil, {1}, {64, 64}} {
				cs = append(cs, &Case{Kind: "drain", Len: l, Chunk: ch, Sizes: szs})
			}
		}
	}
	sizes := []int{0, 1, 3, 64}
	for _, l := range []int{0, 1, 10, 100} {
		for _, ew := range []bool{false, true} {
			// an underlying body that answers with short reads while more remains
			for _, ch := range []int{1, 7} {
				for _, a := range sizes {
					cs = append(cs, &Case{Kind: "drain", Len: l, EOFWith: ew, Chunk: ch, Sizes: []int{a}})
					for _, b := range sizes {
						cs = append(cs, &Case{Kind: "drain", Len: l, EOFWith: ew, Chunk: ch, Sizes: []int{a, b}})
					}
				}
			}
			cs = append(cs, &Case{Kind: "drain", Len: l, EOFWith: ew, Sizes: nil})
			for _, a := range sizes {
				cs = append(cs, &Case{Kind: "drain", Len: l, EOFWith: ew, Sizes: []int{a}})
				for _, b := range sizes {
					cs = append(cs, &Case{Kind: "drain", Len: l, EOFWith: ew, Sizes: []int{a, b}})
					if !quick {
						for _, d := range sizes {
							cs = append(cs, &Case{Kind: "drain", Len: l, EOFWith: ew, Sizes: []int{a, b, d}})
							for _, e := range sizes {
								cs = append(cs, &Case{Kind: "drain", Len: l, EOFWith: ew, Sizes: []int{a, b, d, e}})
							}
						}
					}
				}
			}
		}
	}
	return cs
}

func run(m *mon.M) {
	cs := enumerate(m)
	if !m.Quick() {
		// second pass over the placements that involve goroutines, with the schedule perturbed at the hook points
		n := len(cs)
		for i := 0; i < n; i++ {
			if k := cs[i].Kind; k == "presend" || k == "upload" || k == "roundtrip" || k == "server" {
				if k == "upload" && cs[i].Len > 600 {
					continue
				}
				cp := *cs[i]
				cp.Perturb = 1 + i%7
				cs = append(cs, &cp)
			}
		}
	}
	if m.Shard == 0 {
		m.Note("fault_placements_enumerated", int64(len(cs)))
	}
	for i, c := range cs {
		if i%m.NShards != m.Shard {
			continue
		}
		m.Begin(c)
		runCase(m, c)
		if m.WantSample() {
			m.Sample(c)
		}
	}
}

func replay(m *mon.M, raw json.RawMessage) {
	var c Case
	if err := json.Unmarshal(raw, &c); err != nil {
		m.Violate("bad-replay-case", err.Error(), nil)
		return
	}
	runCase(m, &c)
}
