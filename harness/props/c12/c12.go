// Package c12 enumerates fault placements around client.Runtime.Submit and monitors termination,
// release of what the call holds (upload sources, response body, goroutines) and fault surfacing.
package c12

import (
	"bufio"
	"bytes"
	"context"
	"encoding/json"
	"errors"
	"fmt"
	"io"
	"log"
	"mime"
	"mime/multipart"
	"net"
	"net/http"
	"net/http/httptest"
	"os"
	"runtime"
	"strings"
	"sync"
	"sync/atomic"
	"time"

	rt "github.com/go-openapi/runtime"
	"github.com/go-openapi/runtime/client"
	"github.com/go-openapi/runtime/verifhook"
	"github.com/go-openapi/strfmt"

	"verif/mon"
)

func init() {
	mon.Register(&mon.Property{
		ID:    "C12",
		Level: "fault_enumeration",
		Race:  true,
		Rule: "enumeration of fault placements around Submit: (presend) parameter-writer / auth-writer / unparsable URL / invalid method / no-producer / failing-producer / directory-as-file errors after upload sources were handed over, and requests that build but cannot be sent (scheme lists of the Runtime or the operation that do not end on http/https, no host, a host that is no host name; a real http.Transport over a dialer that makes no connection; also through the operation's client, with Debug on) (instrumented sources, sources with a declared type, a real temporary file, multipart documents of plain form fields only); (upload) read error at every byte offset of file and stream sources of every length 0..L, sources whose Close errs; parameter writers that call SetFileParam several times (a field set again with no file, the same file, more or fewer files, three calls, two fields interleaved: every source handed over by a call that returned nil must end up closed, for the success, each source fault, every pre-send fault and a failing transport); " +
			"(roundtrip) scripted RoundTripper failing before/after consuming the request body, and scripted response bodies x reader behaviours (reads all / half / nothing / fails / closes the body itself / moves the body with io.Copy, the byte-stream consumer or a ReadFrom destination into a destination that refuses part-way) x response Content-Types (usable, absent, no consumer, not parsable) x connection reuse (enabled before the first call, with a configured client, with a client that has no transport, after a first call, through the operation's own client); " +
			"(server) a raw loopback TCP server that closes, resets, stalls or truncates at every byte offset of a canned response (Content-Length and chunked), or accepts and never reads a 16 MiB upload, x deadline source (request timeout, context from the operation or from Runtime.Context or none, both) x the Runtime's or the operation's client; quick tier: every offset x action, reuse by offset parity except at structural offsets, one deadline source per stall offset (documented in enumerate); " +
			"(reuse) consecutive calls of one Runtime over a real http.Transport with keep-alive connections to a loopback net/http server that sends the head of a large body and holds the rest until the response reader has returned, x reader behaviours that return early x deadline source (request timeout, context, both, cancel-only, none: all an hour away) x Content-Length/chunked x the ways of enabling reuse: judged on what the transport's own body (wrapped below the library's wrapper) had seen at its first Close; " +
			"(cancel) context cancelled at each hook point of Submit, also against a server that holds its answer while the call has no timeout; (drain) every Read-size sequence, optionally followed by an io.Copy into a failing destination, then Close on the connection-reuse body wrapper. Monitors: close counters on every source and response body, bytes left unread at Close, what the reader was shown (bytes, error), goroutine census on client frames (before/after, settle loop on goroutine states), what the fault point actually delivered, Submit's error. " +
			"non-trivial = a case whose fault was confirmed to have fired where scripted; distinct by (kind, fault, offset, payload, reuse, deadline source, reader, configuration)",
		Assumptions: []string{
			"'no later than the deadline' is judged as termination: Submit must return while the fault is still held; a call that has not returned after 200x its effective deadline AND whose goroutine is parked (not merely starved of CPU) is a violation (non-termination is what the property forbids)",
			"a scripted RoundTripper honours the RoundTripper contract (it closes the request body)",
			"goroutines are attributed to the call by frames of package github.com/go-openapi/runtime/client; net/http's own connection goroutines are not counted",
			"'no goroutine remains' is decided on goroutine states, not on a time limit: with a scripted (synchronous) transport a goroutine of the call that is parked once Submit has returned can only be woken by another goroutine of the call, so 'all parked, same picture over several censuses' is final; with a real http.Transport (whose connection goroutines release the request body after RoundTrip returned) the census polls with early exit for 20 s, goes on up to 60 s while a goroutine is still runnable, and files 'still running at the end' as inconclusive",
			"when the response reader does not read the body to its end, 'complete response obtained' is not decidable by the call: server-fault cases use a reader that consumes the body through the consumer",
			"a stream handed over as the BODY payload (io.ReadCloser) is not a 'file handed over for upload': its release after a pre-send error is counted (class probe:readcloser-payload-*), not judged",
			"whether an error reported by Close of a stream payload that delivered every byte fails the call is outside the statement (counted)",
			"a cancellation placed before client.Do that nevertheless ends in a complete response is counted, not judged (the statement allows success when the complete response was obtained); the dropped cancellation is judged where only it can end the call (server holds, no timeout)",
			"in the placements of a request that builds but cannot be sent (unusual scheme lists, no host, a host that is no host name) the transport is a real http.Transport whose dialer makes no connection: no response can be obtained, so an error is owed whichever scheme and host the call ends up with; who turns the request down (the Runtime, http.Client, the transport before or at the dial) is counted, not judged",
			"a failure of the harness's own scaffolding (no listener, no temporary file or directory, no connection to the loopback server) makes the case inconclusive, never a violation",
		},
		MinNontrivial: 100,
		QuickShards:   4,
		ThorShards:    16,
		Run:           run,
		Replay:        replay,
		Exhaustive:    func(string) bool { return false },
	})
}

// Case is one fault placement.
type Case struct {
	Kind    string `json:"kind"` // presend | upload | roundtrip | server | cancel | drain | reuse
	Payload string `json:"payload,omitempty"`
	Fault   string `json:"fault,omitempty"`
	Offset  int    `json:"offset,omitempty"`
	Len     int    `json:"len,omitempty"`
	Chunk   int    `json:"chunk,omitempty"`
	Reuse   bool   `json:"reuse,omitempty"`
	// ReuseVia: how connection reuse is switched on: "" New + EnableConnectionReuse before the first call;
	// "with-client" NewWithClient + EnableConnectionReuse; "after-first-call" enabled once a first call has been made
	ReuseVia string `json:"reuseVia,omitempty"`
	// RespLen > 0: size of the scripted response body (otherwise Len)
	RespLen int `json:"respLen,omitempty"`
	// RespCT: Content-Type of the scripted response ("" = application/json)
	RespCT string `json:"respContentType,omitempty"`
	// RespStatus (0 = 200), RespKnownLen (ContentLength = len(body) instead of -1), RespFailAt (> 0: the
	// scripted response body fails with an error once that many bytes were read)
	RespStatus   int  `json:"respStatus,omitempty"`
	RespKnownLen bool `json:"respKnownLength,omitempty"`
	RespFailAt   int  `json:"respFailAt,omitempty"`
	// Debug: Runtime.Debug on (the request and the response are dumped through a discarding logger)
	Debug bool `json:"debug,omitempty"`
	// AuthGetBody: the operation has an auth writer that calls GetBody (cancel kind: reaches cl.getbody.copy)
	AuthGetBody bool `json:"authGetBody,omitempty"`
	// CloseFails: Close of every upload source reports an error (after releasing the source)
	CloseFails bool `json:"closeFails,omitempty"`
	// FaultSrc: which upload source of a multi-file payload carries the fault (0 first, 1 second)
	FaultSrc  int    `json:"faultSource,omitempty"`
	Deadline  string `json:"deadline,omitempty"` // request | context | both-request-shorter | both-context-shorter
	Reader    string `json:"reader,omitempty"`   // all | none | half | err
	Chunked   bool   `json:"chunked,omitempty"`
	HookPoint string `json:"hookPoint,omitempty"`
	Sizes     []int  `json:"sizes,omitempty"`
	EOFWith   bool   `json:"eofWithData,omitempty"`
	// Perturb > 0: a PRNG-driven callback yields / sleeps at the client hook points during the case
	Perturb int `json:"perturb,omitempty"`
	// OpClient: the operation brings its own http.Client (ClientOperation.Client) over the case's transport; the
	// Runtime's own transport is a trap that must stay unused
	OpClient bool `json:"opClient,omitempty"`
	// CtxVia: where the caller's context is handed over: "" ClientOperation.Context; "runtime" Runtime.Context (the
	// operation has none)
	CtxVia string `json:"ctxVia,omitempty"`
	// WriteFailAt: readers copy-fail / consume-fail / readfrom-fail move the body into a destination that refuses
	// to take more than that many bytes
	WriteFailAt int `json:"writeFailAt,omitempty"`
	// CopyFailAt > 0 (drain kind): after the Read sequence the rest is moved with io.Copy into a destination that
	// fails after that many bytes; then Close
	CopyFailAt int `json:"copyFailAt,omitempty"`
	// ServerHolds (cancel kind): the server does not answer before the verdict is in and the call has no timeout
	// of its own: only the cancellation can end it
	ServerHolds bool `json:"serverHolds,omitempty"`
	// RtSchemes / OpSchemes (presend kind, fault unusual-schemes): the scheme list the Runtime is created with (nil:
	// none) and the one the operation carries (ClientOperation.Schemes). Every other case: Runtime ["http"], none on
	// the operation
	RtSchemes []string `json:"runtimeSchemes,omitempty"`
	OpSchemes []string `json:"operationSchemes,omitempty"`
	// SrcErr (upload kind): the error VALUE the failing upload source answers with, by name (see sourceErrors);
	// "" = the harness's own errInjected
	SrcErr string `json:"sourceError,omitempty"`
	// Calls, RespHead (reuse kind): the number of consecutive calls on one Runtime over one real http.Transport, and
	// the number of body bytes the server sends before it waits for the response reader of the call to have returned
	Calls    int `json:"calls,omitempty"`
	RespHead int `json:"respHead,omitempty"`
	// History (payload file-history): the sequence of SetFileParam calls the parameter writer makes, see history.go
	// ("file:a|file:" = one file under "file", then the field set again with no file). FaultSrc picks the source that
	// carries the fault of an upload case among those still named by the last call for their field
	History string `json:"history,omitempty"`
}

func (c *Case) key() string {
	return fmt.Sprintf("%s|%s|%s|%d|%d|%d|%v|%s|%s|%v|%s|%v|%v|%d", c.Kind, c.Payload, c.Fault, c.Offset, c.Len, c.Chunk, c.Reuse, c.Deadline, c.Reader, c.Chunked, c.HookPoint, c.Sizes, c.EOFWith, c.Perturb) + "|" + c.ReuseVia + fmt.Sprintf("|%d|%s|%v|%d|%d|%v|%d|%v|%v", c.RespLen, c.RespCT, c.CloseFails, c.FaultSrc, c.RespStatus, c.RespKnownLen, c.RespFailAt, c.Debug, c.AuthGetBody) +
		fmt.Sprintf("|%v|%s|%d|%d|%v", c.OpClient, c.CtxVia, c.WriteFailAt, c.CopyFailAt, c.ServerHolds) + c.schemesKey() + c.laterKey()
}

// laterKey: empty for the cases without the fields added later (the keys of older cases keep their form).
func (c *Case) laterKey() string {
	k := ""
	if c.SrcErr != "" {
		k += "|srcerr=" + c.SrcErr
	}
	if c.Calls != 0 || c.RespHead != 0 {
		k += fmt.Sprintf("|calls=%d|head=%d", c.Calls, c.RespHead)
	}
	if c.History != "" {
		k += "|history=" + c.History
	}
	return k
}

// schemesKey: empty for the cases without scheme lists of their own (the keys of older cases keep their form).
func (c *Case) schemesKey() string {
	if c.RtSchemes == nil && c.OpSchemes == nil {
		return ""
	}
	return fmt.Sprintf("|rt%q|op%q", c.RtSchemes, c.OpSchemes)
}

// switchRT serves a first, benign exchange itself and hands every later request to next.
type switchRT struct {
	next   http.RoundTripper
	warmed int32
}

func (s *switchRT) RoundTrip(r *http.Request) (*http.Response, error) {
	if atomic.CompareAndSwapInt32(&s.warmed, 0, 1) {
		if r.Body != nil {
			_, _ = io.Copy(io.Discard, r.Body)
			r.Body.Close()
		}
		return &http.Response{StatusCode: 200, Status: "200 OK", Proto: "HTTP/1.1", ProtoMajor: 1, ProtoMinor: 1,
			Header: http.Header{"Content-Type": {"application/json"}}, Body: io.NopCloser(strings.NewReader(`{"warm":1}`)), ContentLength: -1, Request: r}, nil
	}
	return s.next.RoundTrip(r)
}

// newRuntime builds the client runtime of a case over the given transport, switching connection reuse
// on through the entry point the case names.
func newRuntime(c *Case, host string, tr http.RoundTripper) *client.Runtime {
	if !c.Reuse {
		r := client.New(host, "/api", []string{"http"})
		r.Transport = tr
		return r
	}
	switch c.ReuseVia {
	case "with-client":
		r := client.NewWithClient(host, "/api", []string{"http"}, &http.Client{Transport: tr})
		r.EnableConnectionReuse()
		return r
	case "with-client-nil-transport":
		// a configured client without a transport of its own: reuse wraps the Runtime's transport into it
		r := client.NewWithClient(host, "/api", []string{"http"}, &http.Client{})
		r.Transport = tr
		r.EnableConnectionReuse()
		return r
	case "after-first-call":
		r := client.New(host, "/api", []string{"http"})
		r.Transport = &switchRT{next: tr}
		warm := &rt.ClientOperation{ID: "warm", Method: "GET", PathPattern: "/warm", ProducesMediaTypes: []string{"application/json"},
			Params: rt.ClientRequestWriterFunc(func(rt.ClientRequest, strfmt.Registry) error { return nil }),
			Reader: rt.ClientResponseReaderFunc(func(resp rt.ClientResponse, _ rt.Consumer) (interface{}, error) {
				_, _ = io.Copy(io.Discard, resp.Body())
				return nil, nil
			}), Context: context.Background()}
		_, _ = r.Submit(warm)
		r.EnableConnectionReuse()
		return r
	}
	r := client.New(host, "/api", []string{"http"})
	r.Transport = tr
	r.EnableConnectionReuse()
	return r
}

// passRT is the Runtime's own transport when the operation brings its client: it should stay unused (counted, not
// judged: which client carries the exchange is not C12's subject); it passes the exchange on so that the case
// keeps its meaning.
type passRT struct {
	next  http.RoundTripper
	calls int32
}

func (t *passRT) RoundTrip(r *http.Request) (*http.Response, error) {
	atomic.AddInt32(&t.calls, 1)
	return t.next.RoundTrip(r)
}

// wire builds the Runtime of a case and applies the case's way of handing over the client and the context to the
// operation.
func wire(m *mon.M, c *Case, host string, tr http.RoundTripper, op *rt.ClientOperation) *client.Runtime {
	var r *client.Runtime
	if c.OpClient {
		pass := &passRT{next: tr}
		r = newRuntime(c, host, pass)
		opTr := tr
		if c.Reuse {
			opTr = client.KeepAliveTransport(tr) // the documented way: "a http client middleware that can be used to override any request"
		}
		op.Client = &http.Client{Transport: opTr}
		m.Class("config:operation-client")
	} else {
		r = newRuntime(c, host, tr)
	}
	switch c.CtxVia {
	case "runtime":
		r.Context, op.Context = op.Context, nil
		m.Class("config:context-from-runtime")
	case "none":
		// neither the operation nor the Runtime has a context: only the request timeout bounds the call
		r.Context, op.Context = nil, nil
		m.Class("config:no-context-anywhere")
	}
	if c.ReuseVia == "with-client-nil-transport" && c.Reuse {
		m.Class("config:reuse-over-client-without-transport")
	}
	return r
}

// ---------- scripted collaborators ----------

var errInjected = errors.New("injected-fault")

type source struct {
	name       string
	data       []byte
	pos        int
	failAt     int // -1: never
	chunk      int
	closed     int32
	readsAfter int32
	closeErr   bool
	failErr    error // what a read at the fault offset answers (nil: errInjected)
	mu         sync.Mutex
}

// timeoutErr is a net.Error that says it is a time-out (what a read deadline on a socket-backed source gives).
type timeoutErr struct{}

func (timeoutErr) Error() string   { return "c12: i/o timeout of the upload source" }
func (timeoutErr) Timeout() bool   { return true }
func (timeoutErr) Temporary() bool { return true }

// sourceErrors: the error values a failing upload source answers with. Whatever the value, a Read that returns an
// error other than io.EOF itself ("Read must return EOF itself, not an error wrapping EOF") is a source that failed:
// sentinels that other layers of the exchange use for their own purposes (closed pipe, unexpected EOF, cancellation,
// time-outs, short write, closed file or connection), wrapped or bare, and errors that merely mention EOF.
var sourceErrors = map[string]error{
	"closed-pipe":           io.ErrClosedPipe,
	"wrapped-closed-pipe":   fmt.Errorf("export stream given up: %w", io.ErrClosedPipe),
	"unexpected-eof":        io.ErrUnexpectedEOF,
	"wrapped-unexpected":    fmt.Errorf("archive member cut short: %w", io.ErrUnexpectedEOF),
	"wrapped-eof":           fmt.Errorf("decrypting source: %w", io.EOF),
	"eof-in-text-only":      errors.New("EOF"),
	"context-canceled":      context.Canceled,
	"context-deadline":      context.DeadlineExceeded,
	"wrapped-canceled":      fmt.Errorf("producer stopped: %w", context.Canceled),
	"os-deadline":           os.ErrDeadlineExceeded,
	"net-timeout":           &net.OpError{Op: "read", Net: "tcp", Err: timeoutErr{}},
	"short-write":           io.ErrShortWrite,
	"short-buffer":          io.ErrShortBuffer,
	"no-progress":           io.ErrNoProgress,
	"net-closed":            net.ErrClosed,
	"os-closed":             os.ErrClosed,
	"path-error-not-exist":  &os.PathError{Op: "read", Path: "dir/f1.bin", Err: os.ErrNotExist},
	"http-body-after-close": http.ErrBodyReadAfterClose,
	"http-handler-timeout":  http.ErrHandlerTimeout,
	"http-abort-handler":    http.ErrAbortHandler,
	"http-server-closed":    http.ErrServerClosed,
	"http-use-last-resp":    http.ErrUseLastResponse,
	"http-skip-alt-proto":   http.ErrSkipAltProtocol,
}

// sourceErrorNames: sourceErrors in a fixed order (the enumeration must not depend on map order).
var sourceErrorNames = []string{"closed-pipe", "wrapped-closed-pipe", "unexpected-eof", "wrapped-unexpected", "wrapped-eof", "eof-in-text-only",
	"context-canceled", "context-deadline", "wrapped-canceled", "os-deadline", "net-timeout", "short-write", "short-buffer", "no-progress",
	"net-closed", "os-closed", "path-error-not-exist", "http-body-after-close", "http-handler-timeout", "http-abort-handler", "http-server-closed",
	"http-use-last-resp", "http-skip-alt-proto"}

func newSource(name string, n, failAt, chunk int) *source {
	return &source{name: name, data: pattern(n), failAt: failAt, chunk: chunk}
}

// pattern returns n bytes of the period-23 pattern. Large ones are cut from one shared, read-only buffer: building
// 16 MiB inside a parameter writer would eat the (short) deadline of the case before anything is sent.
var (
	bigPattern     []byte
	bigPatternOnce sync.Once
)

func pattern(n int) []byte {
	fill := func(d []byte) {
		const unit = 23 * 1024 // a multiple of the period: doubling keeps the pattern
		for i := 0; i < len(d) && i < unit; i++ {
			d[i] = byte('a' + i%23)
		}
		for f := unit; f < len(d); f *= 2 {
			copy(d[f:], d[:f])
		}
	}
	if n < 1<<20 {
		d := make([]byte, n)
		fill(d)
		return d
	}
	bigPatternOnce.Do(func() {
		bigPattern = make([]byte, 16<<20)
		fill(bigPattern)
	})
	if n <= len(bigPattern) {
		return bigPattern[:n:n]
	}
	d := make([]byte, n)
	fill(d)
	return d
}

func (s *source) Name() string { return s.name }
func (s *source) Read(p []byte) (int, error) {
	s.mu.Lock()
	defer s.mu.Unlock()
	if atomic.LoadInt32(&s.closed) > 0 {
		atomic.AddInt32(&s.readsAfter, 1)
		return 0, errors.New("read after close")
	}
	if len(p) == 0 {
		return 0, nil
	}
	limit := len(s.data)
	if s.failAt >= 0 && s.failAt < limit {
		limit = s.failAt
	}
	if s.pos >= limit {
		if s.failAt >= 0 && s.pos >= s.failAt {
			if s.failErr != nil {
				return 0, s.failErr
			}
			return 0, errInjected
		}
		return 0, io.EOF
	}
	n := limit - s.pos
	if n > len(p) {
		n = len(p)
	}
	if s.chunk > 0 && n > s.chunk {
		n = s.chunk
	}
	copy(p, s.data[s.pos:s.pos+n])
	s.pos += n
	return n, nil
}
func (s *source) consumed() int {
	s.mu.Lock()
	defer s.mu.Unlock()
	return s.pos
}
func (s *source) Close() error {
	atomic.AddInt32(&s.closed, 1)
	if s.closeErr {
		return errors.New("close reports an error (the source is released all the same)")
	}
	return nil
}

// plainReader hides Close (an io.Reader payload).
type plainReader struct{ s *source }

func (p plainReader) Read(b []byte) (int, error) { return p.s.Read(b) }

type respBody struct {
	data    []byte
	pos     int
	chunk   int // >0: at most that many bytes per Read (short reads while more remain)
	eofWith bool
	failAt  int // > 0: reads fail with errInjected once pos reaches failAt
	failed  bool
	closed  int32
	sawEOF  bool
	mu      sync.Mutex
}

func (b *respBody) Read(p []byte) (int, error) {
	b.mu.Lock()
	defer b.mu.Unlock()
	if b.closed > 0 {
		return 0, errors.New("read after close")
	}
	if b.failAt > 0 && b.pos >= b.failAt {
		b.failed = true
		return 0, errInjected
	}
	if b.pos >= len(b.data) {
		b.sawEOF = true
		return 0, io.EOF
	}
	if b.failAt > 0 && len(p) > b.failAt-b.pos {
		p = p[:b.failAt-b.pos]
	}
	if b.chunk > 0 && len(p) > b.chunk {
		p = p[:b.chunk]
	}
	n := copy(p, b.data[b.pos:])
	b.pos += n
	if b.eofWith && b.pos >= len(b.data) && n > 0 {
		b.sawEOF = true
		return n, io.EOF
	}
	return n, nil
}
func (b *respBody) Close() error { atomic.AddInt32(&b.closed, 1); return nil }
func (b *respBody) eofSeen() bool {
	b.mu.Lock()
	defer b.mu.Unlock()
	return b.sawEOF
}
func (b *respBody) left() int {
	b.mu.Lock()
	defer b.mu.Unlock()
	return len(b.data) - b.pos
}

type scriptedRT struct {
	status   int    // 0 = 200
	knownLen bool   // ContentLength = len(body) instead of -1
	ct       string // Content-Type of the answer ("" = application/json)
	mode     string // ok | err-before | err-after | err-mid
	body     *respBody
	consumed int64
	bodyErr  error
	calls    int32
}

func (s *scriptedRT) RoundTrip(r *http.Request) (*http.Response, error) {
	atomic.AddInt32(&s.calls, 1)
	if s.mode == "err-before" {
		if r.Body != nil {
			r.Body.Close()
		}
		return nil, errInjected
	}
	if r.Body != nil {
		if s.mode == "err-mid" {
			buf := make([]byte, 10)
			n, _ := io.ReadFull(r.Body, buf)
			s.consumed = int64(n)
			r.Body.Close()
			return nil, errInjected
		}
		n, err := io.Copy(io.Discard, r.Body)
		s.consumed = n
		s.bodyErr = err
		r.Body.Close()
		if err != nil {
			return nil, err
		}
	}
	if s.mode == "err-after" || s.mode == "err-mid" {
		return nil, errInjected
	}
	ct := s.ct
	if ct == "" {
		ct = "application/json"
	}
	st := s.status
	if st == 0 {
		st = 200
	}
	cl := int64(-1)
	if s.knownLen {
		cl = int64(len(s.body.data))
	}
	hdr := http.Header{"Content-Type": {ct}}
	if ct == absentCT {
		hdr = http.Header{}
	}
	return &http.Response{StatusCode: st, Status: fmt.Sprintf("%d %s", st, http.StatusText(st)), Proto: "HTTP/1.1", ProtoMajor: 1, ProtoMinor: 1,
		Header: hdr, Body: s.body, ContentLength: cl, Request: r}, nil
}

const baseDeadline = 60 * time.Millisecond

// longDeadline is the longer of two deadlines: far beyond the 200 x baseDeadline watchdog, so that a call
// which honours the wrong one shows as "did not return while the fault was held".
const longDeadline = time.Hour

func deadlines(c *Case) (reqTimeout time.Duration, ctx context.Context, cancel context.CancelFunc) {
	ctx, cancel = context.Background(), func() {}
	switch c.Deadline {
	case "context":
		ctx, cancel = context.WithTimeout(context.Background(), baseDeadline)
		return 0, ctx, cancel
	case "both-request-shorter":
		ctx, cancel = context.WithTimeout(context.Background(), longDeadline)
		return baseDeadline, ctx, cancel
	case "both-context-shorter":
		ctx, cancel = context.WithTimeout(context.Background(), baseDeadline)
		return longDeadline, ctx, cancel
	case "negative-request":
		// a request timeout that is already used up (SetTimeout(time.Until(budgetEnd)) past the budget)
		return -time.Second, ctx, cancel
	default:
		return baseDeadline, ctx, cancel
	}
}

type nullLogger struct{}

func (nullLogger) Printf(string, ...interface{}) {}
func (nullLogger) Debugf(string, ...interface{}) {}

func debugOn(r *client.Runtime, c *Case) {
	if c.Debug {
		r.SetLogger(nullLogger{})
		r.Debug = true // (SetDebug would also switch the middleware package's global flag)
	}
}

type harness struct {
	sources      []*source
	stream       *source
	gotBody      []byte
	readErr      error
	readerCalled bool
	// quiescent: the transport of the case is scripted (synchronous, starts nothing): once Submit has returned only
	// the goroutines of the call themselves can wake one another (see settle)
	quiescent bool
	dest      *failWriter
	// real files: a temporary regular file handed over for upload, a directory handed to SetFileParam
	osfiles  []*os.File
	dir      *os.File
	paramErr error // what SetFileParam answered for the directory
	// harnessErr: the harness's own scaffolding failed (no temporary file, it vanished, no temporary directory):
	// the case says nothing about the library
	harnessErr error
}

var errHarness = errors.New("c12 harness: scaffolding failed")

// typedSource declares its media type: the multipart writer copies it without sniffing the first 512 bytes.
type typedSource struct{ *source }

func (typedSource) ContentType() string { return "application/x-c12-declared" }

// failWriter is a destination that takes limit bytes and then refuses (full disk, closed pipe, size limit).
type failWriter struct {
	limit, n int
	failed   bool
}

var errDestination = errors.New("destination-refuses-more")

func (w *failWriter) Write(p []byte) (int, error) {
	if w.n+len(p) > w.limit {
		k := w.limit - w.n
		w.n = w.limit
		w.failed = true
		return k, errDestination
	}
	w.n += len(p)
	return len(p), nil
}

// readFromDest is a destination with a ReadFrom of its own that copies internally (what *os.File does).
type readFromDest struct{ w *failWriter }

func (d readFromDest) ReadFrom(r io.Reader) (int64, error) { return io.Copy(d.w, r) }

func (h *harness) tempFile(n int) (*os.File, error) {
	f, err := os.CreateTemp("", "c12-upload-*.bin")
	if err != nil {
		return nil, err
	}
	d := make([]byte, n)
	for i := range d {
		d[i] = byte('a' + i%23)
	}
	if _, err = f.Write(d); err == nil {
		_, err = f.Seek(0, io.SeekStart)
	}
	if err != nil {
		f.Close()
		os.Remove(f.Name())
		return nil, err
	}
	h.osfiles = append(h.osfiles, f)
	return f, nil
}

// osfilesClosed reports whether every real file was closed by the call, closes what was not, removes them all.
// To be called once, when the call has settled.
func (h *harness) osfilesClosed() (open []string) {
	for _, f := range h.osfiles {
		if err := f.Close(); err == nil || !errors.Is(err, os.ErrClosed) {
			open = append(open, "temporary file")
		}
		os.Remove(f.Name())
	}
	h.osfiles = nil
	if h.dir != nil {
		if err := h.dir.Close(); (err == nil || !errors.Is(err, os.ErrClosed)) && h.paramErr == nil {
			open = append(open, "directory accepted by SetFileParam") // refused = never handed over: the harness's to close
		}
		h.dir = nil
	}
	return open
}

// params builds the ClientRequestWriter for a payload kind.
func (h *harness) params(c *Case, timeout time.Duration, failWriter bool) rt.ClientRequestWriter {
	return rt.ClientRequestWriterFunc(func(req rt.ClientRequest, _ strfmt.Registry) error {
		_ = req.SetTimeout(timeout)
		switch c.Payload {
		case "json":
			_ = req.SetBodyParam(map[string]string{"k": strings.Repeat("v", c.Len)})
		case "reader":
			h.stream = newSource("stream", c.Len, failAtFor(c), c.Chunk)
			_ = req.SetBodyParam(plainReader{h.stream})
		case "readcloser":
			h.stream = newSource("stream", c.Len, failAtFor(c), c.Chunk)
			h.stream.closeErr = c.CloseFails
			_ = req.SetBodyParam(io.ReadCloser(h.stream))
		case "fields":
			// a multipart document made of plain form fields only: the streaming goroutine runs without any file
			_ = req.SetFormParam("field", "v1", "v2")
			_ = req.SetFormParam("other", strings.Repeat("x", c.Len))
		case "file":
			s := newSource("dir/f1.bin", c.Len, failAtFor(c), c.Chunk)
			h.sources = append(h.sources, s)
			_ = req.SetFileParam("file", s)
		case "typed-file":
			s := newSource("dir/t1.bin", c.Len, failAtFor(c), c.Chunk)
			h.sources = append(h.sources, s)
			_ = req.SetFileParam("file", typedSource{s})
		case "osfile":
			f, err := h.tempFile(c.Len)
			if err != nil {
				h.harnessErr = err
				return errHarness
			}
			if err := req.SetFileParam("file", f); err != nil { // the temporary file vanished under the call
				h.harnessErr = err
				return err
			}
		case "file+dir":
			// a file accepted for upload, then a directory handed to SetFileParam; the writer returns what
			// SetFileParam answers, as generated parameter writers do
			s := newSource("a.txt", c.Len, -1, 0)
			h.sources = append(h.sources, s)
			_ = req.SetFileParam("file", s)
			d, err := os.Open(os.TempDir())
			if err != nil {
				h.harnessErr = err
				return errHarness
			}
			h.dir = d
			if err := req.SetFileParam("other", d); err != nil {
				h.paramErr = err
				return err
			}
		case "files+fields":
			s1 := newSource("a.txt", c.Len, failAtFor(c), c.Chunk)
			s2 := newSource("b.txt", 30, -1, 0)
			if c.FaultSrc == 1 { // the second file of the field carries the fault
				s1 = newSource("a.txt", 30, -1, 0)
				s2 = newSource("b.txt", c.Len, failAtFor(c), c.Chunk)
			}
			h.sources = append(h.sources, s1, s2)
			_ = req.SetFormParam("field", "v1", "v2")
			_ = req.SetFileParam("file", s1, s2)
		case "file-replaced":
			// the parameter writer sets the files of one field twice (a retry wrapper, a default overridden by the caller):
			// both sets were handed over, only the second is uploaded; every one of them must end up closed
			s0 := newSource("old.txt", 30, -1, 0)
			s1 := newSource("a.txt", c.Len, failAtFor(c), c.Chunk)
			h.sources = append(h.sources, s0, s1)
			_ = req.SetFileParam("file", s0)
			_ = req.SetFileParam("file", s1)
		case "file-history":
			if err := h.applyHistory(c, req); err != nil {
				return err
			}
		case "files-2-fields":
			s1 := newSource("a.txt", 30, -1, 0)
			s2 := newSource("b.txt", c.Len, failAtFor(c), c.Chunk)
			s3 := newSource("c.txt", 30, -1, 0)
			if c.FaultSrc == 0 {
				s1, s2 = newSource("a.txt", c.Len, failAtFor(c), c.Chunk), newSource("b.txt", 30, -1, 0)
			}
			h.sources = append(h.sources, s1, s2, s3)
			_ = req.SetFileParam("file", s1)
			_ = req.SetFileParam("other", s2, s3)
		}
		for _, src := range h.sources {
			src.closeErr = c.CloseFails
			src.failErr = sourceErrors[c.SrcErr]
		}
		if h.stream != nil {
			h.stream.failErr = sourceErrors[c.SrcErr]
		}
		if failWriter {
			return errInjected
		}
		return nil
	})
}

func failAtFor(c *Case) int {
	if c.Kind == "upload" {
		return c.Offset
	}
	return -1
}

func (h *harness) reader(c *Case) rt.ClientResponseReader {
	return rt.ClientResponseReaderFunc(func(resp rt.ClientResponse, cons rt.Consumer) (interface{}, error) {
		h.readerCalled = true
		switch c.Reader {
		case "none":
			return "ignored", nil
		case "half":
			buf := make([]byte, 8)
			_, _ = resp.Body().Read(buf)
			return "half", nil
		case "half+close":
			// generated readers commonly close the body themselves; Submit closes it again
			buf := make([]byte, 8)
			_, _ = resp.Body().Read(buf)
			_ = resp.Body().Close()
			return "half", nil
		case "err":
			return nil, errors.New("reader-refuses")
		case "copy-fail":
			h.dest = &failWriter{limit: c.WriteFailAt}
			n, err := io.Copy(h.dest, resp.Body())
			return n, err
		case "consume-fail":
			// the byte-stream consumer into a plain io.Writer: what generated clients do for file responses
			h.dest = &failWriter{limit: c.WriteFailAt}
			if err := cons.Consume(resp.Body(), h.dest); err != nil {
				return nil, err
			}
			return h.dest.n, nil
		case "readfrom-fail":
			h.dest = &failWriter{limit: c.WriteFailAt}
			if err := cons.Consume(resp.Body(), readFromDest{h.dest}); err != nil {
				return nil, err
			}
			return h.dest.n, nil
		default: // all, all+close
			if c.Reader == "all+close" {
				defer resp.Body().Close()
			}
			b, err := io.ReadAll(resp.Body())
			h.gotBody, h.readErr = b, err
			if err != nil {
				return nil, err
			}
			var v interface{}
			if err := cons.Consume(bytes.NewReader(b), &v); err != nil {
				return nil, err
			}
			return v, nil
		}
	})
}

// readsAll: the reader kinds that read the body to its end themselves.
func readsAll(rd string) bool { return rd == "all" || rd == "all+close" || rd == "" }

// movesBody: the reader kinds that move the body into a destination which may refuse part-way.
func movesBody(rd string) bool {
	return rd == "copy-fail" || rd == "consume-fail" || rd == "readfrom-fail"
}

// usableCT: response media types for which the Runtime has a consumer.
func usableCT(ct string) bool { return ct == "" || ct == "application/octet-stream" || ct == absentCT }

// absentCT: the scripted answer carries no Content-Type header at all (the Runtime's default media type applies)
const absentCT = "(absent)"

func consumesFor(c *Case) []string {
	switch c.Payload {
	case "file", "files+fields", "files-2-fields", "fields", "typed-file", "osfile", "file+dir", "file-replaced", "file-history":
		return []string{"multipart/form-data"}
	case "reader", "readcloser":
		return []string{"application/octet-stream"}
	}
	return []string{"application/json"}
}

func checkReleased(m *mon.M, c *Case, h *harness, before map[string]string, sigPrefix string) bool {
	ok := true
	// goroutines first: the settle loop also gives a finishing upload goroutine the time to run its deferred closes
	lk, verdict := settle(before, h.quiescent)
	switch verdict {
	case stillActive:
		// not one wall-clock bound makes a running goroutine a leaked one
		m.Class("settle-inconclusive:goroutine-still-active-at-the-hard-bound")
		h.osfilesClosed()
		return false
	case notWaitedOut:
		m.Class("settle-not-waited-out:this-worker-already-confirmed-leaks-the-long-way")
		h.osfilesClosed()
		return false
	case leakedParked:
		var sb strings.Builder
		for _, g := range lk {
			sb.WriteString(g)
			sb.WriteString("\n\n")
			if sb.Len() > 3000 {
				break
			}
		}
		how := "they are parked and no party is left that could wake them"
		if !h.quiescent {
			how = fmt.Sprintf("still parked, unchanged, after %s", settleBound)
		}
		m.Violate(sigPrefix+"/goroutine-left-behind", fmt.Sprintf("%d goroutine(s) with client frames remain after the call (%s); case %s\n%s", len(lk), how, c.key(), sb.String()), c)
		ok = false
	}
	for _, s := range h.sources {
		if atomic.LoadInt32(&s.closed) == 0 {
			m.Violate(sigPrefix+"/upload-source-not-closed", fmt.Sprintf("file %q handed over for upload was never closed; case %s", s.name, c.key()), c)
			ok = false
			break
		}
	}
	if open := h.osfilesClosed(); len(open) > 0 && ok {
		m.Violate(sigPrefix+"/upload-source-not-closed", fmt.Sprintf("%s handed over for upload was never closed; case %s", open[0], c.key()), c)
		ok = false
	}
	return ok
}

// harnessFailed files a case whose scaffolding failed as inconclusive.
func harnessFailed(m *mon.M, h *harness) bool {
	if h.harnessErr == nil {
		return false
	}
	m.Class("harness-scaffolding-failed-inconclusive")
	h.osfilesClosed()
	return true
}

// ---------- case kinds ----------

func runCase(m *mon.M, c *Case) {
	m.Eval(1)
	t0 := time.Now()
	defer func() { // where the wall clock of the run goes, by kind (evidence only)
		m.Note("wall_us_kind_"+c.Kind, int64(time.Since(t0)/time.Microsecond))
		m.Note("cases_kind_"+c.Kind, 1)
	}()
	if c.Perturb > 0 && c.Kind != "cancel" && c.Kind != "drain" && c.Kind != "reuse" {
		var mu sync.Mutex
		state := uint64(c.Perturb)*2654435761 + 12345
		verifhook.Set(func(string) {
			mu.Lock()
			state = state*6364136223846793005 + 1442695040888963407
			d := state >> 60
			mu.Unlock()
			switch {
			case d < 6:
			case d < 12:
				runtime.Gosched()
			default:
				time.Sleep(time.Duration(20*d) * time.Microsecond)
			}
		})
		defer verifhook.Set(nil)
		m.Class("schedule-perturbed")
	}
	switch c.Kind {
	case "presend":
		runPresend(m, c)
	case "upload":
		runUpload(m, c)
	case "roundtrip":
		runRoundtrip(m, c)
	case "server":
		runServer(m, c)
	case "cancel":
		runCancel(m, c)
	case "drain":
		runDrain(m, c)
	case "reuse":
		runReuse(m, c)
	}
}

// refusingDialer is the dialer of the real http.Transport of the refused-request placements: it counts the
// connections asked for and makes none. Whatever URL the call ends up with, no response can be obtained.
type refusingDialer struct{ calls int32 }

var errDialRefused = errors.New("c12: the scripted dialer makes no connection")

func (d *refusingDialer) DialContext(context.Context, string, string) (net.Conn, error) {
	atomic.AddInt32(&d.calls, 1)
	return nil, errDialRefused
}

// refusedFault: the pre-send placements where request construction itself has nothing to object to, but the
// request that was built cannot be sent: a scheme list that does not end on http/https, no host, a host that is
// no host name. Whoever refuses it (the Runtime before sending, http.Client, the transport before or at the dial),
// the exchange ends before anything is sent.
func refusedFault(f string) bool {
	return f == "unusual-schemes" || f == "empty-host" || f == "host-with-space"
}

func runPresend(m *mon.M, c *Case) {
	h := &harness{quiescent: !c.Debug}
	defer h.osfilesClosed()
	before := census()
	srt := &scriptedRT{mode: "ok", body: &respBody{data: []byte(`{"ok":1}`)}}
	base := "/api"
	pattern := "/things"
	method := "POST"
	var auth rt.ClientAuthInfoWriter
	failWriter := false
	switch c.Fault {
	case "writer-error":
		failWriter = true
	case "auth-error":
		auth = rt.ClientAuthInfoWriterFunc(func(rt.ClientRequest, strfmt.Registry) error { return errInjected })
	case "auth-error-after-getbody":
		auth = rt.ClientAuthInfoWriterFunc(func(r rt.ClientRequest, _ strfmt.Registry) error { _ = r.GetBody(); return errInjected })
	case "bad-base-path":
		base = "/%zz"
	case "bad-path-pattern":
		pattern = "/%zz"
	case "bad-method":
		method = "PO ST"
	}
	consumes := consumesFor(c)
	switch c.Fault { // a value payload for which no producer can encode the chosen media type: a parameter error before sending
	case "value-body-on-urlencoded":
		consumes = []string{"application/x-www-form-urlencoded", "application/json"}
	case "value-body-on-multipart":
		consumes = []string{"multipart/form-data"}
	case "unregistered-media-type":
		consumes = []string{"application/vnd.nobody-registered", "application/json"}
	}
	host, schemes := "example.invalid", []string{"http"}
	refused := refusedFault(c.Fault)
	var tr http.RoundTripper = srt
	dial, trapDial := &refusingDialer{}, &refusingDialer{}
	if refused {
		// a real http.Transport (net/http's own checks of scheme and host are part of the path) over a dialer that
		// makes no connection: it works synchronously inside RoundTrip and releases the request body before it
		// returns an error, so the quiescence rule of settle applies as with the scripted transport
		tr = &http.Transport{DialContext: dial.DialContext, DisableKeepAlives: true}
		switch c.Fault {
		case "unusual-schemes":
			schemes = c.RtSchemes
		case "empty-host":
			host = ""
		case "host-with-space":
			host = "exa mple.invalid"
		}
	}
	r := client.New(host, base, schemes)
	if c.Fault == "producer-fails" {
		r.Producers["application/json"] = rt.ProducerFunc(func(w io.Writer, _ interface{}) error {
			_, _ = w.Write([]byte(`{"half":`))
			return errInjected
		})
	}
	if c.Fault == "bad-base-path" {
		r.BasePath = base
	}
	r.Transport = tr
	if refused && c.OpClient {
		// the operation brings its own client over the refusing transport; the Runtime's own is a second one
		// (which of them carries the exchange is not C12's subject)
		r.Transport = &http.Transport{DialContext: trapDial.DialContext, DisableKeepAlives: true}
	}
	if c.Reuse {
		r.EnableConnectionReuse()
	}
	debugOn(r, c)
	op := &rt.ClientOperation{ID: "x", Method: method, PathPattern: pattern, ConsumesMediaTypes: consumes, ProducesMediaTypes: []string{"application/json"},
		Params: h.params(c, baseDeadline, failWriter), Reader: h.reader(c), AuthInfo: auth, Context: context.Background()}
	if refused {
		op.Schemes = c.OpSchemes
		if c.OpClient {
			opTr := tr
			if c.Reuse {
				opTr = client.KeepAliveTransport(tr)
			}
			op.Client = &http.Client{Transport: opTr}
			m.Class("config:operation-client")
		}
	}
	o := submitWatched(r, op, 200*baseDeadline)
	feat := c.Fault + "/" + payloadFeat(c)
	if refused && c.OpClient {
		feat += "/operation-client"
	}
	if !o.returned {
		m.Violate("presend/did-not-return/"+feat, "Submit did not return; case "+c.key()+"\n"+o.dump, c)
		return
	}
	if harnessFailed(m, h) {
		return
	}
	m.NT(c.key())
	if c.Payload == "readcloser" && h.stream != nil {
		// a stream handed over as the BODY is not a file parameter: the statement's "every file handed over for
		// upload has been closed" is not applied to it; what the tree does is counted
		if atomic.LoadInt32(&h.stream.closed) == 0 {
			m.Class("probe:readcloser-payload-left-open-after-presend-error")
		} else {
			m.Class("probe:readcloser-payload-closed-after-presend-error")
		}
	}
	if c.Fault == "file-param-is-directory" {
		if h.paramErr != nil {
			m.Class("probe:directory-refused-by-SetFileParam")
		} else {
			m.Class("probe:directory-accepted-by-SetFileParam") // then it fails as an upload source at byte 0: an error all the same
		}
	}
	if refused {
		// where the request was turned down is counted, not judged: the statement only asks how the call ends
		switch dials := atomic.LoadInt32(&dial.calls) + atomic.LoadInt32(&trapDial.calls); {
		case dials == 0:
			m.Class("refused-request:turned-down-before-any-dial")
		default:
			m.Class("refused-request:turned-down-at-the-dial")
		}
		if o.err == nil {
			// no connection was ever made: no response, let alone a complete one, can have been obtained
			m.Violate("presend/no-error/"+feat, fmt.Sprintf("Submit returned (%v, nil) although no connection was made (host %q, Runtime schemes %q, operation schemes %q; the dialer refuses every connection); case %s", o.res, host, c.RtSchemes, c.OpSchemes, c.key()), c)
			return
		}
	}
	if o.err == nil {
		m.Violate("presend/no-error/"+feat, "Submit returned nil error although request construction failed; case "+c.key(), c)
		return
	}
	if strings.HasPrefix(o.err.Error(), "PANIC") {
		m.Violate("presend/panic/"+feat, o.err.Error(), c)
		return
	}
	if !refused && atomic.LoadInt32(&srt.calls) != 0 && !(c.Fault == "file-param-is-directory" && h.paramErr == nil) {
		m.Violate("presend/sent-anyway/"+feat, "the transport was invoked although request construction failed", c)
		return
	}
	if checkReleased(m, c, h, before, "presend/"+feat) {
		m.Class("presend-ok")
	}
}

func runUpload(m *mon.M, c *Case) {
	h := &harness{quiescent: !c.Debug}
	defer h.osfilesClosed()
	before := census()
	srt := &scriptedRT{mode: "ok", body: &respBody{data: []byte(`{"ok":1}`)}}
	var tr http.RoundTripper = srt
	host := "example.invalid"
	realTr := c.Fault == "real-transport"
	if realTr {
		// the same placements through a real http.Transport to a loopback server that answers 200 once it has read a
		// request body to its (well-formed) end
		us, err := startUploadServer()
		if err != nil {
			m.Class("listen-failed")
			return
		}
		defer us.Close()
		rtr := &http.Transport{DisableKeepAlives: !c.Reuse}
		defer rtr.CloseIdleConnections()
		tr, host = rtr, us.Listener.Addr().String()
		h.quiescent = false
		before = census()
	}
	r := client.New(host, "/api", []string{"http"})
	r.Transport = tr
	if c.Reuse {
		r.EnableConnectionReuse()
	}
	debugOn(r, c)
	var auth rt.ClientAuthInfoWriter
	if c.Fault == "with-getbody-auth" {
		auth = rt.ClientAuthInfoWriterFunc(func(r rt.ClientRequest, _ strfmt.Registry) error { _ = r.GetBody(); return nil })
	}
	op := &rt.ClientOperation{ID: "x", Method: "POST", PathPattern: "/things", ConsumesMediaTypes: consumesFor(c), ProducesMediaTypes: []string{"application/json"},
		Params: h.params(c, baseDeadline, false), Reader: h.reader(c), AuthInfo: auth, Context: context.Background()}
	o := submitWatched(r, op, 200*baseDeadline)
	feat := payloadFeat(c)
	if c.Fault != "" {
		feat += "+" + c.Fault
	}
	if c.SrcErr != "" {
		if sourceErrors[c.SrcErr] == nil {
			m.Class("harness-unknown-source-error-name-inconclusive")
			return
		}
		feat += "/source-error-" + c.SrcErr
		m.Class("source-error-value:" + c.SrcErr)
	}
	if !o.returned {
		m.Violate("upload/did-not-return/"+feat, "Submit did not return; case "+c.key()+"\n"+o.dump, c)
		return
	}
	if harnessFailed(m, h) {
		return
	}
	faulty := c.Offset >= 0 && c.Offset < c.Len
	if c.Offset == c.Len && c.Offset >= 0 {
		faulty = true // error instead of EOF at the very end
	}
	if c.Payload == "file-history" && c.Offset >= 0 && !historyHasUploaded(c.History) {
		// no source is left to be read at the end of the sequence: a source fault cannot be placed
		m.Class("harness-history-leaves-no-source-to-fail-inconclusive")
		return
	}
	if c.Payload == "file-history" {
		m.Class("file-history:" + historyClass(c.History))
	}
	m.NT(c.key())
	if o.err != nil && strings.HasPrefix(o.err.Error(), "PANIC") {
		m.Violate("upload/panic/"+feat, o.err.Error(), c)
		return
	}
	if faulty && o.err == nil {
		m.Violate("upload/failing-source-reported-as-success/"+feat, fmt.Sprintf("source fails at byte %d of %d but Submit returned (%v, nil); transport consumed %d bytes (body error: %v); case %s", c.Offset, c.Len, o.res, srt.consumed, srt.bodyErr, c.key()), c)
		return
	}
	if !faulty && o.err != nil && c.CloseFails && c.Payload == "readcloser" {
		// every byte was delivered and only Close of the stream reported an error: whether that fails the call is
		// outside the statement (return, goroutines and no panic are judged as everywhere)
		m.Class("stream-close-error-outcome-not-judged")
	} else if !faulty && o.err != nil && realTr {
		// a healthy upload over the loopback that failed (the short deadline of the case on a loaded machine, no
		// connection): the scripted-transport placements judge healthy uploads
		m.Class("real-transport-healthy-upload-failed-inconclusive")
	} else if !faulty && o.err != nil {
		m.Violate("upload/healthy-source-failed/"+feat, fmt.Sprintf("no fault scripted but Submit failed: %v; case %s", o.err, c.key()), c)
		return
	}
	if checkReleased(m, c, h, before, "upload/"+feat) {
		m.Class("upload-ok")
	}
}

// startUploadServer: a loopback net/http server that reads the request body and answers 200 when it came to a
// well-formed end, 400 when it did not.
func startUploadServer() (*httptest.Server, error) {
	ln, err := net.Listen("tcp", "127.0.0.1:0")
	if err != nil {
		return nil, err
	}
	us := &httptest.Server{Listener: ln, Config: &http.Server{ErrorLog: log.New(io.Discard, "", 0), Handler: http.HandlerFunc(func(w http.ResponseWriter, r *http.Request) {
		var err error
		if mr, merr := r.MultipartReader(); merr == nil {
			for err == nil {
				var p *multipart.Part
				if p, err = mr.NextPart(); err == nil {
					_, err = io.Copy(io.Discard, p)
				}
			}
			if err == io.EOF {
				err = nil
			}
		} else {
			_, err = io.Copy(io.Discard, r.Body)
		}
		w.Header().Set("Content-Type", "application/json")
		if err != nil {
			w.WriteHeader(http.StatusBadRequest)
		}
		_, _ = w.Write([]byte(`{"ok":1}`))
	})}}
	us.Start()
	return us, nil
}

func runRoundtrip(m *mon.M, c *Case) {
	h := &harness{quiescent: !c.Debug}
	defer h.osfilesClosed()
	before := census()
	rl := c.Len
	if c.RespLen > 0 {
		rl = c.RespLen
	}
	body := &respBody{data: []byte(`{"k":"` + strings.Repeat("r", rl) + `"}`), eofWith: c.EOFWith, failAt: c.RespFailAt}
	srt := &scriptedRT{mode: c.Fault, body: body, ct: c.RespCT, status: c.RespStatus, knownLen: c.RespKnownLen}
	op := &rt.ClientOperation{ID: "x", Method: "POST", PathPattern: "/things", ConsumesMediaTypes: consumesFor(c), ProducesMediaTypes: []string{"application/json"},
		Params: h.params(c, baseDeadline, false), Reader: h.reader(c), Context: context.Background()}
	r := wire(m, c, "example.invalid", srt, op)
	debugOn(r, c)
	o := submitWatched(r, op, 200*baseDeadline)
	feat := c.Fault + "/" + payloadFeat(c) + "/reader-" + c.Reader
	if c.OpClient {
		feat += "/operation-client"
	}
	if !o.returned {
		m.Violate("roundtrip/did-not-return/"+feat, "Submit did not return; case "+c.key()+"\n"+o.dump, c)
		return
	}
	if harnessFailed(m, h) {
		return
	}
	m.NT(c.key())
	if o.err != nil && strings.HasPrefix(o.err.Error(), "PANIC") {
		m.Violate("roundtrip/panic/"+feat, o.err.Error(), c)
		return
	}
	if c.Fault != "ok" {
		if o.err == nil {
			m.Violate("roundtrip/transport-error-swallowed/"+feat, "the transport failed but Submit returned nil error; case "+c.key(), c)
			return
		}
	} else {
		usable := usableCT(c.RespCT)
		if !usable {
			// the answer's Content-Type cannot be parsed, or nothing is registered for it: the exchange ends with
			// an error before the reader runs -- and the body still has to be closed (drained under reuse)
			feat += "/unusable-response-content-type"
			if _, _, perr := mime.ParseMediaType(c.RespCT); perr != nil {
				m.Class("response-content-type-does-not-parse")
			} else {
				m.Class("response-content-type-has-no-consumer")
			}
			if o.err == nil {
				m.Violate("roundtrip/unusable-content-type-accepted/"+feat, fmt.Sprintf("response Content-Type %q but Submit returned nil error", c.RespCT), c)
				return
			}
		}
		destRefused := movesBody(c.Reader) && h.dest != nil && h.dest.failed
		if movesBody(c.Reader) && usable {
			if destRefused {
				m.Class("destination-refused-part-way")
			} else {
				m.Class("destination-took-everything")
			}
		}
		if usable && (c.Reader == "err" || destRefused) && o.err == nil {
			m.Violate("roundtrip/reader-error-swallowed/"+feat, "the response reader failed but Submit returned nil error", c)
			return
		}
		if c.RespFailAt > 0 && usable && readsAll(c.Reader) && o.err == nil {
			m.Violate("roundtrip/response-body-error-swallowed/"+feat, fmt.Sprintf("the response body failed after %d of %d bytes but Submit returned nil error", c.RespFailAt, len(body.data)), c)
			return
		}
		if c.RespFailAt > 0 && c.RespFailAt < len(body.data) && usable && readsAll(c.Reader) && h.readerCalled && h.readErr == nil && len(h.gotBody) < len(body.data) {
			// judged on what the reader was shown, not on what the harness's own JSON parse makes of the cut text
			m.Violate("roundtrip/response-body-error-hidden-from-reader/"+feat, fmt.Sprintf("the response body failed after %d of %d bytes; the reader was shown %d bytes and a clean end of stream (Submit: %v)", c.RespFailAt, len(body.data), len(h.gotBody), o.err), c)
			return
		}
		if c.RespFailAt == 0 && usable && c.Reader != "err" && !destRefused && o.err != nil {
			m.Violate("roundtrip/healthy-exchange-failed/"+feat, fmt.Sprintf("Submit failed: %v; case %s", o.err, c.key()), c)
			return
		}
		if c.RespFailAt == 0 && usable && readsAll(c.Reader) && string(h.gotBody) != string(body.data) {
			m.Violate("roundtrip/body-altered/"+feat, fmt.Sprintf("reader saw %q, sent %q", h.gotBody, body.data), c)
			return
		}
		if atomic.LoadInt32(&body.closed) == 0 {
			m.Violate("roundtrip/response-body-not-closed/"+feat, "the response body was not closed; case "+c.key(), c)
			return
		}
		if c.Reuse && c.RespFailAt > 0 && !body.failed && !body.sawEOF {
			m.Violate("roundtrip/response-body-closed-undrained/"+feat, fmt.Sprintf("connection reuse is on and the body was closed after %d bytes without reading on to its end (it would have failed at byte %d); case %s", len(body.data)-body.left(), c.RespFailAt, c.key()), c)
			return
		}
		if c.Reuse && c.RespFailAt == 0 && !body.sawEOF && body.left() > 0 {
			m.Violate("roundtrip/response-body-closed-undrained/"+feat, fmt.Sprintf("connection reuse is on, the end of the body was not seen, and %d bytes were left unread at Close; case %s", body.left(), c.key()), c)
			return
		}
	}
	if checkReleased(m, c, h, before, "roundtrip/"+feat) {
		m.Class("roundtrip-ok")
	}
}

// ---------- raw TCP fault server ----------

type faultServer struct {
	ln      net.Listener
	release chan struct{}
	sentCh  chan int
	mu      sync.Mutex
	conns   []net.Conn
	winding bool
	wg      sync.WaitGroup // the accept loop and every connection handler
}

// windUp ends the server once the call under observation has returned: the fault is lifted, nothing more is
// accepted, a handler still waiting for a request (a connection the client opened and never used) is woken, and
// every handler is waited for. Afterwards sentCh holds what the handlers reported, and nothing else will come: the
// question "did the fault point deliver?" is answered by events, not by waiting some time for an answer.
func (fs *faultServer) windUp(release func()) (sent int) {
	release()
	fs.ln.Close()
	fs.mu.Lock()
	fs.winding = true
	for _, c := range fs.conns {
		_ = c.SetReadDeadline(time.Now())
	}
	fs.mu.Unlock()
	fs.wg.Wait()
	sent = -2
	for {
		select {
		case n := <-fs.sentCh:
			if n > sent {
				sent = n
			}
		default:
			return sent
		}
	}
}

func (fs *faultServer) report(n int) {
	select {
	case fs.sentCh <- n:
	default:
	}
}

func cannedResponse(chunked bool) []byte {
	body := cannedBody
	if chunked {
		half := len(body) / 2
		return []byte(fmt.Sprintf("HTTP/1.1 200 OK\r\nContent-Type: application/json\r\nTransfer-Encoding: chunked\r\n\r\n%x\r\n%s\r\n%x\r\n%s\r\n0\r\n\r\n", half, body[:half], len(body)-half, body[half:]))
	}
	return []byte(fmt.Sprintf("HTTP/1.1 200 OK\r\nContent-Type: application/json\r\nContent-Length: %d\r\n\r\n%s", len(body), body))
}

func readRequest(br *bufio.Reader) error {
	req, err := http.ReadRequest(br)
	if err != nil {
		return err
	}
	_, err = io.Copy(io.Discard, req.Body)
	return err
}

func startFaultServer(action string, offset int, chunked bool) (*faultServer, error) {
	ln, err := net.Listen("tcp", "127.0.0.1:0")
	if err != nil {
		return nil, err
	}
	fs := &faultServer{ln: ln, release: make(chan struct{}), sentCh: make(chan int, 64)}
	resp := cannedResponse(chunked)
	fs.wg.Add(1)
	go func() {
		defer fs.wg.Done()
		for {
			conn, err := ln.Accept()
			if err != nil {
				return
			}
			fs.mu.Lock()
			fs.conns = append(fs.conns, conn)
			if fs.winding {
				_ = conn.SetReadDeadline(time.Now())
			}
			fs.wg.Add(1)
			fs.mu.Unlock()
			go func(conn net.Conn) {
				defer fs.wg.Done()
				defer conn.Close()
				if action == "stall-unread" {
					// the server accepts and never reads: the upload blocks once the socket buffers are full
					if tc, ok := conn.(*net.TCPConn); ok {
						_ = tc.SetReadBuffer(4096)
					}
					fs.report(0)
					<-fs.release
					return
				}
				br := bufio.NewReader(conn)
				if err := readRequest(br); err != nil {
					fs.report(-1)
					return
				}
				n := offset
				if n > len(resp) {
					n = len(resp)
				}
				_, _ = conn.Write(resp[:n])
				fs.report(n)
				switch action {
				case "close":
				case "reset":
					if tc, ok := conn.(*net.TCPConn); ok {
						_ = tc.SetLinger(0)
					}
				case "stall":
					<-fs.release
				}
			}(conn)
		}
	}()
	return fs, nil
}

// smallWriteBuffer: a dialer whose connections have a small send buffer, so that an upload the server does not read
// blocks after a few kilobytes instead of after the megabytes the kernel would buffer.
func smallWriteBuffer(ctx context.Context, network, addr string) (net.Conn, error) {
	var d net.Dialer
	conn, err := d.DialContext(ctx, network, addr)
	if tc, ok := conn.(*net.TCPConn); ok && err == nil {
		_ = tc.SetWriteBuffer(8192)
	}
	return conn, err
}

const cannedBody = `{"k":"0123456789abcdefghij"}`

func runServer(m *mon.M, c *Case) {
	fs, err := startFaultServer(c.Fault, c.Offset, c.Chunked)
	if err != nil {
		m.Class("listen-failed")
		return
	}
	released := false
	rel := func() {
		if !released {
			released = true
			close(fs.release)
		}
	}
	defer func() { rel(); fs.ln.Close() }()
	h := &harness{}
	defer h.osfilesClosed()
	if c.Len >= 1<<20 {
		_ = pattern(c.Len) // built before the deadline clock of the case starts
	}
	before := census()
	timeout, ctx, cancel := deadlines(c)
	defer cancel()
	tr := &http.Transport{DisableKeepAlives: !c.Reuse}
	if c.Fault == "stall-unread" {
		tr.DialContext = smallWriteBuffer
	}
	defer tr.CloseIdleConnections()
	c2 := *c
	if c2.Reader == "" {
		c2.Reader = "all"
	}
	op := &rt.ClientOperation{ID: "x", Method: "POST", PathPattern: "/things", ConsumesMediaTypes: consumesFor(c), ProducesMediaTypes: []string{"application/json"},
		Params: h.params(c, timeout, false), Reader: h.reader(&c2), Context: ctx}
	r := wire(m, c, fs.ln.Addr().String(), tr, op)
	o := submitWatched(r, op, 200*baseDeadline)
	full := len(cannedResponse(c.Chunked))
	complete := c.Offset >= full && c.Fault != "stall-unread"
	feat := c.Fault + "/" + c.Deadline
	if c.OpClient {
		feat += "/operation-client"
	}
	if c.CtxVia != "" {
		feat += "/context-from-" + c.CtxVia
	}
	if !o.returned {
		m.Violate("server/did-not-return-while-fault-held/"+feat, fmt.Sprintf("Submit had not returned after 200x the effective deadline; case %s\n%s", c.key(), o.dump), c)
		rel()
		return
	}
	if harnessFailed(m, h) {
		return
	}
	// the call has returned while the fault was held: the verdict on termination is in; the server is wound up and
	// says whether the fault point was reached
	sent := fs.windUp(rel)
	if sent >= 0 {
		if c.Fault == "stall-unread" {
			// confirmed when the upload was still under way when the call returned
			src := h.stream
			if len(h.sources) > 0 {
				src = h.sources[0]
			}
			if src != nil && src.consumed() < c.Len {
				m.NT(c.key())
				m.Class("upload-blocked-on-unread-connection")
			} else {
				m.Class("fault-not-reached")
			}
		} else {
			m.NT(c.key())
		}
	} else {
		m.Class("fault-not-reached")
	}
	if o.err != nil && strings.HasPrefix(o.err.Error(), "PANIC") {
		m.Violate("server/panic/"+feat, o.err.Error(), c)
		return
	}
	if !readsAll(c2.Reader) {
		// a reader that stops early: whether the call fails depends on where the fault lies; what is owed is
		// the return (above), and the release of everything once the fault is lifted
		rel()
		if checkReleased(m, c, h, before, "server/"+feat+"/reader-"+c2.Reader) {
			m.Class("server-early-reader-ok")
		}
		return
	}
	if !complete && o.err == nil {
		m.Violate("server/incomplete-response-reported-as-success/"+feat, fmt.Sprintf("the server delivered %d of %d response bytes then %s, but Submit returned (%v, nil); reader saw %q", sent, full, c.Fault, o.res, h.gotBody), c)
		return
	}
	if !complete && h.readerCalled && h.readErr == nil && len(h.gotBody) < len(cannedBody) {
		// the cut was turned into a clean end of stream before the reader: judged on what the reader was shown, not on
		// what the harness's own JSON parse makes of the cut text
		m.Violate("server/truncation-hidden-from-reader/"+feat, fmt.Sprintf("the server delivered %d of %d response bytes then %s; the reader was shown %d of %d body bytes and a clean end of stream (Submit: %v)", sent, full, c.Fault, len(h.gotBody), len(cannedBody), o.err), c)
		return
	}
	switch {
	case complete && o.err != nil && isDeadline(o.err):
		// the complete response raced the (short) deadline on a loaded machine: nothing can be concluded
		m.Class("complete-response-lost-to-deadline-inconclusive")
	case complete && o.err != nil && sent < 0:
		// the exchange failed before the server delivered anything (no connection, no ephemeral port, ...):
		// a fault of the machine, not the scripted one
		m.Class("exchange-failed-before-the-fault-point-inconclusive")
	case complete && o.err != nil && c.Fault != "reset":
		m.Violate("server/complete-response-failed/"+feat, fmt.Sprintf("the complete response was delivered but Submit failed: %v; case %s", o.err, c.key()), c)
		return
	}
	rel()
	if checkReleased(m, c, h, before, "server/"+feat) {
		if o.err == nil {
			m.Class("server-complete-ok")
		} else {
			m.Class("server-fault-surfaced")
		}
	}
}

func isDeadline(err error) bool {
	if errors.Is(err, context.DeadlineExceeded) {
		return true
	}
	var ne net.Error
	return errors.As(err, &ne) && ne.Timeout()
}

// ---------- cancellation at hook points ----------

// hookBeforeDo: the hook points that lie before client.Do: a cancellation placed there precedes the exchange.
func hookBeforeDo(hp string) bool {
	switch hp {
	case "cl.submit.built", "cl.submit.clientReady", "cl.submit.beforeDo", "cl.getbody.copy":
		return true
	}
	return false
}

func runCancel(m *mon.M, c *Case) {
	ln, err := net.Listen("tcp", "127.0.0.1:0")
	if err != nil {
		m.Class("listen-failed")
		return
	}
	respBytes := []byte(`{"k":"` + strings.Repeat("z", 2000) + `"}`)
	hold := make(chan struct{})
	var holdOnce sync.Once
	lift := func() { holdOnce.Do(func() { close(hold) }) }
	srv := &http.Server{Handler: http.HandlerFunc(func(w http.ResponseWriter, r *http.Request) {
		_, _ = io.Copy(io.Discard, r.Body)
		w.Header().Set("Content-Type", "application/json")
		if c.ServerHolds {
			// status line, headers and half of the body, then nothing before the verdict on the call's return is in
			_, _ = w.Write(respBytes[:len(respBytes)/2])
			if f, ok := w.(http.Flusher); ok {
				f.Flush()
			}
			<-hold
			_, _ = w.Write(respBytes[len(respBytes)/2:])
			return
		}
		_, _ = w.Write(respBytes)
	})}
	go func() { _ = srv.Serve(ln) }()
	defer srv.Close()
	defer lift()
	h := &harness{}
	defer h.osfilesClosed()
	before := census()
	ctx, cancel := context.WithCancel(context.Background())
	defer cancel()
	var fired int32
	verifhook.Set(func(p string) {
		if p == c.HookPoint && atomic.CompareAndSwapInt32(&fired, 0, 1) {
			cancel()
		}
	})
	defer verifhook.Set(nil)
	tr := &http.Transport{DisableKeepAlives: !c.Reuse}
	defer tr.CloseIdleConnections()
	c2 := *c
	c2.Reader = "all"
	var auth rt.ClientAuthInfoWriter
	if c.AuthGetBody {
		auth = rt.ClientAuthInfoWriterFunc(func(r rt.ClientRequest, _ strfmt.Registry) error { _ = r.GetBody(); return nil })
	}
	timeout := 100 * baseDeadline
	if c.ServerHolds {
		timeout = 0 // no timeout of the call's own: only the cancellation can end it while the server holds
	}
	op := &rt.ClientOperation{ID: "x", Method: "POST", PathPattern: "/things", ConsumesMediaTypes: consumesFor(c), ProducesMediaTypes: []string{"application/json"},
		Params: h.params(c, timeout, false), Reader: h.reader(&c2), AuthInfo: auth, Context: ctx}
	r := wire(m, c, ln.Addr().String(), tr, op)
	o := submitWatched(r, op, 200*baseDeadline)
	feat := c.HookPoint + "/" + c.Payload
	if c.ServerHolds {
		feat += "/server-holds"
	}
	if c.OpClient {
		feat += "/operation-client"
	}
	if c.CtxVia != "" {
		feat += "/context-from-" + c.CtxVia
	}
	if !o.returned {
		if c.ServerHolds && atomic.LoadInt32(&fired) == 0 {
			m.Class("hook-not-reached") // nothing was cancelled: the call is rightly waiting for the server
			return
		}
		m.Violate("cancel/did-not-return/"+feat, "Submit did not return after cancellation; case "+c.key()+"\n"+o.dump, c)
		return
	}
	lift()
	if atomic.LoadInt32(&fired) == 1 {
		m.NT(c.key())
	} else {
		m.Class("hook-not-reached")
	}
	if o.err != nil && strings.HasPrefix(o.err.Error(), "PANIC") {
		m.Violate("cancel/panic/"+feat, o.err.Error(), c)
		return
	}
	if o.err == nil && string(h.gotBody) != string(respBytes) {
		m.Violate("cancel/incomplete-response-reported-as-success/"+feat, fmt.Sprintf("Submit returned nil error but the reader saw %d of %d body bytes", len(h.gotBody), len(respBytes)), c)
		return
	}
	if c.ServerHolds && o.err == nil {
		// the server was still holding its answer when Submit returned: no complete response can have been obtained
		m.Violate("cancel/success-without-a-response/"+feat, "Submit returned nil error while the server was still holding its answer", c)
		return
	}
	if checkReleased(m, c, h, before, "cancel/"+feat) {
		switch {
		case o.err == nil && hookBeforeDo(c.HookPoint) && atomic.LoadInt32(&fired) == 1:
			// the complete response was obtained although the context was cancelled before the exchange began: the
			// statement asks for an error "unless the complete response was obtained", so this is counted, not judged;
			// the server-holds variant of the same placement is the one that judges a dropped cancellation
			m.Class("cancel-before-do-yet-complete")
			m.Class("cancel-too-late-complete")
		case o.err == nil:
			m.Class("cancel-too-late-complete")
		default:
			m.Class("cancel-surfaced")
		}
	}
}

// ---------- the connection-reuse body wrapper alone ----------

type onceRT struct{ body *respBody }

// captureWriter records what a destination was offered and accepted.
type captureWriter struct {
	w   io.Writer
	got []byte
}

func (c *captureWriter) Write(p []byte) (int, error) {
	n, err := c.w.Write(p)
	c.got = append(c.got, p[:n]...)
	return n, err
}

func (o onceRT) RoundTrip(r *http.Request) (*http.Response, error) {
	return &http.Response{StatusCode: 200, Body: o.body, Header: http.Header{}, Request: r}, nil
}

func runDrain(m *mon.M, c *Case) {
	body := &respBody{data: bytes.Repeat([]byte("d"), c.Len), eofWith: c.EOFWith, chunk: c.Chunk}
	krt := client.KeepAliveTransport(onceRT{body})
	req, _ := http.NewRequest("GET", "http://example.invalid/", nil)
	resp, err := krt.RoundTrip(req)
	if err != nil {
		m.Violate("drain/roundtrip-error", err.Error(), c)
		return
	}
	var got []byte
	sawEOF := false
	pv, st := mon.Catch(func() {
		for _, sz := range c.Sizes {
			buf := make([]byte, sz)
			n, err := resp.Body.Read(buf)
			got = append(got, buf[:n]...)
			if err == io.EOF {
				sawEOF = true
				break
			}
		}
		if c.CopyFailAt > 0 && !sawEOF {
			// the rest is moved with io.Copy into a destination that refuses part-way; a copy that comes back
			// without an error has seen the end of the stream, one that failed on the destination has not
			fw := &failWriter{limit: c.CopyFailAt}
			cw := &captureWriter{w: fw}
			_, _ = io.Copy(cw, resp.Body)
			got = append(got, cw.got...)
			if body.eofSeen() { // observed on the instrumented body itself, before Close
				sawEOF = true
			}
		}
		_ = resp.Body.Close()
	})
	m.NT(c.key())
	zero := "no-zero-length-read"
	for _, s := range c.Sizes {
		if s == 0 {
			zero = "zero-length-read"
		}
	}
	if c.CopyFailAt > 0 {
		zero += "/then-copy-into-failing-destination"
	}
	if pv != nil {
		m.Violate("drain/panic/"+zero, fmt.Sprintf("%v\n%s", pv, st), c)
		return
	}
	if !bytes.Equal(got, body.data[:len(got)]) {
		m.Violate("drain/bytes-altered/"+zero, "bytes read through the wrapper differ from the body", c)
		return
	}
	if n := atomic.LoadInt32(&body.closed); n != 1 {
		m.Violate("drain/close-count/"+zero, fmt.Sprintf("underlying body closed %d times", n), c)
		return
	}
	if !sawEOF && body.left() > 0 {
		m.Violate("drain/closed-undrained/"+zero, fmt.Sprintf("the end of the body was not seen (reads %v) yet %d of %d bytes were left unread at Close", c.Sizes, body.left(), c.Len), c)
		return
	}
	m.Class("drain-ok")
}

// ---------- enumeration ----------

func enumerate(m *mon.M) []*Case {
	var cs []*Case
	quick := m.Quick()
	// "fields": a multipart document of plain form fields only (the streaming goroutine runs without any file)
	payloads := []string{"file", "files+fields", "json", "reader", "readcloser", "none", "fields"}
	for _, f := range []string{"writer-error", "auth-error", "auth-error-after-getbody", "bad-base-path", "bad-path-pattern", "bad-method"} {
		for _, p := range payloads {
			for _, reuse := range []bool{false, true} {
				cs = append(cs, &Case{Kind: "presend", Fault: f, Payload: p, Len: 700, Reuse: reuse, Reader: "all"})
			}
		}
	}
	// a value payload that no producer can encode for the chosen media type, a producer that fails half-way, a media type nobody registered
	for _, f := range []string{"value-body-on-urlencoded", "value-body-on-multipart", "producer-fails"} {
		for _, reuse := range []bool{false, true} {
			cs = append(cs, &Case{Kind: "presend", Fault: f, Payload: "json", Len: 700, Reuse: reuse, Reader: "all"})
		}
	}
	for _, p := range payloads {
		cs = append(cs, &Case{Kind: "presend", Fault: "unregistered-media-type", Payload: p, Len: 700, Reader: "all"})
	}
	// a directory handed to SetFileParam after a file was accepted; a real temporary file; a source that declares its type
	for _, reuse := range []bool{false, true} {
		cs = append(cs, &Case{Kind: "presend", Fault: "file-param-is-directory", Payload: "file+dir", Len: 700, Reuse: reuse, Reader: "all"})
	}
	for _, f := range []string{"writer-error", "auth-error", "auth-error-after-getbody", "bad-method"} {
		for _, p := range []string{"osfile", "typed-file"} {
			cs = append(cs, &Case{Kind: "presend", Fault: f, Payload: p, Len: 700, Reader: "all"})
		}
	}
	// a request that builds but cannot be sent: the scheme picked from the Runtime's list or the operation's is not
	// http/https (ws and wss are legal in a Swagger 2 schemes list; a typo; upper case), there is no host, the host
	// is no host name. Whoever turns it down (the Runtime once the request is built, http.Client, the transport before
	// or at the dial -- the dialer of these cases makes no connection), the exchange ends before anything is sent:
	// for every payload kind, the streaming goroutine of a multipart request is already running by then
	allPayloads := append(append([]string{}, payloads...), "typed-file", "osfile", "files-2-fields", "file-replaced")
	type schemeLists struct{ rt, op []string }
	lists := []schemeLists{
		{rt: []string{"ws"}}, {rt: []string{"wss"}}, {rt: []string{"htpp"}}, {rt: []string{"ws", "wss"}}, {rt: []string{"ws", "http"}}, {rt: []string{"HTTP"}},
		{op: []string{"ws"}}, {op: []string{"wss", "ws"}}, {op: []string{"htpp"}}, {op: []string{"Https"}},
		{rt: []string{"ws"}, op: []string{"http"}}, {rt: []string{""}, op: []string{"wss"}},
	}
	for _, p := range allPayloads {
		for _, reuse := range []bool{false, true} {
			for _, sl := range lists {
				cs = append(cs, &Case{Kind: "presend", Fault: "unusual-schemes", Payload: p, Len: 700, Reuse: reuse, Reader: "all", RtSchemes: sl.rt, OpSchemes: sl.op})
			}
			for _, f := range []string{"empty-host", "host-with-space"} {
				cs = append(cs, &Case{Kind: "presend", Fault: f, Payload: p, Len: 700, Reuse: reuse, Reader: "all"})
			}
			// through the operation's own client
			cs = append(cs, &Case{Kind: "presend", Fault: "unusual-schemes", Payload: p, Len: 700, Reuse: reuse, Reader: "all", OpSchemes: []string{"ws"}, OpClient: true})
			cs = append(cs, &Case{Kind: "presend", Fault: "empty-host", Payload: p, Len: 700, Reuse: reuse, Reader: "all", OpClient: true})
		}
		// Runtime.Debug on: the request is dumped (its body read) before it is turned down
		cs = append(cs, &Case{Kind: "presend", Fault: "unusual-schemes", Payload: p, Len: 700, Reader: "all", RtSchemes: []string{"ws"}, Debug: true})
		cs = append(cs, &Case{Kind: "presend", Fault: "host-with-space", Payload: p, Len: 700, Reader: "all", Debug: true})
		// sources whose Close reports an error
		if p == "file" || p == "files+fields" || p == "files-2-fields" {
			cs = append(cs, &Case{Kind: "presend", Fault: "unusual-schemes", Payload: p, Len: 700, Reader: "all", RtSchemes: []string{"wss"}, CloseFails: true})
			cs = append(cs, &Case{Kind: "presend", Fault: "empty-host", Payload: p, Len: 700, Reader: "all", CloseFails: true})
		}
	}
	// upload-source faults at every offset
	maxLen := 64
	lens := []int{0, 1, 2, 7, 64, 600} // 600: beyond the 512 bytes read to sniff the type of a file part
	if !quick {
		maxLen = 70000
		lens = nil
		for l := 0; l <= 64; l++ {
			lens = append(lens, l)
		}
		lens = append(lens, 100, 255, 256, 257, 510, 511, 512, 513, 514, 600, 1023, 1024, 1500, 4095, 4096, 4097, 70000)
	}
	_ = maxLen
	for _, p := range []string{"file", "files+fields", "reader", "readcloser"} {
		for _, l := range lens {
			step := 1
			switch {
			case l > 2000:
				step = l / 40
			case l > 600 || (quick && l > 128):
				step = 7
			}
			for off := 0; off <= l; off += step {
				for _, chunk := range []int{0, 1} {
					if chunk == 1 && l > 128 && off%3 != 0 {
						continue
					}
					cs = append(cs, &Case{Kind: "upload", Payload: p, Len: l, Offset: off, Chunk: chunk, Reader: "all"})
				}
			}
			cs = append(cs, &Case{Kind: "upload", Payload: p, Len: l, Offset: -1, Chunk: 1, Reader: "all"}) // healthy, 1-byte reads
			cs = append(cs, &Case{Kind: "upload", Payload: p, Len: l, Offset: l / 2, Fault: "with-getbody-auth", Reader: "all"})
		}
	}
	// the error VALUE of the failing source: the sentinels that the layers of the exchange use for their own purposes
	// (closed pipe, unexpected EOF, cancellation, time-outs, short write, closed file or connection...), bare and
	// wrapped, at offsets before / inside / on the edge of / beyond the 512-byte sniffing window and at the very end,
	// for sources that are sniffed, sources with a declared type, second sources and body streams
	{
		type lo struct{ l, off int }
		los := []lo{{0, 0}, {7, 3}, {600, 0}, {600, 1}, {600, 511}, {600, 512}, {600, 513}, {600, 600}}
		pls := []string{"file", "typed-file", "files+fields", "reader"}
		if !quick {
			los = append(los, lo{1, 0}, lo{1, 1}, lo{7, 0}, lo{7, 7}, lo{600, 100}, lo{600, 599}, lo{512, 512}, lo{4096, 4096}, lo{70000, 4096}, lo{70000, 69999}, lo{70000, 70000})
			pls = append(pls, "readcloser", "files-2-fields", "file-replaced")
		}
		for ei, en := range sourceErrorNames {
			for _, p := range pls {
				for li, x := range los {
					c := &Case{Kind: "upload", Payload: p, Len: x.l, Offset: x.off, Reader: "all", SrcErr: en, Chunk: (ei + li) % 2, Reuse: li%4 == 3}
					if p == "files+fields" || p == "files-2-fields" {
						c.FaultSrc = li % 2
					}
					cs = append(cs, c)
				}
			}
			// through a real http.Transport to a loopback server (the transport's own handling of a failing request body)
			for _, p := range []string{"file", "reader", "files+fields"} {
				if quick && p == "files+fields" {
					continue
				}
				for oi, off := range []int{0, 100, 550, 600} {
					if quick && oi%2 != ei%2 {
						continue
					}
					cs = append(cs, &Case{Kind: "upload", Payload: p, Len: 600, Offset: off, Fault: "real-transport", Reader: "all", SrcErr: en, Reuse: oi%2 == 0})
				}
			}
			// with an auth writer that copies the body first (GetBody), and with Runtime.Debug on (the request dump reads it)
			cs = append(cs, &Case{Kind: "upload", Payload: "file", Len: 600, Offset: 300, Fault: "with-getbody-auth", Reader: "all", SrcErr: en})
			cs = append(cs, &Case{Kind: "upload", Payload: "file", Len: 600, Offset: 550, Reader: "all", SrcErr: en, Debug: true})
		}
	}
	for _, p := range []string{"file", "reader", "files+fields", "typed-file"} {
		for _, off := range []int{-1, 0, 100, 550, 600} {
			for _, reuse := range []bool{false, true} {
				cs = append(cs, &Case{Kind: "upload", Payload: p, Len: 600, Offset: off, Fault: "real-transport", Reader: "all", Reuse: reuse})
			}
		}
	}
	// a source with a declared media type is copied without the 512-byte sniff: the sweep enters io.Copy at offset 0
	for _, l := range []int{0, 1, 7, 600} {
		offs := map[int]bool{-1: true, 0: true, 1: true, l / 2: true, l - 1: true, l: true}
		for off := -1; off <= l; off++ {
			if !offs[off] && quick {
				continue
			}
			if !offs[off] && off%5 != 0 {
				continue
			}
			for _, chunk := range []int{0, 1} {
				cs = append(cs, &Case{Kind: "upload", Payload: "typed-file", Len: l, Offset: off, Chunk: chunk, Reader: "all"})
			}
		}
	}
	// a real temporary file (SetFileParam looks at *os.File), healthy: it must have been closed
	for _, l := range []int{0, 7, 600, 70000} {
		cs = append(cs, &Case{Kind: "upload", Payload: "osfile", Len: l, Offset: -1, Reader: "all"})
		cs = append(cs, &Case{Kind: "upload", Payload: "osfile", Len: l, Offset: -1, Reader: "all", Fault: "with-getbody-auth"})
	}
	// a stream payload whose Close reports an error: closed by the transport, or by GetBody's copy for an auth writer
	for _, l := range []int{7, 600} {
		for _, off := range []int{-1, l / 2} {
			for _, f := range []string{"", "with-getbody-auth"} {
				cs = append(cs, &Case{Kind: "upload", Payload: "readcloser", Len: l, Offset: off, Reader: "all", Fault: f, CloseFails: true})
			}
		}
	}
	// faults in the second source / in another field; sources whose Close reports an error
	for _, p := range []string{"files+fields", "files-2-fields"} {
		for _, fs := range []int{0, 1} {
			for _, cf := range []bool{false, true} {
				for _, l := range []int{7, 600} {
					for _, off := range []int{-1, 0, l / 2, l} {
						cs = append(cs, &Case{Kind: "upload", Payload: p, Len: l, Offset: off, Reader: "all", FaultSrc: fs, CloseFails: cf})
					}
				}
			}
		}
	}
	for _, f := range []string{"writer-error", "auth-error", "bad-path-pattern"} {
		for _, p := range []string{"file", "files+fields", "files-2-fields"} {
			cs = append(cs, &Case{Kind: "presend", Fault: f, Payload: p, Len: 700, Reader: "all", CloseFails: true})
		}
	}
	// the files of one field set twice: both sets were handed over
	for _, f := range []string{"writer-error", "auth-error", "bad-path-pattern"} {
		cs = append(cs, &Case{Kind: "presend", Fault: f, Payload: "file-replaced", Len: 700, Reader: "all"})
	}
	for _, l := range []int{7, 600} {
		for _, off := range []int{-1, 0, l / 2} {
			cs = append(cs, &Case{Kind: "upload", Payload: "file-replaced", Len: l, Offset: off, Reader: "all"})
		}
	}
	// the general form: SetFileParam called several times in one WriteToRequest (histories, see history.go): a field
	// set again with no file, the same file, more files, fewer; three calls; two fields interleaved. Every source handed
	// over by a call that returned nil must end up closed: for the success (scripted and real transport, with an auth
	// writer that copies the body, with the request dumped, sources whose Close reports an error), for a source fault
	// in each of the sources still named at the end, for every pre-send fault and for a failing transport
	for hi, hs := range histories {
		for _, f := range []string{"writer-error", "auth-error", "auth-error-after-getbody", "bad-base-path", "bad-path-pattern", "bad-method", "unregistered-media-type", "empty-host", "host-with-space"} {
			cs = append(cs, &Case{Kind: "presend", Fault: f, Payload: "file-history", History: hs, Len: 700, Reuse: hi%2 == 1, Reader: "all"})
		}
		cs = append(cs, &Case{Kind: "presend", Fault: "unusual-schemes", Payload: "file-history", History: hs, Len: 700, Reuse: hi%2 == 0, Reader: "all", RtSchemes: []string{"ws"}})
		cs = append(cs, &Case{Kind: "presend", Fault: "unusual-schemes", Payload: "file-history", History: hs, Len: 700, Reuse: hi%2 == 1, Reader: "all", OpSchemes: []string{"wss", "ws"}, OpClient: true})
		cs = append(cs, &Case{Kind: "presend", Fault: "unusual-schemes", Payload: "file-history", History: hs, Len: 700, Reader: "all", RtSchemes: []string{"htpp"}, Debug: true})
		cs = append(cs, &Case{Kind: "presend", Fault: "writer-error", Payload: "file-history", History: hs, Len: 700, Reader: "all", CloseFails: true})
		for _, l := range []int{7, 600} {
			for _, reuse := range []bool{false, true} {
				cs = append(cs, &Case{Kind: "upload", Payload: "file-history", History: hs, Len: l, Offset: -1, Reuse: reuse, Reader: "all"})
			}
			cs = append(cs, &Case{Kind: "upload", Payload: "file-history", History: hs, Len: l, Offset: -1, Reader: "all", Fault: "with-getbody-auth"})
			cs = append(cs, &Case{Kind: "upload", Payload: "file-history", History: hs, Len: l, Offset: -1, Reader: "all", CloseFails: true})
			if historyHasUploaded(hs) {
				for fs := 0; fs < historyUploaded(hs) && fs < 2; fs++ {
					for _, off := range []int{0, l / 2, l} {
						cs = append(cs, &Case{Kind: "upload", Payload: "file-history", History: hs, Len: l, Offset: off, Reader: "all", FaultSrc: fs, Chunk: (hi + off) % 2})
					}
				}
				cs = append(cs, &Case{Kind: "upload", Payload: "file-history", History: hs, Len: l, Offset: l / 2, Reader: "all", Fault: "with-getbody-auth"})
			}
		}
		cs = append(cs, &Case{Kind: "upload", Payload: "file-history", History: hs, Len: 600, Offset: -1, Reader: "all", Debug: true})
		cs = append(cs, &Case{Kind: "upload", Payload: "file-history", History: hs, Len: 600, Offset: -1, Fault: "real-transport", Reader: "all", Reuse: hi%2 == 0})
		if historyHasUploaded(hs) {
			cs = append(cs, &Case{Kind: "upload", Payload: "file-history", History: hs, Len: 600, Offset: 550, Fault: "real-transport", Reader: "all", Reuse: hi%2 == 1})
		}
		for _, f := range []string{"ok", "err-before", "err-after", "err-mid"} {
			cs = append(cs, &Case{Kind: "roundtrip", Fault: f, Payload: "file-history", History: hs, Len: 300, Reuse: hi%2 == 0, Reader: "all"})
		}
		cs = append(cs, &Case{Kind: "roundtrip", Fault: "ok", Payload: "file-history", History: hs, Len: 300, Reuse: hi%2 == 1, Reader: "err"})
	}
	// answers whose Content-Type is unusable, and bodies far larger than any buffer, left unread
	for _, p := range []string{"json", "file"} {
		for _, reuse := range []bool{false, true} {
			// "a b/c", "/json", "text/plain; charset": mime.ParseMediaType refuses them (the exchange ends in Submit's
			// "parse content type" return); "%%%" parses as a lone token and "application/x-nobody-registered" is
			// well-formed: both end in the "no consumer" return
			cts := []string{"%%%", "application/x-nobody-registered", "", "a b/c", "/json"}
			if !quick {
				cts = append(cts, "text/plain; charset")
			}
			for _, ct := range cts {
				for _, rd := range []string{"none", "half", "all"} {
					for _, rl := range []int{300, 300000, 1 << 20} {
						if ct == "" && rl == 300 {
							continue // covered below
						}
						if quick && rl == 1<<20 && (ct != "" || rd == "all") {
							continue
						}
						cs = append(cs, &Case{Kind: "roundtrip", Fault: "ok", Payload: p, Len: 300, RespLen: rl, RespCT: ct, Reuse: reuse, Reader: rd})
					}
				}
			}
		}
	}
	// a reader that moves the body into a destination which refuses part-way (io.Copy, the byte-stream consumer into
	// an io.Writer, a destination with a ReadFrom of its own): the reader's error surfaces, the body is closed and,
	// under reuse, drained -- the failed copy has not seen its end
	for _, rd := range []string{"copy-fail", "consume-fail", "readfrom-fail"} {
		for _, reuse := range []bool{false, true} {
			for _, rl := range []int{300, 300000} {
				for _, wf := range []int{0, 100, 40000, 1 << 30} {
					cs = append(cs, &Case{Kind: "roundtrip", Fault: "ok", Payload: "json", Len: 300, RespLen: rl, RespCT: "application/octet-stream", Reuse: reuse, Reader: rd, WriteFailAt: wf})
					if reuse && rl == 300000 && wf == 40000 {
						for _, via := range []string{"with-client", "after-first-call", "with-client-nil-transport"} {
							cs = append(cs, &Case{Kind: "roundtrip", Fault: "ok", Payload: "file", Len: 300, RespLen: rl, RespCT: "application/octet-stream", Reuse: reuse, ReuseVia: via, Reader: rd, WriteFailAt: wf})
						}
						cs = append(cs, &Case{Kind: "roundtrip", Fault: "ok", Payload: "file", Len: 300, RespLen: rl, RespCT: "application/octet-stream", Reuse: reuse, OpClient: true, Reader: rd, WriteFailAt: wf})
						cs = append(cs, &Case{Kind: "roundtrip", Fault: "ok", Payload: "json", Len: 300, RespLen: rl, RespCT: "application/octet-stream", Reuse: reuse, Reader: rd, WriteFailAt: wf, RespKnownLen: true, EOFWith: true})
					}
				}
			}
		}
	}
	// an answer without any Content-Type; a binary answer with Runtime.Debug on; no context anywhere
	for _, reuse := range []bool{false, true} {
		for _, rd := range []string{"all", "half", "none"} {
			cs = append(cs, &Case{Kind: "roundtrip", Fault: "ok", Payload: "json", Len: 300, RespLen: 300000, RespCT: absentCT, Reuse: reuse, Reader: rd})
			cs = append(cs, &Case{Kind: "roundtrip", Fault: "ok", Payload: "file", Len: 300, RespLen: 300000, Reuse: reuse, Reader: rd, CtxVia: "none"})
		}
		cs = append(cs, &Case{Kind: "roundtrip", Fault: "ok", Payload: "json", Len: 300, RespLen: 300000, RespCT: "application/octet-stream", Reuse: reuse, Reader: "copy-fail", WriteFailAt: 1000, Debug: true})
		for _, off := range []int{0, 30, 80} {
			cs = append(cs, &Case{Kind: "server", Fault: "stall", Offset: off, Reuse: reuse, Deadline: "request", Payload: "file", Len: 40, Reader: "all", CtxVia: "none"})
		}
	}
	// a JSON answer copied by the reader itself
	for _, reuse := range []bool{false, true} {
		for _, wf := range []int{1, 1 << 30} {
			cs = append(cs, &Case{Kind: "roundtrip", Fault: "ok", Payload: "json", Len: 300, RespLen: 300000, Reuse: reuse, Reader: "copy-fail", WriteFailAt: wf})
		}
	}
	// readers that close the body themselves (Submit closes it again), and the operation's own client
	for _, p := range []string{"json", "file"} {
		for _, reuse := range []bool{false, true} {
			for _, ew := range []bool{false, true} {
				for _, rd := range []string{"all+close", "half+close"} {
					cs = append(cs, &Case{Kind: "roundtrip", Fault: "ok", Payload: p, Len: 300, RespLen: 300000, Reuse: reuse, Reader: rd, EOFWith: ew})
				}
			}
			for _, rd := range []string{"all", "half", "none", "err"} {
				cs = append(cs, &Case{Kind: "roundtrip", Fault: "ok", Payload: p, Len: 300, RespLen: 300000, Reuse: reuse, Reader: rd, OpClient: true})
			}
			for _, f := range []string{"err-before", "err-mid"} {
				cs = append(cs, &Case{Kind: "roundtrip", Fault: f, Payload: p, Len: 300, Reuse: reuse, Reader: "all", OpClient: true})
			}
			cs = append(cs, &Case{Kind: "roundtrip", Fault: "ok", Payload: p, Len: 300, RespLen: 300000, RespFailAt: 100000, Reuse: reuse, Reader: "all+close"})
		}
	}
	// answers of other statuses, with a declared length, and bodies that fail while being read
	for _, p := range []string{"json", "file"} {
		for _, reuse := range []bool{false, true} {
			for _, st := range []int{200, 404, 500} {
				for _, kl := range []bool{false, true} {
					for _, rd := range []string{"all", "none", "half"} {
						for _, fa := range []int{0, 100, 300000} {
							rl := 300
							if fa > 300 || (kl && rd != "all") {
								rl = 400000 // a long declared length that is left unread
							}
							if st == 200 && !kl && fa == 0 {
								continue // the plain case, covered below
							}
							cs = append(cs, &Case{Kind: "roundtrip", Fault: "ok", Payload: p, Len: 300, RespLen: rl, RespStatus: st, RespKnownLen: kl, RespFailAt: fa, Reuse: reuse, Reader: rd})
						}
					}
				}
			}
		}
	}
	// Runtime.Debug on: the dumps read the request and the response before they are used
	for _, p := range payloads {
		cs = append(cs, &Case{Kind: "roundtrip", Fault: "ok", Payload: p, Len: 300, Reuse: true, Reader: "half", Debug: true})
		cs = append(cs, &Case{Kind: "roundtrip", Fault: "ok", Payload: p, Len: 300, Reader: "all", Debug: true})
		cs = append(cs, &Case{Kind: "presend", Fault: "auth-error-after-getbody", Payload: p, Len: 700, Reader: "all", Debug: true})
		if p != "json" && p != "none" && p != "fields" { // the payloads with an upload source
			cs = append(cs, &Case{Kind: "upload", Payload: p, Len: 600, Offset: 550, Reader: "all", Debug: true})
			cs = append(cs, &Case{Kind: "upload", Payload: p, Len: 64, Offset: -1, Reader: "all", Debug: true})
		}
	}
	// scripted transport
	for _, f := range []string{"ok", "err-before", "err-after", "err-mid"} {
		for _, p := range payloads {
			for _, reuse := range []bool{false, true} {
				for _, rd := range []string{"all", "none", "half", "err"} {
					for _, ew := range []bool{false, true} {
						if f != "ok" && (rd != "all" || ew) {
							continue
						}
						cs = append(cs, &Case{Kind: "roundtrip", Fault: f, Payload: p, Len: 300, Reuse: reuse, Reader: rd, EOFWith: ew})
						if reuse && f == "ok" {
							for _, via := range []string{"with-client", "after-first-call", "with-client-nil-transport"} {
								cs = append(cs, &Case{Kind: "roundtrip", Fault: f, Payload: p, Len: 300, Reuse: reuse, ReuseVia: via, Reader: rd, EOFWith: ew})
							}
						}
					}
				}
			}
		}
	}
	// raw server faults at every response offset.
	// The list is the same in every worker (run() deals it out by index). Thorough: every offset x action x reuse
	// on/off (x every deadline source for stalls). Quick, deliberately: every offset x action is still placed, but
	// the crossing with connection reuse is by offset parity (even offsets with reuse, odd ones without), except at
	// the structural offsets (start, each CR and LF that ends a line of the status line / headers / chunk framing,
	// last byte, complete response) where both are run; a stall takes one deadline source per offset (off mod 5).
	for _, chunked := range []bool{false, true} {
		canned := cannedResponse(chunked)
		full := len(canned)
		structural := map[int]bool{0: true, full - 1: true, full: true}
		for i := 2; i <= full; i++ {
			if canned[i-2] == '\r' && canned[i-1] == '\n' {
				structural[i], structural[i-1] = true, true
			}
		}
		for _, act := range []string{"close", "reset", "stall"} {
			for off := 0; off <= full; off++ {
				for _, reuse := range []bool{false, true} {
					if quick && !structural[off] && reuse != (off%2 == 0) {
						continue
					}
					dls := []string{"request"}
					if act == "stall" {
						dls = []string{"request", "context", "both-request-shorter", "both-context-shorter", "negative-request"}
						if quick {
							dls = []string{dls[off%5]}
						}
					}
					for _, dl := range dls {
						pl := "json"
						if off%5 == 0 {
							pl = "file"
						}
						via := ""
						if reuse {
							via = []string{"", "with-client", "after-first-call", "with-client-nil-transport"}[off%4]
						}
						cs = append(cs, &Case{Kind: "server", Fault: act, Offset: off, Chunked: chunked, Reuse: reuse, ReuseVia: via, Deadline: dl, Payload: pl, Len: 40, Reader: "all"})
						if act != "reset" && off%3 == 0 {
							// a reader that stops early meets the stalled or truncated body (drain on close under reuse)
							cs = append(cs, &Case{Kind: "server", Fault: act, Offset: off, Chunked: chunked, Reuse: reuse, ReuseVia: via, Deadline: dl, Payload: pl, Len: 40, Reader: []string{"none", "half"}[(off/3)%2]})
						}
						if !quick && act != "reset" && off%7 == 0 {
							cs = append(cs, &Case{Kind: "server", Fault: act, Offset: off, Chunked: chunked, Reuse: reuse, ReuseVia: via, Deadline: dl, Payload: pl, Len: 40, Reader: []string{"all+close", "half+close"}[(off/7)%2]})
						}
					}
				}
			}
		}
		// the other ways of handing Submit its client and its context, against stalls and cuts: the operation's
		// own client (the request timeout must still bound the call), Runtime.Context as the caller's context
		hdrMid, bodyFirst, bodyMid := 30, full-len(cannedBody)-7, full-12
		offs := []int{0, hdrMid, bodyMid}
		if !quick {
			offs = []int{0, 9, hdrMid, bodyFirst, bodyMid, full - 1, full}
		}
		for _, off := range offs {
			pl := []string{"json", "file", "fields"}[off%3]
			for _, reuse := range []bool{false, true} {
				for _, dl := range []string{"request", "both-request-shorter", "negative-request"} {
					if quick && reuse && dl != "request" {
						continue
					}
					cs = append(cs, &Case{Kind: "server", Fault: "stall", Offset: off, Chunked: chunked, Reuse: reuse, Deadline: dl, Payload: pl, Len: 40, Reader: "all", OpClient: true})
				}
				for _, dl := range []string{"context", "both-context-shorter", "both-request-shorter"} {
					if quick && reuse && dl != "context" {
						continue
					}
					cs = append(cs, &Case{Kind: "server", Fault: "stall", Offset: off, Chunked: chunked, Reuse: reuse, Deadline: dl, Payload: pl, Len: 40, Reader: "all", CtxVia: "runtime"})
				}
				cs = append(cs, &Case{Kind: "server", Fault: "close", Offset: off, Chunked: chunked, Reuse: reuse, Deadline: "request", Payload: pl, Len: 40, Reader: "all", OpClient: true})
				cs = append(cs, &Case{Kind: "server", Fault: "close", Offset: off, Chunked: chunked, Reuse: reuse, Deadline: "context", Payload: pl, Len: 40, Reader: "all", CtxVia: "runtime"})
				if !quick {
					cs = append(cs, &Case{Kind: "server", Fault: "stall", Offset: off, Chunked: chunked, Reuse: reuse, Deadline: "both-context-shorter", Payload: pl, Len: 40, Reader: "half", OpClient: true, CtxVia: "runtime"})
				}
			}
		}
	}
	// a server that accepts and never reads: the deadline fires while the upload is blocked in the middle of the
	// request body (the multipart goroutine in its pipe, the transport in the socket)
	{
		dls := []string{"request", "context"}
		pls := []string{"file"}
		if !quick {
			dls = []string{"request", "context", "both-request-shorter", "both-context-shorter", "negative-request"}
			pls = []string{"file", "files+fields", "typed-file", "reader"}
		}
		for _, pl := range pls {
			for _, dl := range dls {
				for _, reuse := range []bool{false, true} {
					cs = append(cs, &Case{Kind: "server", Fault: "stall-unread", Payload: pl, Len: 16 << 20, Reuse: reuse, Deadline: dl, Reader: "all"})
				}
			}
		}
		if !quick {
			cs = append(cs, &Case{Kind: "server", Fault: "stall-unread", Payload: "file", Len: 16 << 20, Deadline: "request", Reader: "all", OpClient: true})
			cs = append(cs, &Case{Kind: "server", Fault: "stall-unread", Payload: "file", Len: 16 << 20, Deadline: "context", Reader: "all", CtxVia: "runtime"})
		}
	}
	// cancellation at the hook points
	for _, hp := range []string{"cl.submit.built", "cl.submit.clientReady", "cl.submit.beforeDo", "cl.submit.afterDo", "cl.multipart.part", "cl.getbody.copy"} {
		for _, p := range []string{"file", "files+fields", "json", "reader", "fields"} {
			if hp == "cl.multipart.part" && (p == "json" || p == "reader") {
				continue // no multipart document is written for these payloads: the point cannot be reached
			}
			if hp == "cl.getbody.copy" && p == "json" {
				continue // a value payload is produced into the request's own buffer: GetBody copies nothing
			}
			for _, reuse := range []bool{false, true} {
				// cl.getbody.copy lies in GetBody, which only an auth writer calls
				if p != "fields" || !quick {
					cs = append(cs, &Case{Kind: "cancel", HookPoint: hp, Payload: p, Len: 5000, Reuse: reuse, AuthGetBody: hp == "cl.getbody.copy"})
				}
				// the server holds its answer after half the body and the call has no timeout: only the cancellation
				// can end the call -- a cancellation that is dropped shows as a call that does not return
				if !reuse && (p == "file" || p == "json" || p == "fields" || !quick) {
					cs = append(cs, &Case{Kind: "cancel", HookPoint: hp, Payload: p, Len: 5000, Reuse: reuse, AuthGetBody: hp == "cl.getbody.copy", ServerHolds: true})
				}
			}
		}
	}
	for _, hp := range []string{"cl.submit.beforeDo", "cl.submit.afterDo", "cl.multipart.part"} {
		for _, p := range []string{"file", "json"} {
			if hp == "cl.multipart.part" && p == "json" {
				continue
			}
			for _, holds := range []bool{false, true} {
				cs = append(cs, &Case{Kind: "cancel", HookPoint: hp, Payload: p, Len: 5000, ServerHolds: holds, CtxVia: "runtime"})
				cs = append(cs, &Case{Kind: "cancel", HookPoint: hp, Payload: p, Len: 5000, ServerHolds: holds, OpClient: true})
				if !quick {
					cs = append(cs, &Case{Kind: "cancel", HookPoint: hp, Payload: p, Len: 5000, Reuse: true, ServerHolds: holds, CtxVia: "runtime", OpClient: true})
				}
			}
		}
	}
	// consecutive calls over a real http.Transport with keep-alive connections: a reader that returns before the end
	// of a body whose rest is still outstanding on the network (the server holds it until the reader has returned);
	// under connection reuse the transport's body must have been read to its end when it is closed. Crossed with the
	// source of the call's deadline (none of them is meant to be hit), the framing of the answer, the size of what
	// is outstanding, the ways of switching reuse on, and the payload kind of the request
	{
		rds := []string{"none", "half", "err", "copy-fail", "half+close", "all"}
		dls := []string{"long-request", "long-context", "long-both", "cancel-only", "no-deadline"}
		k := 0
		add := func(c *Case) {
			c.Kind, c.Len = "reuse", 300
			if c.Payload == "" {
				c.Payload = []string{"json", "file", "fields", "reader"}[k%4]
			}
			if c.Reader == "copy-fail" {
				c.WriteFailAt = 100
			}
			k++
			cs = append(cs, c)
		}
		for _, rd := range rds {
			for di, dl := range dls {
				for _, chunked := range []bool{false, true} {
					if quick && chunked != (di%2 == 0) && rd != "half" && rd != "none" {
						continue
					}
					add(&Case{Reuse: true, Reader: rd, Deadline: dl, Chunked: chunked, RespLen: 1 << 20, RespHead: 16 << 10, Calls: 2})
				}
			}
		}
		// what is outstanding: a few KiB beyond the transport's read buffer ... several MiB; the head: a few bytes ... more than any buffer
		for _, rd := range []string{"none", "half"} {
			for _, x := range [][2]int{{20000, 10}, {20000, 5000}, {70000, 1}, {300000, 70000}, {4 << 20, 16 << 10}, {1 << 20, 1<<20 - 5000}} {
				for _, chunked := range []bool{false, true} {
					if quick && chunked && x[0] > 1<<20 {
						continue
					}
					add(&Case{Reuse: true, Reader: rd, Deadline: dls[k%len(dls)], Chunked: chunked, RespLen: x[0], RespHead: x[1], Calls: 2})
				}
			}
		}
		// the ways of switching reuse on, the operation's own client, the context handed over through the Runtime, three calls in a row
		for _, rd := range []string{"none", "half", "err"} {
			for _, via := range []string{"with-client", "after-first-call", "with-client-nil-transport"} {
				add(&Case{Reuse: true, ReuseVia: via, Reader: rd, Deadline: dls[k%len(dls)], RespLen: 1 << 20, RespHead: 16 << 10, Calls: 2})
			}
			add(&Case{Reuse: true, OpClient: true, Reader: rd, Deadline: "long-request", RespLen: 1 << 20, RespHead: 16 << 10, Calls: 2})
			add(&Case{Reuse: true, CtxVia: "runtime", Reader: rd, Deadline: "long-context", RespLen: 1 << 20, RespHead: 16 << 10, Calls: 2})
			add(&Case{Reuse: true, CtxVia: "none", Reader: rd, Deadline: "long-request", RespLen: 1 << 20, RespHead: 16 << 10, Calls: 2})
			add(&Case{Reuse: true, Reader: rd, Deadline: "long-request", RespLen: 300000, RespHead: 5000, Calls: 3, Chunked: true})
			if !quick {
				add(&Case{Reuse: true, OpClient: true, CtxVia: "runtime", Reader: rd, Deadline: "long-both", RespLen: 1 << 20, RespHead: 16 << 10, Calls: 3, Chunked: true})
			}
			// reuse off: the body is closed, nothing is owed beyond that
			add(&Case{Reader: rd, Deadline: "long-request", RespLen: 1 << 20, RespHead: 16 << 10, Calls: 2})
			add(&Case{Reader: rd, Deadline: "long-context", RespLen: 300000, RespHead: 5000, Calls: 2, Chunked: true})
		}
		// Runtime.Debug on: the response dump reads the body before the reader (nothing is held back then)
		add(&Case{Reuse: true, Reader: "half", Deadline: "long-request", RespLen: 70000, RespHead: 5000, Calls: 2, Debug: true})
	}
	// the reuse wrapper alone: a Read sequence, then the rest moved by io.Copy into a destination that fails
	// part-way (or takes everything), then Close
	for _, l := range []int{10, 100, 300000} {
		for _, ew := range []bool{false, true} {
			for _, ch := range []int{0, 7} {
				for _, szs := range [][]int{nil, {1}, {0}, {3, 3}} {
					for _, cf := range []int{1, l / 2, l + 10} {
						cs = append(cs, &Case{Kind: "drain", Len: l, EOFWith: ew, Chunk: ch * (1 + l/1000), Sizes: szs, CopyFailAt: cf})
					}
				}
			}
		}
	}
	// drain sequences over bodies larger than any fixed budget
	for _, l := range []int{256<<10 + 1, 300000, 1 << 20} {
		for _, ch := range []int{0, 4096} {
			for _, szs := range [][]int{nil, {1}, {64, 64}} {
				cs = append(cs, &Case{Kind: "drain", Len: l, Chunk: ch, Sizes: szs})
			}
		}
	}
	sizes := []int{0, 1, 3, 64}
	for _, l := range []int{0, 1, 10, 100} {
		for _, ew := range []bool{false, true} {
			// an underlying body that answers with short reads while more remains
			for _, ch := range []int{1, 7} {
				for _, a := range sizes {
					cs = append(cs, &Case{Kind: "drain", Len: l, EOFWith: ew, Chunk: ch, Sizes: []int{a}})
					for _, b := range sizes {
						cs = append(cs, &Case{Kind: "drain", Len: l, EOFWith: ew, Chunk: ch, Sizes: []int{a, b}})
					}
				}
			}
			cs = append(cs, &Case{Kind: "drain", Len: l, EOFWith: ew, Sizes: nil})
			for _, a := range sizes {
				cs = append(cs, &Case{Kind: "drain", Len: l, EOFWith: ew, Sizes: []int{a}})
				for _, b := range sizes {
					cs = append(cs, &Case{Kind: "drain", Len: l, EOFWith: ew, Sizes: []int{a, b}})
					if !quick {
						for _, d := range sizes {
							cs = append(cs, &Case{Kind: "drain", Len: l, EOFWith: ew, Sizes: []int{a, b, d}})
							for _, e := range sizes {
								cs = append(cs, &Case{Kind: "drain", Len: l, EOFWith: ew, Sizes: []int{a, b, d, e}})
							}
						}
					}
				}
			}
		}
	}
	return cs
}

func run(m *mon.M) {
	cs := enumerate(m)
	if !m.Quick() {
		// second pass over the placements that involve goroutines, with the schedule perturbed at the hook points
		n := len(cs)
		for i := 0; i < n; i++ {
			if k := cs[i].Kind; k == "presend" || k == "upload" || k == "roundtrip" || k == "server" {
				if k == "upload" && cs[i].Len > 600 {
					continue
				}
				cp := *cs[i]
				cp.Perturb = 1 + i%7
				cs = append(cs, &cp)
			}
		}
	}
	if m.Shard == 0 {
		m.Note("fault_placements_enumerated", int64(len(cs)))
	}
	for i, c := range cs {
		if i%m.NShards != m.Shard {
			continue
		}
		m.Begin(c)
		runCase(m, c)
		if m.WantSample() {
			m.Sample(c)
		}
	}
}

func replay(m *mon.M, raw json.RawMessage) {
	var c Case
	if err := json.Unmarshal(raw, &c); err != nil {
		m.Violate("bad-replay-case", err.Error(), nil)
		return
	}
	runCase(m, &c)
}
