package c12

// Goroutine census and the settle loop: deciding that a goroutine started by a call "remains" without letting
// the verdict depend on the speed of the machine.
//
// A goroutine that appeared during the call and is still there when Submit has returned is
//   - ACTIVE   when the scheduler can still run it (runnable, running, in a system call, sleeping, being scanned...):
//              it is finishing, nothing can be said yet;
//   - PARKED   when it waits for another party without a timer (select, channel, mutex, condition, network poller).
//
// When the transport of the case is a scripted one (it works synchronously inside RoundTrip and starts nothing),
// the only parties that can ever wake a parked goroutine of the call are the other goroutines of the call: Submit
// has returned, the harness holds neither end of the pipe. So "every remaining goroutine is parked, and the picture
// is the same over several censuses" is a logical fact - nobody is left to wake them - and the leak is reported at
// once (quiescence rule). With a real http.Transport, net/http's own connection goroutines release the request body
// after RoundTrip returned (documented), so a parked goroutine may still be woken by them: there the loop polls, with
// early exit, for a long time (settleBound), keeps waiting beyond that while anything is still ACTIVE
// (settleHardBound), and files what is left ACTIVE at the very end as inconclusive, never as a violation.

import (
	"fmt"
	"regexp"
	"runtime"
	"strings"
	"sync/atomic"
	"time"

	rt "github.com/go-openapi/runtime"
	"github.com/go-openapi/runtime/client"

	"verif/mon"
)

var (
	gidRe           = regexp.MustCompile(`^goroutine (\d+) \[([^\]]*)\]`)
	settleBound     = 20 * time.Second // polling bound for goroutines that may still be woken by net/http
	settleHardBound = 60 * time.Second // ... extended while a goroutine is still ACTIVE
	// longSettles counts the settle loops of this worker that ran to settleBound and ended in a leak verdict: on a
	// tree that leaks in every case the worker must still finish within its watchdog, so after maxLongSettles
	// confirmed leaks the later unsettled cases are counted (class), not waited out and not judged.
	longSettles    int32
	maxLongSettles = int32(4)
)

func allStacks() string {
	buf := make([]byte, 1<<20)
	for {
		n := runtime.Stack(buf, true)
		if n < len(buf) {
			return string(buf[:n])
		}
		buf = make([]byte, 2*len(buf))
	}
}

// census: the goroutines with a frame (or a creator) of the client package, by id; calls the harness itself is
// still making are left out.
func census() map[string]string {
	out := map[string]string{}
	for _, g := range strings.Split(allStacks(), "\n\n") {
		if !strings.Contains(g, "github.com/go-openapi/runtime/client.") {
			continue
		}
		if strings.Contains(g, "verif/props/c12.submitWatched") { // a call the harness itself is still making
			continue
		}
		if m := gidRe.FindStringSubmatch(g); m != nil {
			out[m[1]] = g
		}
	}
	return out
}

// parkedStates: wait reasons that only another party can end (no timer involved).
var parkedStates = map[string]bool{
	"select": true, "select (no cases)": true,
	"chan receive": true, "chan send": true, "chan receive (nil chan)": true, "chan send (nil chan)": true,
	"semacquire": true, "sync.Mutex.Lock": true, "sync.RWMutex.Lock": true, "sync.RWMutex.RLock": true,
	"sync.Cond.Wait": true, "sync.WaitGroup.Wait": true, "IO wait": true,
}

// goState extracts the wait reason of a goroutine dump ("select, 2 minutes" -> "select").
func goState(g string) string {
	m := gidRe.FindStringSubmatch(g)
	if m == nil {
		return "?"
	}
	st := m[2]
	if i := strings.IndexByte(st, ','); i >= 0 {
		st = st[:i]
	}
	return strings.TrimSpace(st)
}

func allParked(gs map[string]string) bool {
	for _, g := range gs {
		if !parkedStates[goState(g)] {
			return false
		}
	}
	return true
}

func picture(gs map[string]string) string {
	ids := make([]string, 0, len(gs))
	for id, g := range gs {
		ids = append(ids, id+":"+goState(g))
	}
	// order-independent fingerprint
	for i := 1; i < len(ids); i++ {
		for j := i; j > 0 && ids[j] < ids[j-1]; j-- {
			ids[j], ids[j-1] = ids[j-1], ids[j]
		}
	}
	return strings.Join(ids, " ")
}

type settleVerdict int

const (
	settled      settleVerdict = iota // nothing of the call remains
	leakedParked                      // what remains is parked for good: a leak
	stillActive                       // something is still running at the hard bound: inconclusive
	notWaitedOut                      // the worker already confirmed several leaks the long way: counted, not judged
)

// settle waits for the goroutines that appeared since `before` to go away. quiescent: no party outside the call
// can wake them (scripted transport).
func settle(before map[string]string, quiescent bool) (map[string]string, settleVerdict) {
	start := time.Now()
	var cur map[string]string
	samePicture, last := 0, ""
	sleep := 200 * time.Microsecond
	bound := settleBound
	short := atomic.LoadInt32(&longSettles) >= maxLongSettles
	if short {
		bound = time.Second
	}
	for i := 0; ; i++ {
		cur = census()
		for id := range before {
			delete(cur, id)
		}
		if len(cur) == 0 {
			return nil, settled
		}
		parked := allParked(cur)
		if parked {
			if p := picture(cur); p == last {
				samePicture++
			} else {
				samePicture, last = 0, p
			}
		} else {
			samePicture, last = 0, ""
		}
		if quiescent && parked && samePicture >= 6 {
			// every goroutine of the call waits for a party that does not exist any more
			return cur, leakedParked
		}
		el := time.Since(start)
		if el > bound {
			if short {
				return cur, notWaitedOut
			}
			if parked && samePicture >= 6 {
				atomic.AddInt32(&longSettles, 1)
				return cur, leakedParked
			}
			if el > settleHardBound {
				if parked {
					atomic.AddInt32(&longSettles, 1)
					return cur, leakedParked
				}
				return cur, stillActive
			}
		}
		if i < 50 {
			runtime.Gosched()
			continue
		}
		time.Sleep(sleep)
		if sleep < 50*time.Millisecond {
			sleep = sleep * 3 / 2
		}
	}
}

// leaked is the settle loop of the kinds that talk through a real http.Transport.
func leaked(before map[string]string) map[string]string {
	cur, _ := settle(before, false)
	return cur
}

// ---------- running Submit under a watchdog ----------

type outcome struct {
	res      interface{}
	err      error
	returned bool
	dump     string
}

// submitWatched runs Submit in a goroutine of its own. The watchdog limit is far beyond the effective deadline of
// the case (200x); when it expires the calling goroutine is looked at: a call that is parked (waiting for the
// fault to be lifted) has not returned - the verdict; a call that is still ACTIVE is being starved by the machine and
// gets more time (up to 5 x limit more) before the same question is asked again.
func submitWatched(r *client.Runtime, op *rt.ClientOperation, limit time.Duration) outcome {
	done := make(chan outcome, 1)
	go func() {
		var o outcome
		pv, st := mon.Catch(func() { o.res, o.err = r.Submit(op) })
		if pv != nil {
			o.err = fmt.Errorf("PANIC: %v\n%s", pv, st)
		}
		o.returned = true
		done <- o
	}()
	for round := 0; ; round++ {
		select {
		case o := <-done:
			return o
		case <-time.After(limit):
		}
		dump := allStacks()
		if round < 5 && callStillActive(dump) {
			continue
		}
		if len(dump) > 1<<16 {
			dump = dump[:1<<16]
		}
		select {
		case o := <-done: // returned while the dump was taken
			return o
		default:
		}
		return outcome{returned: false, dump: dump}
	}
}

// callStillActive: the goroutine that runs Submit for the harness is not parked.
func callStillActive(dump string) bool {
	for _, g := range strings.Split(dump, "\n\n") {
		if strings.Contains(g, "verif/props/c12.submitWatched.func1") && strings.Contains(g, "client.(*Runtime).Submit") {
			return !parkedStates[goState(g)]
		}
	}
	return false
}
