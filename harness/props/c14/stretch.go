package c14

import (
	"fmt"
	"math/rand"
	"strconv"
	"strings"

	"verif/mon"
)

// Long credentials (JWT-sized and beyond). The statement quantifies over ALL passwords and tokens, so a
// credential of 100 bytes, 4 KiB or 64 KiB is owed the same exact round trip as a short one. A long value is
// recorded as a recipe (Stretch) and materialised by expand, so that witnesses stay small and replay alone.

var stretchLens = []int{100, 100, 100, 4096, 4096, 65536}

const alnumBytes = "abcdefghijklmnopqrstuvwxyzABCDEFGHIJKLMNOPQRSTUVWXYZ0123456789"

// sizeClass names the length class of a credential ("" = ordinary length).
func sizeClass(n int) string {
	switch {
	case n >= 65536:
		return "64KiB"
	case n >= 4096:
		return "4KiB"
	case n >= 100:
		return "100B"
	}
	return ""
}

// slot resolves a slot name on (the working copy of) a case: the field and the alphabet it may carry
// (header = header-safe bytes, user = anything but ':', any = arbitrary bytes).
func (c *Case) slot(name string) (*mon.Q, string, error) {
	bad := func() (*mon.Q, string, error) {
		return nil, "", fmt.Errorf("stretch slot %q does not name a credential of the case", name)
	}
	switch name {
	case "query":
		if !c.HasQueryTok {
			return bad()
		}
		return &c.QueryTok, "any", nil
	case "form":
		if c.FormKind == "" {
			return bad()
		}
		return &c.FormTok, "any", nil
	}
	parts := strings.Split(name, ".")
	var cr *Cred
	field := parts[len(parts)-1]
	switch {
	case len(parts) == 2 && parts[0] == "preset" && c.Preset != nil:
		cr = c.Preset
	case len(parts) == 3 && (parts[0] == "op" || parts[0] == "default"):
		l := c.OpAuth
		if parts[0] == "default" {
			l = c.Default
		}
		i, err := strconv.Atoi(parts[1])
		if err != nil || i < 0 || i >= len(l) {
			return bad()
		}
		cr = &l[i]
	default:
		return bad()
	}
	switch {
	case cr.Kind == "basic" && field == "user":
		return &cr.User, "user", nil
	case cr.Kind == "basic" && field == "pass":
		return &cr.Pass, "any", nil
	case cr.Kind == "bearer" && field == "token":
		return &cr.Token, "header", nil
	case cr.Kind == "apikey" && field == "token" && cr.In != "query": // "header" and the oddly spelled locations (header-safe values)
		return &cr.Token, "header", nil
	case cr.Kind == "apikey" && field == "token":
		return &cr.Token, "any", nil
	}
	return bad()
}

// stretchSlots lists the slots of a case that can be lengthened.
func stretchSlots(c *Case) []string {
	var out []string
	list := func(prefix string, l []Cred) {
		for i, w := range l {
			switch w.Kind {
			case "basic":
				out = append(out, fmt.Sprintf("%s.%d.user", prefix, i), fmt.Sprintf("%s.%d.pass", prefix, i))
			case "bearer", "apikey":
				out = append(out, fmt.Sprintf("%s.%d.token", prefix, i))
			}
		}
	}
	list("op", c.OpAuth)
	list("default", c.Default)
	if c.Preset != nil {
		switch c.Preset.Kind {
		case "basic":
			out = append(out, "preset.user", "preset.pass")
		case "bearer":
			out = append(out, "preset.token")
		}
	}
	if c.HasQueryTok {
		out = append(out, "query")
	}
	if c.FormKind != "" {
		out = append(out, "form")
	}
	return out
}

// filler is a small deterministic generator (splitmix64): 64 KiB of filler must not cost 64 Ki calls of math/rand.
type filler struct{ x uint64 }

func (f *filler) Intn(n int) int {
	f.x += 0x9e3779b97f4a7c15
	z := f.x
	z = (z ^ (z >> 30)) * 0xbf58476d1ce4e5b9
	z = (z ^ (z >> 27)) * 0x94d049bb133111eb
	z ^= z >> 31
	return int((z >> 33) % uint64(n))
}

func fill(base string, st Stretch, alphabet string) string {
	if len(base) >= st.Len {
		return base
	}
	r := &filler{x: uint64(st.Seed)}
	b := make([]byte, st.Len)
	copy(b, base)
	alnumOnly := st.Seed%2 == 0
	for i := len(base); i < st.Len; i++ {
		if alnumOnly || r.Intn(3) > 0 {
			b[i] = alnumBytes[r.Intn(len(alnumBytes))]
			continue
		}
		switch alphabet {
		case "header":
			switch k := r.Intn(8); {
			case k < 5:
				b[i] = byte(0x21 + r.Intn(0x7f-0x21))
			case k < 6 && i < st.Len-1:
				b[i] = " \t"[r.Intn(2)]
			case k < 6:
				b[i] = '-'
			default:
				b[i] = byte(0x80 + r.Intn(0x80))
			}
		case "user":
			b[i] = byte(r.Intn(256))
			if b[i] == ':' {
				b[i] = '_'
			}
		default:
			b[i] = byte(r.Intn(256))
		}
	}
	return string(b)
}

// expand materialises the long credentials of a case on a working copy (which remembers the compact form).
func (c *Case) expand() (*Case, error) {
	if len(c.Stretch) == 0 {
		return c, nil
	}
	x := *c
	x.orig = c
	x.Default = append([]Cred(nil), c.Default...)
	x.OpAuth = append([]Cred(nil), c.OpAuth...)
	if c.Preset != nil {
		p := *c.Preset
		x.Preset = &p
	}
	x.Scopes = cloneScopes(c.Scopes)
	for _, st := range c.Stretch {
		if st.Len <= 0 || st.Len > 1<<20 {
			return nil, fmt.Errorf("stretch length %d out of range", st.Len)
		}
		f, alphabet, err := x.slot(st.Slot)
		if err != nil {
			return nil, err
		}
		*f = mon.Q(fill(string(*f), st, alphabet))
	}
	return &x, nil
}

// addStretch lengthens one not yet lengthened credential of the case (no-op when there is none).
func addStretch(r *rand.Rand, c *Case) {
	slots := stretchSlots(c)
	if len(slots) == 0 {
		return
	}
	s := slots[r.Intn(len(slots))]
	ln := stretchLens[r.Intn(len(stretchLens))]
	seed := r.Int63()
	for _, st := range c.Stretch {
		if st.Slot == s {
			return
		}
	}
	c.Stretch = append(c.Stretch, Stretch{Slot: s, Len: ln, Seed: seed})
}

// qclip quotes a credential for a violation text; long ones are cut.
func qclip(s string) string {
	if len(s) <= 96 {
		return strconv.Quote(s)
	}
	return fmt.Sprintf("%q...%q(%d bytes)", s[:48], s[len(s)-16:], len(s))
}

// diffAt describes where two values first differ (for long credentials the quoted texts are cut).
func diffAt(got, want string) string {
	if len(got) <= 96 && len(want) <= 96 {
		return ""
	}
	n := len(got)
	if len(want) < n {
		n = len(want)
	}
	i := 0
	for i < n && got[i] == want[i] {
		i++
	}
	if i == n && len(got) == len(want) {
		return ""
	}
	return fmt.Sprintf(" [lengths %d vs %d, first difference at byte %d]", len(got), len(want), i)
}

// caseFeature is the coarsest input class of a whole case: the most unusual byte class among all its
// credentials plus the length class of the longest.
func caseFeature(c *Case) string {
	rank := map[string]int{"alnum": 0, "punct": 1, "inner-space": 2, "non-ascii": 3, "control": 4}
	f, longest := "alnum", 0
	see := func(s string) {
		if t := tokenFeature(s); rank[t] > rank[f] {
			f = t
		}
		if len(s) > longest {
			longest = len(s)
		}
	}
	creds := append(append([]Cred(nil), c.OpAuth...), c.Default...)
	if c.Preset != nil {
		creds = append(creds, *c.Preset)
	}
	for _, w := range creds {
		see(string(w.User))
		see(string(w.Pass))
		see(string(w.Token))
	}
	if c.HasQueryTok {
		see(string(c.QueryTok))
	}
	if c.FormKind != "" {
		see(string(c.FormTok))
	}
	if sc := sizeClass(longest); sc != "" {
		f += "+" + sc
	}
	return f
}
