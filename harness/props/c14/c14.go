// Package c14 monitors the credentials round trip: what the client's basic / API-key / bearer
// writers attach to a request is exactly what the server authenticators of package security hand
// to the application callback, with the stated applicability, precedence and default-auth rules.
package c14

import (
	"bufio"
	"bytes"
	"context"
	"encoding/base64"
	"encoding/json"
	"errors"
	"fmt"
	"io"
	"math/rand"
	"net/http"
	"net/http/httptest"
	"net/url"
	"strings"
	"sync"

	"github.com/go-openapi/strfmt"

	"github.com/go-openapi/runtime"
	"github.com/go-openapi/runtime/client"
	"github.com/go-openapi/runtime/security"

	"verif/mon"
)

func init() {
	mon.Register(&mon.Property{
		ID:    "C14",
		Level: "exploration",
		Rule: "seeded cases = (transport-wide default writers) x (per-operation writers or none or PassThroughAuth) x (Authorization header preset by the parameter writer: Bearer / Basic / foreign scheme / none) x " +
			"(access_token in query, one in 4 of those with an empty value beside a form or none) x (access_token in urlencoded or multipart form body) x server options (realm mode, context-aware or plain constructors, *http.Request or *ScopedAuthRequest argument, " +
			"required scopes, server-side spelling of key name and location, callback outcome principal / error / both / neither). Writers are client.BasicAuth / APIKeyAuth(header|query) / BearerToken, optionally wrapped in client.Compose. " +
			"The request is built by client.Runtime.CreateHttpRequest, serialised with Request.Write and re-parsed with http.ReadRequest; a smaller stream of cases (quick: 150 per worker, thorough: 10000 per worker) is sent by Runtime.Submit to a loopback httptest.Server instead, " +
			"where every request the server receives is judged, a second request for one Submit is a violation, and a Submit that fails (or never reaches the handler) is charged to the case when a plain control request is delivered right afterwards and the case fails the same way again; " +
			"a fresh copy of the received request is handed to security.BasicAuth*/BearerAuth*/APIKeyAuth* (one probe per kind and per key name and location mentioned in the case) with recording callbacks. " +
			"User names: bytes without ':'; passwords, query and form tokens: arbitrary bytes; header tokens: visible ASCII, 0x80-0xff, inner SP/HTAB. All tokens of a case are pairwise distinct. " +
			"One case in forty lengthens one or two of its credentials (any slot: user, password, header/query/form token, API key, preset header) to 100 B, 4 KiB or 64 KiB, with [A-Za-z0-9] filler or filler over the slot's whole alphabet. " +
			"The required scopes (incl. unsorted, repeated, mixed-case and padded elements) are handed to the authenticator as a copy made per call and compared with the case's own copy. " +
			"One case in five carries a static query parameter in the base path and/or the path pattern, mostly named like an effective query-located API key (the writer's value is owed to arrive), else 'tenant'. " +
			"A third stream (quick: 150 per worker, thorough: 1500 per worker; and one loopback case in ten) hands the received request to the REAL server pipeline instead: an API description is generated per case " +
			"(security definitions: basic, one to three oauth2 schemes, one apiKey definition per key name and location of the case; the operation's requirement, or the description's top-level one, is one to three alternatives of one to three schemes each, " +
			"every oauth2 scheme with its own scope list), the security.* authenticators are registered with an untyped API next to an authorizer and the operation, and the request goes through middleware.Serve / Context.APIHandler / ServeWithBuilder " +
			"(after an earlier request with other credentials): every callback consulted must have been handed the case's credential of its kind and the scopes the requirement asks OF ITS scheme (in one of the alternatives naming it), " +
			"the authorizer a principal that a callback of this request returned, and when a credential for every scheme of the requirement travels at least one callback must be consulted. " +
			"Four loopback cases in ten set options of the client transport (Debug by field or SetDebug with a silent logger, EnableConnectionReuse, an http.Client of the operation's own): the round trip is owed under each. " +
			"Four cases in ten consult one *http.Request more than once: 'twice' = each probe's copy is handed to a second, freshly built authenticator of the same kind with other required scopes; " +
			"'shared' = all probes of the case run on ONE request in two rounds and FailedBasicAuth / OAuth2SchemeName / the callback's context value are re-read at the end; every consultation is judged like the first. " +
			"Four form bodies in ten carry their Content-Type in another valid spelling of the same media type (charset parameter, capitals, a blank before ';', no blank after it, another parameter before the boundary, quoted boundary, capitalised parameter name), " +
			"either as the operation's consumes entry (urlencoded) or re-spelled by a RoundTripper of the transport: the form token is owed all the same. " +
			"One API-key writer in twelve (header pool) spells its location oddly on the client side (Header, HEADER, Query, QUERY, hEaDeR, cookie, '', ' header', path): whether client.APIKeyAuth returns a writer at all is observed " +
			"(none: nothing of the key is owed and a field holding no writer is 'no writer of its own'; a writer for a spelling that is header/query but for letter case: the key is owed there; else not judged) and classed for triage. " +
			"A few lists hold a writer that returns an error, alone or inside Compose (request refused or built: classed; but a failing DEFAULT writer that is run although the default is owed to stay idle is a violation); " +
			"PassThroughAuth alternates with a Compose of nothing but nil. Entry points: one wire or pipeline case in six and every other loopback case hand the operation to Runtime.Submit, Runtime.WithOpenTracing().Submit or Runtime.WithOpenTelemetry().Submit " +
			"(wire channel: into a recording RoundTripper, no network) with an operation Context that is nil, plain, or carries a span (opentracing no-op tracer or mocktracer, a valid OpenTelemetry span context; either family with either wrapper): " +
			"the whole default / per-operation / preset-header matrix and every other judgement apply unchanged. " +
			"One pipeline requirement in four has two or three alternatives that all name ONE oauth2 scheme with pairwise different scope lists (callbacks mostly refusing, a query token added when the case has no bearer credential): " +
			"the scope lists a scheme's callback is handed during one request, with multiplicities, must be found among the lists the alternatives give that scheme, each used at most once. Once per worker: every security authenticator handed a params value that is no request (nil, string, int) must not panic, " +
			"consult its callback or return a principal (http.Request and ScopedAuthRequest by value: no panic only); security.APIKeyAuth[Ctx] with a location that is neither header nor query is driven and classed. " +
			"non-trivial = a transmitted credential holds >= 1 byte outside [A-Za-z0-9], or >= 2 credentials/placements are present at once; distinct by the whole case",
		Assumptions: []string{
			"header-carried tokens have no leading/trailing whitespace and no control bytes (HTTP trims the former, Go's transport and server refuse the latter); empty tokens and empty API keys are not generated",
			"a form-body access_token is only owed for POST, PUT and PATCH (RFC 6750 2.2: methods with defined body semantics; net/http parses no body for other methods); form placements are generated with these methods only",
			"the Authorization scheme is spelled as the client writes it ('Basic ', 'Bearer '); other letter cases of the scheme word and malformed base64 are not generated",
			"writers combined in one Compose (or one default/operation list) do not conflict: at most one Authorization writer, key names unique (headers: case-insensitively), no API key named Authorization or access_token",
			"an operation writer that sets Authorization is owed to win over an Authorization header preset by the parameter writer (its credential must be 'recovered exactly')",
			"BearerAuth* is always given a *ScopedAuthRequest (as the middleware does); what a scoped authenticator does with a bare *http.Request is not judged",
			"a form's Content-Type is re-spelled only in ways RFC 7231 3.1.1.1 makes equivalent and net/http parses; a malformed Content-Type is not generated",
			"an oddly spelled client-side key location (anything but exactly 'header' / 'query') is outside 'API-key (header or query)': that the client returns no writer for it, so that the credential is silently not sent and a transport-wide default takes over, is classed (client-apikey-in/...) and not judged; everything else about such a request is judged as usual",
			"whether a request is built when one of its effective auth writers returns an error is not judged here (C12: pre-send faults); whether an authenticator handed a non-request reports 'not applicable' or an error is not judged, nor are nil requests",
			"in the pipeline stream only what the application's callbacks and authorizer are handed is judged: which alternative is evaluated, in which order, and the status of the response are C02's; scope lists are compared as sets",
			"one evaluation of one alternative consults the callback of a scheme at most once and no alternative is evaluated twice for one request, so k consultations of a scheme that n >= k alternatives name belong to k different alternatives (more than n consultations: classed, not judged)",
			"the transports returned by Runtime.WithOpenTracing() / Runtime.WithOpenTelemetry() are entry points of the same Runtime: the statement's client-side rules (writers, transport-wide default) hold for an operation submitted to them, whatever its Context; the tracing headers they inject are no credentials and are not judged",
			"the error returned next to 'not applicable' is not judged; realm and scheme-name markers are judged only where the code documents them (FailedBasicAuth after a missing or refused basic credential, OAuth2SchemeName after an applicable bearer credential)",
		},
		MinNontrivial: 500,
		Run:           run,
		Replay:        replay,
	})
}

// Cred is one credential writer (or, for Preset, one Authorization header value).
type Cred struct {
	Kind  string `json:"kind"`           // basic | bearer | apikey | foreign (preset only) | failing (a writer that returns an error)
	In    string `json:"in,omitempty"`   // apikey: header | query as the CLIENT spells it; other spellings (Header, QUERY, cookie, ...) are "odd", see oddIn
	Name  string `json:"name,omitempty"` // apikey: name as the client spells it
	User  mon.Q  `json:"user,omitempty"`
	Pass  mon.Q  `json:"pass,omitempty"`
	Token mon.Q  `json:"token,omitempty"` // bearer token, api key value, or raw foreign header value
}

// Case is one request construction plus the server-side options of the probes.
type Case struct {
	NoWarm         bool   `json:"no_warm_call,omitempty"` // skip the earlier call on the same authenticator instance
	Method         string `json:"method"`
	Default        []Cred `json:"default,omitempty"`         // Runtime.DefaultAuthentication
	DefaultCompose bool   `json:"default_compose,omitempty"` // wrap in client.Compose even when single
	HasOpAuth      bool   `json:"has_op_auth,omitempty"`
	OpAuth         []Cred `json:"op_auth,omitempty"` // ClientOperation.AuthInfo; empty + HasOpAuth = PassThroughAuth
	OpCompose      bool   `json:"op_compose,omitempty"`
	Preset         *Cred  `json:"preset,omitempty"` // Authorization header set by the parameter writer
	HasQueryTok    bool   `json:"has_query_tok,omitempty"`
	QueryTok       mon.Q  `json:"query_tok,omitempty"`
	FormKind       string `json:"form_kind,omitempty"` // urlencoded | multipart
	FormTok        mon.Q  `json:"form_tok,omitempty"`
	JSONBody       bool   `json:"json_body,omitempty"`
	// CTSpell re-spells the Content-Type of a form body in another VALID way (see ctSpellings): "" = as client.Runtime writes it
	// for the constant media types. CTVia: "consumes" = the operation's consumes entry is spelled that way (urlencoded only),
	// "transport" = a RoundTripper of the transport re-spells the header of the built request (what a proxy or another client sends)
	CTSpell string `json:"ct_spelling,omitempty"`
	CTVia   string `json:"ct_via,omitempty"`

	RealmMode string   `json:"realm_mode"` // ctor (BasicAuth/BasicAuthCtx) | empty (Realm ctor with "") | named
	Realm     string   `json:"realm,omitempty"`
	Ctx       bool     `json:"ctx,omitempty"`
	Scoped    bool     `json:"scoped,omitempty"`
	Scopes    []string `json:"scopes"`
	SchemeNm  string   `json:"scheme_name"`
	KeyCase   int      `json:"key_case,omitempty"` // server spelling of header key names: 0 same 1 lower 2 upper 3 canonical
	InCase    int      `json:"in_case,omitempty"`  // server spelling of the location: 0 lower 1 Title 2 UPPER
	Outcome   string   `json:"outcome"`            // ok | err | both | none (the callback returns (nil, nil))
	TCP       bool     `json:"tcp,omitempty"`

	// static query parameters carried by the transport's base path / by the operation's path pattern
	BaseQuery    []KV `json:"base_query,omitempty"`
	PatternQuery []KV `json:"pattern_query,omitempty"`
	// Reuse: "" = every probe gets a pristine copy of the request; "twice" = each probe's copy is consulted a second
	// time by a freshly built authenticator of the same kind with other required scopes; "shared" = all probes of the
	// case are consulted on ONE *http.Request, in two rounds, and the markers on the request are re-read at the end
	Reuse string `json:"reuse,omitempty"`

	// Stretch lengthens credentials of the case (recipes, so that recorded cases stay small); see expand.
	Stretch []Stretch `json:"stretch,omitempty"`

	// ClientOpts are settings of the client transport that are no credentials (see clientOpts): the round trip is owed
	// under every one of them. Only Runtime.Submit (TCP cases) looks at most of them.
	ClientOpts []string `json:"client_opts,omitempty"`
	// Pipe: the received request is not handed to authenticators one by one, but to the real server pipeline (router,
	// security, binder, operation) built over an API description whose operation carries a security requirement; the
	// authenticators are registered with the API and consulted by the middleware (see pipeline.go).
	Pipe *Pipe `json:"pipeline,omitempty"`
	// Entry is the client entry point the operation is handed to, OpCtx the operation's Context (see entry.go):
	// "" = Runtime.CreateHttpRequest (wire) / Runtime.Submit (loopback) with a nil Context, as ever
	Entry string `json:"entry,omitempty"`
	OpCtx string `json:"op_context,omitempty"`

	orig *Case // set on the expanded working copy: the recorded (compact) form of the case
}

// KV is one static query parameter.
type KV struct {
	Name  string `json:"name"`
	Value mon.Q  `json:"value"`
}

func staticQuery(l []KV) string {
	if len(l) == 0 {
		return ""
	}
	var parts []string
	for _, kv := range l {
		parts = append(parts, url.QueryEscape(kv.Name)+"="+url.QueryEscape(string(kv.Value)))
	}
	return "?" + strings.Join(parts, "&")
}

// Stretch is the recipe of one long credential: the value of the slot becomes the slot's own short value
// followed by deterministic filler (from Seed) up to Len bytes in total. Even seeds fill with [A-Za-z0-9]
// only (nothing but the length is unusual), odd seeds with the whole alphabet the slot may carry.
type Stretch struct {
	Slot string `json:"slot"` // op.<i>.user|pass|token | default.<i>.user|pass|token | preset.user|pass|token | query | form
	Len  int    `json:"len"`
	Seed int64  `json:"seed"`
}

// rep is the form of the case that is recorded with a violation.
func rep(c *Case) *Case {
	if c.orig != nil {
		return c.orig
	}
	return c
}

// ---------------------------------------------------------------------------------------------
// client side

// the errors of the "failing" writers: one per list, so that an error coming back from the build names the list that was run
var (
	errOpWriter      = errors.New("c14: the operation's failing auth writer was invoked")
	errDefaultWriter = errors.New("c14: the transport-wide default's failing auth writer was invoked")
)

func writerOf(c Cred, list string) runtime.ClientAuthInfoWriter {
	switch c.Kind {
	case "basic":
		return client.BasicAuth(string(c.User), string(c.Pass))
	case "bearer":
		return client.BearerToken(string(c.Token))
	case "apikey":
		return client.APIKeyAuth(c.Name, c.In, string(c.Token))
	case "failing":
		err := errOpWriter
		if list == "default" {
			err = errDefaultWriter
		}
		return runtime.ClientAuthInfoWriterFunc(func(runtime.ClientRequest, strfmt.Registry) error { return err })
	}
	return nil
}

func writersOf(l []Cred, compose bool, list string) runtime.ClientAuthInfoWriter {
	if len(l) == 0 {
		return nil
	}
	if len(l) == 1 && !compose {
		return writerOf(l[0], list)
	}
	var ws []runtime.ClientAuthInfoWriter
	for i, c := range l {
		if i == 1 {
			ws = append(ws, nil) // Compose documents that nil entries are skipped
		}
		ws = append(ws, writerOf(c, list))
	}
	return client.Compose(ws...)
}

// oddIn: an API-key writer whose location is not spelled exactly "header" / "query" on the CLIENT side (the server side
// compares the location case-insensitively; what the client makes of "Header", "QUERY", "cookie" or "" is observed, see expect).
func oddIn(w Cred) bool { return w.Kind == "apikey" && w.In != "header" && w.In != "query" }

// inLoc is the location a spelling denotes when letter case is ignored ("" = none).
func inLoc(in string) string {
	switch strings.ToLower(in) {
	case "header":
		return "header"
	case "query":
		return "query"
	}
	return ""
}

// nilWriter observes whether the client's constructor hands back NO writer for an oddly spelled location.
func nilWriter(w Cred) (isNil bool, panicked string) {
	pv, st := mon.Catch(func() { isNil = client.APIKeyAuth(w.Name, w.In, string(w.Token)) == nil })
	if pv != nil {
		return false, fmt.Sprintf("%v\n%s", pv, st)
	}
	return isNil, ""
}

// listNil: the list is a single, uncomposed writer and the constructor returned nil for it: the field it is assigned to
// (ClientOperation.AuthInfo / Runtime.DefaultAuthentication) then holds no writer at all.
func listNil(l []Cred, compose bool) bool {
	if len(l) != 1 || compose || !oddIn(l[0]) {
		return false
	}
	n, _ := nilWriter(l[0])
	return n
}

// opHasOwn: the operation carries an auth writer of its own (PassThroughAuth and an empty Compose count: they are writers).
func opHasOwn(c *Case) bool { return c.HasOpAuth && !listNil(c.OpAuth, c.OpCompose) }

func presetValue(p *Cred) string {
	switch p.Kind {
	case "basic":
		return "Basic " + base64.StdEncoding.EncodeToString([]byte(string(p.User)+":"+string(p.Pass)))
	case "bearer":
		return "Bearer " + string(p.Token)
	}
	return string(p.Token)
}

// buildOperation makes the client transport and the operation of the case. next = the RoundTripper at the end of the
// transport's chain (nil = the default one: a socket).
func buildOperation(c *Case, host string, next http.RoundTripper) (*client.Runtime, *runtime.ClientOperation) {
	rt := client.New(host, "/v1"+staticQuery(c.BaseQuery), []string{"http"})
	rt.DefaultAuthentication = writersOf(c.Default, c.DefaultCompose, "default")
	if next != nil {
		rt.Transport = next
	} else {
		next = http.DefaultTransport
	}
	if c.CTSpell != "" && c.CTVia == "transport" {
		rt.Transport = respeller{c: c, next: next}
	}
	op := &runtime.ClientOperation{
		ID:                 "op",
		Method:             c.Method,
		PathPattern:        "/things/{id}" + staticQuery(c.PatternQuery),
		ProducesMediaTypes: []string{runtime.JSONMime},
		Schemes:            []string{"http"},
		Reader: runtime.ClientResponseReaderFunc(func(runtime.ClientResponse, runtime.Consumer) (interface{}, error) {
			return nil, nil
		}),
		Context: opContext(c),
	}
	switch c.FormKind {
	case "urlencoded":
		op.ConsumesMediaTypes = []string{runtime.URLencodedFormMime}
		if c.CTSpell != "" && c.CTVia == "consumes" {
			// the consumes entry of the operation is spelled that way; the transport writes forms itself, the producer
			// registered under the spelling only makes the media type known to it
			spelled := respell(c, runtime.URLencodedFormMime)
			op.ConsumesMediaTypes = []string{spelled}
			rt.Producers[spelled] = runtime.DiscardProducer
		}
	case "multipart":
		op.ConsumesMediaTypes = []string{runtime.MultipartFormMime}
	default:
		op.ConsumesMediaTypes = []string{runtime.JSONMime}
	}
	op.Params = runtime.ClientRequestWriterFunc(func(req runtime.ClientRequest, _ strfmt.Registry) error {
		if err := req.SetPathParam("id", "42"); err != nil {
			return err
		}
		if err := req.SetQueryParam("page", "1"); err != nil {
			return err
		}
		if c.Preset != nil {
			if err := req.SetHeaderParam("Authorization", presetValue(c.Preset)); err != nil {
				return err
			}
		}
		if c.HasQueryTok {
			if err := req.SetQueryParam("access_token", string(c.QueryTok)); err != nil {
				return err
			}
		}
		if c.FormKind != "" {
			if err := req.SetFormParam("comment", "x y"); err != nil {
				return err
			}
			if err := req.SetFormParam("access_token", string(c.FormTok)); err != nil {
				return err
			}
		} else if c.JSONBody {
			if err := req.SetBodyParam(map[string]string{"access_token": "in-json-is-no-credential"}); err != nil {
				return err
			}
		}
		return nil
	})
	if c.HasOpAuth {
		switch {
		case len(c.OpAuth) == 0 && c.OpCompose:
			op.AuthInfo = client.Compose(nil) // a writer of its own that writes nothing
		case len(c.OpAuth) == 0:
			op.AuthInfo = client.PassThroughAuth
		default:
			op.AuthInfo = writersOf(c.OpAuth, c.OpCompose, "op")
		}
	}
	applyClientOpts(c, rt, op)
	return rt, op
}

// ---------------------------------------------------------------------------------------------
// expectation (from the statement)

type expectation struct {
	basic      bool
	user, pass string
	basicSrc   string // op | default | preset

	bearer    bool
	token     string
	bearerSrc string // header:op | header:default | header:preset | query | form

	hdrKeys map[string]keyExp // lower-cased header name
	qryKeys map[string]keyExp // exact query name

	defaultEffective bool
	placements       []string

	// oddly spelled client-side locations among the effective writers (see oddIn)
	dropped   []string        // spellings for which the constructor returned NO writer: nothing of that key travels
	skipNames map[string]bool // lower-cased key names whose writer exists although the spelling denotes no location: not judged
	ctorPanic string
	// a writer that returns an error is part of the effective list: whether a request is built at all is not judged
	failingEffective bool
}

type keyExp struct {
	token string
	src   string
}

func expect(c *Case) *expectation {
	e := &expectation{hdrKeys: map[string]keyExp{}, qryKeys: map[string]keyExp{}, skipNames: map[string]bool{}}
	var effective []Cred
	src := ""
	// "the operation has none of its own": a field that holds no writer at all (the constructor returned nil) is none
	switch {
	case opHasOwn(c):
		effective, src = c.OpAuth, "op"
	case len(c.Default) > 0 && !listNil(c.Default, c.DefaultCompose) && c.Preset == nil:
		effective, src = c.Default, "default"
		e.defaultEffective = true
	}
	authz := c.Preset
	authzSrc := "preset"
	for i := range effective {
		w := effective[i]
		switch w.Kind {
		case "basic", "bearer":
			authz, authzSrc = &effective[i], src
		case "failing":
			e.failingEffective = true
		case "apikey":
			loc := w.In
			if oddIn(w) {
				// The statement speaks of the client's API-key writers "(header or query)". Whether a writer exists for
				// another spelling is observed, not demanded: no writer = nothing of the key is attached (and nothing is
				// owed to its probes); a writer for a spelling that denotes a location when case is ignored owes the key
				// there; a writer for anything else is outside the statement (its key name is not judged).
				isNil, pan := nilWriter(w)
				switch {
				case pan != "":
					e.ctorPanic = pan
					continue
				case isNil:
					e.dropped = append(e.dropped, w.In)
					continue
				case inLoc(w.In) == "":
					e.skipNames[strings.ToLower(w.Name)] = true
					continue
				}
				loc = inLoc(w.In)
			}
			if loc == "header" {
				e.hdrKeys[strings.ToLower(w.Name)] = keyExp{string(w.Token), src}
			} else {
				e.qryKeys[w.Name] = keyExp{string(w.Token), src}
			}
		}
	}
	if authz != nil {
		switch authz.Kind {
		case "basic":
			e.basic, e.user, e.pass, e.basicSrc = true, string(authz.User), string(authz.Pass), authzSrc
			e.placements = append(e.placements, "H:basic")
		case "bearer":
			e.bearer, e.token, e.bearerSrc = true, string(authz.Token), "header:"+authzSrc
			e.placements = append(e.placements, "H:bearer")
		default:
			e.placements = append(e.placements, "H:foreign")
		}
	}
	if c.HasQueryTok {
		if c.QueryTok == "" {
			// "?access_token=" names the parameter and carries no token: it is no credential, and the next place in
			// the precedence (the form body) is still owed a look
			e.placements = append(e.placements, "Q:empty")
		} else {
			e.placements = append(e.placements, "Q")
		}
		if !e.bearer && c.QueryTok != "" {
			e.bearer, e.token, e.bearerSrc = true, string(c.QueryTok), "query"
		}
	}
	if c.FormKind != "" {
		e.placements = append(e.placements, "F:"+c.FormKind)
		if !e.bearer && (c.Method == "POST" || c.Method == "PUT" || c.Method == "PATCH") {
			e.bearer, e.token, e.bearerSrc = true, string(c.FormTok), "form:"+c.FormKind
			if c.CTSpell != "" {
				// the same media type in another valid spelling: the form is still a form (RFC 7231 3.1.1.1: type, subtype
				// and parameter names are case-insensitive, parameters and blanks around ';' are allowed)
				e.bearerSrc += "+content-type-" + c.CTSpell + "-via-" + c.CTVia
			}
		}
	}
	return e
}

// ---------------------------------------------------------------------------------------------
// server side probes

type probe struct {
	kind string // basic | bearer | apikey
	in   string
	name string // client spelling
}

func (p probe) label() string {
	if p.kind == "apikey" {
		return "apikey-" + p.in
	}
	return p.kind
}

type call struct {
	a, b   string
	scopes []string
	hasSc  bool
}

type principal struct{ id int }

type ctxKey struct{}

type observation struct {
	p           probe
	round       int      // 1 = first consultation of the request by this kind of authenticator, 2 = a later one (Reuse)
	scopes      []string // the oracle's own copy of the scopes required in this consultation
	panicked    string
	applies     bool
	principal   interface{}
	err         error
	calls       []call
	cbPrincipal interface{}
	cbErr       error
	failedRealm string
	schemeName  string
	ctxMarker   interface{}
	pipe        *pipeObs // kind "pipeline": what the authenticators registered with the API, the authorizer and the operation saw
}

func probesOf(c *Case) []probe {
	ps := []probe{{kind: "basic"}, {kind: "bearer"}}
	seen := map[string]bool{}
	for _, l := range [][]Cred{c.OpAuth, c.Default} {
		for _, w := range l {
			if w.Kind != "apikey" || seen[w.Name] {
				continue
			}
			seen[w.Name] = true
			ps = append(ps, probe{kind: "apikey", in: "header", name: w.Name}, probe{kind: "apikey", in: "query", name: w.Name})
		}
	}
	return ps
}

func spellKey(c *Case, p probe) string {
	if p.in != "header" {
		return p.name
	}
	switch c.KeyCase {
	case 1:
		return strings.ToLower(p.name)
	case 2:
		return strings.ToUpper(p.name)
	case 3:
		return http.CanonicalHeaderKey(p.name)
	}
	return p.name
}

func spellIn(c *Case, in string) string {
	switch c.InCase {
	case 1:
		return strings.ToUpper(in[:1]) + in[1:]
	case 2:
		return strings.ToUpper(in)
	}
	return in
}

// scopesFor gives the required scopes of a consultation: the case's for the first, others for a later one (the
// alternatives of one operation name the same scheme with different scopes).
func scopesFor(c *Case, round int) []string {
	if round <= 1 {
		return cloneScopes(c.Scopes)
	}
	out := []string{"consulted-again"}
	for i := len(c.Scopes) - 1; i >= 0; i-- {
		out = append(out, c.Scopes[i])
	}
	return out
}

func runProbe(c *Case, p probe, req *http.Request, round int) (o observation) {
	o.p = p
	o.round = round
	o.scopes = scopesFor(c, round)
	outcome := func() (interface{}, error) {
		switch c.Outcome {
		case "err":
			o.cbPrincipal, o.cbErr = nil, errors.New("refused by the application")
		case "both":
			o.cbPrincipal, o.cbErr = &principal{id: 2}, errors.New("refused, with a principal")
		case "none":
			o.cbPrincipal, o.cbErr = nil, nil // neither a principal nor an error: still the callback's verdict on a credential that WAS sent
		default:
			o.cbPrincipal, o.cbErr = &principal{id: 1}, nil
		}
		return o.cbPrincipal, o.cbErr
	}
	marker := &principal{id: 99}
	var auth runtime.Authenticator
	switch p.kind {
	case "basic":
		plain := func(u, pw string) (interface{}, error) {
			o.calls = append(o.calls, call{a: u, b: pw})
			return outcome()
		}
		withCtx := func(ctx context.Context, u, pw string) (context.Context, interface{}, error) {
			o.calls = append(o.calls, call{a: u, b: pw})
			pr, err := outcome()
			return context.WithValue(ctx, ctxKey{}, marker), pr, err
		}
		switch {
		case c.RealmMode == "ctor" && !c.Ctx:
			auth = security.BasicAuth(plain)
		case c.RealmMode == "ctor":
			auth = security.BasicAuthCtx(withCtx)
		case !c.Ctx:
			auth = security.BasicAuthRealm(c.Realm, plain)
		default:
			auth = security.BasicAuthRealmCtx(c.Realm, withCtx)
		}
	case "bearer":
		if !c.Ctx {
			auth = security.BearerAuth(c.SchemeNm, func(tok string, sc []string) (interface{}, error) {
				o.calls = append(o.calls, call{a: tok, scopes: append([]string(nil), sc...), hasSc: true})
				return outcome()
			})
		} else {
			auth = security.BearerAuthCtx(c.SchemeNm, func(ctx context.Context, tok string, sc []string) (context.Context, interface{}, error) {
				o.calls = append(o.calls, call{a: tok, scopes: append([]string(nil), sc...), hasSc: true})
				pr, err := outcome()
				return context.WithValue(ctx, ctxKey{}, marker), pr, err
			})
		}
	case "apikey":
		name, in := spellKey(c, p), spellIn(c, p.in)
		if !c.Ctx {
			auth = security.APIKeyAuth(name, in, func(tok string) (interface{}, error) {
				o.calls = append(o.calls, call{a: tok})
				return outcome()
			})
		} else {
			auth = security.APIKeyAuthCtx(name, in, func(ctx context.Context, tok string) (context.Context, interface{}, error) {
				o.calls = append(o.calls, call{a: tok})
				pr, err := outcome()
				return context.WithValue(ctx, ctxKey{}, marker), pr, err
			})
		}
	}
	var param interface{} = req
	if p.kind == "bearer" || c.Scoped {
		// the library gets its own copy of the required scopes: the oracle's reference (c.Scopes) is never in its hands
		param = &security.ScopedAuthRequest{Request: req, RequiredScopes: cloneScopes(o.scopes)}
	}
	// an authenticator is built once and serves many requests: an earlier request with OTHER credentials
	// (of every kind and placement) goes through the same instance first; nothing of it may show up below
	if !c.NoWarm {
		warm := httptest.NewRequest(http.MethodPost, "/warm?access_token=warm-query-token&"+url.QueryEscape(spellKeyName(c, p))+"=warm-query-key", strings.NewReader("access_token=warm-form-token"))
		warm.Header.Set("Content-Type", "application/x-www-form-urlencoded")
		if p.kind == "basic" {
			warm.SetBasicAuth("warm-user", "warm:pass")
		} else {
			warm.Header.Set("Authorization", "Bearer warm-header-token")
		}
		warm.Header.Set(spellKeyName(c, p), "warm-header-key")
		var wparam interface{} = warm
		if p.kind == "bearer" || c.Scoped {
			wparam = &security.ScopedAuthRequest{Request: warm, RequiredScopes: []string{"warm-scope"}}
		}
		_, _ = mon.Catch(func() { _, _, _ = auth.Authenticate(wparam) })
		o.calls, o.cbPrincipal, o.cbErr = nil, nil, nil
	}
	pv, st := mon.Catch(func() { o.applies, o.principal, o.err = auth.Authenticate(param) })
	if pv != nil {
		o.panicked = fmt.Sprintf("%v\n%s", pv, st)
		return o
	}
	o.failedRealm = security.FailedBasicAuth(req)
	o.schemeName = security.OAuth2SchemeName(req)
	o.ctxMarker = req.Context().Value(ctxKey{})
	if o.ctxMarker != nil && o.ctxMarker != interface{}(marker) {
		o.ctxMarker = "foreign"
	}
	return o
}

func spellKeyName(c *Case, p probe) string {
	if p.kind == "apikey" {
		return spellKey(c, p)
	}
	return "X-Unused-Warm-Key"
}

func probeAll(c *Case, fresh func() (*http.Request, error)) ([]observation, error) {
	if c.Pipe != nil {
		return pipeProbe(c, fresh)
	}
	var out []observation
	switch c.Reuse {
	case "shared":
		// the middleware consults every authenticator of an operation's alternatives on the one request it received
		req, err := fresh()
		if err != nil {
			return nil, err
		}
		for round := 1; round <= 2; round++ {
			for _, p := range probesOf(c) {
				out = append(out, runProbe(c, p, req, round))
			}
		}
		end := observation{p: probe{kind: "markers"}, round: 2}
		end.failedRealm = security.FailedBasicAuth(req)
		end.schemeName = security.OAuth2SchemeName(req)
		end.ctxMarker = req.Context().Value(ctxKey{})
		out = append(out, end)
	case "twice":
		for _, p := range probesOf(c) {
			req, err := fresh()
			if err != nil {
				return nil, err
			}
			out = append(out, runProbe(c, p, req, 1), runProbe(c, p, req, 2))
		}
	default:
		for _, p := range probesOf(c) {
			req, err := fresh()
			if err != nil {
				return nil, err
			}
			out = append(out, runProbe(c, p, req, 1))
		}
	}
	return out, nil
}

// ---------------------------------------------------------------------------------------------
// loopback server (thorough tier and replays of TCP cases)

var (
	srvStart    sync.Mutex // guards srv and srvFailures
	srv         *httptest.Server
	srvFailures int
	srvMu       sync.Mutex
	srvCase     *Case
	srvSeen     []hit // one entry per request the handler received for srvCase
)

// hit is what the loopback server saw of one received request.
type hit struct {
	obs []observation
	err error
}

// server returns the shared loopback server, or nil when no listener could be had (a few retries per attempt, tried again by
// the next loopback cases, five times per worker): a machine without a free port or loopback address right now is a condition
// of the harness, never an observation about the library (httptest.NewServer would panic and take the worker down).
func server() *httptest.Server {
	srvStart.Lock()
	defer srvStart.Unlock()
	if srv != nil || srvFailures >= 5 {
		return srv
	}
	func() {
		l, err := listenLoopback()
		if err != nil {
			srvFailures++
			srvListenErr = err
			return
		}
		srv = &httptest.Server{Listener: l, Config: &http.Server{Handler: http.HandlerFunc(func(w http.ResponseWriter, r *http.Request) {
			body, rerr := io.ReadAll(r.Body)
			srvMu.Lock()
			c := srvCase
			srvMu.Unlock()
			var obs []observation
			err := rerr
			if err == nil && c != nil {
				obs, err = probeAll(c, func() (*http.Request, error) {
					r2 := r.Clone(context.Background())
					r2.Body = io.NopCloser(bytes.NewReader(body))
					r2.Form, r2.PostForm, r2.MultipartForm = nil, nil, nil
					return r2, nil
				})
			}
			srvMu.Lock()
			if c != nil && c == srvCase {
				srvSeen = append(srvSeen, hit{obs, err})
			}
			srvMu.Unlock()
			w.Header().Set("Content-Type", runtime.JSONMime)
			w.WriteHeader(http.StatusOK)
			_, _ = w.Write([]byte("{}"))
		})}}
		srv.Start()
	}()
	return srv
}

// ---------------------------------------------------------------------------------------------
// execution and judgement

func tokenFeature(s string) string {
	f := "alnum"
	rank := map[string]int{"alnum": 0, "punct": 1, "inner-space": 2, "non-ascii": 3, "control": 4}
	up := func(n string) {
		if rank[n] > rank[f] {
			f = n
		}
	}
	for i := 0; i < len(s); i++ {
		b := s[i]
		switch {
		case b >= 0x80:
			up("non-ascii")
		case b < 0x20 && b != '\t' || b == 0x7f:
			up("control")
		case b == ' ' || b == '\t':
			up("inner-space")
		case !('a' <= b && b <= 'z' || 'A' <= b && b <= 'Z' || '0' <= b && b <= '9'):
			up("punct")
		}
	}
	return f
}

func nonAlnum(s string) bool { return tokenFeature(s) != "alnum" }

func channel(c *Case) string {
	if c.TCP {
		return "tcp"
	}
	return "wire"
}

// tcpResult is the outcome of one Runtime.Submit against the loopback server.
type tcpResult struct {
	pv   interface{}
	st   string
	err  error
	hits []hit
}

func submitTCP(c *Case) (res tcpResult) {
	// runCase made sure that the server exists before the first Submit of a case
	rt, op := buildOperation(c, strings.TrimPrefix(server().URL, "http://"), nil)
	srvMu.Lock()
	srvCase, srvSeen = c, nil
	srvMu.Unlock()
	res.pv, res.st = mon.Catch(func() { _, res.err = transportOf(c, rt).Submit(op) })
	srvMu.Lock()
	res.hits = srvSeen
	srvCase, srvSeen = nil, nil
	srvMu.Unlock()
	return res
}

// failure names how a Submit fell short of "one request, received and readable" ("" = it did not).
func (res tcpResult) failure() string {
	switch {
	case res.pv != nil:
		return "client-panic"
	case res.err != nil:
		return "submit-error"
	case len(res.hits) == 0:
		return "request-refused-before-handler"
	}
	for _, h := range res.hits {
		if h.err != nil || h.obs == nil {
			return "server-read-error"
		}
	}
	return ""
}

// controlCase is a plain request that any working loopback path carries: if it goes through while a
// case keeps failing, the failure belongs to the case (the credential was made unsendable), not to the host.
func controlCase() *Case {
	return &Case{NoWarm: true, Method: "GET", HasOpAuth: true, OpAuth: []Cred{{Kind: "bearer", Token: "control0token"}},
		RealmMode: "ctor", SchemeNm: "oauth2", Outcome: "ok", TCP: true}
}

func runCase(m *mon.M, c *Case) {
	m.Eval(1)
	x, xerr := c.expand()
	if xerr != nil {
		m.Violate("bad-replay-case", xerr.Error(), nil)
		return
	}
	c = x // the working copy; rep(c) is the recorded form
	defer resetClientOpts(c)
	e := expect(c)
	if e.ctorPanic != "" {
		m.Violate("client-panic/apikey-writer-constructor", "client.APIKeyAuth panicked: "+e.ctorPanic, rep(c))
		return
	}

	var obs []observation
	var all [][]observation
	if !knownEntry(c) {
		m.Violate("bad-replay-case", fmt.Sprintf("unknown entry point %q or operation context %q", c.Entry, c.OpCtx), nil)
		return
	}
	if !c.TCP {
		var wire []byte
		var err error
		if c.Entry == "" {
			rt, op := buildOperation(c, "api.example.test:8080", nil)
			var req *http.Request
			pv, st := mon.Catch(func() { req, err = rt.CreateHttpRequest(op) })
			if pv != nil {
				m.Violate("client-panic", fmt.Sprintf("CreateHttpRequest panicked: %v\n%s", pv, st), rep(c))
				return
			}
			if failingVerdict(m, c, e, err) {
				return
			}
			if err != nil {
				m.Violate("client-build-error", "CreateHttpRequest failed: "+err.Error(), rep(c))
				return
			}
			if c.CTSpell != "" && c.CTVia == "transport" {
				req = respellRequest(c, req) // what the transport's RoundTripper does on the way out (TCP cases: respeller.RoundTrip)
			}
			var buf bytes.Buffer
			if err := req.Write(&buf); err != nil {
				m.Violate("request-not-serialisable", "Request.Write failed: "+err.Error(), rep(c))
				return
			}
			wire = buf.Bytes()
		} else {
			// the same operation through Submit (of the Runtime or of one of its tracing wrappers), into a recording RoundTripper
			rec := &recorder{}
			rt, op := buildOperation(c, "api.example.test:8080", rec)
			pv, st := mon.Catch(func() { _, err = transportOf(c, rt).Submit(op) })
			if pv != nil {
				m.Violate("client-panic"+entryFeature(c), fmt.Sprintf("Submit panicked: %v\n%s", pv, st), rep(c))
				return
			}
			if failingVerdict(m, c, e, err) {
				return
			}
			rec.mu.Lock()
			wires, werr := rec.wires, rec.werr
			rec.mu.Unlock()
			switch {
			case werr != nil:
				m.Violate("request-not-serialisable", "Request.Write failed: "+werr.Error(), rep(c))
				return
			case err != nil:
				m.Violate("client-build-error"+entryFeature(c), "Submit into a recording RoundTripper failed: "+err.Error(), rep(c))
				return
			case len(wires) == 0:
				m.Violate("request-never-sent"+entryFeature(c), "Submit returned no error, yet the transport's RoundTripper was handed no request", rep(c))
				return
			case len(wires) > 1:
				m.Violate("request-sent-more-than-once"+entryFeature(c), fmt.Sprintf("one Submit handed the transport's RoundTripper %d requests; the first is judged", len(wires)), rep(c))
			}
			wire = wires[0]
		}
		obs, err = probeAll(c, func() (*http.Request, error) {
			return http.ReadRequest(bufio.NewReader(bytes.NewReader(wire)))
		})
		if err != nil {
			m.Violate("request-not-parsable", fmt.Sprintf("http.ReadRequest failed: %v on %q", err, clipBytes(wire)), rep(c))
			return
		}
	} else {
		if server() == nil {
			// no loopback listener could be had (after retries): a condition of the machine, nothing was observed
			noListener(m)
			return
		}
		res := submitTCP(c)
		if res.pv != nil {
			m.Violate("client-panic", fmt.Sprintf("Submit panicked: %v\n%s", res.pv, res.st), rep(c))
			return
		}
		if failingVerdict(m, c, e, res.err) {
			return
		}
		if res.err != nil && (strings.Contains(res.err.Error(), "invalid header") || strings.Contains(res.err.Error(), "invalid URL")) {
			m.Violate("credential-not-transmittable", "Submit failed: "+res.err.Error(), rep(c))
			return
		}
		if kind := res.failure(); kind != "" {
			// Every generated credential is one the statement covers (header-safe where it travels in a header),
			// so the request is owed to arrive. Three-valued: the failure is charged to the case only when a plain
			// control request goes through right afterwards AND the case fails the same way again.
			legacy := "tcp/io-error(not judged)"
			if res.err == nil {
				legacy = "tcp/server-saw-nothing(not judged)"
			}
			if ctl := submitTCP(controlCase()); ctl.failure() != "" || len(ctl.hits) != 1 {
				m.Class(legacy)
				m.Note("tcp_environment_failures", 1)
				return
			}
			again := submitTCP(c)
			if again.failure() != kind {
				m.Class(legacy)
				m.Note("tcp_failures_not_reproduced", 1)
				return
			}
			var herr error
			for _, h := range again.hits {
				if h.err != nil {
					herr = h.err
				}
			}
			m.Violate("tcp/"+kind+"/"+caseFeature(c), fmt.Sprintf("Submit to the loopback server twice ended in %s (client error: %v; server-side read error: %v; requests received: %d) "+
				"while a plain control request in between was delivered", kind, again.err, herr, len(again.hits)), rep(c))
			return
		}
		if len(res.hits) > 1 {
			m.Violate("tcp/request-sent-more-than-once", fmt.Sprintf("one Submit made the server receive %d requests; each of them is judged", len(res.hits)), rep(c))
		}
		for _, h := range res.hits {
			all = append(all, h.obs)
		}
		obs = all[0]
	}
	if !c.TCP {
		all = [][]observation{obs}
	}
	m.Class("channel/" + channel(c))
	if c.Entry != "" || c.OpCtx != "" {
		m.Class("entry/" + channel(c) + entryFeature(c))
		m.SetAdd("entry-x-auth-matrix", fmt.Sprintf("%s ctx=%s default=%v op=%v preset=%v", c.Entry, c.OpCtx, len(c.Default) > 0, c.HasOpAuth, c.Preset != nil))
	}
	if c.CTSpell != "" {
		m.Class("form-content-type/" + c.FormKind + "/" + c.CTSpell + "-via-" + c.CTVia)
	}
	classOddIn(m, c, e)
	for _, o := range c.ClientOpts {
		m.Class("client-option/" + channel(c) + "/" + o)
	}
	for _, st := range rep(c).Stretch {
		m.Class("long-credential/" + channel(c) + "/" + sizeClass(st.Len))
	}
	m.Note("authenticator_calls", int64(len(obs)))
	if c.Reuse != "" {
		m.Class("request-reuse/" + c.Reuse)
		if strings.HasPrefix(e.bearerSrc, "form") {
			m.Class("request-reuse/" + c.Reuse + "/form-only-token")
		}
	}
	for _, l := range [][]KV{c.BaseQuery, c.PatternQuery} {
		for _, kv := range l {
			if _, ok := e.qryKeys[kv.Name]; ok {
				m.Class("static-query/named-like-an-effective-key")
			} else {
				m.Class("static-query/unrelated")
			}
		}
	}

	// non-triviality
	nt := len(e.placements) >= 2
	carried := 0
	if e.basic {
		carried++
		nt = nt || nonAlnum(e.user) || nonAlnum(e.pass)
	}
	if e.bearer {
		nt = nt || nonAlnum(e.token)
	}
	for _, k := range e.hdrKeys {
		carried++
		nt = nt || nonAlnum(k.token)
	}
	for _, k := range e.qryKeys {
		carried++
		nt = nt || nonAlnum(k.token)
	}
	if carried+len(e.placements) >= 2 {
		nt = true
	}
	if nt {
		b, _ := json.Marshal(rep(c))
		m.NT(string(b))
	}
	m.SetAdd("bearer-placement-subsets", strings.Join(e.placements, "+"))
	m.SetAdd("auth-matrix", fmt.Sprintf("default=%v op=%v preset=%v", len(c.Default) > 0, c.HasOpAuth, c.Preset != nil))

	for _, one := range all { // every request the server received carries the credentials (one, save for a flagged duplicate)
		for i := range one {
			judge(m, c, e, &one[i])
		}
	}
	if m.WantSample() {
		m.Sample(map[string]interface{}{"case": rep(c), "expected_bearer_source": e.bearerSrc, "expected_basic": e.basic, "placements": e.placements})
	}
}

func clipBytes(b []byte) string {
	if len(b) > 600 {
		b = b[:600]
	}
	return string(b)
}

// cloneScopes copies a scope list, keeping nil and empty apart.
func cloneScopes(s []string) []string {
	if s == nil {
		return nil
	}
	return append([]string{}, s...)
}

func sameScopes(a, b []string) bool {
	if len(a) != len(b) {
		return false
	}
	for i := range a {
		if a[i] != b[i] {
			return false
		}
	}
	return true
}

// leakedDefault reports whether (a, b) are the values of a default writer of the given kind.
func leakedDefault(c *Case, p probe, a, b string) bool {
	for _, w := range c.Default {
		switch {
		case p.kind == "basic" && w.Kind == "basic" && string(w.User) == a && string(w.Pass) == b:
			return true
		case p.kind == "bearer" && w.Kind == "bearer" && string(w.Token) == a:
			return true
		case p.kind == "apikey" && w.Kind == "apikey" && inLoc(w.In) == p.in && string(w.Token) == a:
			return true
		}
	}
	return false
}

func whyDefaultIdle(c *Case) string {
	if opHasOwn(c) {
		return "despite-operation-auth"
	}
	if c.Preset != nil {
		return "despite-preset-authorization"
	}
	return "unexplained"
}

func bearerSourceOf(c *Case, tok string) string {
	switch {
	case c.HasQueryTok && c.QueryTok != "" && string(c.QueryTok) == tok:
		return "query"
	case c.FormKind != "" && string(c.FormTok) == tok:
		return "form"
	case c.Preset != nil && c.Preset.Kind == "bearer" && string(c.Preset.Token) == tok:
		return "header"
	}
	for _, w := range c.OpAuth {
		if w.Kind == "bearer" && string(w.Token) == tok {
			return "header"
		}
	}
	return ""
}

func judge(m *mon.M, c *Case, e *expectation, o *observation) {
	if o.p.kind == "markers" {
		judgeMarkers(m, c, e, o)
		return
	}
	if o.p.kind == "pipeline" {
		judgePipe(m, c, e, o)
		return
	}
	lab := o.p.label()
	ch := channel(c)
	// a refuting observation of a LATER consultation of the same *http.Request gets its own signature
	again := ""
	if o.round > 1 {
		again = "/request-consulted-again"
	}
	// ... and so does a credential that does not arrive as written while the transport dumps what it sends (see optFeature)
	sent := again + optFeature(c) + entryFeature(c)
	if o.panicked != "" {
		m.Violate(lab+"/authenticator-panic"+again, "Authenticate panicked: "+o.panicked, rep(c))
		return
	}
	// what is owed to this probe
	var owed bool
	var wa, wb, src string
	switch o.p.kind {
	case "basic":
		owed, wa, wb, src = e.basic, e.user, e.pass, e.basicSrc
	case "bearer":
		owed, wa, src = e.bearer, e.token, e.bearerSrc
	case "apikey":
		if e.skipNames[strings.ToLower(o.p.name)] { // header names match case-insensitively: every probe of a like-named key is left out
			m.Class("verdict/" + lab + "/writer-for-a-spelling-that-denotes-no-location(not judged)")
			return
		}
		var k keyExp
		var ok bool
		if o.p.in == "header" {
			k, ok = e.hdrKeys[strings.ToLower(o.p.name)]
		} else {
			k, ok = e.qryKeys[o.p.name]
		}
		owed, wa, src = ok, k.token, k.src
	}
	feat := tokenFeature(wa + wb)
	if o.p.kind == "basic" && strings.Contains(wb, ":") && feat != "non-ascii" && feat != "control" {
		feat = "colon-in-password"
	}
	if sc := sizeClass(len(wa) + len(wb)); sc != "" {
		feat += "+" + sc
	}
	describe := func() string {
		return fmt.Sprintf("[%s] consultation %d of the request (reuse=%q) probe %s name=%q: applies=%v calls=%d principal=%v err=%v; owed=%v (%s)", ch, o.round, c.Reuse, lab, o.p.name, o.applies, len(o.calls), o.principal, o.err, owed, src)
	}

	if len(o.calls) > 1 {
		m.Violate(lab+"/callback-called-twice"+again, describe(), rep(c))
		return
	}
	called := len(o.calls) == 1

	if !owed {
		m.Class("verdict/" + lab + "/not-applicable")
		if called || o.applies {
			why := "no-such-credential"
			if called && leakedDefault(c, o.p, o.calls[0].a, o.calls[0].b) && !e.defaultEffective {
				why = "default-auth-" + whyDefaultIdle(c)
			} else if o.p.kind == "bearer" && c.FormKind != "" {
				why = "form-token-with-" + strings.ToLower(c.Method)
			}
			got := ""
			if called {
				got = fmt.Sprintf(" callback got (%s,%s)", qclip(o.calls[0].a), qclip(o.calls[0].b))
			}
			m.Violate(lab+"/applied-without-credential/"+why+sent, describe()+got, rep(c))
			return
		}
		if o.principal != nil {
			m.Violate(lab+"/principal-invented"+again, describe(), rep(c))
		}
		if o.p.kind == "basic" {
			judgeRealm(m, c, o, "no-credential"+again)
		}
		return
	}

	m.Class("verdict/" + lab + "/applicable/" + src)
	if !called || !o.applies {
		if called && c.Outcome == "none" {
			// the callback WAS shown the credential and answered (nil, nil): "not applicable" is reserved for requests without the credential
			m.Violate(lab+"/not-applicable-although-callback-consulted/outcome-none"+sent, describe(), rep(c))
		} else if src == "default" {
			m.Violate(lab+"/default-auth-not-applied"+sent, describe(), rep(c))
		} else {
			m.Violate(lab+"/not-applied-although-sent/"+src+"/"+feat+sent, describe()+fmt.Sprintf(" expected (%s,%s)", qclip(wa), qclip(wb)), rep(c))
		}
		return
	}
	ga, gb := o.calls[0].a, o.calls[0].b
	if ga != wa || gb != wb {
		sig := lab + "/credential-differs/" + feat
		switch {
		case leakedDefault(c, o.p, ga, gb) && !e.defaultEffective:
			sig = lab + "/default-auth-" + whyDefaultIdle(c)
		case o.p.kind == "apikey" && o.p.in == "query" && staticSourceOf(c, o.p.name, ga) != "":
			sig = lab + "/static-query-parameter-beats-key/" + staticSourceOf(c, o.p.name, ga)
		case o.p.kind == "bearer":
			if s := bearerSourceOf(c, ga); s != "" && !strings.HasPrefix(src, s) {
				sig = "bearer/precedence/" + s + "-beats-" + strings.SplitN(src, ":", 2)[0]
			}
		}
		m.Violate(sig+sent, describe()+fmt.Sprintf(" callback got (%s,%s), expected (%s,%s)%s", qclip(ga), qclip(gb), qclip(wa), qclip(wb), diffAt(ga+"\x00"+gb, wa+"\x00"+wb)), rep(c))
	}
	if o.p.kind == "bearer" && !sameScopes(o.calls[0].scopes, o.scopes) {
		m.Violate("bearer/scopes-differ"+again, describe()+fmt.Sprintf(" callback got scopes %q, required %q", o.calls[0].scopes, o.scopes), rep(c))
	}
	if o.principal != o.cbPrincipal {
		m.Violate(lab+"/principal-substituted/outcome-"+c.Outcome+again, describe()+fmt.Sprintf(" callback returned %v", o.cbPrincipal), rep(c))
	}
	if o.err != o.cbErr {
		m.Violate(lab+"/error-substituted/outcome-"+c.Outcome+again, describe()+fmt.Sprintf(" callback returned error %v", o.cbErr), rep(c))
	}
	if c.Ctx && o.ctxMarker == nil {
		m.Violate(lab+"/callback-context-dropped/outcome-"+c.Outcome+again, describe()+" the context returned by the context-aware callback is not the request's context afterwards", rep(c))
	}
	if o.p.kind == "basic" && o.cbErr != nil {
		judgeRealm(m, c, o, "refused"+again)
	}
	if o.p.kind == "bearer" && o.schemeName != c.SchemeNm {
		m.Violate("bearer/scheme-name-marker-differs"+again, describe()+fmt.Sprintf(" OAuth2SchemeName=%q, authenticator name %q", o.schemeName, c.SchemeNm), rep(c))
	}
}

func judgeRealm(m *mon.M, c *Case, o *observation, when string) {
	want := c.Realm
	if c.RealmMode != "named" || want == "" {
		want = security.DefaultRealmName
	}
	if o.failedRealm != want {
		m.Violate("basic/failed-realm-marker-differs/"+when+"/realm-"+c.RealmMode,
			fmt.Sprintf("[%s] FailedBasicAuth=%q, expected realm %q (mode %s, ctx=%v)", channel(c), o.failedRealm, want, c.RealmMode, c.Ctx), rep(c))
	}
}

// staticSourceOf tells which static query parameter (of the base path or of the path pattern) carries the value v under the name.
func staticSourceOf(c *Case, name, v string) string {
	for _, kv := range c.PatternQuery {
		if kv.Name == name && string(kv.Value) == v {
			return "in-path-pattern"
		}
	}
	for _, kv := range c.BaseQuery {
		if kv.Name == name && string(kv.Value) == v {
			return "in-base-path"
		}
	}
	return ""
}

// judgeMarkers re-reads, after every authenticator of the case was consulted (twice) on ONE request, what the
// authenticators documented to have left on it: a later consultation must not wipe what an earlier one recorded.
func judgeMarkers(m *mon.M, c *Case, e *expectation, o *observation) {
	m.Class("shared-request/markers-re-read")
	if !e.basic || c.Outcome == "err" || c.Outcome == "both" {
		when := "refused"
		if !e.basic {
			when = "no-credential"
		}
		judgeRealm(m, c, o, when+"/after-later-authenticators")
	}
	if e.bearer && o.schemeName != c.SchemeNm {
		m.Violate("bearer/scheme-name-marker-differs/after-later-authenticators",
			fmt.Sprintf("[%s] after all authenticators were consulted on one request, OAuth2SchemeName=%q, authenticator name %q", channel(c), o.schemeName, c.SchemeNm), rep(c))
	}
	if c.Ctx && o.ctxMarker == nil && (e.basic || e.bearer || len(e.hdrKeys)+len(e.qryKeys) > 0) {
		m.Violate("shared-request/callback-context-dropped",
			fmt.Sprintf("[%s] after all authenticators were consulted on one request, no value of a context returned by a context-aware callback is left on it", channel(c)), rep(c))
	}
}

// ---------------------------------------------------------------------------------------------
// generation

var (
	headerPool = []string{"token123", "a b", "Bearer x", "Basic abc", "=", "a=b&c", "%41", "+", "a+b", `"quoted"`, "\xc3\xbcn\xc3\xaf", ",", ";", "a,b", "a\tb", "x  y", "\xff\xfe", "~", "abc==", "{}", "a:b", "\\", "'", "e30.e30.sig-_", "%", "%zz", "?", "#"}
	anyPool    = []string{"token123", " lead", "trail ", "a b", "a&b=c", "a+b", "%41", "%", "\x00", "\r\n", "\n", "\t", "\xff", "\xc3\xa9", "=", "&", ";", "a;b", "#", "?", "Bearer x", "+", " ", "--boundary", "\"", "é€😀"}
	userPool   = []string{"admin", "", "user@example.com", "a b", "\xc3\xa9ric", "\xff", "u\x00", " ", "Aladdin", "dom\\user", "u=v", "\tx", "u\n"}
	passPool   = []string{"", "open sesame", ":", "::", "a:b", ":lead", "trail:", "p\xc3\xa4ss", "\xff\x00", " ", "\r\n", "pass:word:more", "Basic", "=="}
	hdrNames   = []string{"X-API-Key", "x-api-key", "X-Api-KEY", "API_KEY", "apikey", "X-Auth.Token", "x-TOKEN", "Api-Key-2", "X-Default-Key", "private-token"}
	qryNames   = []string{"api_key", "apiKey", "APIKEY", "key", "k.e-y", "tok en", "a&b", "\xd0\xba\xd0\xbb\xd1\x8e\xd1\x87", "sig", "Api_Key"}
	foreignHdr = []string{"Digest username=\"x\", response=\"y\"", "Token abc", "Negotiate YIIZ=", "AWS4-HMAC-SHA256 Credential=x", "Bearer", "Basic", "BearerX tok", "Basically x", "bogus", "Bea"}
	oddIns     = []string{"Header", "HEADER", "Query", "QUERY", "hEaDeR", "cookie", "", " header", "path"}
	anyMethods = []string{"GET", "POST", "PUT", "PATCH", "DELETE", "HEAD", "OPTIONS"}
	bodyMeths  = []string{"POST", "PUT", "PATCH"}
	scopeSets  = [][]string{nil, {}, {"read"}, {"read", "write:all"}, {"a b", ""}, {"write", "read", "write"}, {"Zeta", "alpha", "Beta", "alpha"}, {"Read:All", " padded ", "b", "a"}}
	realms     = []string{"API", "My Realm", "r\"q", "\xc3\xa9", "x"}
	schemeNms  = []string{"oauth2", "petstore_auth", "", "a b"}
)

func headerToken(r *rand.Rand) string {
	if r.Intn(4) == 0 {
		return headerPool[r.Intn(len(headerPool))]
	}
	n := 1 + r.Intn(24)
	b := make([]byte, n)
	for i := range b {
		switch k := r.Intn(20); {
		case k < 12:
			b[i] = "abcdefghijklmnopqrstuvwxyzABCDEFGHIJKLMNOPQRSTUVWXYZ0123456789"[r.Intn(62)]
		case k < 17:
			b[i] = byte(0x21 + r.Intn(0x7f-0x21))
		case k < 18 && i > 0 && i < n-1:
			b[i] = " \t"[r.Intn(2)]
		case k < 18:
			b[i] = '-'
		default:
			b[i] = byte(0x80 + r.Intn(0x80))
		}
	}
	return string(b)
}

func anyToken(r *rand.Rand) string {
	if r.Intn(4) == 0 {
		return anyPool[r.Intn(len(anyPool))]
	}
	n := 1 + r.Intn(24)
	b := make([]byte, n)
	for i := range b {
		if r.Intn(2) == 0 {
			b[i] = "abcdefghijklmnopqrstuvwxyzABCDEFGHIJKLMNOPQRSTUVWXYZ0123456789"[r.Intn(62)]
		} else {
			b[i] = byte(r.Intn(256))
		}
	}
	return string(b)
}

func genUser(r *rand.Rand) string {
	if r.Intn(3) == 0 {
		return userPool[r.Intn(len(userPool))]
	}
	return strings.ReplaceAll(anyToken(r), ":", "_")
}

func genPass(r *rand.Rand) string {
	if r.Intn(3) == 0 {
		return passPool[r.Intn(len(passPool))]
	}
	s := anyToken(r)
	if r.Intn(3) == 0 {
		i := r.Intn(len(s) + 1)
		s = s[:i] + ":" + s[i:]
	}
	return s
}

type tokenSet map[string]bool

func (t tokenSet) fresh(r *rand.Rand, g func(*rand.Rand) string) string {
	for {
		s := g(r)
		if s != "" && !t[s] {
			t[s] = true
			return s
		}
	}
}

func genWriters(r *rand.Rand, n int, used tokenSet) []Cred {
	var out []Cred
	haveAuthz := false
	hdrSeen := map[string]bool{}
	qrySeen := map[string]bool{}
	haveFailing := false
	for len(out) < n {
		switch k := r.Intn(10); {
		case k < 3 && !haveAuthz:
			haveAuthz = true
			out = append(out, Cred{Kind: "basic", User: mon.Q(genUser(r)), Pass: mon.Q(genPass(r))})
		case k < 5 && !haveAuthz:
			haveAuthz = true
			out = append(out, Cred{Kind: "bearer", Token: mon.Q(used.fresh(r, headerToken))})
		case k < 8:
			nm := hdrNames[r.Intn(len(hdrNames))]
			if hdrSeen[strings.ToLower(nm)] {
				continue
			}
			hdrSeen[strings.ToLower(nm)] = true
			in := "header"
			if r.Intn(12) == 0 {
				// the location as a caller may spell it: the server side accepts any letter case, the client side is observed.
				// The name is taken out of the query pool as well, the value is header-safe: whatever location a writer picks
				// for the spelling, the key can travel there and collides with no other key of the list.
				in = oddIns[r.Intn(len(oddIns))]
				if qrySeen[nm] {
					continue
				}
				qrySeen[nm] = true
			}
			out = append(out, Cred{Kind: "apikey", In: in, Name: nm, Token: mon.Q(used.fresh(r, headerToken))})
		case k < 9 && r.Intn(25) == 0 && !haveFailing:
			// a writer that returns an error (an expired token source, say), alone or as a member of a Compose
			haveFailing = true
			out = append(out, Cred{Kind: "failing"})
		default:
			nm := qryNames[r.Intn(len(qryNames))]
			if qrySeen[nm] {
				continue
			}
			qrySeen[nm] = true
			out = append(out, Cred{Kind: "apikey", In: "query", Name: nm, Token: mon.Q(used.fresh(r, anyToken))})
		}
	}
	return out
}

func genCase(r *rand.Rand) *Case {
	used := tokenSet{}
	for _, v := range append(append([]string{}, baseStatic...), patternStatic...) {
		used[v] = true // no credential of the case equals a static query value
	}
	c := &Case{}
	if r.Intn(2) == 0 {
		c.Default = genWriters(r, 1+r.Intn(2), used)
		c.DefaultCompose = r.Intn(3) == 0
	}
	switch k := r.Intn(20); {
	case k < 10:
		c.HasOpAuth = true
		c.OpAuth = genWriters(r, 1+r.Intn(3), used)
		c.OpCompose = r.Intn(3) == 0
	case k < 11:
		c.HasOpAuth = true           // PassThroughAuth ...
		c.OpCompose = r.Intn(3) == 0 // ... or a Compose of nothing but a nil entry
	}
	if r.Intn(10) < 3 {
		switch k := r.Intn(10); {
		case k < 4:
			c.Preset = &Cred{Kind: "bearer", Token: mon.Q(used.fresh(r, headerToken))}
		case k < 6:
			c.Preset = &Cred{Kind: "basic", User: mon.Q(genUser(r)), Pass: mon.Q(genPass(r))}
		default:
			c.Preset = &Cred{Kind: "foreign", Token: mon.Q(foreignHdr[r.Intn(len(foreignHdr))])}
		}
	}
	if r.Intn(10) < 3 {
		c.HasQueryTok = true
		c.QueryTok = mon.Q(used.fresh(r, anyToken))
	}
	switch k := r.Intn(10); {
	case k < 2:
		c.FormKind = "urlencoded"
	case k < 4:
		c.FormKind = "multipart"
	case k < 5:
		c.JSONBody = true
	}
	// one query placement in 4 names the parameter with an empty value ("?access_token="): no credential in the
	// query, so a token in a form body (urlencoded or multipart), or none at all, is what the authenticator owes.
	// (With a multipart body net/http's FormValue lists the empty query value first: repaired defect, see DESIGN 9.5.)
	if c.HasQueryTok && r.Intn(4) == 0 {
		c.QueryTok = ""
	}
	switch {
	case c.FormKind != "":
		c.FormTok = mon.Q(used.fresh(r, anyToken))
		c.Method = bodyMeths[r.Intn(len(bodyMeths))]
		if r.Intn(5) < 2 {
			addCTSpelling(r, c)
		}
	case c.JSONBody:
		c.Method = bodyMeths[r.Intn(len(bodyMeths))]
	default:
		c.Method = anyMethods[r.Intn(len(anyMethods))]
	}
	switch r.Intn(3) {
	case 0:
		c.RealmMode = "ctor"
	case 1:
		c.RealmMode = "empty"
	default:
		c.RealmMode = "named"
		c.Realm = realms[r.Intn(len(realms))]
	}
	c.Ctx = r.Intn(2) == 0
	c.Scoped = r.Intn(2) == 0
	c.Scopes = cloneScopes(scopeSets[r.Intn(len(scopeSets))]) // the case's own copy, never the shared set
	c.SchemeNm = schemeNms[r.Intn(len(schemeNms))]
	c.KeyCase = r.Intn(4)
	c.InCase = r.Intn(3)
	c.Outcome = []string{"ok", "ok", "err", "both", "none"}[r.Intn(5)]
	// the same *http.Request consulted more than once (several alternatives / schemes of one operation)
	switch k := r.Intn(10); {
	case k < 2:
		c.Reuse = "twice"
	case k < 4:
		c.Reuse = "shared"
	}
	// static query parameters in the base path and/or the path pattern, mostly named like a query-located key of the case
	if r.Intn(5) == 0 {
		addStatic(r, c)
	}
	// long credentials: one (sometimes two) of the case's credentials of 100 B / 4 KiB / 64 KiB
	if r.Intn(40) == 0 {
		addStretch(r, c)
		if r.Intn(4) == 0 {
			addStretch(r, c)
		}
	}
	return c
}

var (
	baseStatic    = []string{"public-demo", "acme"}
	patternStatic = []string{"anonymous", "guest"}
)

// effectiveQueryKeys lists the names of the query-located API keys among the writers that are owed to take effect.
func effectiveQueryKeys(c *Case) []string {
	var l []Cred
	switch {
	case opHasOwn(c):
		l = c.OpAuth
	case c.Preset == nil:
		l = c.Default
	}
	var out []string
	for _, w := range l {
		if w.Kind == "apikey" && w.In == "query" {
			out = append(out, w.Name)
		}
	}
	return out
}

// addStatic puts a static query parameter into the base path, the path pattern or both. Its name is that of an
// effective query-located API key (the writer's value is owed to win: "recovered exactly") or an unrelated one
// ("tenant": never a key name of any pool, so that no probe's applicability depends on it).
func addStatic(r *rand.Rand, c *Case) {
	names := effectiveQueryKeys(c)
	name := func() string {
		if len(names) > 0 && r.Intn(4) != 0 {
			return names[r.Intn(len(names))]
		}
		return "tenant"
	}
	where := r.Intn(3)
	if where != 1 {
		c.BaseQuery = append(c.BaseQuery, KV{Name: name(), Value: mon.Q(baseStatic[r.Intn(len(baseStatic))])})
	}
	if where != 0 {
		c.PatternQuery = append(c.PatternQuery, KV{Name: name(), Value: mon.Q(patternStatic[r.Intn(len(patternStatic))])})
	}
}

func run(m *mon.M) {
	runExtras(m)
	r := m.Rand("cases")
	for i := 0; i < m.N(200, 3000); i++ {
		pool := []string{"bearer:tok-A", "bearer:tok-B", "basic:alice:s3cr:et", "key:k-1", "none", "bearer:tok-C", "basic:bob:pw"}
		rc := &Reassign{Kind: "default-auth-reassigned"}
		for k := 0; k < 2+r.Intn(3); k++ {
			rc.Steps = append(rc.Steps, pool[r.Intn(len(pool))])
		}
		m.Begin(rc)
		runReassign(m, rc)
	}
	n := m.N(20000, 250000)
	for i := 0; i < n; i++ {
		c := genCase(r)
		if r.Intn(6) == 0 {
			addEntry(r, c) // through Submit (of the Runtime or a tracing wrapper) into a recording RoundTripper
		}
		m.Begin(c)
		runCase(m, c)
	}
	// the same cases through Runtime.Submit and a real loopback server (the transport validates what it sends)
	rt := m.Rand("tcp")
	nt := m.N(150, 10000)
	for i := 0; i < nt; i++ {
		c := genCase(rt)
		c.TCP = true
		addClientOpts(rt, c) // settings of the transport that only Submit looks at
		if rt.Intn(2) == 0 {
			addEntry(rt, c) // the tracing wrappers of the Runtime, an operation context with or without a span
		}
		if rt.Intn(10) == 0 {
			addPipe(rt, c)
		}
		m.Begin(c)
		runCase(m, c)
	}
	// the same cases, received by the real server pipeline over a description with a security requirement (no socket)
	rp := m.Rand("pipeline")
	np := m.N(150, 1500)
	for i := 0; i < np; i++ {
		c := genCase(rp)
		addPipe(rp, c)
		if rp.Intn(6) == 0 {
			addEntry(rp, c)
		}
		m.Begin(c)
		runCase(m, c)
	}
}

func replay(m *mon.M, raw json.RawMessage) {
	inReplay = true
	if replayExtra(m, raw) {
		return
	}
	var rc Reassign
	if err := json.Unmarshal(raw, &rc); err == nil && rc.Kind == "default-auth-reassigned" {
		runReassign(m, &rc)
		return
	}
	var c Case
	if err := json.Unmarshal(raw, &c); err != nil {
		m.Violate("bad-replay-case", err.Error(), nil)
		return
	}
	runCase(m, &c)
}
