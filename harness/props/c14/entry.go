package c14

import (
	"bytes"
	"context"
	"io"
	"math/rand"
	"net/http"
	"strings"
	"sync"

	"github.com/opentracing/opentracing-go"
	"github.com/opentracing/opentracing-go/mocktracer"
	oteltrace "go.opentelemetry.io/otel/trace"

	"github.com/go-openapi/runtime"
	"github.com/go-openapi/runtime/client"
)

// ---------------------------------------------------------------------------------------------
// the client's entry points
//
// The statement's rules about what the client attaches (the writers' credentials, and "a transport-wide default credential
// is applied only when the operation has none of its own and no Authorization header is already set") are rules of the
// client TRANSPORT, whichever way an operation is handed to it. An application reaches a client.Runtime through
// Runtime.CreateHttpRequest, Runtime.Submit, and the Submit of the transports that Runtime.WithOpenTracing() and
// Runtime.WithOpenTelemetry() return (generated clients take a runtime.ClientTransport: the tracing wrappers are handed to
// them in place of the Runtime). None of these is a credential, a placement or a configuration the statement excepts.
//
// Case.Entry: "" = Runtime.CreateHttpRequest (wire channel) / Runtime.Submit (loopback channel), as ever;
// "submit" = Runtime.Submit; "opentracing" / "opentelemetry" = the Submit of the respective wrapper of the same Runtime.
// In the wire channel the request of such a case is taken from a recording RoundTripper that is the Runtime's transport
// (no network: the request is serialised with Request.Write as the built ones are, and a canned 200 is answered).
// Case.OpCtx: the operation's Context: "" = nil, "plain" = context.Background(), "noop" / "mock" = it carries a span of
// opentracing's no-op tracer / of a mocktracer, "otel" = it carries a valid OpenTelemetry span context.

var (
	entryKinds = []string{"submit", "opentracing", "opentelemetry"}
	opCtxKinds = []string{"", "plain", "noop", "mock", "otel"}
)

func knownEntry(c *Case) bool {
	if c.Entry != "" && !contains(entryKinds, c.Entry) {
		return false
	}
	return contains(opCtxKinds, c.OpCtx)
}

func contains(l []string, s string) bool {
	for _, x := range l {
		if x == s {
			return true
		}
	}
	return false
}

// opContext makes the operation's context (a new one per built operation: spans are never shared between cases).
func opContext(c *Case) context.Context {
	switch c.OpCtx {
	case "plain":
		return context.Background()
	case "noop":
		return opentracing.ContextWithSpan(context.Background(), opentracing.NoopTracer{}.StartSpan("c14-parent"))
	case "mock":
		return opentracing.ContextWithSpan(context.Background(), mocktracer.New().StartSpan("c14-parent"))
	case "otel":
		return oteltrace.ContextWithSpanContext(context.Background(), oteltrace.NewSpanContext(oteltrace.SpanContextConfig{
			TraceID: oteltrace.TraceID{0xc, 0x14, 1, 2, 3, 4, 5, 6, 7, 8, 9, 10, 11, 12, 13, 14}, SpanID: oteltrace.SpanID{0xc, 0x14, 1, 2, 3, 4, 5, 6}, TraceFlags: oteltrace.FlagsSampled}))
	}
	return nil
}

// transportOf gives the transport the case's operation is submitted to.
func transportOf(c *Case, rt *client.Runtime) runtime.ClientTransport {
	switch c.Entry {
	case "opentracing":
		return rt.WithOpenTracing()
	case "opentelemetry":
		return rt.WithOpenTelemetry()
	}
	return rt
}

// entryFeature is the input class of a case that goes through another entry point than the channel's usual one ("" otherwise):
// the entry point, and for the tracing wrappers whether the operation brings a context (without one they hand the operation on as it is).
func entryFeature(c *Case) string {
	switch c.Entry {
	case "":
		return ""
	case "submit":
		return "/entry-submit"
	}
	switch c.OpCtx {
	case "":
		return "/entry-" + c.Entry + "/no-op-context"
	case "plain":
		return "/entry-" + c.Entry + "/op-context-without-span"
	}
	return "/entry-" + c.Entry + "/op-context-with-span"
}

// recorder is the transport of a wire-channel case that goes through Submit: what the client is about to send is written
// out the way it would go on the wire, and a plain 200 comes back.
type recorder struct {
	mu    sync.Mutex
	wires [][]byte
	werr  error
}

func (t *recorder) RoundTrip(r *http.Request) (*http.Response, error) {
	var buf bytes.Buffer
	err := r.Write(&buf)
	t.mu.Lock()
	if err != nil {
		t.werr = err
	} else {
		t.wires = append(t.wires, buf.Bytes())
	}
	t.mu.Unlock()
	if err != nil {
		return nil, err
	}
	return &http.Response{
		Status: "200 OK", StatusCode: http.StatusOK, Proto: "HTTP/1.1", ProtoMajor: 1, ProtoMinor: 1,
		Header:  http.Header{"Content-Type": []string{runtime.JSONMime}},
		Body:    io.NopCloser(strings.NewReader("{}")),
		Request: r,
	}, nil
}

// addEntry draws the entry point and the operation's context. Any context goes with any entry point (a context of the other
// tracing family, or a span handed to the Runtime itself, is just a context).
func addEntry(r *rand.Rand, c *Case) {
	c.Entry = []string{"submit", "opentracing", "opentracing", "opentelemetry", "opentelemetry"}[r.Intn(5)]
	c.OpCtx = opCtxKinds[r.Intn(len(opCtxKinds))]
	if c.Entry != "submit" && r.Intn(2) == 0 {
		// mostly the family's own kind of span
		c.OpCtx = map[string][]string{"opentracing": {"plain", "noop", "mock"}, "opentelemetry": {"plain", "otel", "otel"}}[c.Entry][r.Intn(3)]
	}
}
