package c14

import (
	"context"
	"encoding/json"
	"fmt"
	"math/rand"
	"net"
	"net/http"
	"net/http/httptest"
	"strings"
	"time"

	"github.com/go-openapi/runtime"
	"github.com/go-openapi/runtime/security"

	"verif/mon"
)

// ---------------------------------------------------------------------------------------------
// the loopback listener never takes the worker down

var (
	srvListenErr error
	inReplay     bool
)

// listenLoopback gets a loopback listener without ever panicking. A few retries, then the error.
func listenLoopback() (net.Listener, error) {
	var err error
	for i := 0; i < 4; i++ {
		var l net.Listener
		if l, err = net.Listen("tcp", "127.0.0.1:0"); err == nil {
			return l, nil
		}
		if l, err = net.Listen("tcp6", "[::1]:0"); err == nil {
			return l, nil
		}
		time.Sleep(time.Duration(20*(i+1)) * time.Millisecond)
	}
	return nil, err
}

// noListener accounts for a loopback case that could not be run. In a sweep the case is skipped and counted; a replay of
// one recorded loopback case has nothing else to report, so it ends the way the driver recognises as a machine condition
// (INCONCLUSIVE), never as "held" and never as a violation.
func noListener(m *mon.M) {
	m.Class("tcp/no-loopback-listener(environment, case skipped)")
	m.Note("tcp_cases_skipped_no_listener", 1)
	if inReplay {
		panic(fmt.Sprintf("httptest: failed to listen on a port: %v (harness environment: the recorded loopback case was not run)", srvListenErr))
	}
}

// ---------------------------------------------------------------------------------------------
// other valid spellings of a form's Content-Type

// ctSpellings: per form kind, the spellings by name. %s = the boundary parameter value as the client wrote it.
// All of them name the SAME media type (RFC 7231 3.1.1.1: type, subtype and parameter names are case-insensitive; any
// number of parameters, in any order; optional blanks around ';'; a parameter value may be a quoted string) and
// net/http parses the form of each. They are what browsers (fetch + URLSearchParams: ";charset=UTF-8"), proxies that
// normalise headers, and other clients send.
var ctSpellings = map[string][][2]string{
	"urlencoded": {
		{"charset", "application/x-www-form-urlencoded; charset=utf-8"},
		{"charset-tight", "application/x-www-form-urlencoded;charset=UTF-8"},
		{"capitals", "Application/X-WWW-Form-URLEncoded"},
		{"upper", "APPLICATION/X-WWW-FORM-URLENCODED"},
		{"blank-before-semicolon", "application/x-www-form-urlencoded ; charset=utf-8"},
	},
	"multipart": {
		{"capitals", "Multipart/Form-Data; boundary=%s"},
		{"upper", "MULTIPART/FORM-DATA; boundary=%s"},
		{"blank-before-semicolon", "multipart/form-data ; boundary=%s"},
		{"tight", "multipart/form-data;boundary=%s"},
		{"parameter-before-boundary", "multipart/form-data; charset=utf-8; boundary=%s"},
		{"quoted-boundary", "multipart/form-data; boundary=\"%s\""},
		{"upper-parameter-name", "multipart/form-data; Boundary=%s"},
	},
}

// respell gives the Content-Type of the case's form in the case's spelling; current is the header as the client wrote it
// (the boundary is read from it). An unknown spelling or a header without boundary is left alone.
func respell(c *Case, current string) string {
	for _, sp := range ctSpellings[c.FormKind] {
		if sp[0] != c.CTSpell {
			continue
		}
		if !strings.Contains(sp[1], "%s") {
			return sp[1]
		}
		const key = "boundary="
		i := strings.Index(current, key)
		if i < 0 {
			return current
		}
		return fmt.Sprintf(sp[1], strings.Trim(current[i+len(key):], `"`))
	}
	return current
}

// respellRequest is what a header-rewriting RoundTripper does: a shallow copy of the request with its own header map.
func respellRequest(c *Case, r *http.Request) *http.Request {
	ct := r.Header.Get("Content-Type")
	if ct == "" {
		return r
	}
	r2 := new(http.Request)
	*r2 = *r
	r2.Header = r.Header.Clone()
	r2.Header.Set("Content-Type", respell(c, ct))
	return r2
}

type respeller struct {
	c    *Case
	next http.RoundTripper
}

func (t respeller) RoundTrip(r *http.Request) (*http.Response, error) {
	return t.next.RoundTrip(respellRequest(t.c, r))
}

func addCTSpelling(r *rand.Rand, c *Case) {
	l := ctSpellings[c.FormKind]
	if len(l) == 0 {
		return
	}
	c.CTSpell = l[r.Intn(len(l))][0]
	c.CTVia = "transport"
	if c.FormKind == "urlencoded" && r.Intn(2) == 0 {
		c.CTVia = "consumes" // multipart: the client recognises only the constant's spelling as multipart (C11's matter)
	}
}

// ---------------------------------------------------------------------------------------------
// writers that fail, writers that do not exist

// failingVerdict handles the cases with a writer that returns an error. The statement says nothing about a request whose
// effective writers fail (C12 owns "a pre-send fault is an error"), so whether it is built is classed, not judged. But a failing
// writer of a list that is owed to stay IDLE (the default while the operation has a writer of its own, or while the parameter
// writer has set Authorization) proves by its error that the list was run: that is the default-credential clause.
func failingVerdict(m *mon.M, c *Case, e *expectation, err error) (done bool) {
	hasFailing := func(l []Cred) bool {
		for _, w := range l {
			if w.Kind == "failing" {
				return true
			}
		}
		return false
	}
	if err != nil && !e.defaultEffective && hasFailing(c.Default) && strings.Contains(err.Error(), errDefaultWriter.Error()) {
		m.Violate("default-auth-"+whyDefaultIdle(c)+"/failing-default-writer-invoked",
			fmt.Sprintf("[%s] the transport-wide default writer was invoked (its error came back: %v) although %s", channel(c), err, whyDefaultIdle(c)), rep(c))
		return true
	}
	if !e.failingEffective {
		return false
	}
	where := "alone"
	if (opHasOwn(c) && (len(c.OpAuth) > 1 || c.OpCompose)) || (!opHasOwn(c) && (len(c.Default) > 1 || c.DefaultCompose)) {
		where = "compose-member"
	}
	if err != nil {
		m.Class("failing-auth-writer/" + where + "/request-refused(not judged)")
	} else {
		m.Class("failing-auth-writer/" + where + "/request-built-anyway(not judged)")
	}
	return true
}

// classOddIn reports, for triage, what became of API-key writers whose location the client spelled oddly.
func classOddIn(m *mon.M, c *Case, e *expectation) {
	for _, sp := range e.dropped {
		m.Class(fmt.Sprintf("client-apikey-in/%q/no-writer-returned: credential silently not sent(not judged)", sp))
	}
	for _, l := range []struct {
		list    []Cred
		compose bool
		field   string
	}{{c.OpAuth, c.OpCompose, "operation-auth"}, {c.Default, c.DefaultCompose, "default-auth"}} {
		if !listNil(l.list, l.compose) {
			continue
		}
		switch {
		case l.field == "operation-auth" && e.defaultEffective:
			m.Class("client-apikey-in/nil-operation-writer/transport-default-took-over(not judged)")
		case l.field == "operation-auth":
			m.Class("client-apikey-in/nil-operation-writer/request-sent-without-credential(not judged)")
		default:
			m.Class("client-apikey-in/nil-default-writer(not judged)")
		}
	}
	for range e.skipNames {
		m.Class("client-apikey-in/writer-for-a-spelling-that-denotes-no-location(not judged)")
	}
}

// ---------------------------------------------------------------------------------------------
// authenticators handed something that is no request; server-side constructors with a bad location

// Extra is a small enumerated sub-workload.
//
// "foreign-params": an authenticator of package security is handed a value that is neither *http.Request nor
// *ScopedAuthRequest (the runtime.Authenticator interface takes interface{}). No request, hence no credential: the callback has
// nothing to be handed ("precisely the transmitted ..."), and no principal may come back ("never a principal other than the
// callback's"): judged for nil, a string and an int. Whether such a call is "not applicable" or an error is not said: classed.
// A request wrapped by VALUE (http.Request, ScopedAuthRequest) does hold a request: no panic is all that is asked. Nil pointers
// are outside the statement.
//
// "server-apikey-in": security.APIKeyAuth / APIKeyAuthCtx built with a location that is neither header nor query in any letter
// case: documented to panic at construction. Driven and classed, not judged.
type Extra struct {
	Kind  string `json:"kind"`
	Auth  string `json:"auth,omitempty"`  // basic | basic-realm | basic-ctx | basic-realm-ctx | apikey-header | apikey-query | apikey-header-ctx | apikey-query-ctx | bearer | bearer-ctx
	Param string `json:"param,omitempty"` // nil | string | int | request-value | scoped-value | bare-request-to-bearer
	In    string `json:"in,omitempty"`
	Ctx   bool   `json:"ctx,omitempty"`
}

var (
	extraAuths  = []string{"basic", "basic-realm", "basic-ctx", "basic-realm-ctx", "apikey-header", "apikey-query", "apikey-header-ctx", "apikey-query-ctx", "bearer", "bearer-ctx"}
	extraParams = []string{"nil", "string", "int", "request-value", "scoped-value", "bare-request-to-bearer"}
	badIns      = []string{"cookie", "", "path", "headers", " header", "query ", "formData", "body"}
)

func runExtras(m *mon.M) {
	for _, a := range extraAuths {
		for _, p := range extraParams {
			x := &Extra{Kind: "foreign-params", Auth: a, Param: p}
			m.Begin(x)
			runExtra(m, x)
		}
	}
	for _, in := range badIns {
		for _, ctx := range []bool{false, true} {
			x := &Extra{Kind: "server-apikey-in", In: in, Ctx: ctx}
			m.Begin(x)
			runExtra(m, x)
		}
	}
}

func runExtra(m *mon.M, x *Extra) {
	m.Eval(1)
	switch x.Kind {
	case "server-apikey-in":
		pv, _ := mon.Catch(func() {
			if x.Ctx {
				_ = security.APIKeyAuthCtx("X-Key", x.In, func(ctx context.Context, _ string) (context.Context, interface{}, error) { return ctx, nil, nil })
			} else {
				_ = security.APIKeyAuth("X-Key", x.In, func(string) (interface{}, error) { return nil, nil })
			}
		})
		if pv != nil {
			m.Class("server-apikey-in/bad-location/constructor-panics-as-documented(not judged)")
		} else {
			m.Class("server-apikey-in/bad-location/constructor-returned(not judged)")
		}
		return
	case "foreign-params":
	default:
		m.Violate("bad-replay-case", "unknown kind "+x.Kind, nil)
		return
	}

	calls := 0
	cbPrincipal := &principal{id: 7}
	var auth runtime.Authenticator
	up := func(string, string) (interface{}, error) { calls++; return cbPrincipal, nil }
	upCtx := func(ctx context.Context, _, _ string) (context.Context, interface{}, error) {
		calls++
		return ctx, cbPrincipal, nil
	}
	tok := func(string) (interface{}, error) { calls++; return cbPrincipal, nil }
	tokCtx := func(ctx context.Context, _ string) (context.Context, interface{}, error) {
		calls++
		return ctx, cbPrincipal, nil
	}
	switch x.Auth {
	case "basic":
		auth = security.BasicAuth(up)
	case "basic-realm":
		auth = security.BasicAuthRealm("API", up)
	case "basic-ctx":
		auth = security.BasicAuthCtx(upCtx)
	case "basic-realm-ctx":
		auth = security.BasicAuthRealmCtx("API", upCtx)
	case "apikey-header":
		auth = security.APIKeyAuth("X-Key", "header", tok)
	case "apikey-query":
		auth = security.APIKeyAuth("key", "query", tok)
	case "apikey-header-ctx":
		auth = security.APIKeyAuthCtx("X-Key", "header", tokCtx)
	case "apikey-query-ctx":
		auth = security.APIKeyAuthCtx("key", "query", tokCtx)
	case "bearer":
		auth = security.BearerAuth("oauth2", func(string, []string) (interface{}, error) { calls++; return cbPrincipal, nil })
	case "bearer-ctx":
		auth = security.BearerAuthCtx("oauth2", func(ctx context.Context, _ string, _ []string) (context.Context, interface{}, error) {
			calls++
			return ctx, cbPrincipal, nil
		})
	default:
		m.Violate("bad-replay-case", "unknown authenticator "+x.Auth, nil)
		return
	}
	// a request full of credentials, for the params that wrap one by value
	full := httptest.NewRequest(http.MethodPost, "/p?access_token=q-tok&key=q-key", strings.NewReader("access_token=f-tok"))
	full.Header.Set("Content-Type", "application/x-www-form-urlencoded")
	full.Header.Set("X-Key", "h-key")
	full.SetBasicAuth("user", "pass")
	var param interface{}
	judged := true
	switch x.Param {
	case "nil":
		param = nil
	case "string":
		param = "Authorization: Bearer abc"
	case "int":
		param = 42
	case "request-value":
		// by value: a request IS in there, so a library that chose to unwrap it would rightly consult the callback: no panic only
		param = *full //nolint:govet
		judged = false
	case "scoped-value":
		param = security.ScopedAuthRequest{Request: full, RequiredScopes: []string{"read"}}
		judged = false
	case "bare-request-to-bearer":
		// a scoped authenticator handed a bare *http.Request: listed under Assumptions as not judged; for the others this is the ordinary call
		if !strings.HasPrefix(x.Auth, "bearer") {
			return
		}
		full.Header.Set("Authorization", "Bearer h-tok")
		param = full
		judged = false
	default:
		m.Violate("bad-replay-case", "unknown param "+x.Param, nil)
		return
	}
	var applies bool
	var pr interface{}
	var err error
	pv, st := mon.Catch(func() { applies, pr, err = auth.Authenticate(param) })
	feat := x.Auth + "/" + x.Param
	if pv != nil {
		m.Violate("foreign-params/authenticator-panic/"+feat, fmt.Sprintf("Authenticate(%s) panicked: %v\n%s", x.Param, pv, st), x)
		return
	}
	if !judged {
		m.Class(fmt.Sprintf("foreign-params/%s/applies=%v(not judged)", x.Param, applies))
		return
	}
	m.NT("foreign-params|" + feat)
	m.Class(fmt.Sprintf("foreign-params/%s/applies=%v,err=%v(verdict not judged)", x.Param, applies, err != nil))
	if calls > 0 {
		m.Violate("foreign-params/callback-consulted-without-request/"+feat, fmt.Sprintf("Authenticate(%s): the callback was called %d times although no request (hence no credential) was handed over", x.Param, calls), x)
	}
	if pr != nil {
		m.Violate("foreign-params/principal-invented/"+feat, fmt.Sprintf("Authenticate(%s) returned principal %v although the callback was never consulted for a request", x.Param, pr), x)
	}
}

func replayExtra(m *mon.M, raw json.RawMessage) bool {
	var x Extra
	if err := json.Unmarshal(raw, &x); err != nil || (x.Kind != "foreign-params" && x.Kind != "server-apikey-in") {
		return false
	}
	runExtra(m, &x)
	return true
}
