package c14

import (
	"encoding/base64"
	"fmt"
	"net/http"
	"strings"

	rt "github.com/go-openapi/runtime"
	"github.com/go-openapi/runtime/client"
	"github.com/go-openapi/strfmt"

	"verif/mon"
)

// Reassign is a sub-workload for the default-credential clause: the transport-wide default that is
// applied is the one the transport carries when the call is made — a sequence of calls on one Runtime
// between which DefaultAuthentication is reassigned (token refresh, switch of scheme) or cleared.
type Reassign struct {
	Kind  string   `json:"kind"`  // always "default-auth-reassigned"
	Steps []string `json:"steps"` // per call: "bearer:<tok>" | "basic:<user>:<pass>" | "key:<value>" | "none"
}

func writerFor(step string) rt.ClientAuthInfoWriter {
	switch {
	case strings.HasPrefix(step, "bearer:"):
		return client.BearerToken(strings.TrimPrefix(step, "bearer:"))
	case strings.HasPrefix(step, "basic:"):
		p := strings.SplitN(strings.TrimPrefix(step, "basic:"), ":", 2)
		return client.BasicAuth(p[0], p[1])
	case strings.HasPrefix(step, "key:"):
		return client.APIKeyAuth("X-Api-Key", "header", strings.TrimPrefix(step, "key:"))
	}
	return nil
}

func wantHeaders(step string) (authz, key string) {
	switch {
	case strings.HasPrefix(step, "bearer:"):
		return "Bearer " + strings.TrimPrefix(step, "bearer:"), ""
	case strings.HasPrefix(step, "basic:"):
		return "Basic " + base64.StdEncoding.EncodeToString([]byte(strings.TrimPrefix(step, "basic:"))), ""
	case strings.HasPrefix(step, "key:"):
		return "", strings.TrimPrefix(step, "key:")
	}
	return "", ""
}

func runReassign(m *mon.M, c *Reassign) {
	r := client.New("api.example.test", "/", []string{"http"})
	params := rt.ClientRequestWriterFunc(func(rt.ClientRequest, strfmt.Registry) error { return nil })
	for i, step := range c.Steps {
		m.Eval(1)
		r.DefaultAuthentication = writerFor(step)
		op := &rt.ClientOperation{ID: "x", Method: "GET", PathPattern: "/p", ProducesMediaTypes: []string{"application/json"}, Params: params,
			Reader: rt.ClientResponseReaderFunc(func(rt.ClientResponse, rt.Consumer) (interface{}, error) { return nil, nil })}
		var req *http.Request
		var err error
		pv, st := mon.Catch(func() { req, err = r.CreateHttpRequest(op) })
		if pv != nil {
			m.Violate("default-auth-reassigned/panic", fmt.Sprintf("%v\n%s", pv, st), c)
			return
		}
		if err != nil {
			m.Violate("default-auth-reassigned/build-failed", err.Error(), c)
			return
		}
		wa, wk := wantHeaders(step)
		if ga, gk := req.Header.Get("Authorization"), req.Header.Get("X-Api-Key"); ga != wa || gk != wk {
			m.Violate("default-auth-reassigned/stale-or-missing-default-credential",
				fmt.Sprintf("call #%d on one Runtime with DefaultAuthentication=%q carries Authorization=%q X-Api-Key=%q, expected %q / %q (earlier defaults: %q)", i+1, step, ga, gk, wa, wk, c.Steps[:i]), c)
			return
		}
	}
	m.NT("default-auth-reassigned|" + strings.Join(kinds(c.Steps), ">"))
	m.Class("default-auth-reassigned-ok")
}

func kinds(steps []string) []string {
	var out []string
	for _, s := range steps {
		out = append(out, strings.SplitN(s, ":", 2)[0])
	}
	return out
}
