package c14

import (
	"context"
	"encoding/json"
	"errors"
	"fmt"
	"math/rand"
	"net/http"
	"net/http/httptest"
	"net/url"
	"sort"
	"strings"

	"github.com/go-openapi/loads"

	"github.com/go-openapi/runtime"
	"github.com/go-openapi/runtime/client"
	"github.com/go-openapi/runtime/middleware"
	"github.com/go-openapi/runtime/middleware/untyped"
	"github.com/go-openapi/runtime/security"

	"verif/mon"
)

// ---------------------------------------------------------------------------------------------
// settings of the client transport that are no credentials

// clientOpts: "debug" = Runtime.Debug set on the field, "set-debug" = Runtime.SetDebug(true) (both with a silent logger: the
// transport dumps the request it is about to send and the response), "connection-reuse" = Runtime.EnableConnectionReuse(),
// "operation-client" = the operation brings an http.Client of its own. None of them is a credential, a placement or a rule of
// the statement: what the client's writers attached is owed to arrive under every one of them ("configurations").
var clientOpts = []string{"debug", "set-debug", "connection-reuse", "operation-client"}

type quietLogger struct{}

func (quietLogger) Printf(string, ...interface{}) {}
func (quietLogger) Debugf(string, ...interface{}) {}

func hasOpt(c *Case, name string) bool {
	for _, o := range c.ClientOpts {
		if o == name {
			return true
		}
	}
	return false
}

func applyClientOpts(c *Case, rt *client.Runtime, op *runtime.ClientOperation) {
	if hasOpt(c, "debug") || hasOpt(c, "set-debug") {
		rt.SetLogger(quietLogger{}) // also the logger of package middleware, process-wide: nothing of a case is printed
	}
	if hasOpt(c, "debug") {
		rt.Debug = true
	}
	if hasOpt(c, "set-debug") {
		rt.SetDebug(true) // process-wide for package middleware: withdrawn by resetClientOpts once the case was run
	}
	if hasOpt(c, "connection-reuse") {
		rt.EnableConnectionReuse()
	}
	if hasOpt(c, "operation-client") {
		op.Client = &http.Client{Transport: rt.Transport} // the transport of the case (a header re-speller, or nil = the default one)
	}
}

// resetClientOpts withdraws what a case's options changed outside its own Runtime.
func resetClientOpts(c *Case) {
	if hasOpt(c, "set-debug") {
		middleware.Debug = false
	}
}

// optFeature is the input class of a case whose transport dumps what it sends ("" otherwise): the dump works on the very
// request that carries the credentials, which sets these cases apart from all others.
func optFeature(c *Case) string {
	if hasOpt(c, "debug") || hasOpt(c, "set-debug") {
		return "/client-debug-output-on"
	}
	return ""
}

func addClientOpts(r *rand.Rand, c *Case) {
	if r.Intn(10) >= 4 {
		return
	}
	c.ClientOpts = append(c.ClientOpts, clientOpts[r.Intn(len(clientOpts))])
	if r.Intn(3) == 0 {
		if o := clientOpts[r.Intn(len(clientOpts))]; !hasOpt(c, o) {
			c.ClientOpts = append(c.ClientOpts, o)
		}
	}
}

// ---------------------------------------------------------------------------------------------
// the real server pipeline over a generated description

// Pipe describes the server side of a pipeline case: the security definitions of an API description and the security
// requirement (alternatives of schemes that are required together, each with its own scopes) of its one operation
// <method> /v1/things/{id}. The application registers one security.* authenticator per definition, an authorizer and the
// operation with an untyped API; the received request is served by the middleware built over the description.
type Pipe struct {
	Schemes []PipeScheme `json:"schemes"`
	Alts    [][]PipeReq  `json:"alternatives"`
	// Global: the requirement is the description's top-level "security"; the operation has no "security" of its own
	Global bool `json:"global,omitempty"`
	// Via: "" = middleware.Serve | "apihandler" = NewContext(...).APIHandler(nil) | "builder" = ServeWithBuilder(PassthroughBuilder) |
	// "routes" = NewContext(...).RoutesHandler(nil)
	Via string `json:"via,omitempty"`
}

// PipeScheme is one security definition.
type PipeScheme struct {
	Name string `json:"name"`
	Type string `json:"type"`          // basic | apiKey | oauth2
	In   string `json:"in,omitempty"`  // apiKey: header | query
	Key  string `json:"key,omitempty"` // apiKey: the key name as the client spells it
}

// PipeReq is one scheme of one alternative with the scopes the operation requires of it.
type PipeReq struct {
	Scheme string   `json:"scheme"`
	Scopes []string `json:"scopes"`
}

func (p *Pipe) via() string {
	if p.Via == "" {
		return "serve"
	}
	return p.Via
}

func (p *Pipe) scheme(name string) *PipeScheme {
	for i := range p.Schemes {
		if p.Schemes[i].Name == name {
			return &p.Schemes[i]
		}
	}
	return nil
}

// pipeCall is one consultation of an application callback by the pipeline.
type pipeCall struct {
	scheme string
	a, b   string
	scopes []string // the callback's own copy of what it was handed
	princ  interface{}
	err    error
}

// pipeObs is what the application saw of one request.
type pipeObs struct {
	harness    string // the description could not be served for a reason of the harness ("" = none)
	panicked   string
	calls      []pipeCall
	authorized []interface{} // principals handed to the authorizer
	ran        int           // times the operation ran
	status     int
}

const (
	pipeURLAuth = "http://auth.example.test/authorize"
	pipePath    = "/things/{id}"
)

// description renders the API description of the case.
func (p *Pipe) description(method string) ([]byte, error) {
	defs := map[string]interface{}{}
	declared := map[string]map[string]interface{}{}
	for _, s := range p.Schemes {
		switch s.Type {
		case "basic":
			defs[s.Name] = map[string]interface{}{"type": "basic"}
		case "apiKey":
			defs[s.Name] = map[string]interface{}{"type": "apiKey", "in": s.In, "name": s.Key}
		case "oauth2":
			sc := map[string]interface{}{}
			declared[s.Name] = sc
			defs[s.Name] = map[string]interface{}{"type": "oauth2", "flow": "implicit", "authorizationUrl": pipeURLAuth, "scopes": sc}
		default:
			return nil, fmt.Errorf("pipeline scheme %q has the unknown type %q", s.Name, s.Type)
		}
	}
	var requirement []interface{}
	for _, alt := range p.Alts {
		one := map[string]interface{}{}
		for _, rq := range alt {
			s := p.scheme(rq.Scheme)
			if s == nil {
				return nil, fmt.Errorf("pipeline requirement names the undefined scheme %q", rq.Scheme)
			}
			if _, twice := one[rq.Scheme]; twice {
				return nil, fmt.Errorf("pipeline alternative names the scheme %q twice", rq.Scheme)
			}
			one[rq.Scheme] = append([]string{}, rq.Scopes...)
			for _, scope := range rq.Scopes {
				if d := declared[rq.Scheme]; d != nil {
					d[scope] = "granted"
				}
			}
		}
		requirement = append(requirement, one)
	}
	op := map[string]interface{}{
		"operationId": "op",
		"consumes":    []string{runtime.JSONMime, runtime.URLencodedFormMime, runtime.MultipartFormMime},
		"parameters":  []interface{}{map[string]interface{}{"name": "id", "in": "path", "type": "string", "required": true}},
		"responses":   map[string]interface{}{"200": map[string]interface{}{"description": "ok", "schema": map[string]interface{}{"type": "string"}}},
	}
	doc := map[string]interface{}{
		"swagger":             "2.0",
		"info":                map[string]interface{}{"title": "c14", "version": "1"},
		"basePath":            "/v1",
		"consumes":            []string{runtime.JSONMime},
		"produces":            []string{runtime.JSONMime},
		"securityDefinitions": defs,
		"paths":               map[string]interface{}{pipePath: map[string]interface{}{strings.ToLower(method): op}},
	}
	if p.Global {
		doc["security"] = requirement
	} else {
		op["security"] = requirement
	}
	return json.Marshal(doc)
}

// serve builds the application and the middleware of the case. Every callback records into rec.
func (p *Pipe) serve(c *Case, rec *pipeObs) (http.Handler, error) {
	raw, err := p.description(c.Method)
	if err != nil {
		return nil, err
	}
	doc, err := loads.Analyzed(raw, "")
	if err != nil {
		return nil, err
	}
	api := untyped.NewAPI(doc)
	api.RegisterConsumer(runtime.URLencodedFormMime, runtime.DiscardConsumer)
	api.RegisterConsumer(runtime.MultipartFormMime, runtime.DiscardConsumer)
	for i := range p.Schemes {
		s := p.Schemes[i]
		mine := &principal{id: 100 + i} // every scheme answers with a principal of its own
		answer := func(k pipeCall) (interface{}, error) {
			switch c.Outcome {
			case "err":
				k.princ, k.err = nil, errors.New("refused by the application")
			case "both":
				k.princ, k.err = mine, errors.New("refused, with a principal")
			case "none":
				k.princ, k.err = nil, nil
			default:
				k.princ, k.err = mine, nil
			}
			k.scheme = s.Name
			rec.calls = append(rec.calls, k)
			return k.princ, k.err
		}
		marker := &principal{id: 99}
		var auth runtime.Authenticator
		switch s.Type {
		case "basic":
			plain := func(u, pw string) (interface{}, error) { return answer(pipeCall{a: u, b: pw}) }
			withCtx := func(ctx context.Context, u, pw string) (context.Context, interface{}, error) {
				pr, err := answer(pipeCall{a: u, b: pw})
				return context.WithValue(ctx, ctxKey{}, marker), pr, err
			}
			switch {
			case c.RealmMode == "ctor" && !c.Ctx:
				auth = security.BasicAuth(plain)
			case c.RealmMode == "ctor":
				auth = security.BasicAuthCtx(withCtx)
			case !c.Ctx:
				auth = security.BasicAuthRealm(c.Realm, plain)
			default:
				auth = security.BasicAuthRealmCtx(c.Realm, withCtx)
			}
		case "apiKey":
			pr := probe{kind: "apikey", in: s.In, name: s.Key}
			name, in := spellKey(c, pr), spellIn(c, s.In)
			if !c.Ctx {
				auth = security.APIKeyAuth(name, in, func(tok string) (interface{}, error) { return answer(pipeCall{a: tok}) })
			} else {
				auth = security.APIKeyAuthCtx(name, in, func(ctx context.Context, tok string) (context.Context, interface{}, error) {
					pr, err := answer(pipeCall{a: tok})
					return context.WithValue(ctx, ctxKey{}, marker), pr, err
				})
			}
		case "oauth2":
			if !c.Ctx {
				auth = security.BearerAuth(s.Name, func(tok string, sc []string) (interface{}, error) {
					return answer(pipeCall{a: tok, scopes: cloneScopes(sc)})
				})
			} else {
				auth = security.BearerAuthCtx(s.Name, func(ctx context.Context, tok string, sc []string) (context.Context, interface{}, error) {
					pr, err := answer(pipeCall{a: tok, scopes: cloneScopes(sc)})
					return context.WithValue(ctx, ctxKey{}, marker), pr, err
				})
			}
		}
		api.RegisterAuth(s.Name, auth)
	}
	api.RegisterAuthorizer(runtime.AuthorizerFunc(func(_ *http.Request, pr interface{}) error {
		rec.authorized = append(rec.authorized, pr)
		return nil
	}))
	api.RegisterOperation(c.Method, pipePath, runtime.OperationHandlerFunc(func(interface{}) (interface{}, error) {
		rec.ran++
		return "ok", nil
	}))
	if err := api.Validate(); err != nil {
		return nil, err
	}
	switch p.Via {
	case "":
		return middleware.Serve(doc, api), nil
	case "apihandler":
		return middleware.NewContext(doc, api, nil).APIHandler(nil), nil
	case "builder":
		return middleware.ServeWithBuilder(doc, api, middleware.PassthroughBuilder), nil
	case "routes":
		return middleware.NewContext(doc, api, nil).RoutesHandler(nil), nil
	}
	return nil, fmt.Errorf("pipeline entry point %q is unknown", p.Via)
}

// warmRequest is an earlier request of another caller, full of OTHER credentials of every kind and placement, for the
// same operation: the application and its authenticators are built once and serve many requests.
func warmRequest(c *Case) *http.Request {
	q := url.Values{"access_token": {"warm-query-token"}}
	for _, s := range c.Pipe.Schemes {
		if s.Type == "apiKey" && s.In == "query" {
			q.Set(s.Key, "warm-query-key")
		}
	}
	var body *strings.Reader
	form := c.Method == "POST" || c.Method == "PUT" || c.Method == "PATCH"
	if form {
		body = strings.NewReader("access_token=warm-form-token")
	} else {
		body = strings.NewReader("")
	}
	warm := httptest.NewRequest(c.Method, "/v1/things/7?"+q.Encode(), body)
	if form {
		warm.Header.Set("Content-Type", runtime.URLencodedFormMime)
	}
	warm.Header.Set("Authorization", "Bearer warm-header-token")
	for _, s := range c.Pipe.Schemes {
		if s.Type == "apiKey" && s.In == "header" {
			warm.Header.Set(s.Key, "warm-header-key")
		}
	}
	return warm
}

// pipeProbe hands the received request to the pipeline and reports what the application saw.
func pipeProbe(c *Case, fresh func() (*http.Request, error)) ([]observation, error) {
	req, err := fresh()
	if err != nil {
		return nil, err
	}
	rec := &pipeObs{}
	o := observation{p: probe{kind: "pipeline"}, round: 1, pipe: rec}
	var h http.Handler
	pv, st := mon.Catch(func() { h, err = c.Pipe.serve(c, rec) })
	switch {
	case pv != nil:
		rec.harness = fmt.Sprintf("building the application panicked: %v\n%s", pv, st)
	case err != nil:
		rec.harness = "the application could not be built: " + err.Error()
	}
	if rec.harness != "" {
		return []observation{o}, nil
	}
	if !c.NoWarm {
		_, _ = mon.Catch(func() { h.ServeHTTP(httptest.NewRecorder(), warmRequest(c)) })
		*rec = pipeObs{}
	}
	rw := httptest.NewRecorder()
	if pv, st := mon.Catch(func() { h.ServeHTTP(rw, req) }); pv != nil {
		rec.panicked = fmt.Sprintf("%v\n%s", pv, st)
	}
	rec.status = rw.Code
	return []observation{o}, nil
}

// ---------------------------------------------------------------------------------------------
// judgement

func scopeSet(l []string) string {
	seen := map[string]bool{}
	var out []string
	for _, s := range l {
		if !seen[s] {
			seen[s] = true
			out = append(out, s)
		}
	}
	sort.Strings(out)
	return fmt.Sprintf("%q", out)
}

// company names the input class of a scheme by the alternatives it appears in: alone, next to schemes of other kinds,
// or next to another scope-aware (oauth2) scheme.
func (p *Pipe) company(scheme string) string {
	out := "single-scheme-requirement"
	for _, alt := range p.Alts {
		in := false
		for _, rq := range alt {
			in = in || rq.Scheme == scheme
		}
		if !in {
			continue
		}
		for _, rq := range alt {
			if rq.Scheme == scheme {
				continue
			}
			if s := p.scheme(rq.Scheme); s != nil && s.Type == "oauth2" {
				return "and-of-scoped-schemes"
			}
			out = "and-with-unscoped-schemes"
		}
	}
	return out
}

// shape names the input class of the whole requirement.
func (p *Pipe) shape() string {
	and := false
	for _, alt := range p.Alts {
		and = and || len(alt) > 1
	}
	switch {
	case len(p.Alts) > 1 && and:
		return "alternatives-of-ands"
	case len(p.Alts) > 1:
		return "alternatives"
	case and:
		return "and"
	}
	return "single-scheme"
}

// owedTo tells what the statement owes the callback of a definition: the credential of its kind that travels (if any).
func owedTo(e *expectation, s *PipeScheme) (owed bool, wa, wb, src string, skip bool) {
	switch s.Type {
	case "basic":
		return e.basic, e.user, e.pass, e.basicSrc, false
	case "oauth2":
		return e.bearer, e.token, "", e.bearerSrc, false
	}
	if e.skipNames[strings.ToLower(s.Key)] {
		return false, "", "", "", true
	}
	var k keyExp
	var ok bool
	if s.In == "header" {
		k, ok = e.hdrKeys[strings.ToLower(s.Key)]
	} else {
		k, ok = e.qryKeys[s.Key]
	}
	return ok, k.token, "", k.src, false
}

func judgePipe(m *mon.M, c *Case, e *expectation, o *observation) {
	rec, p := o.pipe, c.Pipe
	ch := channel(c)
	opt := optFeature(c) + entryFeature(c)
	if rec.harness != "" {
		// the harness's own description or application was refused: nothing was observed about the credentials
		m.Class("pipeline/not-served(harness): " + clipTo(rec.harness, 80))
		m.Note("pipeline_cases_not_served", 1)
		return
	}
	m.Class("pipeline/entry/" + p.via())
	m.Class("pipeline/requirement/" + p.shape())
	m.Class(fmt.Sprintf("pipeline/status-%d", rec.status))
	m.Class(fmt.Sprintf("pipeline/callbacks-consulted/%d", len(rec.calls)))
	if rec.panicked != "" {
		m.Violate("pipeline/panic/"+p.shape(), fmt.Sprintf("[%s] serving the request panicked: %s", ch, rec.panicked), rep(c))
		return
	}
	if rec.status == http.StatusNotFound || rec.status == http.StatusMethodNotAllowed {
		// the request is the operation's own: routing is C01's; no authenticator was reached
		m.Note("pipeline_cases_not_routed", 1)
	}

	// every consultation of a callback: the credential of its kind, and the scopes required of ITS scheme
	for i := range rec.calls {
		k := &rec.calls[i]
		s := p.scheme(k.scheme)
		pr := probe{kind: map[string]string{"basic": "basic", "oauth2": "bearer", "apiKey": "apikey"}[s.Type], in: s.In, name: s.Key}
		lab := "pipeline/" + pr.label()
		owed, wa, wb, src, skip := owedTo(e, s)
		if skip {
			m.Class("verdict/" + lab + "/writer-for-a-spelling-that-denotes-no-location(not judged)")
			continue
		}
		feat := tokenFeature(wa + wb)
		if s.Type == "basic" && strings.Contains(wb, ":") && feat != "non-ascii" && feat != "control" {
			feat = "colon-in-password"
		}
		if sc := sizeClass(len(wa) + len(wb)); sc != "" {
			feat += "+" + sc
		}
		describe := fmt.Sprintf("[%s] pipeline (%s, requirement %s): the callback of scheme %q (%s) was consulted with (%s,%s) scopes %q; owed=%v (%s)",
			ch, p.via(), p.shape(), k.scheme, pr.label(), qclip(k.a), qclip(k.b), k.scopes, owed, src)
		if !owed {
			why := "no-such-credential"
			if leakedDefault(c, pr, k.a, k.b) && !e.defaultEffective {
				why = "default-auth-" + whyDefaultIdle(c)
			} else if pr.kind == "bearer" && c.FormKind != "" {
				why = "form-token-with-" + strings.ToLower(c.Method)
			}
			m.Violate(lab+"/applied-without-credential/"+why+opt, describe, rep(c))
			continue
		}
		m.Class("verdict/" + lab + "/consulted/" + src)
		if k.a != wa || k.b != wb {
			sig := lab + "/credential-differs/" + feat
			switch {
			case leakedDefault(c, pr, k.a, k.b) && !e.defaultEffective:
				sig = lab + "/default-auth-" + whyDefaultIdle(c)
			case pr.kind == "apikey" && pr.in == "query" && staticSourceOf(c, pr.name, k.a) != "":
				sig = lab + "/static-query-parameter-beats-key/" + staticSourceOf(c, pr.name, k.a)
			case pr.kind == "bearer":
				if bs := bearerSourceOf(c, k.a); bs != "" && !strings.HasPrefix(src, bs) {
					sig = "pipeline/bearer/precedence/" + bs + "-beats-" + strings.SplitN(src, ":", 2)[0]
				}
			}
			m.Violate(sig+opt, describe+fmt.Sprintf(", expected (%s,%s)%s", qclip(wa), qclip(wb), diffAt(k.a+"\x00"+k.b, wa+"\x00"+wb)), rep(c))
		}
		if s.Type == "oauth2" {
			// "together with the operation's required scopes": those the requirement asks of THIS scheme, in one of the
			// alternatives that name it (which alternative is being evaluated is C02's matter); compared as sets
			got := scopeSet(k.scopes)
			var wants []string
			match := false
			for _, alt := range p.Alts {
				for _, rq := range alt {
					if rq.Scheme != k.scheme {
						continue
					}
					w := scopeSet(rq.Scopes)
					wants = append(wants, w)
					match = match || w == got
				}
			}
			if !match {
				m.Violate("pipeline/bearer/scopes-differ/"+p.company(k.scheme),
					describe+fmt.Sprintf("; the operation requires of this scheme %s (one list per alternative naming it)", strings.Join(wants, " or ")), rep(c))
			}
		}
	}

	judgeAlternativeScopes(m, c, o)

	// "never a principal other than the callback's": what the authorizer is shown was returned by a callback of this request
	for _, got := range rec.authorized {
		found := false
		for _, k := range rec.calls {
			found = found || (k.princ != nil && k.princ == got)
		}
		switch {
		case found:
		case got == nil:
			m.Class("pipeline/authorizer-shown-no-principal(not judged)")
		case len(rec.calls) == 0:
			m.Violate("pipeline/principal-invented/"+p.shape(), fmt.Sprintf("[%s] the authorizer was shown the principal %v although no callback was consulted for the request", ch, got), rep(c))
		default:
			m.Violate("pipeline/principal-substituted/outcome-"+c.Outcome, fmt.Sprintf("[%s] the authorizer was shown the principal %v, which none of the %d callbacks consulted for the request returned", ch, got, len(rec.calls)), rep(c))
		}
	}

	// "not applicable exactly when the request carries no such credential": when a credential for EVERY scheme the
	// requirement names travels, whichever scheme the pipeline turns to first applies, and its callback is consulted
	all := len(p.Alts) > 0 && rec.status != http.StatusNotFound && rec.status != http.StatusMethodNotAllowed
	for _, alt := range p.Alts {
		for _, rq := range alt {
			owed, _, _, _, skip := owedTo(e, p.scheme(rq.Scheme))
			all = all && owed && !skip
		}
	}
	if all {
		m.Class("pipeline/every-scheme-has-its-credential")
		if len(rec.calls) == 0 {
			m.Violate("pipeline/no-callback-consulted-although-every-credential-sent/"+p.shape()+opt,
				fmt.Sprintf("[%s] the request carries a credential for every scheme of the requirement %s, yet no callback was consulted (status %d)", ch, p.shape(), rec.status), rep(c))
		}
	}
	if len(rec.calls) > 0 {
		m.Note("pipeline_cases_with_callbacks", 1)
	}
}

// judgeAlternativeScopes: "together with the operation's required scopes", for a requirement whose alternatives name the same
// scope-aware scheme more than once. A consultation of the scheme's callback belongs to the evaluation of ONE alternative
// and is owed the scopes THAT alternative asks of the scheme. Which alternatives are evaluated, and in which order, is not
// judged (C02); but no alternative asks for a credential check more than once, so the scope lists the callback was handed
// during one request, taken with their multiplicities, must be found among the lists the requirement gives the scheme, each
// of those used at most once: when the callback was consulted as often as alternatives name the scheme, every list shows up.
// (More consultations than alternatives naming the scheme: classed, not judged here.) Lists are compared as sets.
func judgeAlternativeScopes(m *mon.M, c *Case, o *observation) {
	rec, p := o.pipe, c.Pipe
	for _, s := range p.Schemes {
		if s.Type != "oauth2" {
			continue
		}
		given := map[string]int{} // scope set -> alternatives that ask it of this scheme
		var wants []string
		naming := 0
		for _, alt := range p.Alts {
			for _, rq := range alt {
				if rq.Scheme == s.Name {
					naming++
					given[scopeSet(rq.Scopes)]++
					wants = append(wants, scopeSet(rq.Scopes))
				}
			}
		}
		if naming < 2 {
			continue
		}
		distinct := "same-scopes"
		if len(given) > 1 {
			distinct = "different-scopes"
		}
		handed := map[string]int{}
		var gots []string
		n := 0
		for _, k := range rec.calls {
			if k.scheme == s.Name {
				n++
				handed[scopeSet(k.scopes)]++
				gots = append(gots, scopeSet(k.scopes))
			}
		}
		if n == 0 {
			continue
		}
		m.Class(fmt.Sprintf("pipeline/scheme-named-by-several-alternatives/%s/consulted-%d-of-%d", distinct, n, naming))
		if n > naming {
			m.Class("pipeline/scheme-consulted-more-often-than-alternatives-name-it(not judged)")
			continue
		}
		over := ""
		for _, g := range gots { // in the order of consultation: no verdict depends on map order
			if handed[g] > given[g] && given[g] > 0 && over == "" {
				over = g
			}
		}
		if over == "" {
			continue // lists no alternative asks for at all are reported per consultation (scopes-differ)
		}
		all := "some-alternatives-consulted"
		if n == naming {
			all = "every-alternative-consulted"
		}
		m.Violate("pipeline/bearer/scopes-of-another-alternative/"+all+"/"+p.company(s.Name),
			fmt.Sprintf("[%s] pipeline (%s, requirement %s): %d alternatives name the scheme %q and ask of it the scopes %s; during one request its callback was consulted %d times and handed %s: "+
				"the list %s was handed %d times but only %d alternative(s) ask for it, so a consultation came with the scopes of another alternative than the one being evaluated",
				channel(c), p.via(), p.shape(), naming, s.Name, strings.Join(wants, ", "), n, strings.Join(gots, ", "), over, handed[over], given[over]), rep(c))
	}
}

// sameSchemeAlternatives makes the requirement one whose alternatives (two or three) all name ONE scope-aware scheme, each
// with a scope list of its own (pairwise different as sets), alone or next to what the alternative drew anyway: "admin, or
// else read" of one OAuth2 provider. So that the alternatives are gone through, the callbacks mostly refuse, and a case
// without any bearer credential gets a token in the query.
func sameSchemeAlternatives(r *rand.Rand, c *Case, p *Pipe, scheme string) {
	for len(p.Alts) < 2 {
		p.Alts = append(p.Alts, nil)
	}
	seen := map[string]bool{}
	for a := range p.Alts {
		var sc []string
		for {
			sc = append([]string{}, scopeSets[r.Intn(len(scopeSets))]...)
			if !seen[scopeSet(sc)] {
				break
			}
		}
		seen[scopeSet(sc)] = true
		found := false
		for i := range p.Alts[a] {
			if p.Alts[a][i].Scheme == scheme {
				p.Alts[a][i].Scopes, found = sc, true
			}
		}
		switch {
		case r.Intn(3) != 0:
			// the scheme alone: every scheme of an alternative must accept, and the other callbacks refuse like this one
			p.Alts[a] = []PipeReq{{Scheme: scheme, Scopes: sc}}
		case found:
		case len(p.Alts[a]) >= 2 || (len(p.Alts[a]) == 1 && r.Intn(2) == 0):
			p.Alts[a][r.Intn(len(p.Alts[a]))] = PipeReq{Scheme: scheme, Scopes: sc} // in the place of another scheme
			dedupe(&p.Alts[a])
		default:
			p.Alts[a] = append(p.Alts[a], PipeReq{Scheme: scheme, Scopes: sc})
		}
	}
	if r.Intn(4) != 0 {
		c.Outcome = []string{"err", "err", "both", "none"}[r.Intn(4)]
	}
	if e := expect(c); !e.bearer {
		taken := map[string]bool{}
		for _, l := range [][]Cred{c.OpAuth, c.Default} {
			for _, w := range l {
				taken[string(w.Token)] = true
			}
		}
		if c.Preset != nil {
			taken[string(c.Preset.Token)] = true
		}
		for _, v := range append(append([]string{}, baseStatic...), patternStatic...) {
			taken[v] = true
		}
		c.HasQueryTok = true
		c.QueryTok = mon.Q(tokenSet(taken).fresh(r, anyToken))
	}
}

// namedSchemes: those of the definitions that an alternative of the requirement names.
func namedSchemes(p *Pipe, defs []PipeScheme) []PipeScheme {
	var named []PipeScheme
	for _, s := range defs {
		for _, alt := range p.Alts {
			for _, rq := range alt {
				if rq.Scheme == s.Name {
					named = append(named, s)
					s.Name = "" // once
				}
			}
		}
	}
	return named
}

// dedupe drops a second mention of a scheme in one alternative (the first stays).
func dedupe(alt *[]PipeReq) {
	seen := map[string]bool{}
	var out []PipeReq
	for _, rq := range *alt {
		if !seen[rq.Scheme] {
			seen[rq.Scheme] = true
			out = append(out, rq)
		}
	}
	*alt = out
}

func clipTo(s string, n int) string {
	if i := strings.IndexByte(s, '\n'); i >= 0 {
		s = s[:i]
	}
	if len(s) > n {
		s = s[:n]
	}
	return s
}

// ---------------------------------------------------------------------------------------------
// generation

var (
	oauthNames = []string{"userAuth", "appAuth", "svcAuth"}
	pipeVias   = []string{"", "", "apihandler", "builder", "routes"}
)

// addPipe gives the case a server description: definitions for every credential kind the case can carry (basic, one to
// three oauth2 schemes for the one bearer token, one apiKey definition per key name and location that is probed), and a
// requirement of one to three alternatives of one to three schemes each; every oauth2 scheme draws its own scope list.
func addPipe(r *rand.Rand, c *Case) {
	p := &Pipe{Global: r.Intn(5) == 0, Via: pipeVias[r.Intn(len(pipeVias))]}
	p.Schemes = append(p.Schemes, PipeScheme{Name: "basicAuth", Type: "basic"})
	var scoped, others []string
	others = append(others, "basicAuth")
	for i := 0; i < 1+r.Intn(3); i++ {
		p.Schemes = append(p.Schemes, PipeScheme{Name: oauthNames[i], Type: "oauth2"})
		scoped = append(scoped, oauthNames[i])
	}
	n := 0
	for _, pr := range probesOf(c) {
		if pr.kind != "apikey" {
			continue
		}
		name := fmt.Sprintf("key%d-%s", n/2, pr.in)
		n++
		p.Schemes = append(p.Schemes, PipeScheme{Name: name, Type: "apiKey", In: pr.in, Key: pr.name})
		others = append(others, name)
	}
	nAlt := []int{1, 1, 1, 2, 2, 3}[r.Intn(6)]
	for a := 0; a < nAlt; a++ {
		size := []int{1, 1, 2, 2, 2, 3}[r.Intn(6)]
		var alt []PipeReq
		used := map[string]bool{}
		for len(alt) < size && len(used) < len(scoped)+len(others) {
			pool := others
			if r.Intn(10) < 6 {
				pool = scoped
			}
			nm := pool[r.Intn(len(pool))]
			if used[nm] {
				continue
			}
			used[nm] = true
			rq := PipeReq{Scheme: nm, Scopes: []string{}}
			if p.scheme(nm).Type == "oauth2" {
				rq.Scopes = append([]string{}, scopeSets[r.Intn(len(scopeSets))]...)
			}
			alt = append(alt, rq)
		}
		p.Alts = append(p.Alts, alt)
	}
	same := r.Intn(4) == 0
	// an application validates its registrations against the description (API.Validate), which wants every definition
	// and every registered authenticator to be required somewhere: the definitions no alternative names are left out
	all := p.Schemes
	p.Schemes = namedSchemes(p, all)
	c.Pipe = p
	c.Reuse = "" // the pipeline consults the one request it received as it sees fit
	if r.Intn(10) < 6 {
		c.Outcome = "ok" // an accepted scheme lets the pipeline go on to the next one of the alternative
	}
	if same {
		sameSchemeAlternatives(r, c, p, scoped[0])
		p.Schemes = namedSchemes(p, all)
	}
}
