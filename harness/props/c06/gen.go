package c06

import (
	"fmt"
	"math/rand"
	"strings"

	"verif/mon"
	"verif/props/c07/accept"
)

// ---------------------------------------------------------------------------------------------
// generation
// ---------------------------------------------------------------------------------------------

var paramEntries = []string{
	"application/json; charset=utf-8", "application/json;charset=utf-8", "text/plain; charset=utf-8",
	"application/xml; version=1", "text/csv;header=present", "application/vnd.api+json; profile=x",
}

// owsParamEntries: entries with optional whitespace BEFORE the ';' (RFC 7231 3.1.1.1: type "/" subtype *( OWS ";" OWS parameter )).
var owsParamEntries = []string{"text/plain ; charset=utf-8", "application/json\t;charset=utf-8", "application/xml ;version=1"}

func init() {
	if accept.JudgeOWSBeforeSemicolon { // set: the library reads them as the same media type since 97ff218
		paramEntries = append(paramEntries, owsParamEntries...)
	}
}

func pick(r *rand.Rand, l []string) string { return l[r.Intn(len(l))] }

func typeOf(mt string) string {
	if i := strings.IndexByte(mt, '/'); i >= 0 {
		return mt[:i]
	}
	return mt
}

func pickDistinct(r *rand.Rand, pool []string, n int) []string {
	p := r.Perm(len(pool))
	var out []string
	for i := 0; i < n && i < len(p); i++ {
		out = append(out, pool[p[i]])
	}
	return out
}

// genConsumes returns one consumes list and the label of its shape.
func genConsumes(r *rand.Rand) []string {
	switch r.Intn(15) {
	case 12:
		// two or three entries with parameters (possibly two spellings of one type), alone or next to concrete types
		l := pickDistinct(r, paramEntries, 2+r.Intn(2))
		if r.Intn(2) == 0 {
			l = append(l, pickDistinct(r, concretePool, 1+r.Intn(2))...)
		}
		r.Shuffle(len(l), func(i, j int) { l[i], l[j] = l[j], l[i] })
		return l
	case 13:
		// a bare type next to its own parameterised spelling (either order), possibly with more entries
		pe := pick(r, paramEntries)
		b, _ := stripEntry(pe)
		l := []string{pe, b}
		if r.Intn(2) == 0 {
			l = append(l, pick(r, paramEntries))
		}
		if r.Intn(2) == 0 {
			l = append(l, pick(r, concretePool))
		}
		r.Shuffle(len(l), func(i, j int) { l[i], l[j] = l[j], l[i] })
		return dedupe(l)
	case 14:
		// several parameterised entries under a wildcard
		l := append(pickDistinct(r, paramEntries, 2), pick(r, []string{"*/*", "application/*", "text/*"}))
		r.Shuffle(len(l), func(i, j int) { l[i], l[j] = l[j], l[i] })
		return l
	case 0:
		return nil
	case 1, 2:
		return pickDistinct(r, concretePool, 1+r.Intn(3))
	case 3:
		return []string{pick(r, []string{"application/*", "text/*", "image/*"})}
	case 4:
		w := pick(r, []string{"application/*", "text/*", "image/*"})
		l := []string{w}
		for _, c := range pickDistinct(r, concretePool, 2) {
			if typeOf(c) != typeOf(w) {
				l = append(l, c)
			}
		}
		r.Shuffle(len(l), func(i, j int) { l[i], l[j] = l[j], l[i] })
		return l
	case 5:
		return []string{"*/*"}
	case 6:
		l := append([]string{"*/*"}, pickDistinct(r, concretePool, 1+r.Intn(2))...)
		r.Shuffle(len(l), func(i, j int) { l[i], l[j] = l[j], l[i] })
		return l
	case 7:
		return []string{pick(r, paramEntries)}
	case 8:
		pe := pick(r, paramEntries)
		b, _ := stripEntry(pe)
		l := []string{pe}
		for _, c := range pickDistinct(r, concretePool, 2) {
			if c != b {
				l = append(l, c)
			}
		}
		r.Shuffle(len(l), func(i, j int) { l[i], l[j] = l[j], l[i] })
		return l
	case 9:
		pe := pick(r, paramEntries)
		b, _ := stripEntry(pe)
		w := pick(r, []string{"application/*", "text/*", "image/*"})
		l := []string{pe, w}
		for _, c := range pickDistinct(r, concretePool, 2) {
			if c != b && typeOf(c) != typeOf(w) {
				l = append(l, c)
			}
		}
		r.Shuffle(len(l), func(i, j int) { l[i], l[j] = l[j], l[i] })
		return l
	case 10:
		// a parameterised entry next to a wildcard that also covers it
		pe := pick(r, paramEntries)
		b, _ := stripEntry(pe)
		return []string{pe, pick(r, []string{"*/*", typeOf(b) + "/*"})}
	default:
		return pickDistinct(r, concretePool, 4+r.Intn(3))
	}
}

func dedupe(l []string) []string {
	seen := map[string]bool{}
	var out []string
	for _, e := range l {
		if !seen[e] {
			seen[e] = true
			out = append(out, e)
		}
	}
	return out
}

func genRegistered(r *rand.Rand) []string {
	reg := append([]string{}, concretePool...)
	if r.Intn(3) == 0 {
		k := 1 + r.Intn(2)
		for i := 0; i < k; i++ {
			j := r.Intn(len(reg))
			reg = append(reg[:j], reg[j+1:]...)
		}
	}
	if r.Intn(2) == 0 {
		reg = append(reg, "*/*")
	}
	for _, w := range wildcardKeys[1:] {
		if r.Intn(3) == 0 {
			reg = append(reg, w)
		}
	}
	return reg
}

func genDefault(r *rand.Rand) string {
	switch r.Intn(6) {
	case 0, 1:
		return ""
	case 2:
		return "application/json"
	case 3:
		return pick(r, paramEntries) // an API default that carries parameters
	default:
		return pick(r, concretePool)
	}
}

// Accept header values: every operation produces application/json (and that is the API default producer).
var acceptable = []string{"application/json", "*/*", "application/*", "application/json;q=0.5, text/plain", "text/html, */*;q=0.1", "application/json; charset=utf-8"}
var unacceptable = []string{"image/png", "text/*", "application/xml;q=0.9, text/plain", "application/json;q=0", "app/*", "application/jso", "*/*;q=0, text/csv", "application/jsonx"}

func genAccept(r *rand.Rand) (has bool, v string) {
	switch k := r.Intn(10); {
	case k < 6:
		return false, ""
	case k < 8:
		return true, pick(r, acceptable)
	default:
		return true, pick(r, unacceptable)
	}
}

var plainParams = []string{
	"charset=utf-8", "charset=UTF-8", "boundary=xyz", "version=1", "q=0.5", "charset=\"utf-8\"",
	"title=\"a; b=c\"", "profile=\"http://x/y, z\"", "x-a=1", "CHARSET=iso-8859-1", "name=\"\"",
}

func mangleCase(r *rand.Rand, s string) string {
	switch r.Intn(3) {
	case 0:
		return strings.ToUpper(s)
	case 1:
		b := []byte(s)
		up := true
		for i := range b {
			if up && b[i] >= 'a' && b[i] <= 'z' {
				b[i] -= 32
			}
			up = b[i] == '/' || b[i] == '-' || b[i] == '+' || b[i] == '.'
		}
		return string(b)
	default:
		b := []byte(s)
		changed := false
		for i := range b {
			if b[i] >= 'a' && b[i] <= 'z' && r.Intn(2) == 0 {
				b[i] -= 32
				changed = true
			}
		}
		if !changed {
			return strings.ToUpper(s)
		}
		return string(b)
	}
}

// spell renders a media type in one of the valid surface forms.
func spell(r *rand.Rand, mt string) string {
	k := r.Intn(8)
	base := mt
	if k == 3 || k == 5 || k == 7 {
		base = mangleCase(r, mt)
	}
	if k == 0 || k == 3 {
		return base
	}
	if k == 1 {
		return base + ";" + pick(r, plainParams)
	}
	// parameters with optional whitespace
	n := 1 + r.Intn(3)
	used := map[string]bool{}
	var sb strings.Builder
	sb.WriteString(base)
	for i := 0; i < n; i++ {
		p := pick(r, plainParams)
		name := strings.ToLower(p[:strings.IndexByte(p, '=')])
		if used[name] {
			continue
		}
		used[name] = true
		sb.WriteString(pick(r, []string{";", "; ", " ; ", ";\t", " ;", ";  ", "\t;\t"}))
		sb.WriteString(p)
	}
	if r.Intn(6) == 0 {
		sb.WriteString(pick(r, []string{" ", "\t"})) // inner trailing OWS is only deliverable in memory; harmless over TCP
	}
	return sb.String()
}

var malformedPool = []string{
	"application", "json", "/json", "application/", "application/json/v2", "application(", "application/json(comment)",
	"a b/c", "application/json, text/plain", "application / json", "\"application/json\"", "application/json charset=utf-8",
	"<application/json>", "application@json", "text/pl ain", ":", "/", "=", "application\\json", "application/json?x",
	"text/plain,", "[text/plain]", "application/js\xc3\xa9n", "text//plain", "//", "application/=json",
}

func grayOf(r *rand.Rand, mt string) string {
	switch r.Intn(13) {
	case 0:
		return mt + ";"
	case 1:
		return mt + "; charset"
	case 2:
		return mt + ";charset="
	case 3:
		return mt + "; charset=utf-8; charset=utf-8"
	case 4:
		return mt + "; =x"
	case 5:
		return mt + ";;charset=utf-8"
	case 6:
		return mt + "; charset=\"utf-8"
	case 7:
		return mt + "; charset*=utf-8''x"
	case 8:
		return mt + "; a=b c"
	case 9:
		return mt + "; charset=utf-8,"
	case 10:
		return mt + "; title=\"a\\\"b\""
	case 11:
		return mt + "; charset = utf-8"
	default:
		i := strings.IndexByte(mt, '/')
		return mt[:i+1] + "{" + mt[i+1:] + "}"
	}
}

func nearMiss(r *rand.Rand, mt string) string {
	i := strings.IndexByte(mt, '/')
	switch r.Intn(8) {
	case 0:
		return mt + "x"
	case 1:
		return mt[:len(mt)-1]
	case 2:
		return "x" + mt
	case 3:
		return mt[:i] + "x" + mt[i:]
	case 4:
		return mt + "+json"
	case 5:
		return mt + ".v2"
	case 6:
		return pick(r, []string{"text", "application", "image", "audio", "video", "x"}) + mt[i:]
	default:
		return mt[:i+1] + "x-" + mt[i+1:]
	}
}

// genHeader picks a Content-Type for the given configuration. intent is a coverage label only: the
// oracle classifies the value on its own.
func genHeader(r *rand.Rand, consumes []string, def string, registered []string) (has bool, v string, intent string) {
	eff := append([]string{}, consumes...)
	if def != "" {
		eff = append(eff, def)
	}
	var concrete, typeW []string
	anyW := false
	for _, e := range eff {
		b, _ := stripEntry(e)
		switch {
		case b == "*/*":
			anyW = true
		case strings.HasSuffix(b, "/*"):
			typeW = append(typeW, b)
		default:
			concrete = append(concrete, b)
		}
	}
	var nonAdmitted []string
	for _, c := range concretePool {
		if admission(consumes, def, c) == "" {
			nonAdmitted = append(nonAdmitted, c)
		}
	}
	for tries := 0; tries < 20; tries++ {
		switch k := r.Intn(100); {
		case k < 22: // admitted, listed concretely
			if len(concrete) == 0 {
				continue
			}
			return true, spell(r, pick(r, concrete)), "admitted-listed"
		case k < 36: // admitted through type/*
			if len(typeW) == 0 {
				continue
			}
			w := pick(r, typeW)
			var cands []string
			for _, c := range concretePool {
				if typeOf(c) == typeOf(w) {
					cands = append(cands, c)
				}
			}
			if r.Intn(8) == 0 || len(cands) == 0 {
				cands = []string{typeOf(w) + "/x-unregistered"}
			}
			return true, spell(r, pick(r, cands)), "admitted-type-wildcard"
		case k < 48: // admitted through */*
			if !anyW {
				continue
			}
			if r.Intn(8) == 0 {
				return true, spell(r, "video/x-unregistered"), "admitted-any-wildcard"
			}
			return true, spell(r, pick(r, concretePool)), "admitted-any-wildcard"
		case k < 66: // a registered type that is not admitted
			if len(nonAdmitted) == 0 {
				continue
			}
			return true, spell(r, pick(r, nonAdmitted)), "non-admitted-pool"
		case k < 74:
			src := concretePool
			if len(concrete) > 0 && r.Intn(3) > 0 {
				src = concrete
			}
			return true, spell(r, nearMiss(r, pick(r, src))), "near-miss"
		case k < 78:
			return true, spell(r, pick(r, wildcardKeys)), "literal-wildcard"
		case k < 84:
			return false, "", "absent"
		case k < 86:
			return true, "", "empty"
		case k < 93:
			return true, pick(r, malformedPool), "malformed"
		default:
			src := concretePool
			if len(concrete) > 0 && r.Intn(2) == 0 {
				src = concrete
			}
			return true, grayOf(r, pick(r, src)), "grey"
		}
	}
	return true, spell(r, pick(r, concretePool)), "pool"
}

var payloads = []string{"{}", "{\"a\":1}", "x", "a,b\n1,2\n", "<x/>", "\x00\x01\xff", " ", "\n"}

// bigPayload is longer than the 4096-byte buffer HasBody peeks through.
var bigPayload = strings.Repeat("p", 4500)

func genBodyMode(r *rand.Rand, tcp bool) string {
	if tcp {
		switch k := r.Intn(10); {
		case k < 6:
			return "tcp-chunked"
		case k < 8:
			return "tcp-cl"
		default:
			return "tcp-none"
		}
	}
	switch k := r.Intn(23); {
	case k < 5:
		return "cl"
	case k < 9:
		return "cl+hdr"
	case k < 14:
		return "chunked"
	case k < 16:
		return "none"
	case k < 18:
		return "cl0+hdr"
	case k < 20:
		return "chunked-empty"
	case k < 22:
		return "unknown-length"
	default:
		return "unknown-length-empty"
	}
}

type group struct {
	spec       []string // spec-level list declared next to the operations' own lists
	ops        []opSpec
	global     bool
	def        string
	registered []string
	noProduces bool // no produces declared anywhere, no default producer, operations answer 204
}

func genGroup(r *rand.Rand) *group {
	g := &group{def: genDefault(r), registered: genRegistered(r), noProduces: r.Intn(10) == 0}
	if r.Intn(6) == 0 {
		g.global = true
		g.ops = []opSpec{{consumes: genConsumes(r)}}
		return g
	}
	n := 6 + r.Intn(5)
	for i := 0; i < n; i++ {
		op := opSpec{consumes: genConsumes(r), noParam: r.Intn(5) == 0}
		if r.Intn(7) == 0 {
			// a formData operation; most consume form types only
			op.noParam, op.form = false, true
			switch r.Intn(6) {
			case 0:
				op.consumes = []string{multipart}
			case 1:
				op.consumes = []string{urlencoded}
			case 2:
				op.consumes = []string{multipart, urlencoded}
			case 3:
				op.consumes = []string{urlencoded, "application/json"}
			case 4:
				op.consumes = []string{"application/json"} // a description that forgot the form types
			}
		}
		g.ops = append(g.ops, op)
	}
	if r.Intn(10) == 0 {
		g.spec = genConsumes(r)
		if len(g.spec) == 0 {
			g.spec = []string{"application/json"}
		}
	}
	return g
}

func genRequest(r *rand.Rand, g *group, tcp bool) (*Case, int) {
	i := r.Intn(len(g.ops))
	c := &Case{Consumes: g.ops[i].consumes, Global: g.global, Default: g.def, Registered: g.registered, NoBodyParam: g.ops[i].noParam, FormParam: g.ops[i].form, NoProduces: g.noProduces}
	if r.Intn(2) == 0 {
		c.Entry2 = "routable"
	}
	// the generated-server entry point binds with the route's reflective binder: a third of the requests, half of those
	// to formData operations (whose parameter binder is a second place that looks at the request's media type)
	if r.Intn(3) == 0 || (c.FormParam && r.Intn(4) == 0) {
		c.RouteBinder = true
	}
	if len(g.spec) > 0 && !g.global {
		if len(c.Consumes) == 0 {
			// an operation without a list of its own inherits the spec-level one
			c.Consumes, c.Global = g.spec, true
		} else {
			c.SpecConsumes = g.spec
		}
	}
	c.Shape = shapeOf(c.Consumes)
	c.Method = pick(r, methods)
	var v string
	c.HasCT, v, c.Intent = genHeader(r, c.Consumes, c.Default, c.Registered)
	if tcp {
		v = strings.Trim(v, " \t") // net/http trims what it sends
	}
	c.CT = mon.Q(v)
	if c.HasCT && r.Intn(50) == 0 {
		_, v2, _ := genHeader(r, c.Consumes, c.Default, c.Registered)
		if v2 = strings.Trim(v2, " \t"); v2 != "" {
			c.HasCT2, c.CT2 = true, mon.Q(v2)
		}
	}
	c.BodyMode = genBodyMode(r, tcp)
	if bodyModeHasBody(c.BodyMode) {
		c.Payload = mon.Q(pick(r, payloads))
		if r.Intn(40) == 0 {
			c.Payload = mon.Q(bigPayload)
		}
	}
	var av string
	c.HasAccept, av = genAccept(r)
	c.Accept = mon.Q(av)
	return c, i
}

func run(m *mon.M) {
	r := m.Rand("groups")
	ngroups := m.N(60, 1000)
	perGroup := 190
	tcpEvery := m.N(20, 13) // every n-th group also sends requests over a loopback server
	tcpPer := m.N(30, 50)
	reported := map[string]int{}
	for gi := 0; gi < ngroups; gi++ {
		g := genGroup(r)
		e, err := buildEnv(g.ops, g.global, g.def, g.registered, g.noProduces, g.spec...)
		if err != nil {
			m.Class("env-build-failed")
			m.Note("env_build_error:"+firstWords(err.Error()), 1)
			continue
		}
		m.Class("descriptions")
		n := perGroup
		ntcp := 0
		if gi%tcpEvery == tcpEvery-1 {
			ntcp = tcpPer
		}
		for k := 0; k < n+ntcp; k++ {
			c, opIdx := genRequest(r, g, k >= n)
			m.Begin(c)
			fs, o1, o2 := evalOn(m, e, opIdx, c)
			m.Class("intent:" + c.Intent)
			if m.WantSample() {
				ex := expect(c)
				m.Sample(sample{Case: trimCase(c), Expect: ex.verdict + "/" + ex.admit, Entry1: o1, Entry2: o2})
			}
			if len(fs) == 0 {
				continue
			}
			fresh := false
			for _, f := range fs {
				if reported[f.code+"/"+f.feature] < 5 {
					fresh = true
				}
				reported[f.code+"/"+f.feature]++
			}
			if !fresh { // enough isolated witnesses of these signatures: only count
				for _, f := range fs {
					m.Violate(f.code+"/"+f.feature, f.text, c)
				}
				continue
			}
			// report from an isolated re-execution (one operation, one request): that is what replays
			if runCase(m, c) == 0 {
				for _, f := range fs {
					m.Violate(f.code+"/"+f.feature, "(seen in a multi-operation description, not reproduced in isolation) "+f.text, c)
				}
			}
		}
		e.close()
	}
	runSiblings(m)
}

func trimCase(c *Case) *Case {
	cc := *c
	if len(cc.Payload) > 40 {
		cc.Payload = cc.Payload[:40]
	}
	return &cc
}

func firstWords(s string) string {
	if len(s) > 60 {
		s = s[:60]
	}
	return fmt.Sprintf("%q", s)
}
