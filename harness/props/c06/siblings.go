package c06

import (
	"math/rand"

	"verif/mon"
)

// ---------------------------------------------------------------------------------------------
// several operations on one path template, each with a consumes list of its own, served in
// sequence by the same handlers: "the operation's consumes list" is the list of the operation the
// request is routed to, whatever its siblings on the path declare and whatever was served before
// ---------------------------------------------------------------------------------------------

type sibPath struct {
	ops []methodOp // the operations of the path (distinct methods)
}

type sibGroup struct {
	paths      []sibPath
	def        string
	registered []string
	noProduces bool
}

// varyConsumes derives a list from l that shares entries with it and differs in others.
func varyConsumes(r *rand.Rand, l []string) []string {
	out := append([]string{}, l...)
	for k := 1 + r.Intn(2); k > 0; k-- {
		switch {
		case len(out) > 1 && r.Intn(2) == 0:
			j := r.Intn(len(out))
			out = append(out[:j], out[j+1:]...)
		case r.Intn(4) == 0:
			out = append(out, pick(r, paramEntries))
		default:
			out = append(out, pick(r, concretePool))
		}
	}
	return dedupe(out)
}

func genSibGroup(r *rand.Rand) *sibGroup {
	g := &sibGroup{def: genDefault(r), registered: genRegistered(r), noProduces: r.Intn(10) == 0}
	np := 3 + r.Intn(3)
	for p := 0; p < np; p++ {
		var sp sibPath
		k := 2 + r.Intn(3)
		var first []string
		for _, mi := range r.Perm(len(methods))[:k] {
			op := methodOp{method: methods[mi], noParam: r.Intn(6) == 0}
			switch {
			case first != nil && r.Intn(2) == 0:
				op.consumes = varyConsumes(r, first) // a close relative of the first operation's list
			default:
				op.consumes = genConsumes(r)
			}
			if first == nil {
				first = op.consumes
				if first == nil {
					first = []string{}
				}
			}
			sp.ops = append(sp.ops, op)
		}
		g.paths = append(g.paths, sp)
	}
	return g
}

func (g *sibGroup) opSpecs() []opSpec {
	var l []opSpec
	for _, p := range g.paths {
		o := p.ops[0]
		sp := opSpec{consumes: o.consumes, noParam: o.noParam, form: o.form, method: o.method}
		for _, s := range p.ops[1:] {
			sp.siblings = append(sp.siblings, Sibling{Method: s.method, Consumes: s.consumes, NoBodyParam: s.noParam, FormParam: s.form})
		}
		l = append(l, sp)
	}
	return l
}

// contested lists media types that the operation and one of its siblings judge differently (one admits it, the
// other does not).
func contested(g *sibGroup, p *sibPath, oi int) []string {
	cands := append([]string{}, concretePool...)
	cands = append(cands, "application/x-unregistered", "text/x-unregistered", "image/x-unregistered", "video/x-unregistered")
	var out []string
	for _, mt := range cands {
		own := admission(p.ops[oi].consumes, g.def, mt) != ""
		for j := range p.ops {
			if j != oi && (admission(p.ops[j].consumes, g.def, mt) != "") != own {
				out = append(out, mt)
				break
			}
		}
	}
	return out
}

// genSibRequest draws a request to one operation of path pi. sent holds the media types of the requests with a
// body already sent to the path.
func genSibRequest(r *rand.Rand, g *sibGroup, pi int, sent []string) (*Case, int) {
	p := &g.paths[pi]
	oi := r.Intn(len(p.ops))
	o := p.ops[oi]
	c := &Case{Consumes: o.consumes, Default: g.def, Registered: g.registered, NoBodyParam: o.noParam, FormParam: o.form, NoProduces: g.noProduces, Method: o.method}
	for j, s := range p.ops {
		if j != oi {
			c.Siblings = append(c.Siblings, Sibling{Method: s.method, Consumes: s.consumes, NoBodyParam: s.noParam, FormParam: s.form})
		}
	}
	if r.Intn(2) == 0 {
		c.Entry2 = "routable"
	}
	c.RouteBinder = r.Intn(3) == 0
	c.Shape = shapeOf(c.Consumes)
	var v string
	switch k := r.Intn(20); {
	case k < 8:
		if ct := contested(g, p, oi); len(ct) > 0 {
			c.HasCT, v, c.Intent = true, spell(r, pick(r, ct)), "judged-differently-by-a-sibling"
			break
		}
		fallthrough
	case k < 11:
		if len(sent) > 0 {
			c.HasCT, v, c.Intent = true, spell(r, pick(r, sent)), "media-type-sent-to-the-path-before"
			break
		}
		fallthrough
	default:
		c.HasCT, v, c.Intent = genHeader(r, c.Consumes, c.Default, c.Registered)
	}
	c.CT = mon.Q(v)
	c.BodyMode = genBodyMode(r, false)
	if !bodyModeHasBody(c.BodyMode) && r.Intn(3) > 0 {
		c.BodyMode = genBodyMode(r, false)
	}
	if bodyModeHasBody(c.BodyMode) {
		c.Payload = mon.Q(pick(r, payloads))
	}
	var av string
	c.HasAccept, av = genAccept(r)
	c.Accept = mon.Q(av)
	return c, oi
}

// shrinkHistory drops the preceding requests the findings do not need (at most budget isolated executions).
func shrinkHistory(c *Case, fails func(*Case) bool, budget int) {
	for i := len(c.History) - 1; i >= 0 && budget > 0; i-- {
		cand := *c
		cand.History = append(append([]Prior{}, c.History[:i]...), c.History[i+1:]...)
		budget--
		if fails(&cand) {
			c.History = cand.History
		}
	}
}

func runSiblings(m *mon.M) {
	r := m.Rand("sibling-operations")
	ngroups := m.N(16, 260)
	perPath := 28
	reported := map[string]int{}
	shrinks := 0
	scratch := mon.New("C06", "quick", 0, 0, 1, "")
	scratch.SetReplayMode()
	fails := func(c *Case) bool {
		fs, _, _, ok := isolated(scratch, c)
		return ok && len(fs) > 0
	}
	for gi := 0; gi < ngroups; gi++ {
		g := genSibGroup(r)
		e, err := buildEnv(g.opSpecs(), false, g.def, g.registered, g.noProduces)
		if err != nil {
			m.Class("env-build-failed")
			m.Note("env_build_error:"+firstWords(err.Error()), 1)
			continue
		}
		m.Class("descriptions-with-sibling-operations")
		hist := make([][]Prior, len(g.paths))
		sent := make([][]string, len(g.paths))
		// per path and media type: which operations were sent a body of that type, and whether they admit it
		seen := make([]map[string]map[string]bool, len(g.paths))
		for i := range seen {
			seen[i] = map[string]map[string]bool{}
		}
		for k := 0; k < perPath*len(g.paths); k++ {
			pi := r.Intn(len(g.paths))
			c, _ := genSibRequest(r, g, pi, sent[pi])
			m.Begin(c)
			fs, o1, o2 := evalOn(m, e, pi, c)
			m.Class("intent:" + c.Intent)
			ex := expect(c)
			if ex.hasBody && ex.mt != "" && (ex.kind == hValid || ex.kind == hAbsent) {
				if by := seen[pi][ex.mt]; by != nil {
					differs, same := false, false
					for mth, adm := range by {
						if mth != c.Method && adm != (ex.admit != "") {
							differs = true
						}
						if mth != c.Method && adm == (ex.admit != "") {
							same = true
						}
					}
					switch {
					case differs:
						m.Class("sibling-history:media-type-judged-differently-for-a-sibling-before")
						m.NT("sibling-history|" + fingerprint(c, &ex))
					case same:
						m.Class("sibling-history:media-type-judged-alike-for-a-sibling-before")
					}
				} else {
					seen[pi][ex.mt] = map[string]bool{}
					sent[pi] = append(sent[pi], ex.mt)
				}
				seen[pi][ex.mt][c.Method] = ex.admit != ""
			}
			if m.WantSample() {
				m.Sample(sample{Case: trimCase(c), Expect: ex.verdict + "/" + ex.admit, Entry1: o1, Entry2: o2})
			}
			before := hist[pi]
			hist[pi] = append(hist[pi], priorOf(c))
			if len(fs) == 0 {
				continue
			}
			fresh := false
			for _, f := range fs {
				if reported[f.code+"/"+f.feature] < 5 {
					fresh = true
				}
				reported[f.code+"/"+f.feature]++
			}
			if !fresh { // enough isolated witnesses of these signatures (each costs fresh descriptions): only count
				for _, f := range fs {
					m.Class("violation-not-isolated-after-cap:" + f.code + "/" + f.feature)
				}
				continue
			}
			// report from the smallest isolated re-execution that shows it: the operation alone (all methods, one list);
			// the operation and its siblings on a fresh handler; the same after the requests the path was sent before
			alone := *c
			alone.Siblings = nil
			if runCase(m, &alone) > 0 {
				continue
			}
			if runCase(m, c) > 0 {
				continue
			}
			after := *c
			after.History = append([]Prior{}, before...)
			if len(after.History) > 0 && fails(&after) {
				if shrinks < 12 {
					shrinks++
					shrinkHistory(&after, fails, 60)
				}
				if runCase(m, &after) > 0 {
					continue
				}
			}
			for _, f := range fs {
				m.Violate(f.code+"/"+f.feature, "(seen in a description with several paths, not reproduced in isolation) "+f.text+historyText(&after), &after)
			}
		}
		e.close()
	}
}
