// Package c06 monitors the request content-type gate of the server side: a body is decoded
// only by the consumer registered for an admitted media type, otherwise the answer is 415
// (400 for an unparsable header) and nothing runs; body-less requests are not gated; the
// untyped pipeline and Context.BindValidRequest agree.
package c06

import (
	"bytes"
	"encoding/json"
	"fmt"
	"io"
	"net/http"
	"net/http/httptest"
	"net/url"
	"sort"
	"strconv"
	"strings"
	"sync"

	"github.com/go-openapi/errors"
	"github.com/go-openapi/loads"
	"github.com/go-openapi/runtime"
	"github.com/go-openapi/runtime/middleware"
	"github.com/go-openapi/runtime/middleware/untyped"

	"verif/gen"
	"verif/mon"
	"verif/props/c07/accept"
)

func init() {
	mon.Register(&mon.Property{
		ID:    "C06",
		Level: "exploration",
		Rule: "seeded Swagger 2.0 descriptions with one operation per consumes-list shape (empty, concrete types, type/*, */*, one or several entries with parameters, a bare type next to its parameterised spelling, mixes; declared per operation or at spec level, in one description in ten at both levels with different lists; one request in fifty carries a second Content-Type line; four operations in five declare a body parameter, one in five declares no parameter at all; one operation in seven declares a formData parameter instead and mostly consumes form media types) x all 7 methods, " +
			"API default media type present (plain or with parameters)/absent, Accept header absent / acceptable / admitting nothing the operation produces, tagged consumers registered API-wide for (most of) 14 concrete types (the two form media types among them) and optionally for wildcard keys; requests with Content-Type drawn from: admitted (exactly / through the default / through an entry with parameters / through type/* / through */*), " +
			"non-admitted pool types, near misses of admitted types, literal wildcard types, absent, empty, malformed and grey-zone values, each spelled plain / with parameters / with OWS around ';' / in mixed letter case; body signalled by Content-Length (with and without the header line), " +
			"by ContentLength=-1 (chunked, or without any transfer coding), by a real Content-Length or chunked request over a loopback server, or absent (no body, Content-Length: 0, empty stream of unknown length). Every case is executed through both entry points (untyped pipeline via RoutesHandler, and Context.BindValidRequest with a RequestBinder that decodes with route.Consumer - called directly on a Context made by NewContext, or, for half of the requests, from the operation handler of a RoutableAPI (gen.GeneratedAPI: RouteInfo, BindValidRequest, Respond) served by a Context made by NewRoutableContext, the constructor generated servers use; for a third of the requests - half of those to formData operations - that RequestBinder binds with route.Binder, the route's reflective binder, instead of decoding with route.Consumer itself). One description in ten declares no produces and has no default producer. " +
			"A second workload (a fifth as many requests): descriptions whose paths each declare two to four operations (distinct methods) with consumes lists of their own - drawn independently, or close relatives that share some entries and differ in others; no spec-level list, no formData operations, in-memory requests - all served in sequence by the same two handlers (the same Contexts for the whole description); two requests in five carry a media type that the operation and one of its siblings judge differently, one in seven a media type the path was sent before in another spelling; each request is judged by the declaration of the operation it is routed to, whatever was served before. A finding of that workload is reported from the smallest isolated re-execution that shows it: the operation alone, the operation and its siblings on fresh handlers, or the same after the (shrunk) list of requests the path was sent before, which the case then carries (preceding_requests) and a replay serves first. " +
			"oracle written from the statement: own RFC 7231 media-type classifier and own admission function. non-trivial = the request carries a body, or is body-less but carries a Content-Type that the gate would refuse; distinct by (consumes shape, default present, admission class, header kind+spelling, body signalling, method)",
		Assumptions: []string{
			"consumes entries and the API default are lower case; entries with parameters are spelled 'type/subtype;name=value', 'type/subtype; name=value' or with whitespace before the ';' (legal OWS of RFC 7231 3.1.1.1: the same media type); wildcard entries carry no parameters",
			"a body with no Content-Type header is judged as application/octet-stream (runtime.DefaultMime, RFC 7231 3.1.1.5); an empty header value may be treated as absent or as unparsable",
			"header values whose type/subtype part is a valid token pair but whose parameter section is irregular (trailing ';', parameter without value, duplicate names, RFC 2231 continuations, quoted-pairs, '{' '}' in the type) are a grey zone: either 400 or the reading 'media type = part before the first ;' is accepted; only safety (no consumer/handler for a non-admitted type, right consumer) and agreement of the entry points are judged there",
			"when no consumer is registered API-wide under the exact media type of an admitted request, the status is not judged (the statement presupposes a registered consumer); only 'no consumer other than a matching wildcard-key one ran' and agreement are judged",
			"body presence is what the request signals: ContentLength>0, or unknown length (-1) with at least one readable byte; Content-Length: 0 and an empty chunked stream are body-less",
			"every operation produces application/json; an Accept header that admits nothing concerns the gate only in that it must not replace a due 415/400: a body-less or admitted request carrying such a header may be answered 406 with nothing run (the 406 clause itself is C07's)",
			"an operation with a formData parameter is gated like any other: a non-admitted or malformed type is refused 415/400 with nothing run, through both entry points; for admitted types only 'no foreign consumer ran' is judged (the reflective formData binder has its own opinion on the request's type and a multipart body needs a boundary), except admitted application/x-www-form-urlencoded bodies, which both entry points must serve; a body-less request to such an operation (its one formData parameter is optional) is judged like every body-less request: whatever its Content-Type header says (a form type, another type, an unparsable value, nothing) it is not answered 415/400, no consumer runs, and both entry points serve it",
			"the RequestBinder of the generated-server entry point either decodes the body with route.Consumer itself or binds with the route's own reflective binder (route.Binder.Bind with route.Params and route.Consumer): both are what an application may hand to BindValidRequest; the expectations are the same",
			"a spec-level consumes list declared next to an operation's own list is overridden by it (Swagger 2.0); a request with two Content-Type field lines is judged for safety only: refused with nothing run when both lines name non-admitted types, a consumer that runs is the one of an admitted type that one of the lines names, the entry points agree",
			"'the operation's consumes list' is the list of the operation the request is routed to (method and path): operations that share a path template are gated independently of each other and of every request served before; preceding requests of a replayed case are served through both entry points and not judged (each was judged when the run served it)",
			"an operation that declares no body parameter is gated like any other (the statement quantifies over requests that carry a body); whether its body is decoded at all is not judged, only that nothing but the consumer of its media type decodes it",
		},
		MinNontrivial: 300,
		Run:           run,
		Replay:        replay,
	})
}

// ---------------------------------------------------------------------------------------------
// case
// ---------------------------------------------------------------------------------------------

// Case is one API configuration with a single operation (optionally: its sibling operations on the same path, and the
// requests served before) plus one request.
type Case struct {
	Consumes   []string `json:"consumes"`         // consumes list of the operation (nil/empty: none declared)
	Global     bool     `json:"global,omitempty"` // the list is declared at spec level, not on the operation
	Default    string   `json:"default"`          // untyped.API.DefaultConsumes ("" = no default)
	Registered []string `json:"registered"`       // media-type keys with a (tagged) consumer registered API-wide
	Method     string   `json:"method"`           // GET PUT POST DELETE OPTIONS HEAD PATCH
	HasCT      bool     `json:"has_ct"`           // Content-Type header line present
	CT         mon.Q    `json:"ct"`               // its value
	BodyMode   string   `json:"body_mode"`        // cl | cl+hdr | chunked | unknown-length | none | cl0+hdr | chunked-empty | unknown-length-empty | tcp-cl | tcp-chunked | tcp-none
	Payload    mon.Q    `json:"payload"`          // body bytes (ignored for body-less modes)
	Shape      string   `json:"shape,omitempty"`  // generator label of the consumes shape (coverage only)
	Intent     string   `json:"intent,omitempty"` // generator label of the header category (coverage only)
	// HasAccept/Accept: the request carries this Accept header line (every operation produces application/json only)
	HasAccept bool  `json:"has_accept,omitempty"`
	Accept    mon.Q `json:"accept,omitempty"`
	// NoBodyParam: the operation declares no parameter at all (no "in: body" parameter)
	NoBodyParam bool `json:"no_body_param,omitempty"`
	// FormParam: the operation declares one optional formData parameter (and no body parameter)
	FormParam bool `json:"form_param,omitempty"`
	// SpecConsumes: a spec-level consumes list declared NEXT TO the operation's own list (which overrides it:
	// Swagger 2.0 "consumes" of an operation "overrides the global definition")
	SpecConsumes []string `json:"spec_consumes,omitempty"`
	// HasCT2/CT2: a second Content-Type field line
	HasCT2 bool  `json:"has_second_ct,omitempty"`
	CT2    mon.Q `json:"second_ct,omitempty"`
	// NoProduces: neither the description nor the operation declares produces, the API has no default producer, and
	// the operation answers 204
	NoProduces bool `json:"no_produces,omitempty"`
	// Entry2: how the generated-server entry point is driven: "" = RouteInfo + BindValidRequest called directly on a
	// Context made by NewContext; "routable" = the operation handler of a RoutableAPI (RouteInfo, BindValidRequest,
	// Respond) served by the router of a Context made by NewRoutableContext
	Entry2 string `json:"entry2,omitempty"`
	// RouteBinder: the RequestBinder handed to BindValidRequest binds with the route's own reflective binder
	// (route.Binder.Bind(r, route.Params, route.Consumer, &values)) instead of decoding the body with route.Consumer
	// itself: the parameter binders (the formData one among them) then run behind the generated-server entry point too
	RouteBinder bool `json:"entry2_binds_with_route_binder,omitempty"`
	// Siblings: the other operations declared on the SAME path template (other methods), each with a consumes list of
	// its own. With siblings the path declares Method and the siblings' methods only (without: all seven methods, one
	// list). Each request is judged by the declaration of the operation it goes to.
	Siblings []Sibling `json:"sibling_operations,omitempty"`
	// History: the requests served just before this one by the same handlers (the same two Contexts), to this operation
	// or to its siblings, in order; a replay serves them first, unjudged, through both entry points as the run did. State
	// kept across requests is part of what is judged: each request is gated by its own operation's list alone.
	History []Prior `json:"preceding_requests,omitempty"`
}

// Sibling is another operation on the path of the case's operation.
type Sibling struct {
	Method      string   `json:"method"`
	Consumes    []string `json:"consumes"`
	NoBodyParam bool     `json:"no_body_param,omitempty"`
	FormParam   bool     `json:"form_param,omitempty"`
}

// Prior is a request served before the judged one (the request part of a Case).
type Prior struct {
	Method      string `json:"method"`
	HasCT       bool   `json:"has_ct"`
	CT          mon.Q  `json:"ct"`
	HasCT2      bool   `json:"has_second_ct,omitempty"`
	CT2         mon.Q  `json:"second_ct,omitempty"`
	BodyMode    string `json:"body_mode"`
	Payload     mon.Q  `json:"payload"`
	HasAccept   bool   `json:"has_accept,omitempty"`
	Accept      mon.Q  `json:"accept,omitempty"`
	Entry2      string `json:"entry2,omitempty"`
	RouteBinder bool   `json:"entry2_binds_with_route_binder,omitempty"`
}

func priorOf(c *Case) Prior {
	return Prior{Method: c.Method, HasCT: c.HasCT, CT: c.CT, HasCT2: c.HasCT2, CT2: c.CT2, BodyMode: c.BodyMode, Payload: c.Payload,
		HasAccept: c.HasAccept, Accept: c.Accept, Entry2: c.Entry2, RouteBinder: c.RouteBinder}
}

// request is the Case that exec needs to send the prior request again.
func (p *Prior) request() *Case {
	return &Case{Method: p.Method, HasCT: p.HasCT, CT: p.CT, HasCT2: p.HasCT2, CT2: p.CT2, BodyMode: p.BodyMode, Payload: p.Payload,
		HasAccept: p.HasAccept, Accept: p.Accept, Entry2: p.Entry2, RouteBinder: p.RouteBinder}
}

const urlencoded, multipart = "application/x-www-form-urlencoded", "multipart/form-data"

// acceptClass tells whether the Accept header admits the one type the operation produces (none with no_produces):
// absent | acceptable | unacceptable | unjudged (outside the grammar C07's reference is defined on).
func acceptClass(c *Case) string {
	if !c.HasAccept {
		return "absent"
	}
	p := accept.ParseStrict([]string{string(c.Accept)}, true)
	if !p.Judged {
		return "unjudged"
	}
	offers := []string{"application/json"}
	if c.NoProduces {
		offers = nil // nothing is declared: no header admits anything
	}
	if accept.Select(true, p.Ranges, offers, true).None {
		return "unacceptable"
	}
	return "acceptable"
}

var methods = []string{"GET", "PUT", "POST", "DELETE", "OPTIONS", "HEAD", "PATCH"}

var concretePool = []string{
	"application/json", "application/xml", "application/x-yaml", "application/vnd.api+json",
	"application/octet-stream", "application/pdf", "text/plain", "text/html", "text/csv",
	"image/png", "image/jpeg", "audio/mpeg",
	// the two form media types: for them the gate is the only enforcement (the formData binder takes either)
	urlencoded, multipart,
}

var wildcardKeys = []string{"*/*", "application/*", "text/*", "image/*"}

func bodyModeHasBody(mode string) bool {
	switch mode {
	case "cl", "cl+hdr", "chunked", "unknown-length", "tcp-cl", "tcp-chunked":
		return true
	}
	return false
}

// ---------------------------------------------------------------------------------------------
// reference model (written from the statement, RFC 7231 3.1.1.1 and RFC 7230 3.2.6)
// ---------------------------------------------------------------------------------------------

type hdrKind int

const (
	hAbsent hdrKind = iota
	hEmpty
	hValid
	hMalformed
	hGray
)

func (k hdrKind) String() string {
	return [...]string{"absent", "empty", "valid", "malformed", "grey"}[k]
}

func isTchar(b byte) bool {
	switch {
	case b >= 'a' && b <= 'z', b >= 'A' && b <= 'Z', b >= '0' && b <= '9':
		return true
	}
	return strings.IndexByte("!#$%&'*+-.^_`|~", b) >= 0
}

func isToken(s string) bool {
	if s == "" {
		return false
	}
	for i := 0; i < len(s); i++ {
		if !isTchar(s[i]) {
			return false
		}
	}
	return true
}

func trimOWS(s string) string { return strings.Trim(s, " \t") }

// classifyCT decides what the Content-Type value is: a well-formed media type (with its lower-cased
// type/subtype), clearly malformed, or in the grey zone (mt then holds the lenient reading).
func classifyCT(has bool, v string) (hdrKind, string) {
	if !has {
		return hAbsent, "application/octet-stream"
	}
	if v == "" {
		return hEmpty, "application/octet-stream"
	}
	base, rest := v, ""
	hasParams := false
	if i := strings.IndexByte(v, ';'); i >= 0 {
		base, rest, hasParams = v[:i], v[i+1:], true
	}
	base = trimOWS(base)
	// type "/" subtype
	slash := strings.IndexByte(base, '/')
	grayBase := false
	if slash < 0 && isToken(base) {
		// not a media type for RFC 7231, but a lone token is what Go's mime parser accepts (it also
		// serves Content-Disposition): "cannot be parsed" is debatable, so 400 or 415-as-that-type both pass
		return hGray, strings.ToLower(base)
	}
	if slash <= 0 || slash == len(base)-1 || strings.Count(base, "/") != 1 {
		return hMalformed, ""
	}
	for i := 0; i < len(base); i++ {
		b := base[i]
		if i == slash || isTchar(b) {
			continue
		}
		if b == '{' || b == '}' { // RFC 2045 tokens allow them, RFC 7230 tokens do not
			grayBase = true
			continue
		}
		return hMalformed, ""
	}
	mt := strings.ToLower(base)
	if grayBase {
		return hGray, mt
	}
	if !hasParams {
		return hValid, mt
	}
	// parameters: *( OWS ";" OWS token "=" ( token / quoted-string ) ), unique names, no RFC 2231 forms
	seen := map[string]bool{}
	for {
		// rest is what follows a ';'
		rest = strings.TrimLeft(rest, " \t")
		eq := strings.IndexByte(rest, '=')
		if eq <= 0 {
			return hGray, mt
		}
		name := rest[:eq]
		if !isToken(name) || strings.Contains(name, "*") {
			return hGray, mt
		}
		ln := strings.ToLower(name)
		if seen[ln] {
			return hGray, mt
		}
		seen[ln] = true
		rest = rest[eq+1:]
		if strings.HasPrefix(rest, "\"") {
			j := 1
			for j < len(rest) && rest[j] != '"' {
				c := rest[j]
				if c == '\\' || c < 0x20 && c != '\t' || c >= 0x7f {
					return hGray, mt
				}
				j++
			}
			if j >= len(rest) {
				return hGray, mt
			}
			rest = rest[j+1:]
		} else {
			j := 0
			for j < len(rest) && isTchar(rest[j]) {
				j++
			}
			if j == 0 {
				return hGray, mt
			}
			rest = rest[j:]
		}
		rest = strings.TrimLeft(rest, " \t")
		if rest == "" {
			return hValid, mt
		}
		if rest[0] != ';' {
			return hGray, mt
		}
		rest = rest[1:]
	}
}

// spelling names the surface features of a header value (used in signatures and fingerprints).
func spelling(v string) string {
	var f []string
	base := v
	if i := strings.IndexByte(v, ';'); i >= 0 {
		base = v[:i]
		f = append(f, "params")
		if strings.ContainsAny(v[i:], " \t") || strings.ContainsAny(base, " \t") {
			f = append(f, "ows")
		}
	}
	if base != strings.ToLower(base) {
		f = append(f, "uppercase")
	}
	if len(f) == 0 {
		return "plain"
	}
	return strings.Join(f, "+")
}

func stripEntry(e string) (base string, hasParams bool) {
	if i := strings.IndexByte(e, ';'); i >= 0 {
		return strings.ToLower(trimOWS(e[:i])), true
	}
	return strings.ToLower(trimOWS(e)), false
}

// admission returns how mt is admitted by consumes ∪ {default} ("" = not admitted).
func admission(consumes []string, def, mt string) string {
	exact, viaDefault, withParams, typeWild, anyWild := false, false, false, false, false
	typ := mt
	if i := strings.IndexByte(mt, '/'); i >= 0 {
		typ = mt[:i]
	}
	for _, e := range consumes {
		b, p := stripEntry(e)
		switch {
		case b == mt && !p:
			exact = true
		case b == mt && p:
			withParams = true
		case b == typ+"/*":
			typeWild = true
		case b == "*/*":
			anyWild = true
		}
	}
	if def != "" {
		b, _ := stripEntry(def)
		switch {
		case b == mt:
			viaDefault = true
		case b == typ+"/*":
			typeWild = true
		case b == "*/*":
			anyWild = true
		}
	}
	switch {
	case exact:
		return "exact"
	case viaDefault:
		return "default"
	case withParams:
		return "entry-with-params"
	case typeWild:
		return "type-wildcard"
	case anyWild:
		return "any-wildcard"
	}
	return ""
}

func contains(l []string, s string) bool {
	for _, e := range l {
		if e == s {
			return true
		}
	}
	return false
}

// wildcardKeyMatches reports whether a consumer registered under key (a wildcard key) covers mt.
func wildcardKeyMatches(key, mt string) bool {
	if key == "*/*" {
		return true
	}
	if strings.HasSuffix(key, "/*") {
		return strings.HasPrefix(mt, key[:len(key)-1])
	}
	return false
}

// expectation of the statement for one case.
type expectation struct {
	hasBody   bool
	kind      hdrKind
	mt        string // media type of the request (lenient reading for grey values)
	admit     string // admission class, "" = not admitted
	emptyList bool   // consumes ∪ {default} is empty
	consumer  string // tag of the consumer registered for mt ("" = none registered under that key)
	verdict   string // skip | accept | noreg | refuse415 | refuse400 | grey
	accept    string // acceptClass of the request
}

// notAcceptable: the request may legitimately be stopped by the response-format check (C07's 406 clause).
func (e *expectation) notAcceptable() bool {
	return e.accept == "unacceptable" || e.accept == "unjudged"
}

func expect(c *Case) expectation {
	e := expectation{hasBody: bodyModeHasBody(c.BodyMode), accept: acceptClass(c)}
	e.kind, e.mt = classifyCT(c.HasCT, string(c.CT))
	e.emptyList = len(c.Consumes) == 0 && c.Default == ""
	if e.mt != "" {
		e.admit = admission(c.Consumes, c.Default, e.mt)
		if contains(c.Registered, e.mt) {
			e.consumer = e.mt
		}
	}
	switch {
	case !e.hasBody:
		e.verdict = "skip"
	case e.kind == hMalformed:
		e.verdict = "refuse400"
	case e.kind == hGray || e.kind == hEmpty:
		e.verdict = "grey"
	case e.admit == "":
		e.verdict = "refuse415"
	case e.consumer == "":
		e.verdict = "noreg"
	default:
		e.verdict = "accept"
	}
	return e
}

// ---------------------------------------------------------------------------------------------
// environment: description + API + context (+ loopback server on demand)
// ---------------------------------------------------------------------------------------------

type observation struct {
	Status    int      `json:"status"`
	Consumers []string `json:"consumers,omitempty"` // tags of the consumers whose Consume ran, in order
	BodySeen  []mon.Q  `json:"body_seen,omitempty"` // what each of them read
	Handler   int      `json:"handler"`             // entry 1: operation handler runs; entry 2: binder runs that returned nil
	RouteCons string   `json:"route_consumer,omitempty"`
	Panic     string   `json:"panic,omitempty"`
	Err       string   `json:"err,omitempty"`
	NoRoute   bool     `json:"no_route,omitempty"`
	Transport string   `json:"transport_error,omitempty"`
}

type env struct {
	ctx     *middleware.Context
	handler http.Handler
	nops    int
	// the same registrations behind a RoutableAPI, served by a Context made by NewRoutableContext
	rctx     *middleware.Context
	rhandler http.Handler

	mu  sync.Mutex
	cur *observation
	// routeBinder: the RequestBinder of the request being served binds with route.Binder (Case.RouteBinder)
	routeBinder bool

	srv *httptest.Server
	cli *http.Client
}

type taggedConsumer struct {
	tag string
	e   *env
}

func (t *taggedConsumer) Consume(r io.Reader, _ interface{}) error {
	b, _ := io.ReadAll(r)
	t.e.mu.Lock()
	if t.e.cur != nil {
		t.e.cur.Consumers = append(t.e.cur.Consumers, t.tag)
		t.e.cur.BodySeen = append(t.e.cur.BodySeen, mon.Q(b))
	}
	t.e.mu.Unlock()
	return nil
}

func consumerTag(c runtime.Consumer) string {
	switch t := c.(type) {
	case nil:
		return "<nil>"
	case *taggedConsumer:
		return t.tag
	default:
		return fmt.Sprintf("<foreign %T>", c)
	}
}

// recBinder is what a generated server's parameter struct does: decode the body with route.Consumer.
type recBinder struct{ e *env }

func (b *recBinder) BindRequest(r *http.Request, route *middleware.MatchedRoute) error {
	b.e.mu.Lock()
	if b.e.cur != nil {
		b.e.cur.RouteCons = consumerTag(route.Consumer)
	}
	viaRouteBinder := b.e.routeBinder
	b.e.mu.Unlock()
	if viaRouteBinder {
		if route.Binder == nil {
			return errors.New(http.StatusInternalServerError, "binder: the matched route carries no Binder")
		}
		bound := map[string]interface{}{}
		if err := route.Binder.Bind(r, route.Params, route.Consumer, &bound); err != nil {
			return err
		}
		b.e.mu.Lock()
		if b.e.cur != nil {
			b.e.cur.Handler++
		}
		b.e.mu.Unlock()
		return nil
	}
	declaresBody := false
	if route.Operation != nil {
		for _, p := range route.Operation.Parameters {
			if p.In == "body" {
				declaresBody = true
			}
		}
	}
	if declaresBody && runtime.HasBody(r) {
		defer r.Body.Close()
		if route.Consumer == nil {
			return errors.New(http.StatusInternalServerError, "binder: body present but route.Consumer is nil")
		}
		var v interface{}
		if err := route.Consumer.Consume(r.Body, &v); err != nil {
			return err
		}
	}
	b.e.mu.Lock()
	if b.e.cur != nil {
		b.e.cur.Handler++
	}
	b.e.mu.Unlock()
	return nil
}

type opSpec struct {
	consumes []string
	noParam  bool // the operation declares no parameter (no body parameter)
	form     bool // the operation declares an optional formData parameter instead of the body parameter
	// with siblings: the path declares this operation under method only, and the siblings under theirs
	method   string
	siblings []Sibling
}

// methodOp is one declared operation of a path.
type methodOp struct {
	method   string
	consumes []string
	noParam  bool
	form     bool
}

// declared lists the operations the path of op declares: all seven methods with op's list, or op and its siblings.
func (op opSpec) declared() []methodOp {
	var l []methodOp
	if len(op.siblings) == 0 || op.method == "" {
		for _, mth := range methods {
			l = append(l, methodOp{mth, op.consumes, op.noParam, op.form})
		}
		return l
	}
	l = append(l, methodOp{op.method, op.consumes, op.noParam, op.form})
	for _, sb := range op.siblings {
		if sb.Method != op.method {
			l = append(l, methodOp{sb.Method, sb.Consumes, sb.NoBodyParam, sb.FormParam})
		}
	}
	return l
}

// buildEnv creates a description with operations /o<i> (all seven methods each), op i consuming
// ops[i].consumes (or, with global, the spec-level list ops[0].consumes and no per-operation list).
func buildEnv(ops []opSpec, global bool, def string, registered []string, noProduces bool, specConsumes ...string) (*env, error) {
	e := &env{nops: len(ops)}
	paths := map[string]interface{}{}
	for i, op := range ops {
		item := map[string]interface{}{}
		for _, op := range op.declared() {
			mth := op.method
			o := map[string]interface{}{
				"operationId": fmt.Sprintf("o%d%s", i, strings.ToLower(mth)),
				"responses":   map[string]interface{}{"200": map[string]interface{}{"description": "ok"}},
			}
			if noProduces {
				o["responses"] = map[string]interface{}{"204": map[string]interface{}{"description": "done"}}
			}
			if op.form {
				o["parameters"] = []interface{}{map[string]interface{}{"name": "f", "in": "formData", "type": "string"}}
			} else if !op.noParam {
				o["parameters"] = []interface{}{map[string]interface{}{
					"name": "body", "in": "body", "schema": map[string]interface{}{"type": "object"},
				}}
			}
			if !global && len(op.consumes) > 0 {
				o["consumes"] = op.consumes
			}
			item[strings.ToLower(mth)] = o
		}
		paths[fmt.Sprintf("/o%d", i)] = item
	}
	doc := map[string]interface{}{
		"swagger":  "2.0",
		"info":     map[string]interface{}{"title": "c06", "version": "1"},
		"basePath": "/",
		"produces": []string{"application/json"},
		"paths":    paths,
	}
	if noProduces {
		delete(doc, "produces")
	}
	if global && len(ops) > 0 && len(ops[0].consumes) > 0 {
		doc["consumes"] = ops[0].consumes
	} else if !global && len(specConsumes) > 0 {
		doc["consumes"] = specConsumes // operations with a list of their own override it
	}
	raw, err := json.Marshal(doc)
	if err != nil {
		return nil, err
	}
	ld, err := loads.Analyzed(raw, "")
	if err != nil {
		return nil, err
	}
	api := untyped.NewAPI(ld).WithoutJSONDefaults()
	if !noProduces {
		api.DefaultProduces = "application/json"
		api.RegisterProducer("application/json", runtime.JSONProducer())
	}
	api.DefaultConsumes = def
	for _, k := range registered {
		api.RegisterConsumer(k, &taggedConsumer{tag: k, e: e})
	}
	for i := range ops {
		for _, d := range ops[i].declared() {
			api.RegisterOperation(d.method, fmt.Sprintf("/o%d", i), runtime.OperationHandlerFunc(func(interface{}) (interface{}, error) {
				e.mu.Lock()
				if e.cur != nil {
					e.cur.Handler++
				}
				e.mu.Unlock()
				return map[string]string{"ok": "1"}, nil
			}))
		}
	}
	e.ctx = middleware.NewContext(ld, api, nil)
	e.handler = e.ctx.RoutesHandler(nil)
	// the generated-server twin: same registrations, operation handlers that run RouteInfo, BindValidRequest, Respond
	g := gen.NewGeneratedAPI(api)
	op := gen.GeneratedOp{
		NewBinder: func() middleware.RequestBinder { return &recBinder{e: e} },
		Handle: func(*http.Request, middleware.RequestBinder, interface{}) interface{} {
			return map[string]string{"ok": "1"}
		},
	}
	for i := range ops {
		for _, d := range ops[i].declared() {
			g.Operation(d.method, fmt.Sprintf("/o%d", i), op)
		}
	}
	e.rctx = middleware.NewRoutableContext(ld, g, nil)
	g.SetContext(e.rctx)
	e.rhandler = e.rctx.RoutesHandler(nil)
	return e, nil
}

func (e *env) close() {
	if e.srv != nil {
		e.cli.CloseIdleConnections()
		e.srv.Close()
		e.srv = nil
	}
}

func (e *env) begin() *observation {
	o := &observation{}
	e.mu.Lock()
	e.cur = o
	e.mu.Unlock()
	return o
}

func (e *env) end() {
	e.mu.Lock()
	e.cur = nil
	e.mu.Unlock()
}

func statusOfError(err error) int {
	if err == nil {
		return http.StatusOK
	}
	rec := httptest.NewRecorder()
	errors.ServeError(rec, nil, err)
	return rec.Code
}

// entry2 runs Context.BindValidRequest on a routed request.
func (e *env) entry2(r *http.Request) (status int, noRoute bool, errText string) {
	route, rr, ok := e.ctx.RouteInfo(r)
	if !ok || route == nil {
		return http.StatusNotFound, true, ""
	}
	if rr != nil {
		r = rr
	}
	err := e.ctx.BindValidRequest(r, route, &recBinder{e: e})
	if err != nil {
		errText = err.Error()
		if ce, isC := err.(*errors.CompositeError); isC && len(ce.Errors) > 0 {
			var parts []string
			for _, x := range ce.Errors {
				parts = append(parts, x.Error())
			}
			errText = strings.Join(parts, " | ")
		}
	}
	return statusOfError(err), false, errText
}

func (e *env) startServer() {
	if e.srv != nil {
		return
	}
	e.srv = httptest.NewServer(http.HandlerFunc(func(w http.ResponseWriter, r *http.Request) {
		if r.Header.Get("X-Verif-Entry") == "2r" {
			r.Header.Del("X-Verif-Entry")
			e.rhandler.ServeHTTP(w, r)
			return
		}
		if r.Header.Get("X-Verif-Entry") == "2" {
			r.Header.Del("X-Verif-Entry")
			st, noRoute, errText := e.entry2(r)
			e.mu.Lock()
			if e.cur != nil {
				e.cur.NoRoute = noRoute
				e.cur.Err = errText
			}
			e.mu.Unlock()
			w.WriteHeader(st)
			return
		}
		e.handler.ServeHTTP(w, r)
	}))
	e.cli = &http.Client{Transport: &http.Transport{}}
}

// memRequest builds the in-memory request of a case.
func memRequest(c *Case, path string) *http.Request {
	p := []byte(string(c.Payload))
	r := &http.Request{
		Method:     c.Method,
		URL:        &url.URL{Path: path},
		Proto:      "HTTP/1.1",
		ProtoMajor: 1,
		ProtoMinor: 1,
		Header:     http.Header{},
		Host:       "c06.test",
		Body:       http.NoBody,
	}
	if c.HasCT {
		r.Header["Content-Type"] = []string{string(c.CT)}
		if c.HasCT2 {
			r.Header["Content-Type"] = []string{string(c.CT), string(c.CT2)}
		}
	}
	if c.HasAccept {
		r.Header["Accept"] = []string{string(c.Accept)}
	}
	switch c.BodyMode {
	case "cl":
		r.ContentLength = int64(len(p))
		r.Body = io.NopCloser(bytes.NewReader(p))
	case "cl+hdr":
		r.ContentLength = int64(len(p))
		r.Header["Content-Length"] = []string{strconv.Itoa(len(p))}
		r.Body = io.NopCloser(bytes.NewReader(p))
	case "chunked":
		r.ContentLength = -1
		r.TransferEncoding = []string{"chunked"}
		r.Body = io.NopCloser(bytes.NewReader(p))
	case "chunked-empty":
		r.ContentLength = -1
		r.TransferEncoding = []string{"chunked"}
		r.Body = io.NopCloser(bytes.NewReader(nil))
	case "unknown-length": // an HTTP/2 or close-delimited body: length unknown, no transfer coding
		r.ContentLength = -1
		r.Body = io.NopCloser(bytes.NewReader(p))
	case "unknown-length-empty":
		r.ContentLength = -1
		r.Body = io.NopCloser(bytes.NewReader(nil))
	case "cl0+hdr":
		r.ContentLength = 0
		r.Header["Content-Length"] = []string{"0"}
	case "none":
	}
	return r
}

// exec runs the case's request against operation opIdx of the environment through one entry point.
func (e *env) exec(c *Case, opIdx int, entry int) *observation {
	path := fmt.Sprintf("/o%d", opIdx)
	o := e.begin()
	defer e.end()
	e.mu.Lock()
	e.routeBinder = entry == 2 && c.RouteBinder
	e.mu.Unlock()
	if strings.HasPrefix(c.BodyMode, "tcp-") {
		e.startServer()
		p := []byte(string(c.Payload))
		var body io.Reader
		switch c.BodyMode {
		case "tcp-cl":
			body = bytes.NewReader(p)
		case "tcp-chunked":
			body = struct{ io.Reader }{bytes.NewReader(p)} // unknown length: the transport sends it chunked
		}
		req, err := http.NewRequest(c.Method, e.srv.URL+path, body)
		if err != nil {
			o.Transport = err.Error()
			return o
		}
		if c.HasCT {
			req.Header["Content-Type"] = []string{string(c.CT)}
			if c.HasCT2 {
				req.Header["Content-Type"] = []string{string(c.CT), string(c.CT2)}
			}
		}
		if c.HasAccept {
			req.Header["Accept"] = []string{string(c.Accept)}
		}
		if entry == 2 {
			req.Header.Set("X-Verif-Entry", "2")
			if c.Entry2 == "routable" {
				req.Header.Set("X-Verif-Entry", "2r")
			}
		}
		res, err := e.cli.Do(req)
		if err != nil {
			o.Transport = err.Error()
			return o
		}
		_, _ = io.Copy(io.Discard, res.Body)
		res.Body.Close()
		e.mu.Lock()
		o.Status = res.StatusCode
		e.mu.Unlock()
		return o
	}
	r := memRequest(c, path)
	if entry == 1 || c.Entry2 == "routable" {
		h := e.handler
		if entry == 2 {
			h = e.rhandler
		}
		rec := httptest.NewRecorder()
		pv, st := mon.Catch(func() { h.ServeHTTP(rec, r) })
		if pv != nil {
			o.Panic = fmt.Sprintf("%v\n%s", pv, st)
			return o
		}
		o.Status = rec.Code
		if rec.Code >= 400 {
			o.Err = strings.TrimSpace(rec.Body.String())
		}
		return o
	}
	pv, st := mon.Catch(func() {
		status, noRoute, errText := e.entry2(r)
		o.Status, o.NoRoute, o.Err = status, noRoute, errText
	})
	if pv != nil {
		o.Panic = fmt.Sprintf("%v\n%s", pv, st)
	}
	return o
}

// ---------------------------------------------------------------------------------------------
// oracle
// ---------------------------------------------------------------------------------------------

type finding struct {
	code    string // failure mode
	feature string // input feature class that explains it
	text    string
}

func (e *expectation) admitFeature(c *Case) string {
	f := e.admit
	if f == "exact" || f == "default" {
		if e.kind == hAbsent {
			return f + "/no-content-type-header" + e.extraFeature(c)
		}
		f += "/" + spelling(string(c.CT))
	}
	return f + e.extraFeature(c)
}

func (e *expectation) refuseFeature(c *Case) string {
	f := ""
	switch {
	case e.emptyList:
		f = "empty-consumes-no-default"
	case e.kind == hAbsent:
		f = "no-content-type-header"
	default:
		f = "header-" + spelling(string(c.CT))
	}
	return f + e.extraFeature(c)
}

// extraFeature names the input features beyond the original workload (old signatures stay as they were).
func (e *expectation) extraFeature(c *Case) string {
	f := ""
	if owsEntryFor(c, e.mt) {
		f += "+entry-with-ows-before-semicolon"
	}
	if e.notAcceptable() {
		f += "+unacceptable-accept"
	}
	if c.NoBodyParam {
		f += "+operation-without-body-parameter"
	}
	if c.FormParam {
		f += "+formdata-operation"
	}
	if len(c.SpecConsumes) > 0 {
		f += "+spec-level-list-next-to-the-operation's"
	}
	if c.HasCT && c.HasCT2 {
		f += "+second-content-type-line"
	}
	if c.NoProduces {
		f += "+operation-that-produces-nothing"
	}
	if c.BodyMode == "unknown-length" || c.BodyMode == "unknown-length-empty" {
		f += "+unknown-length-without-transfer-coding"
	}
	f += historyFeature(c)
	return f
}

// historyFeature names what of the description and of the handler's past the case carries beyond its own operation
// and request: sibling operations on the path, and requests served before.
func historyFeature(c *Case) string {
	if len(c.History) > 0 {
		for i := range c.History {
			if c.History[i].Method != c.Method {
				return "+after-requests-to-sibling-operations-on-the-path"
			}
		}
		return "+after-earlier-requests-to-the-operation"
	}
	if len(c.Siblings) > 0 {
		return "+sibling-operations-with-lists-of-their-own-on-the-path"
	}
	return ""
}

// formSkipFeature names, for a body-less request to a formData operation, what its Content-Type header says (the
// header describes no body; the operation's own parameter binder is the second place that may look at it).
func formSkipFeature(e *expectation) string {
	switch {
	case e.kind == hAbsent:
		return ""
	case e.kind != hValid:
		return "+" + e.kind.String() + "-content-type-on-a-bodyless-form-request"
	case e.mt == urlencoded || e.mt == multipart:
		return "+form-content-type-on-a-bodyless-form-request"
	}
	return "+non-form-content-type-on-a-bodyless-form-request"
}

// owsEntryFor: the consumes list (or the API default) names mt with an entry that has whitespace before its ';'.
func owsEntryFor(c *Case, mt string) bool {
	if mt == "" {
		return false
	}
	for _, e := range append(append([]string{}, c.Consumes...), c.Default) {
		if i := strings.IndexByte(e, ';'); i > 0 && (e[i-1] == ' ' || e[i-1] == '\t') {
			if b, _ := stripEntry(e); b == mt {
				return true
			}
		}
	}
	return false
}

func sameBytes(seen []mon.Q, payload mon.Q) bool {
	for _, s := range seen {
		if string(s) != string(payload) {
			return false
		}
	}
	return true
}

// judgeEntry compares one entry point's observation with the expectation.
func judgeEntry(c *Case, e *expectation, o *observation) []finding {
	var fs []finding
	add := func(code, feature, format string, args ...interface{}) {
		fs = append(fs, finding{code, feature, fmt.Sprintf(format, args...)})
	}
	if o.Transport != "" {
		return nil // harness-level trouble, counted by the caller
	}
	if o.Panic == "" && (o.NoRoute || o.Status == http.StatusNotFound || o.Status == http.StatusMethodNotAllowed) {
		// every case goes to a path and method the description declares
		add("declared-operation-not-routed", c.Method+e.extraFeature(c), "%s to a declared operation: status %d, route found by RouteInfo=%v (%s)", c.Method, o.Status, !o.NoRoute, o.Err)
		return fs
	}
	if o.Panic != "" {
		feat := e.verdict
		if !e.hasBody {
			feat = "no-body"
		}
		add("panic", feat, "panic: %s", o.Panic)
		return fs
	}
	ran := len(o.Consumers) > 0
	if c.HasCT && c.HasCT2 {
		// two Content-Type field lines: which of them is "its media type" is not the statement's business. Judged: a
		// body whose lines BOTH name a non-admitted (or unparsable) type is refused with nothing run; a consumer that
		// runs is the one registered for an admitted type one of the lines names; (and the entry points agree)
		c2 := *c
		c2.CT, c2.HasCT2 = c.CT2, false
		e2 := expect(&c2)
		refused := func(v string) bool { return v == "refuse415" || v == "refuse400" }
		feat := "both-lines-non-admitted" + e.extraFeature(c)
		if e.hasBody && refused(e.verdict) && refused(e2.verdict) {
			if ran {
				add("consumer-ran-for-non-admitted", feat, "consumers %v ran for Content-Type lines %q, %q", o.Consumers, string(c.CT), string(c.CT2))
			}
			if o.Handler > 0 {
				add("handler-ran-for-non-admitted", feat, "handler ran for Content-Type lines %q, %q (status %d)", string(c.CT), string(c.CT2), o.Status)
			}
			if o.Status != 415 && o.Status != 400 {
				add(fmt.Sprintf("non-admitted-status-%d", o.Status), feat, "Content-Type lines %q, %q (consumes %v, default %q): status %d, expected 415 or 400 (%s)", string(c.CT), string(c.CT2), c.Consumes, c.Default, o.Status, o.Err)
			}
			return fs
		}
		for _, t := range o.Consumers {
			ok1 := e.admit != "" && (t == e.mt || (e.consumer == "" && wildcardKeyMatches(t, e.mt)))
			ok2 := e2.admit != "" && (t == e2.mt || (e2.consumer == "" && wildcardKeyMatches(t, e2.mt)))
			if !e.hasBody || (!ok1 && !ok2) {
				add("wrong-consumer", "two-content-type-lines"+e.extraFeature(c), "consumer %q ran for Content-Type lines %q, %q (body=%v)", t, string(c.CT), string(c.CT2), e.hasBody)
				break
			}
		}
		return fs
	}
	if c.FormParam && e.verdict == "accept" && e.mt != urlencoded {
		// a formData operation, a request WITH a body: the parameter binder has its own say on the body's type (either
		// form type, whatever the request carries), and a multipart body needs a boundary: only 'no foreign consumer' is
		// judged. (A request WITHOUT a body is judged like any other: "a request without a body is not subjected to the
		// check" - the operation's only parameter is optional, so nothing else can refuse it.)
		for _, t := range o.Consumers {
			if !e.hasBody || (t != e.mt && !wildcardKeyMatches(t, e.mt)) {
				add("wrong-consumer", e.verdict+e.extraFeature(c), "consumer %q ran for a formData operation (request type %q, body=%v)", t, e.mt, e.hasBody)
				break
			}
		}
		return fs
	}
	switch e.verdict {
	case "skip":
		feat := e.kind.String()
		if e.kind == hValid || e.kind == hGray {
			if e.admit == "" {
				feat += "-non-admitted"
			} else {
				feat += "-admitted"
			}
		}
		feat += "/" + c.BodyMode + e.extraFeature(c)
		if c.FormParam {
			feat += formSkipFeature(e)
		}
		if ran {
			add("consumer-ran-without-body", feat, "consumers %v ran although the request carries no body", o.Consumers)
		}
		switch {
		case o.Status == 415 || o.Status == 400:
			add(fmt.Sprintf("bodyless-gated-%d", o.Status), feat, "a request without a body was refused with %d (%s)", o.Status, o.Err)
		case e.notAcceptable() && o.Status == http.StatusNotAcceptable && o.Handler == 0 && !ran:
			// stopped by the response-format check, not by the gate
		case o.Handler != 1 || o.Status/100 != 2:
			add("bodyless-not-served", feat, "a request without a body: status %d, handler runs %d (%s)", o.Status, o.Handler, o.Err)
		}
	case "accept":
		feat := e.admitFeature(c)
		switch {
		case e.notAcceptable() && !ran && o.Handler == 0 && o.Status == http.StatusNotAcceptable:
			// admitted by the gate, stopped by the response-format check: nothing ran
		case !ran && o.Handler == 0 && o.Status == 415:
			add("admitted-refused-415", feat, "media type %q is admitted (%s) but the answer is 415 (%s)", e.mt, e.admit, o.Err)
		case !ran && o.Handler == 0 && o.Status == 400:
			add("admitted-refused-400", feat, "media type %q is admitted (%s) and the header is well-formed but the answer is 400 (%s)", e.mt, e.admit, o.Err)
		case !ran && o.Handler == 0 && o.Status == 500:
			add("admitted-no-consumer-500", feat, "media type %q is admitted (%s) and a consumer is registered for it, but the answer is 500 (%s)", e.mt, e.admit, o.Err)
		case !ran && o.Handler == 0:
			add("admitted-refused-other", feat, "media type %q is admitted (%s) but status %d, nothing ran (%s)", e.mt, e.admit, o.Status, o.Err)
		default:
			switch {
			case len(o.Consumers) == 1 && o.Consumers[0] == e.consumer:
			case !ran && (c.NoBodyParam || c.FormParam):
				// nothing asks for the body of an operation without body parameter; a form is not decoded by a consumer
			case !ran:
				add("admitted-not-consumed", feat, "handler ran (status %d) but no consumer decoded the body of admitted type %q", o.Status, e.mt)
			case len(o.Consumers) > 1 && allEqual(o.Consumers, e.consumer):
				add("consumed-more-than-once", feat, "consumer %q ran %d times", e.consumer, len(o.Consumers))
			default:
				add("wrong-consumer", feat, "consumers %v ran, expected exactly the one registered for %q", o.Consumers, e.mt)
			}
			if o.Handler != 1 || o.Status/100 != 2 {
				add("admitted-consumed-not-served", feat, "consumer ran for %q but status %d, handler runs %d (%s)", e.mt, o.Status, o.Handler, o.Err)
			}
			if ran && !sameBytes(o.BodySeen, c.Payload) {
				add("body-bytes-altered", c.BodyMode, "consumer read %q, sent %q", o.BodySeen, string(c.Payload))
			}
		}
	case "noreg":
		for _, t := range o.Consumers {
			if t != e.mt && !wildcardKeyMatches(t, e.mt) {
				add("wrong-consumer", e.admitFeature(c)+"/none-registered", "consumer %q ran for %q", t, e.mt)
				break
			}
		}
	case "refuse415", "refuse400":
		feat := e.refuseFeature(c)
		what, want := "non-admitted", 415
		if e.verdict == "refuse400" {
			what, want = "malformed", 400
			feat = "malformed-header" + e.extraFeature(c)
		}
		if ran {
			add("consumer-ran-for-"+what, feat, "consumers %v ran for %s Content-Type %q", o.Consumers, what, string(c.CT))
		}
		if o.Handler > 0 {
			add("handler-ran-for-"+what, feat, "handler ran for %s Content-Type %q (status %d)", what, string(c.CT), o.Status)
		}
		if o.Status != want {
			add(fmt.Sprintf("%s-status-%d", what, o.Status), feat, "%s Content-Type %q (consumes %v, default %q): status %d, expected %d (%s)", what, string(c.CT), c.Consumes, c.Default, o.Status, want, o.Err)
		}
	case "grey":
		feat := "grey-header"
		if e.kind == hEmpty {
			feat = "empty-header"
		}
		if e.admit == "" {
			if ran {
				add("consumer-ran-for-non-admitted", feat, "consumers %v ran for Content-Type %q whose lenient reading %q is not admitted", o.Consumers, string(c.CT), e.mt)
			}
			if o.Handler > 0 {
				add("handler-ran-for-non-admitted", feat, "handler ran for Content-Type %q whose lenient reading %q is not admitted", string(c.CT), e.mt)
			}
		} else {
			for _, t := range o.Consumers {
				if t != e.mt && !(e.consumer == "" && wildcardKeyMatches(t, e.mt)) {
					add("wrong-consumer", feat, "consumer %q ran for Content-Type %q (lenient reading %q)", t, string(c.CT), e.mt)
					break
				}
			}
		}
	}
	return fs
}

func allEqual(l []string, s string) bool {
	for _, e := range l {
		if e != s {
			return false
		}
	}
	return true
}

func outcomeClass(o *observation) string {
	switch {
	case o.Panic != "":
		return "panic"
	case o.Status/100 == 2:
		return "accepted"
	default:
		return fmt.Sprintf("refused-%d", o.Status)
	}
}

// judge evaluates both observations; findings shared by both entry points are reported once.
func judge(c *Case, e *expectation, o1, o2 *observation) []finding {
	f1 := judgeEntry(c, e, o1)
	f2 := judgeEntry(c, e, o2)
	var out []finding
	key := func(f finding) string { return f.code + "/" + f.feature }
	in2 := map[string]bool{}
	for _, f := range f2 {
		in2[key(f)] = true
	}
	in1 := map[string]bool{}
	for _, f := range f1 {
		in1[key(f)] = true
		where := "untyped pipeline"
		if in2[key(f)] {
			where = "both entry points"
		}
		f.text = where + ": " + f.text
		out = append(out, f)
	}
	// what only the generated-server entry point shows, or what the two disagree on, names the way that entry was driven
	rsuf, where2 := "", "BindValidRequest"
	if c.Entry2 == "routable" {
		rsuf, where2 = "+routable-context", "BindValidRequest (operation handler of a RoutableAPI on NewRoutableContext)"
	}
	if c.RouteBinder {
		rsuf, where2 = rsuf+"+binding-with-route-binder", where2+", RequestBinder binding with route.Binder"
	}
	for _, f := range f2 {
		if !in1[key(f)] {
			f.text = where2 + ": " + f.text
			f.feature += rsuf
			out = append(out, f)
		}
	}
	// agreement of the two entry points
	// (a formData operation: the reflective binder refuses what is no form, a generated binder need not: agreement is
	// judged where the gate alone decides - refusals, and admitted urlencoded bodies)
	// (a body-less request is served by both: neither the gate nor the form binder has a body to look at)
	formUnjudged := c.FormParam && !(e.verdict == "skip" || e.verdict == "refuse415" || e.verdict == "refuse400" || (e.verdict == "accept" && e.mt == urlencoded))
	if !formUnjudged && o1.Transport == "" && o2.Transport == "" && !o1.NoRoute && !o2.NoRoute && o1.Panic == "" && o2.Panic == "" {
		feat := e.verdict + e.extraFeature(c)
		if e.verdict == "accept" || e.verdict == "noreg" {
			feat = e.admitFeature(c)
		}
		c1, c2 := outcomeClass(o1), outcomeClass(o2)
		feat += rsuf
		if c1 != c2 {
			out = append(out, finding{"entry-points-disagree", feat, fmt.Sprintf("untyped pipeline: %s (%s); %s: %s (%s)", c1, o1.Err, where2, c2, o2.Err)})
		} else if c1 == "accepted" && e.hasBody && !c.NoBodyParam && !c.FormParam {
			// same consumer picked: what entry 1 ran vs what entry 2 found in route.Consumer
			t1 := "<none>"
			if len(o1.Consumers) > 0 {
				t1 = o1.Consumers[0]
			}
			if t1 != o2.RouteCons {
				out = append(out, finding{"entry-points-pick-different-consumers", feat, fmt.Sprintf("untyped pipeline decoded with %s, BindValidRequest set route.Consumer to %s", t1, o2.RouteCons)})
			}
		}
	}
	return out
}

// ---------------------------------------------------------------------------------------------
// running a case
// ---------------------------------------------------------------------------------------------

func fingerprint(c *Case, e *expectation) string {
	sp := ""
	if c.HasCT {
		sp = spelling(string(c.CT))
	}
	return strings.Join([]string{c.Shape, strconv.FormatBool(c.Default != ""), strconv.FormatBool(c.Global), e.verdict, e.admit, e.kind.String(), sp, c.BodyMode, c.Method, e.accept, strconv.FormatBool(c.NoBodyParam), strconv.FormatBool(c.FormParam), strconv.FormatBool(len(c.SpecConsumes) > 0), strconv.FormatBool(c.HasCT2), strconv.FormatBool(c.NoProduces), c.Entry2, strconv.FormatBool(c.RouteBinder), strconv.FormatBool(len(c.Siblings) > 0)}, "|")
}

func shapeOf(consumes []string) string {
	if len(consumes) == 0 {
		return "empty"
	}
	set := map[string]bool{}
	for _, e := range consumes {
		b, p := stripEntry(e)
		switch {
		case b == "*/*":
			set["any"] = true
		case strings.HasSuffix(b, "/*"):
			set["typewild"] = true
		case p:
			set["params"] = true
		default:
			set["concrete"] = true
		}
	}
	var l []string
	for k := range set {
		l = append(l, k)
	}
	sort.Strings(l)
	return strings.Join(l, "+")
}

// evalOn executes the case on operation opIdx of an environment and returns the findings.
func evalOn(m *mon.M, e *env, opIdx int, c *Case) ([]finding, *observation, *observation) {
	if c.Shape == "" {
		c.Shape = shapeOf(c.Consumes)
	}
	ex := expect(c)
	o1 := e.exec(c, opIdx, 1)
	o2 := e.exec(c, opIdx, 2)
	m.Eval(2)
	if o1.Transport != "" || o2.Transport != "" {
		m.Class("transport-error")
	}
	if o1.NoRoute || o2.NoRoute {
		m.Class("no-route")
	}
	m.Class("expect:" + ex.verdict)
	m.Class("status:" + strconv.Itoa(o1.Status))
	m.Class("hdr:" + ex.kind.String())
	m.Class("body:" + c.BodyMode)
	m.Class("accept-header:" + ex.accept)
	if c.NoBodyParam {
		m.Class("operation-without-body-parameter:" + ex.verdict)
	}
	if c.FormParam {
		m.Class("formdata-operation:" + ex.verdict)
	}
	if len(c.SpecConsumes) > 0 {
		m.Class("spec-level-list-next-to-the-operation's:" + ex.verdict)
	}
	if c.HasCT && c.HasCT2 {
		m.Class("second-content-type-line:" + ex.verdict)
	}
	if c.NoProduces {
		m.Class("operation-that-produces-nothing:" + ex.verdict)
	}
	if c.Entry2 == "routable" {
		m.Class("entry2-on-routable-context:" + ex.verdict)
	}
	if c.RouteBinder {
		m.Class("entry2-binds-with-route-binder:" + ex.verdict)
	}
	if len(c.Siblings) > 0 {
		m.Class("sibling-operations-on-the-path:" + ex.verdict)
	}
	if c.FormParam && ex.verdict == "skip" {
		m.Class("formdata-operation:bodyless" + formSkipFeature(&ex))
	}
	if ex.accept != "absent" {
		m.Class("expect:" + ex.verdict + "/accept-" + ex.accept)
	}
	if ex.verdict == "accept" {
		m.Class("admitted:" + ex.admit)
		if len(o1.Consumers) == 1 {
			m.Class("consumer-chosen:" + o1.Consumers[0])
		}
	}
	if ex.hasBody || (ex.kind != hAbsent && (ex.admit == "" || ex.kind != hValid)) {
		m.NT(fingerprint(c, &ex))
	}
	return judge(c, &ex, o1, o2), o1, o2
}

type sample struct {
	Case   *Case        `json:"case"`
	Expect string       `json:"expect"`
	Entry1 *observation `json:"untyped"`
	Entry2 *observation `json:"bind_valid_request"`
}

// isolated executes one case in an environment of its own - a description with the single operation (and its siblings,
// when the case names some), the case's preceding requests served first and unjudged through both entry points - and
// returns the findings.
func isolated(m *mon.M, c *Case) (fs []finding, o1, o2 *observation, ok bool) {
	e, err := buildEnv([]opSpec{{consumes: c.Consumes, noParam: c.NoBodyParam, form: c.FormParam, method: c.Method, siblings: c.Siblings}}, c.Global, c.Default, c.Registered, c.NoProduces, c.SpecConsumes...)
	if err != nil {
		m.Class("env-build-failed")
		return nil, nil, nil, false
	}
	defer e.close()
	for i := range c.History {
		h := c.History[i].request()
		e.exec(h, 0, 1)
		e.exec(h, 0, 2)
	}
	fs, o1, o2 = evalOn(m, e, 0, c)
	return fs, o1, o2, true
}

// runCase executes one case in isolation and reports.
func runCase(m *mon.M, c *Case) int {
	fs, o1, o2, ok := isolated(m, c)
	if !ok {
		return 0
	}
	for _, f := range fs {
		m.Violate(f.code+"/"+f.feature, f.text+fmt.Sprintf("\nconsumes=%q default=%q method=%s body=%s content-type=%s accept=%s body-parameter=%v%s\nuntyped: %+v\nbind_valid_request: %+v",
			c.Consumes, c.Default, c.Method, c.BodyMode, ctText(c), acceptText(c), !c.NoBodyParam, historyText(c), *o1, *o2), c)
	}
	return len(fs)
}

func historyText(c *Case) string {
	var sb strings.Builder
	for _, s := range c.Siblings {
		fmt.Fprintf(&sb, "\nsibling operation %s on the path: consumes=%q", s.Method, s.Consumes)
	}
	for i, h := range c.History {
		ct := "<absent>"
		if h.HasCT {
			ct = strconv.Quote(string(h.CT))
		}
		fmt.Fprintf(&sb, "\npreceding request %d: %s body=%s content-type=%s", i+1, h.Method, h.BodyMode, ct)
	}
	return sb.String()
}

func acceptText(c *Case) string {
	if !c.HasAccept {
		return "<absent>"
	}
	return strconv.Quote(string(c.Accept))
}

func ctText(c *Case) string {
	if !c.HasCT {
		return "<absent>"
	}
	return strconv.Quote(string(c.CT))
}

func replay(m *mon.M, raw json.RawMessage) {
	var c Case
	if err := json.Unmarshal(raw, &c); err != nil {
		m.Violate("bad-replay-case", err.Error(), nil)
		return
	}
	runCase(m, &c)
}
