// Package c01 monitors spec-driven dispatch: path+method select exactly the designated
// operation, parameters are the decoded instantiating texts, 405/Allow and 404 otherwise.
package c01

import (
	"encoding/json"
	"fmt"
	"math/rand"
	"net/http"
	"net/url"
	"path"
	"sort"
	"strings"

	"verif/gen"
	"verif/mon"
)

func init() {
	mon.Register(&mon.Property{
		ID:    "C01",
		Level: "exploration",
		Rule: "seeded API descriptions (base path in {/, '', /api, /api/, /a/b}; 1..12 templates over a 6-word alphabet with {name}, x{name}, {a}.{b}, {a}.json, {a}.pdf / {a}:cancel / {a}.{b}.gz (a literal closing the segment) segments, trailing slashes, root; any method subset) x request targets " +
			"(template instantiations with hostile values under a hostile percent-encoder, then mutated: duplicate/trailing slashes, dot segments, edits) x methods in random letter case; requests are parsed by net/http's own request parser (http.ReadRequest; also real loopback TCP). " +
			"1 request in 4 to a template with a composite segment leaves out, cuts short, re-cases, replaces or extends one literal of that segment (2 in 3 the closing one: /reports/7, /reports/7.csv, /reports/7.pdf.sig for /reports/{id}.pdf). " +
			"One template in 14 is x{a} beside a plain {p} (the kind of prefixed template the unchanged tree dispatches), one in 10 is declared under (nearly) all seven methods; 3 requests in 16 carry Accept: text/x-none / a text/x-none body / no Accept at all. " +
			"3 descriptions in 10 are served through another exported constructor: RoutesHandler(Builder), APIHandler(Builder), Serve, ServeWithBuilder, and (1 in 10) a generated-server style RoutableAPI under NewRoutableContext whose parameter objects read route.Params.Get; a Builder middleware notes MatchedRouteFrom(r).PathPattern/.Params. " +
			"1 placeholder name in 5 (after the first of a template) is derived from an earlier one of the same template: another letter case ({id}/{ID}, {petId}/{petid}), an extension ({id}/{id2}, {id}/{idx}) or a proper prefix; 1 operation in 5 declares optional query / header parameters named like a placeholder (same name, another case, an extension) and 3 requests in 4 to it carry values for them; 1 operation in 4 declares its path parameters in reverse order; descriptions with related names go every second time through a Builder / generated-server entry point. " +
			"Oracle = segment-wise matcher on path.Clean(URL.EscapedPath()) written from the statement; the escaped path is noted BEFORE the library gets the request (TCP: by a wrapper around the library's handler inside the server). non-trivial = (description hash, METHOD, cleaned target) where some template fits under some method or the target shares >= 2 leading segments with a template; distinct by that triple",
		Assumptions: []string{
			"descriptions with two templates of identical shape (after cleaning) are not generated (invalid Swagger)",
			"composite segments ({a}.{b}, {a}.json, x{a}): a split on the encoded or on the decoded segment text is accepted; preference between a partial-literal segment and a pure placeholder is not stated and not judged",
			"targets that net/http's parser rejects (invalid escapes, CTLs) never reach the handler and are not judged",
			"a request that asks for or sends a media type the API does not speak (Accept: text/x-none, Content-Type: text/x-none) and fits a template may be refused with 406/415 without a handler running (class fit-refused-by-media-type-*); if a handler runs it must be the designated one; the 404/405/Allow expectations are unchanged",
			"MatchedRouteFrom(r) seen by a Builder middleware: when present its PathPattern must be the designated template under the base path and Params.Get(name) the value the handler received; its absence is only counted (class matched-route-absent-from-context); a request URL rewritten by the library is only counted (class request-url-rewritten-by-the-library)",
			"related names: what the handler receives is judged by name for every placeholder when a generated-server style binder reads route.Params, and MatchedRouteFrom(r).Params.Get/GetOK seen by a Builder must yield the instantiating text for EVERY placeholder (a mismatch is reported as wrong-path-params). The untyped binder hands the handler one map keyed by parameter name: an entry whose name a query / header parameter of the operation bears too is not judged (class untyped-binder-entry-shared-with-query-or-header-parameter-not-judged: which of the two values lands there follows map order on the unchanged tree); an entry that is ABSENT next to a delivered entry whose name is equal up to letter case and punctuation ({id}/{ID}, {id}/{id_}: the dependency that collects an operation's parameters keys them by Go-ified name and keeps one) is a violation with a signature of its own, path-param-not-delivered/placeholder-names-collide-in-the-parameter-table, recorded as a known finding; the delivered one is judged like any other",
			"signature classes simple/placeholder-names-differ-only-in-case, simple/placeholder-name-prefix-of-another, simple/placeholder-name-related-to-query-or-header-parameter: the request meets (loosely) a template with such names and no composite / prefixed / ':'-'*' template (input feature only)",
			"loopback TCP arm: the listener is opened with 5 attempts, each request is sent up to 3 times on fresh connections; a request that never reached the library's handler and got no answer is counted (tcp-undelivered, note tcp_undelivered), a listener that cannot be opened is counted (tcp-harness-listen-failed, note tcp_listen_failed): neither is ever a violation. A panic of the library under the real server is a violation (the wrapper catches it before net/http does); 'handler returned, no parsable answer' is judged as an answer without status only when all three attempts went that way",
			"signature classes: prefixed-placeholder-segment/routed-as-parameter = every x{a} template the request meets also has a plain {p} segment, no {a}.{b} segment, and the request writes each literal as declared followed by a non-empty text (dispatched by the unchanged tree, never a known finding); .../empty-text-after-literal = the same but a request segment is just the literal; panic/colon-or-star-.../no-two-wildcards-at-one-position = a panic for a request that does not reach two '*' literals at one trie position under one method (the recorded panic needs two)",
			"signature classes of handler-ran-without-fit/composite-segment: the recorded defect (the segment is one parameter of the trie router, split afterwards) leaves the placeholder in front of a literal that the request lacks EMPTY (422 'required' from the untyped binder, an empty text in a generated server). .../text-bound-before-absent-closing-literal = the template whose handler ran has a segment closed by a literal ({id}.pdf, {a}.{b}.gz) that the request's segment does not end with (as sent or decoded), and the handler received a non-empty text for the placeholder in front of it; .../every-placeholder-bound-to-text = the handler received a non-empty text for every placeholder of its template. Neither is covered by a known finding; the unchanged tree runs no handler for such requests through the untyped binder (class no-fit-and-closing-literal-of-composite-absent[-no-handler-ran])",
		},
		MinNontrivial: 300,
		Run:           run,
		Replay:        replay,
	})
}

// Req is one request line.
type Req struct {
	Method string `json:"method"`
	Target mon.Q  `json:"target"`
	// Hdr selects the header variant (see rawRequest); "" = Accept: application/json and no body
	Hdr string `json:"hdr,omitempty"`
	// Extra header lines (name, value): values for header parameters that the operation declares under a name
	// related to one of its placeholders (round 10)
	Extra [][2]string `json:"extra,omitempty"`
}

// Case is one description plus the requests sent to it.
type Case struct {
	Desc     gen.Desc `json:"desc"`
	Requests []Req    `json:"requests"`
	TCP      bool     `json:"tcp,omitempty"`
	// Entry selects the exported way the handler is built (see sut.go); "" = NewContext(...).RoutesHandler(nil)
	Entry string `json:"entry,omitempty"`
}

// ---------- reference model ----------

type segPart struct {
	lit  string // literal text (when name == "")
	name string
}

type refTemplate struct {
	op       *gen.Op
	full     string      // the cleaned template under the base path
	segs     [][]segPart // per segment of the cleaned, joined template
	trailing bool        // the declared template ends in '/' (or is the root under a non-root base path)
	compos   bool        // some segment starts with a placeholder and continues ({a}.{b}, {a}.json)
	prefixed bool        // some segment has a literal before its first placeholder (x{a})
	// input features used for signatures only: some segment BEGINS with a placeholder ({p}, {a}.json);
	// every segment with a literal before its placeholder is exactly literal + one placeholder (x{a})
	leadingPlaceholder bool
	simplePrefixed     bool
	// structAt >= 0: the template has placeholders AND its pure-literal segment structAt holds a ':' or
	// '*' after its first byte ("items:batchGet", "a*w9"), which the trie router reads as a parameter or
	// wildcard; structPrefix is the literal text before that byte, structStar tells which one it is
	structAt     int
	structPrefix string
	structStar   bool
	// starAt >= 0: the first pure-literal segment with a '*' after its first byte (it may come after a literal
	// with a ':'); starPrefix is the text before the '*'
	starAt     int
	starPrefix string
}

func parseSeg(s string) []segPart {
	var parts []segPart
	for len(s) > 0 {
		i := strings.IndexByte(s, '{')
		if i < 0 {
			parts = append(parts, segPart{lit: s})
			break
		}
		if i > 0 {
			parts = append(parts, segPart{lit: s[:i]})
		}
		j := strings.IndexByte(s[i:], '}')
		if j < 0 {
			parts = append(parts, segPart{lit: s[i:]})
			break
		}
		parts = append(parts, segPart{name: s[i+1 : i+j]})
		s = s[i+j+1:]
	}
	return parts
}

func splitSegs(p string) []string {
	p = strings.Trim(p, "/")
	if p == "" {
		return nil
	}
	return strings.Split(p, "/")
}

func newRefTemplate(base string, op *gen.Op) *refTemplate {
	full := path.Clean(path.Join("/", base, op.Template))
	rt := &refTemplate{op: op, full: full, structAt: -1, starAt: -1, simplePrefixed: true}
	hasPlaceholder := strings.Contains(full, "{")
	for si, s := range splitSegs(full) {
		parts := parseSeg(s)
		if hasPlaceholder && rt.structAt < 0 && isPureLit(parts) && len(s) > 1 {
			if k := strings.IndexAny(s[1:], ":*"); k >= 0 {
				rt.structAt, rt.structPrefix, rt.structStar = si, s[:k+1], s[k+1] == '*'
			}
		}
		if hasPlaceholder && rt.starAt < 0 && isPureLit(parts) && len(s) > 1 {
			if k := strings.IndexByte(s[1:], '*'); k >= 0 && !strings.Contains(s[1:k+1], ":") {
				rt.starAt, rt.starPrefix = si, s[:k+1]
			}
		}
		if len(parts) > 1 {
			if parts[0].name == "" {
				rt.prefixed = true
				if len(parts) != 2 || parts[1].name == "" {
					rt.simplePrefixed = false
				}
			} else {
				rt.compos = true
			}
		}
		if parts[0].name != "" {
			rt.leadingPlaceholder = true
		}
		rt.segs = append(rt.segs, parts)
	}
	cleanBase := path.Clean("/" + base)
	rt.trailing = (len(op.Template) > 1 && strings.HasSuffix(op.Template, "/")) || (op.Template == "/" && cleanBase != "/")
	return rt
}

func isPureLit(parts []segPart) bool { return len(parts) == 1 && parts[0].name == "" }

// matchSeg matches text against parts; it returns every assignment (name -> text) with non-empty texts.
func matchSeg(parts []segPart, text string, acc map[string]string, out *[]map[string]string) {
	if len(parts) == 0 {
		if text == "" {
			cp := map[string]string{}
			for k, v := range acc {
				cp[k] = v
			}
			*out = append(*out, cp)
		}
		return
	}
	p := parts[0]
	if p.name == "" {
		if strings.HasPrefix(text, p.lit) {
			matchSeg(parts[1:], text[len(p.lit):], acc, out)
		}
		return
	}
	if len(parts) == 1 {
		if text != "" {
			acc[p.name] = text
			matchSeg(nil, "", acc, out)
			delete(acc, p.name)
		}
		return
	}
	for n := 1; n <= len(text); n++ {
		acc[p.name] = text[:n]
		matchSeg(parts[1:], text[n:], acc, out)
	}
	delete(acc, p.name)
}

// fit reports whether the cleaned encoded path instantiates the template; it returns the acceptable
// parameter assignments (decoded values).
func (rt *refTemplate) fit(segs []string) (assigns []map[string]string, ok bool) {
	if len(segs) != len(rt.segs) {
		return nil, false
	}
	cur := []map[string]string{{}}
	for i, parts := range rt.segs {
		enc := segs[i]
		if isPureLit(parts) {
			if parts[0].lit != enc {
				return nil, false
			}
			continue
		}
		var alts []map[string]string
		if len(parts) == 1 { // simple placeholder
			if enc == "" {
				return nil, false
			}
			v, err := url.PathUnescape(enc)
			if err != nil {
				return nil, false
			}
			alts = []map[string]string{{parts[0].name: v}}
		} else {
			// composite: accept splits of the encoded text (values then decoded) and of the decoded text
			var encSplits []map[string]string
			matchSeg(parts, enc, map[string]string{}, &encSplits)
			for _, a := range encSplits {
				d := map[string]string{}
				bad := false
				for k, v := range a {
					u, err := url.PathUnescape(v)
					if err != nil {
						bad = true
						break
					}
					d[k] = u
				}
				if !bad {
					alts = append(alts, d)
				}
			}
			if dec, err := url.PathUnescape(enc); err == nil && dec != enc {
				matchSeg(parts, dec, map[string]string{}, &alts)
			}
			if len(alts) == 0 {
				return nil, false
			}
		}
		var next []map[string]string
		for _, c := range cur {
			for _, a := range alts {
				m := map[string]string{}
				for k, v := range c {
					m[k] = v
				}
				for k, v := range a {
					m[k] = v
				}
				next = append(next, m)
			}
		}
		cur = dedupeAssigns(next)
		if len(cur) > 4096 {
			cur = cur[:4096]
		}
	}
	return cur, true
}

// dedupeAssigns drops repeated assignments (the encoded and the decoded split usually agree), keeping order.
func dedupeAssigns(in []map[string]string) []map[string]string {
	if len(in) < 2 {
		return in
	}
	seen := map[string]bool{}
	out := in[:0:0]
	for _, a := range in {
		keys := make([]string, 0, len(a))
		for k := range a {
			keys = append(keys, k)
		}
		sort.Strings(keys)
		var sb strings.Builder
		for _, k := range keys {
			fmt.Fprintf(&sb, "%q=%q;", k, a[k])
		}
		if !seen[sb.String()] {
			seen[sb.String()] = true
			out = append(out, a)
		}
	}
	return out
}

// prefers reports whether a is owed precedence over b: at the first segment where they differ in
// kind, a has a pure literal where b has a placeholder.
func prefers(a, b *refTemplate) bool {
	for i := range a.segs {
		la, lb := isPureLit(a.segs[i]), isPureLit(b.segs[i])
		if la && !lb {
			return true
		}
		if !la && lb {
			return false
		}
		if !la && !lb {
			// both have placeholders; if their shapes differ (x{a} vs {b}) the statement does not rank them
			if shapeOf(a.segs[i]) != shapeOf(b.segs[i]) {
				return false
			}
		}
	}
	return false
}

func shapeOf(parts []segPart) string {
	var sb strings.Builder
	for _, p := range parts {
		if p.name == "" {
			sb.WriteString(p.lit)
		} else {
			sb.WriteString("{}")
		}
	}
	return sb.String()
}

// ---------- judging ----------

func descHash(d *gen.Desc) string {
	b, _ := json.Marshal(d)
	return fmt.Sprintf("%x", mon.Hash64(string(b)))
}

func runCase(m *mon.M, c *Case) {
	s, err := build(&c.Desc, c.Entry)
	if err != nil {
		m.Class("desc-rejected")
		return
	}
	defer s.close()
	var refs []*refTemplate
	for i := range c.Desc.Ops {
		refs = append(refs, newRefTemplate(c.Desc.BasePath, &c.Desc.Ops[i]))
	}
	dh := descHash(&c.Desc)
	if c.TCP {
		if err := s.startTCP(); err != nil {
			// a fact about the machine, not about the library: nothing is judged
			harnessNote("no loopback listener after 5 attempts: %v", err)
			m.Class("tcp-harness-listen-failed")
			m.Note("tcp_listen_failed", 1)
			return
		}
	}
	for _, rq := range c.Requests {
		if !knownHdr(rq.Hdr) {
			m.Violate("bad-replay-case", "unknown header variant "+rq.Hdr, nil)
			continue
		}
		one := &Case{Desc: c.Desc, Requests: []Req{rq}, TCP: c.TCP, Entry: c.Entry}
		var resp response
		var esc string // URL.EscapedPath() of the request as net/http delivered it, noted before the library ran
		if c.TCP {
			out := s.serveTCP(rq)
			if out.attempts > 1 {
				m.Class("tcp-retried")
			}
			switch {
			case out.tr != nil && out.tr.panicVal != nil:
				m.Eval(1)
				m.Violate("panic/"+panicFeature(refs, splitSegs(path.Clean(out.tr.esc))), fmt.Sprintf("%s %q panicked (TCP): %v\n%s", rq.Method, rq.Target, out.tr.panicVal, out.tr.stack), one)
				continue
			case out.tr == nil && !out.answered:
				// no answer and the library never saw the request, three times over: the machine (or a request
				// line that net/http drops without an answer), not the library
				harnessNote("undelivered after %d attempts: %s %q: %v", out.attempts, rq.Method, rq.Target, out.lastError)
				m.Class("tcp-undelivered")
				m.Note("tcp_undelivered", 1)
				continue
			case out.tr == nil:
				// answered by net/http itself (400 for a malformed request line, "OPTIONS *"): it never reaches a handler
				if string(rq.Target) == "*" {
					m.Class("tcp-asterisk-form-answered-by-net/http-itself")
				} else {
					m.Class(fmt.Sprintf("tcp-answered-by-net/http-itself-%d", out.resp.status))
				}
				continue
			case !out.answered:
				// the library's handler got the request and returned, three times over, and no parsable answer came
				// back: judged as "no status" (the statement demands an answer)
				m.Class("tcp-handler-returned-without-answer")
				resp = response{}
			default:
				resp = out.resp
			}
			esc = out.tr.esc
		} else {
			r, dl, perr, pv, st := s.serve(rq)
			if perr != nil {
				m.Class("unparsable-target")
				continue
			}
			if dl.rewritten {
				m.Class("request-url-rewritten-by-the-library") // not promised either way; the oracle uses the snapshot
			}
			if pv != nil {
				m.Eval(1)
				m.Violate("panic/"+panicFeature(refs, splitSegs(path.Clean(dl.esc))), fmt.Sprintf("%s %q panicked: %v\n%s", rq.Method, rq.Target, pv, st), one)
				continue
			}
			resp, esc = r, dl.esc
		}
		m.Eval(1)
		cleaned := path.Clean(esc)
		segs := splitSegs(cleaned)
		method := strings.ToUpper(rq.Method)

		// reference: which templates fit, per method
		type fitT struct {
			rt      *refTemplate
			assigns []map[string]string
		}
		fits := map[string][]fitT{}
		anyFit := false
		// an asterisk-form target ("OPTIONS *") names no path at all: no template fits it
		rooted := strings.HasPrefix(esc, "/")
		for _, rt := range refs {
			if as, ok := rt.fit(segs); ok && rooted {
				mm := strings.ToUpper(rt.op.Method)
				fits[mm] = append(fits[mm], fitT{rt, as})
				anyFit = true
			}
		}
		if anyFit || sharesTwo(refs, segs) {
			m.NT(dh + "|" + method + "|" + cleaned)
		}
		mine := fits[method]
		feat := inputFeature(refs, segs)
		rel := ""
		if feat == "simple" {
			// templates the request meets whose placeholder names are related to one another (or to a query / header
			// parameter of the operation): "by name" is then a matter of its own (input feature only)
			if rel = nameRelation(refs, segs); rel != "" {
				feat = "simple/" + rel
			}
		}
		if feat == "composite-segment" && len(mine) > 0 {
			// The recorded defect of composite segments concerns requests that split in several ways or lack the
			// separator. A request that every fitting template splits in exactly ONE way is dispatched correctly
			// by the unchanged tree: it gets a class of its own, which no known finding covers.
			unambiguous := true
			fitting := map[*refTemplate]bool{}
			for _, fs := range fits {
				for _, f := range fs {
					fitting[f.rt] = true
					if len(f.assigns) != 1 {
						unambiguous = false
					}
					// every literal of a composite segment occurs exactly once in the request's segment (the
					// recorded defect includes splitting at the first occurrence when that leaves an empty part)
					for i, parts := range f.rt.segs {
						if len(parts) < 2 {
							continue
						}
						for _, pt := range parts {
							if pt.name == "" && (!occursOnce(segs[i], pt.lit) || !occursOnce(decodedOr(segs[i]), pt.lit)) {
								unambiguous = false
							}
						}
					}
				}
			}
			// ... and no other composite template gets in the way (one whose literal segments agree with the
			// request but which the request does not instantiate is routed to all the same: the known defect)
			for _, rt := range refs {
				if !(rt.compos || (rt.prefixed && !rt.simplePrefixed)) || fitting[rt] || len(rt.segs) != len(segs) {
					continue
				}
				loose := true
				for i, parts := range rt.segs {
					if isPureLit(parts) && parts[0].lit != segs[i] {
						loose = false
					}
				}
				if loose {
					unambiguous = false
				}
			}
			if unambiguous && prefixedTroubleInTheWay(refs, segs) {
				unambiguous = false // (one of the recorded defects of x{a} segments may bite instead)
			}
			if unambiguous {
				feat = "composite-segment/unambiguous-split"
			}
		}
		if len(mine) > 0 {
			// the designated operations: those not beaten by another fitting one
			var best []fitT
			for _, f := range mine {
				beaten := false
				for _, g := range mine {
					if g.rt != f.rt && prefers(g.rt, f.rt) {
						beaten = true
					}
				}
				if !beaten {
					best = append(best, f)
				}
			}
			if s.obs.ran == 0 && rq.Hdr != hdrPlain && (resp.status == http.StatusNotAcceptable || resp.status == http.StatusUnsupportedMediaType) {
				// the request asks for / sends a media type the API does not speak: that the operation refuses it
				// (406, 415) is the business of other properties; the route was found
				m.Class(fmt.Sprintf("fit-refused-by-media-type-%d", resp.status))
				continue
			}
			if s.obs.ran == 0 {
				m.Violate("no-handler-ran/"+feat,
					fmt.Sprintf("%s %q (cleaned %q): template %q of %s fits but no handler ran; status %d body %.120q", rq.Method, rq.Target, cleaned, best[0].rt.op.Template, best[0].rt.op.ID, resp.status, resp.body), one)
				continue
			}
			if s.obs.ran > 1 {
				m.Violate("handler-ran-twice/"+feat, fmt.Sprintf("%s %q: %d handler invocations", rq.Method, rq.Target, s.obs.ran), one)
				continue
			}
			var chosen *fitT
			for i := range best {
				if best[i].rt.op.ID == s.obs.ranOp {
					chosen = &best[i]
				}
			}
			if chosen == nil {
				ids := []string{}
				for _, b := range best {
					ids = append(ids, b.rt.op.ID+"="+b.rt.op.Template)
				}
				m.Violate("wrong-operation/"+feat, fmt.Sprintf("%s %q (cleaned %q): handler of %s ran, designated: %v", rq.Method, rq.Target, cleaned, s.obs.ranOp, ids), one)
				continue
			}
			// What the handler received, by name. A generated-server style binder reads every placeholder from
			// route.Params: all names are judged. The untyped binder hands over ONE map keyed by parameter name for the
			// path, query and header parameters of the operation: an entry whose name a query / header parameter of the
			// operation also bears is not a statement about the path value and is not judged (class); and the
			// dependency that collects an operation's parameters keeps one of two names that are equal up to letter
			// case and punctuation ({id} / {ID}): the entry that is absent next to its delivered twin is classed, the
			// delivered one is judged like any other.
			untypedBinder := c.Entry != entryRoutable
			shared := map[string]bool{}
			if untypedBinder {
				for _, p := range chosen.rt.op.Params {
					if p.In != "path" {
						shared[p.Name] = true
					}
				}
			}
			okParams := false
			var exps []map[string]string // the acceptable assignments that agree with what the handler received
			dropped, skipped := 0, 0
			for _, a := range chosen.assigns {
				if ok, d, sk := agrees(a, s.obs.params, untypedBinder, shared); ok {
					okParams, dropped, skipped = true, d, sk
					exps = append(exps, a)
				}
			}
			if !okParams {
				m.Violate("wrong-path-params/"+feat, fmt.Sprintf("%s %q (cleaned %q): %s received %v, expected one of %v", rq.Method, rq.Target, cleaned, s.obs.ranOp, s.obs.params, chosen.assigns), one)
				continue
			}
			if dropped > 0 {
				// a genuine defect (recorded as a known finding): the handler is owed every placeholder's text by name
				m.Class("untyped-binder-entry-absent-next-to-delivered-twin-name")
				m.Violate("path-param-not-delivered/placeholder-names-collide-in-the-parameter-table", fmt.Sprintf("%s %q (cleaned %q): %s received %v: the value of a placeholder whose name equals another one's up to letter case and punctuation ({id}/{ID}, {id}/{id_}) is missing; acceptable assignments %v", rq.Method, rq.Target, cleaned, s.obs.ranOp, s.obs.params, chosen.assigns), one)
			}
			if skipped > 0 {
				m.Class("untyped-binder-entry-shared-with-query-or-header-parameter-not-judged")
			}
			if resp.status != 200 {
				m.Violate("wrong-status-after-handler/"+feat, fmt.Sprintf("%s %q: handler ran but status %d", rq.Method, rq.Target, resp.status), one)
				continue
			}
			if s.builder {
				// what a middleware installed through the Builder finds in the request's context: the matched route
				// of the designated operation and the same values, by name (read with RouteParams.Get)
				switch {
				case s.obs.mrCalls != 1:
					m.Violate("builder-middleware-not-run-once/"+feat, fmt.Sprintf("%s %q: the handler made by the Builder ran %d times for one dispatched request", rq.Method, rq.Target, s.obs.mrCalls), one)
					continue
				case s.obs.mrNil:
					m.Class("matched-route-absent-from-context") // not promised by the statement
				default:
					if s.obs.mrPattern != chosen.rt.full {
						m.Violate("wrong-matched-route/"+feat, fmt.Sprintf("%s %q (cleaned %q): %s ran (template %q) but MatchedRouteFrom(r).PathPattern is %q", rq.Method, rq.Target, cleaned, s.obs.ranOp, chosen.rt.full, s.obs.mrPattern), one)
						continue
					}
					bad := ""
					for n, v := range s.obs.params {
						if shared[n] {
							continue // (the untyped binder's entry may be that of the query / header parameter)
						}
						if got := s.obs.mrParams.Get(n); got != v {
							bad = fmt.Sprintf("MatchedRouteFrom(r).Params.Get(%q) = %q, the handler received %q", n, got, v)
						}
					}
					if bad != "" {
						m.Violate("wrong-matched-route-params/"+feat, fmt.Sprintf("%s %q (cleaned %q): %s", rq.Method, rq.Target, cleaned, bad), one)
						continue
					}
					// ... and by name they are the texts that instantiate the placeholders (EVERY placeholder, whatever
					// the binder made of it), through both accessors: the same failure kind as a wrong value in the
					// handler's hands, seen through the matched route
					for _, exp := range exps {
						bad = ""
						for n, v := range exp {
							vals, hasKey, hasValue := s.obs.mrParams.GetOK(n)
							if got := s.obs.mrParams.Get(n); got != v || !hasKey || hasValue != (v != "") || len(vals) != 1 || vals[0] != v {
								bad = fmt.Sprintf("MatchedRouteFrom(r).Params.Get(%q) = %q, GetOK = (%q, %v, %v); the text instantiating {%s} is %q (Params %v; acceptable: %v)", n, got, vals, hasKey, hasValue, n, v, s.obs.mrParams, exps)
							}
						}
						if bad == "" {
							break
						}
					}
					if bad != "" {
						m.Violate("wrong-path-params/"+feat, fmt.Sprintf("%s %q (cleaned %q): %s", rq.Method, rq.Target, cleaned, bad), one)
						continue
					}
					m.Class("matched-route-agrees")
				}
			}
			m.Class("dispatched")
			if r := templateRelation(chosen.rt); r != "" {
				m.Class("dispatched-" + r)
				if c.Entry != entryRoutes {
					m.Class("dispatched-" + r + "-entry-" + c.Entry)
				}
			}
			if c.Entry != entryRoutes {
				m.Class("dispatched-entry-" + c.Entry)
			}
			if feat == featPrefixedRouted {
				m.Class("dispatched-prefixed")
			}
			if rq.Hdr != hdrPlain {
				m.Class("dispatched-hdr-" + rq.Hdr)
			}
			if chosen.rt.compos {
				m.Class("dispatched-composite")
			}
			if len(mine) > 1 {
				m.Class("dispatched-with-competitors")
			}
		} else {
			if closingLiteralAbsent(refs, method, segs) {
				m.Class("no-fit-and-closing-literal-of-composite-absent") // (input only: how often the shape is driven)
				if s.obs.ran == 0 {
					m.Class("no-fit-and-closing-literal-of-composite-absent-no-handler-ran")
				}
			}
			if s.obs.ran > 0 {
				runFeat := feat
				if feat == "composite-segment" {
					// The recorded defect of composite segments hands a handler that runs without a fit an EMPTY text
					// for some placeholder (the segment is one parameter of the trie router, split afterwards; the piece
					// whose literal the request lacks is empty: 422 from the untyped binder, "" in a generated server).
					// A handler that runs with texts the recorded defect cannot hand over has a class of its own.
					// (an entry of the untyped binder's map whose name a query / header parameter of the operation bears
					// too says nothing about the path value: it is left out of this classification)
					if sub := compositeRunSubclass(refs, s.obs.ranOp, pathEntries(refs, s.obs.ranOp, s.obs.params, c.Entry != entryRoutable), segs); sub != "" {
						runFeat = feat + "/" + sub
					}
				}
				m.Violate("handler-ran-without-fit/"+runFeat, fmt.Sprintf("%s %q (cleaned %q): handler of %s ran (received %q) although no template fits under %s", rq.Method, rq.Target, cleaned, s.obs.ranOp, fmt.Sprint(s.obs.params), method), one)
				continue
			}
			var allow []string
			for mm := range fits {
				allow = append(allow, mm)
			}
			sort.Strings(allow)
			otherFeat := feat
			if len(allow) > 0 {
				if resp.status != http.StatusMethodNotAllowed {
					m.Violate("wrong-status-expected-405/"+otherFeat, fmt.Sprintf("%s %q (cleaned %q): templates fit under %v, status %d", rq.Method, rq.Target, cleaned, allow, resp.status), one)
					continue
				}
				if strings.Join(allow, ",") != strings.Join(resp.allow, ",") {
					m.Violate("wrong-allow/"+otherFeat, fmt.Sprintf("%s %q (cleaned %q): Allow %v, expected %v", rq.Method, rq.Target, cleaned, resp.allow, allow), one)
					continue
				}
				m.Class("405")
				if len(allow) > 3 {
					m.Class("405-allow-of-4-or-more")
				}
				if rq.Hdr != hdrPlain {
					m.Class("405-hdr-" + rq.Hdr)
				}
			} else {
				if resp.status != http.StatusNotFound {
					m.Violate("wrong-status-expected-404/"+feat, fmt.Sprintf("%s %q (cleaned %q): no template fits under any method, status %d body %.120q", rq.Method, rq.Target, cleaned, resp.status, resp.body), one)
					continue
				}
				m.Class("404")
				if rq.Hdr != hdrPlain {
					m.Class("404-hdr-" + rq.Hdr)
				}
			}
		}
	}
	if m.WantSample() {
		sc := *c
		if len(sc.Requests) > 5 {
			sc.Requests = sc.Requests[:5]
		}
		m.Sample(sc)
	}
}

// inputFeature classifies the request by the kinds of template (of any method) that fit it loosely,
// i.e. whose pure-literal segments equal the request's and whose other segments are non-empty. It is a
// feature of the input only (used in signatures), never part of a verdict.
func inputFeature(refs []*refTemplate, segs []string) string {
	for _, rt := range refs {
		if reachesStructLiteral(rt, segs) {
			return featStruct
		}
	}
	feat := "simple"
	sawPrefixed, prefixedDispatchable, sawEmptyText, sawCompos := false, true, false, false
	for _, rt := range refs {
		if !looseFit(rt, segs) {
			continue
		}
		switch {
		case rt.prefixed:
			sawPrefixed = true
			kind, composite := classifyPrefixed(rt, segs)
			switch kind {
			case prefixedNo:
				prefixedDispatchable = false
			case prefixedEmptyText:
				sawEmptyText = true
			}
			if composite {
				sawCompos = true
			}
		case rt.compos:
			sawCompos = true
			feat = "composite-segment"
		}
	}
	if sawPrefixed {
		// The recorded defect of x{a} segments: the template becomes a STATIC record of the trie router unless
		// some segment of it begins with a placeholder. A template that has such a segment is dispatched by the
		// unchanged tree: requests that only meet templates of that kind (and give every x{a} segment a
		// non-empty text after the literal, written as the literal is) get a class of their own, which no
		// known finding covers.
		// When the request's segment is just the literal of such an x{a} (nothing is left for {a}, so the
		// template does not fit), the trie router captures an EMPTY parameter text in the middle of the path and
		// routes the request all the same: a defect of its own, with a signature of its own.
		// When such a template also has a segment with several placeholders (x-{a}-{b}, {a}.json) and nothing
		// else is in the way, what can go wrong is the recorded defect of composite segments, not this one.
		// (whatever else is in the way: every failure kind of the composite class is recorded)
		switch {
		case sawCompos:
			return "composite-segment"
		case !prefixedDispatchable:
			return featPrefixed
		case sawEmptyText:
			return featPrefixedEmpty
		default:
			return featPrefixedRouted
		}
	}
	return feat
}

const (
	featStruct         = "colon-or-star-in-literal-of-parameterised-template"
	featPrefixed       = "prefixed-placeholder-segment"
	featPrefixedRouted = "prefixed-placeholder-segment/routed-as-parameter"
	featPrefixedEmpty  = "prefixed-placeholder-segment/empty-text-after-literal"
	// a panic for a request that meets no two ':'/'*' literals at one position (the recorded panic needs two)
	featStructSingle = "colon-or-star-in-literal-of-parameterised-template/no-two-wildcards-at-one-position"
)

// looseFit: the template's pure-literal segments equal the request's (the other segments are not looked at,
// except as said below).
func looseFit(rt *refTemplate, segs []string) bool {
	if len(rt.segs) != len(segs) {
		return false
	}
	for i, parts := range rt.segs {
		if isPureLit(parts) && parts[0].lit != segs[i] {
			return false
		}
		// a segment "x{a}" is routed as the literal text it is written as: it only gets in the way
		// of requests whose segment starts with that literal (a template that also has a composite
		// segment captures anything there, so it stays in the loose class)
		if !rt.compos && len(parts) > 1 && parts[0].name == "" && !strings.HasPrefix(segs[i], parts[0].lit) && !strings.HasPrefix(decodedOr(segs[i]), parts[0].lit) {
			return false
		}
	}
	// the request ends in exactly the literal of a final x{a}: nothing instantiates {a}, the template does not
	// fit and there is no later segment it could be mistaken for
	if last := len(rt.segs) - 1; last >= 0 {
		if parts := rt.segs[last]; len(parts) > 1 && parts[0].name == "" && segs[last] == parts[0].lit {
			return false
		}
	}
	return true
}

// prefixedTroubleInTheWay: some x{a} template that the request meets is a static record, or gets nothing
// after its literal, or has its literal written otherwise than declared (input feature).
func prefixedTroubleInTheWay(refs []*refTemplate, segs []string) bool {
	for _, rt := range refs {
		if rt.prefixed && looseFit(rt, segs) {
			if k, _ := classifyPrefixed(rt, segs); k != prefixedYes {
				return true
			}
		}
	}
	return false
}

// reachesStructLiteral: the request gets as far as the template's literal with the ':' or '*' and shares the
// text before that byte.
func reachesStructLiteral(rt *refTemplate, segs []string) bool {
	if rt.structAt < 0 || len(segs) <= rt.structAt {
		return false
	}
	// (a '*' takes the rest of the path: the request need not have the template's length, provided it is long
	// enough to get to the literal with the '*')
	if !(rt.structStar || len(rt.segs) == len(segs) || (rt.starAt >= 0 && len(segs) > rt.starAt)) {
		return false
	}
	for i := 0; i < rt.structAt; i++ {
		if isPureLit(rt.segs[i]) && rt.segs[i][0].lit != segs[i] {
			return false
		}
	}
	return strings.HasPrefix(segs[rt.structAt], rt.structPrefix) || strings.HasPrefix(decodedOr(segs[rt.structAt]), rt.structPrefix)
}

// classifyPrefixed: an input feature (never part of a verdict) of a template with x{a} segments that the
// request fits loosely. prefixedNo: no segment of the template begins with a placeholder (the template is a
// static record: the recorded defect), or the request does not write some x literal as it is declared.
// prefixedYes / prefixedEmptyText: the request puts a non-empty text after each such literal / nothing at all
// after one of them. composite: the template also has a segment with several placeholders or a placeholder
// followed by a literal ({a}.{b}, {a}.json, x-{a}-{b}).
func classifyPrefixed(rt *refTemplate, segs []string) (kind int, composite bool) {
	if !rt.leadingPlaceholder || len(rt.segs) != len(segs) {
		return prefixedNo, false
	}
	kind = prefixedYes
	for i, parts := range rt.segs {
		if len(parts) > 1 && parts[0].name == "" {
			if !strings.HasPrefix(segs[i], parts[0].lit) {
				return prefixedNo, false
			}
			if len(segs[i]) == len(parts[0].lit) {
				kind = prefixedEmptyText // the segment is the literal and nothing else
			}
		}
	}
	return kind, rt.compos || !rt.simplePrefixed
}

const (
	prefixedNo = iota
	prefixedYes
	prefixedEmptyText
)

// twoWildcardsAtOnePosition: the recorded panic of the ':'/'*' class needs two templates of ONE method whose
// '*' literals sit at the same place (same position, same text before the '*', same segments before it up to
// placeholder names) and which the request reaches. Input feature only.
func twoWildcardsAtOnePosition(refs []*refTemplate, segs []string) bool {
	seen := map[string]bool{}
	for _, rt := range refs {
		if rt.starAt < 0 || !reachesStructLiteral(rt, segs) {
			continue
		}
		var sb strings.Builder
		sb.WriteString(strings.ToUpper(rt.op.Method))
		for i := 0; i < rt.starAt; i++ {
			sb.WriteByte('/')
			switch parts := rt.segs[i]; {
			case isPureLit(parts):
				lit := parts[0].lit
				if k := strings.IndexByte(lit[1:], ':'); len(lit) > 1 && k >= 0 {
					lit = lit[:k+1] + "{}" // the rest of the literal is routed as a parameter
				}
				sb.WriteString(lit)
			case parts[0].name != "":
				sb.WriteString("{}") // routed as one parameter whatever follows the placeholder
			default:
				sb.WriteString(parts[0].lit + "{}")
			}
		}
		sb.WriteString("/" + rt.starPrefix + "*")
		if seen[sb.String()] {
			return true
		}
		seen[sb.String()] = true
	}
	return false
}

// panicFeature is the input feature under which a panic is reported.
func panicFeature(refs []*refTemplate, segs []string) string {
	f := inputFeature(refs, segs)
	if f == featStruct && !twoWildcardsAtOnePosition(refs, segs) {
		return featStructSingle
	}
	return f
}

const (
	// the handler ran without a fit and received a text for the placeholder in front of a closing literal
	// ({id}.pdf, {a}.{b}.gz) that the request's segment does not end with
	subClosingAbsent = "text-bound-before-absent-closing-literal"
	// the handler ran without a fit and received a non-empty text for every placeholder of its template
	subAllBound = "every-placeholder-bound-to-text"
)

// absentClosingLiterals: for each composite segment of the template that is closed by a literal ({a}.json,
// {a}.{b}.gz, x-{a}-v1) which the request's segment does not end with (as sent or decoded), the name of the
// placeholder in front of that literal. Input feature only.
func absentClosingLiterals(rt *refTemplate, segs []string) (names []string) {
	if len(rt.segs) != len(segs) {
		return nil
	}
	for i, parts := range rt.segs {
		if n := len(parts); n > 1 && parts[n-1].name == "" && parts[n-2].name != "" {
			lit := parts[n-1].lit
			if !strings.HasSuffix(segs[i], lit) && !strings.HasSuffix(decodedOr(segs[i]), lit) {
				names = append(names, parts[n-2].name)
			}
		}
	}
	return names
}

// closingLiteralAbsent: some template of the method fits the request loosely but for the closing literal of a
// composite segment, which the request's segment lacks (the caller knows that no template of the method fits).
// Input feature only.
func closingLiteralAbsent(refs []*refTemplate, method string, segs []string) bool {
	for _, rt := range refs {
		if strings.ToUpper(rt.op.Method) == method && looseFit(rt, segs) && len(absentClosingLiterals(rt, segs)) > 0 {
			return true
		}
	}
	return false
}

// compositeRunSubclass names what the recorded defect of composite segments cannot explain about a handler
// that ran without a fit (the request is in the class composite-segment): the recorded defect leaves the
// placeholder in front of a literal that the request lacks EMPTY. "" = nothing of the kind (the recorded form).
func compositeRunSubclass(refs []*refTemplate, ranOp string, got map[string]string, segs []string) string {
	var rt *refTemplate
	for _, x := range refs {
		if x.op.ID == ranOp {
			rt = x
		}
	}
	if rt == nil || !looseFit(rt, segs) {
		return ""
	}
	for _, n := range absentClosingLiterals(rt, segs) {
		if got[n] != "" {
			return subClosingAbsent
		}
	}
	all := false
	for _, parts := range rt.segs {
		for _, p := range parts {
			if p.name != "" {
				if got[p.name] == "" {
					return ""
				}
				all = true
			}
		}
	}
	if all {
		return subAllBound
	}
	return ""
}

// occursOnce: lit occurs in s at exactly one position (overlapping occurrences count: "---" holds "--" twice).
func occursOnce(s, lit string) bool {
	i := strings.Index(s, lit)
	return i >= 0 && !strings.Contains(s[i+1:], lit)
}

func decodedOr(seg string) string {
	if d, err := url.PathUnescape(seg); err == nil {
		return d
	}
	return seg
}

func sharesTwo(refs []*refTemplate, segs []string) bool {
	if len(segs) < 2 {
		return false
	}
	for _, rt := range refs {
		if len(rt.segs) >= 2 && isPureLit(rt.segs[0]) && rt.segs[0][0].lit == segs[0] {
			if !isPureLit(rt.segs[1]) || rt.segs[1][0].lit == segs[1] {
				return true
			}
		}
	}
	return false
}

func sameMap(a, b map[string]string) bool {
	if len(a) != len(b) {
		return false
	}
	for k, v := range a {
		if w, ok := b[k]; !ok || w != v {
			return false
		}
	}
	return true
}

// ---------- related names ----------

const (
	relTwin   = "placeholder-names-differ-only-in-case"
	relPrefix = "placeholder-name-prefix-of-another"
	relShared = "placeholder-name-related-to-query-or-header-parameter"
)

// looseEq: the names are equal up to letter case and bytes outside [A-Za-z0-9] ("id" / "ID" / "id!" / "i_d").
func looseEq(a, b string) bool {
	strip := func(s string) string {
		var sb strings.Builder
		for i := 0; i < len(s); i++ {
			if c := s[i]; (c >= '0' && c <= '9') || (c >= 'a' && c <= 'z') || (c >= 'A' && c <= 'Z') || c >= 0x80 {
				sb.WriteByte(c)
			}
		}
		return sb.String()
	}
	return strings.EqualFold(strip(a), strip(b))
}

// templateRelation names how the placeholder names of ONE template (and the names of the query / header
// parameters of its operation) are related to one another. Input feature only.
func templateRelation(rt *refTemplate) string {
	var names []string
	for _, parts := range rt.segs {
		for _, p := range parts {
			if p.name != "" {
				names = append(names, p.name)
			}
		}
	}
	twin, prefix, sharedName := false, false, false
	for i, a := range names {
		for j, b := range names {
			if i == j || a == b {
				continue
			}
			if strings.EqualFold(a, b) {
				twin = true
			} else if strings.HasPrefix(strings.ToLower(b), strings.ToLower(a)) {
				prefix = true
			}
		}
		for _, p := range rt.op.Params {
			if p.In == "path" {
				continue
			}
			la, lp := strings.ToLower(a), strings.ToLower(p.Name)
			if strings.HasPrefix(lp, la) || strings.HasPrefix(la, lp) {
				sharedName = true
			}
		}
	}
	switch {
	case twin:
		return relTwin
	case prefix:
		return relPrefix
	case sharedName:
		return relShared
	}
	return ""
}

// nameRelation: the strongest relation among the templates (of any method) that the request meets loosely.
func nameRelation(refs []*refTemplate, segs []string) string {
	best := ""
	for _, rt := range refs {
		if !looseFit(rt, segs) {
			continue
		}
		switch r := templateRelation(rt); {
		case r == relTwin:
			return relTwin
		case r == relPrefix:
			best = relPrefix
		case r == relShared && best == "":
			best = relShared
		}
	}
	return best
}

// agrees: the handler received (got) the assignment want, by name. Entries named in shared are not judged; an
// entry of want that is absent from got is accepted only from the untyped binder and only next to a delivered
// entry whose name is equal up to letter case and punctuation.
func agrees(want, got map[string]string, untypedBinder bool, shared map[string]bool) (ok bool, dropped, skipped int) {
	for k, v := range got {
		if shared[k] {
			skipped++
			continue
		}
		if w, has := want[k]; !has || w != v {
			return false, 0, 0
		}
	}
	for k := range want {
		if _, has := got[k]; has || shared[k] {
			continue
		}
		if !untypedBinder {
			return false, 0, 0
		}
		twin := false
		for k2 := range want {
			if _, delivered := got[k2]; k2 != k && delivered && looseEq(k, k2) {
				twin = true
			}
		}
		if !twin {
			return false, 0, 0
		}
		dropped++
	}
	return true, dropped, skipped
}

// pathEntries: what the handler of ranOp received, less the entries of the untyped binder's map whose name a
// query / header parameter of that operation bears too.
func pathEntries(refs []*refTemplate, ranOp string, got map[string]string, untypedBinder bool) map[string]string {
	if !untypedBinder {
		return got
	}
	out := map[string]string{}
	for k, v := range got {
		out[k] = v
	}
	for _, rt := range refs {
		if rt.op.ID == ranOp {
			for _, p := range rt.op.Params {
				if p.In != "path" {
					delete(out, p.Name)
				}
			}
		}
	}
	return out
}

// caseVariants: other spellings of w that differ from it only in letter case.
func caseVariants(w string) []string {
	if w == "" {
		return nil
	}
	flip := func(i int) string {
		b := []byte(w)
		if c := b[i]; (c >= 'a' && c <= 'z') || (c >= 'A' && c <= 'Z') {
			b[i] ^= 0x20
		}
		return string(b)
	}
	var out []string
	for _, v := range []string{strings.ToUpper(w), strings.ToLower(w), flip(0), flip(len(w) - 1)} {
		if v != w {
			out = append(out, v)
		}
	}
	return out
}

// relatedName derives from w a name that no placeholder of the template bears yet: 3 times in 6 another letter
// case of it ({id} / {ID}, {petId} / {petid}), else an extension ({id} / {id2}) or a proper prefix of it. "" = none.
func relatedName(r *rand.Rand, w string, used map[string]bool) string {
	var c []string
	switch k := r.Intn(6); {
	case k < 3:
		c = caseVariants(w)
	case k < 5:
		c = []string{w + "2", w + "x", w + "Id", w + "_"}
	default:
		if len(w) > 1 {
			c = []string{w[:len(w)-1], w[:1]}
		}
	}
	if len(c) == 0 {
		return ""
	}
	at := r.Intn(len(c))
	for i := range c {
		if v := c[(at+i)%len(c)]; v != "" && v != w && !used[v] && !strings.ContainsAny(v, "{}/") {
			return v
		}
	}
	return ""
}

// headerToken: the name can be written as an HTTP header name, and is none that net/http or the library reads.
func headerToken(n string) bool {
	if n == "" {
		return false
	}
	for i := 0; i < len(n); i++ {
		c := n[i]
		if !((c >= '0' && c <= '9') || (c >= 'a' && c <= 'z') || (c >= 'A' && c <= 'Z') || strings.IndexByte("!#$%&'*+-.^_`|~", c) >= 0) {
			return false
		}
	}
	switch strings.ToLower(n) {
	case "host", "accept", "connection", "content-type", "content-length", "transfer-encoding", "te", "trailer", "upgrade", "expect":
		return false
	}
	return true
}

// ---------- generation ----------

var methods = []string{"GET", "POST", "PUT", "DELETE", "PATCH", "HEAD", "OPTIONS"}
var basePaths = []string{"/", "", "/api", "/api/", "/a/b", "/", "/x"}

var richLiterals = []string{"items:batchGet", "a*w9", "v=1", "caf\u00e9", "Users", "x~y", "a;b", "a,b", "a+b", "@me"}

// (names with bytes outside [A-Za-z0-9_-] are legal; "a.b" is left out because the dependency that collects an
// operation's parameters keys them by their Go-ified name, under which "a.b" and "ab" are the same parameter)
var placeholderWords = append([]string{"api", "a", "b", "x", "p", "ap", "book.id", "v~1", "k$", "id!", "id", "petId"}, gen.Words...)

// literals that close a composite segment ({id}.pdf, {name}:cancel, {a}.{b}.gz)
var closingLiterals = []string{".pdf", ".gz", ":cancel", "_v1", ".json", ".x"}

func genTemplate(r *rand.Rand, id int) string {
	if r.Intn(25) == 0 {
		return "/"
	}
	if r.Intn(14) == 0 {
		return genPrefixedTemplate(r, id)
	}
	nseg := 1 + r.Intn(4)
	var sb strings.Builder
	np := 0
	usedNames := map[string]bool{}
	var names []string
	name := func() (n string) {
		np++
		defer func() {
			usedNames[n] = true
			names = append(names, n)
		}()
		if len(names) > 0 && r.Intn(5) == 0 {
			// a name related to an earlier one of this template: another letter case, an extension, a prefix
			if w := relatedName(r, names[r.Intn(len(names))], usedNames); w != "" {
				return w
			}
		}
		if r.Intn(5) == 0 {
			// a name that also occurs as plain text in templates and base paths ("/tag/{tag}", "/api" + "/{a}")
			if w := gen.Pick(r, placeholderWords); !usedNames[w] {
				return w
			}
		}
		return fmt.Sprintf("p%d_%d", id, np)
	}
	for s := 0; s < nseg; s++ {
		sb.WriteByte('/')
		switch k := r.Intn(123); {
		case k == 120:
			// one placeholder closed by a literal other than ".json" (".pdf", a custom verb, a version tag)
			sb.WriteString("{" + name() + "}" + closingLiterals[r.Intn(len(closingLiterals))])
		case k > 120:
			// two placeholders and a closing literal: {name}.{ext}.gz
			sb.WriteString("{" + name() + "}" + []string{".", ".", "--"}[r.Intn(3)] + "{" + name() + "}" + closingLiterals[r.Intn(len(closingLiterals))])
		case k < 56:
			sb.WriteString(gen.Pick(r, gen.Words))
		case k < 110:
			sb.WriteString("{" + name() + "}")
		case k < 112:
			sb.WriteString(gen.Pick(r, gen.Words) + "{" + name() + "}")
		case k < 113:
			sb.WriteString("{" + name() + "}." + "{" + name() + "}")
		case k < 114:
			// a separator of several bytes between the two placeholders
			sb.WriteString("{" + name() + "}" + []string{".v", "--", "_of_"}[r.Intn(3)] + "{" + name() + "}")
		case k < 115:
			sb.WriteString("{" + name() + "}.json")
		case k < 117:
			sb.WriteString(gen.Pick(r, gen.Words) + "." + gen.Pick(r, gen.Words))
		case k < 119:
			// literal segments holding bytes that are special elsewhere (denco, URLs, letter case)
			w := gen.Pick(r, richLiterals)
			if usedNames[w] { // not twice in one template ("a*w9" twice would name two wildcards alike)
				w = gen.Pick(r, gen.Words)
			}
			usedNames[w] = true
			sb.WriteString(w)
		default:
			sb.WriteString(gen.Pick(r, gen.Words) + "-{" + name() + "}-{" + name() + "}")
		}
	}
	if r.Intn(12) == 0 {
		sb.WriteByte('/')
	}
	return sb.String()
}

// genPrefixedTemplate: 2..4 segments, one of them x{a} (literal, then one placeholder), at least one other a
// plain {p}; the rest words or placeholders. (Templates of this kind are dispatched by the unchanged tree; the
// ones whose x{a} has no plain placeholder beside it come from genTemplate and are the recorded defect.)
func genPrefixedTemplate(r *rand.Rand, id int) string {
	nseg := 2 + r.Intn(3)
	pre, plain := r.Intn(nseg), r.Intn(nseg-1)
	if plain >= pre {
		plain++
	}
	var sb strings.Builder
	np := 0
	for s := 0; s < nseg; s++ {
		sb.WriteByte('/')
		switch {
		case s == pre:
			np++
			sb.WriteString(gen.Pick(r, gen.Words) + fmt.Sprintf("{p%d_%d}", id, np))
		case s == plain || r.Intn(3) == 0:
			np++
			sb.WriteString(fmt.Sprintf("{p%d_%d}", id, np))
		default:
			sb.WriteString(gen.Pick(r, gen.Words))
		}
	}
	return sb.String()
}

func shapeKey(tpl string) string {
	var sb strings.Builder
	for _, s := range splitSegs(path.Clean("/" + tpl)) {
		sb.WriteByte('/')
		sb.WriteString(shapeOf(parseSeg(s)))
	}
	return sb.String()
}

func genDesc(r *rand.Rand) gen.Desc {
	d := gen.Desc{BasePath: basePaths[r.Intn(len(basePaths))]}
	n := 1 + r.Intn(12)
	seen := map[string]bool{}
	for t := 0; t < n*3 && len(seen) < n; t++ {
		tpl := genTemplate(r, len(seen))
		k := shapeKey(tpl)
		if seen[k] {
			continue
		}
		seen[k] = true
		nm := 1 + r.Intn(3)
		all := r.Intn(10) == 0 // the template is declared under every method: Allow lists of up to seven
		if all {
			nm = len(methods)
		}
		used := map[string]bool{}
		for j := 0; j < nm; j++ {
			meth := methods[r.Intn(len(methods))]
			if all {
				meth = methods[j]
				if r.Intn(8) == 0 {
					continue // ... or under all but one or two
				}
			}
			if used[meth] {
				continue
			}
			used[meth] = true
			op := gen.Op{ID: fmt.Sprintf("op%d_%s", len(seen), meth), Method: meth, Template: tpl}
			pns := gen.PlaceholderNames(tpl)
			for _, pn := range pns {
				op.Params = append(op.Params, gen.Param{Name: pn, In: "path", Type: "string", Required: true})
			}
			if len(pns) > 1 && r.Intn(4) == 0 {
				// (the order in which the parameters are declared is not the order of the placeholders)
				for a, b := 0, len(op.Params)-1; a < b; a, b = a+1, b-1 {
					op.Params[a], op.Params[b] = op.Params[b], op.Params[a]
				}
			}
			if len(pns) > 0 && r.Intn(5) == 0 {
				// optional query / header parameters named like a placeholder of the template (the same name, another
				// letter case of it, an extension of it)
				seenX := map[string]bool{}
				for e, ne := 0, 1+r.Intn(2); e < ne; e++ {
					nm := pns[r.Intn(len(pns))]
					switch r.Intn(4) {
					case 0:
						if cv := caseVariants(nm); len(cv) > 0 {
							nm = cv[r.Intn(len(cv))]
						}
					case 1:
						nm += "2"
					}
					in := "query"
					if r.Intn(3) == 0 && headerToken(nm) {
						in = "header"
					}
					if k := in + "#" + strings.ToLower(nm); !seenX[k] {
						seenX[k] = true
						op.Params = append(op.Params, gen.Param{Name: nm, In: in, Type: "string"})
					}
				}
			}
			d.Ops = append(d.Ops, op)
		}
	}
	return d
}

const hexU = "0123456789ABCDEF"
const hexL = "0123456789abcdef"

// encodeValue percent-encodes a value with a hostile encoder: bytes that must be encoded always are,
// any other byte independently raw or encoded (upper/lower hex).
func encodeValue(r *rand.Rand, v string) string {
	var sb strings.Builder
	for i := 0; i < len(v); i++ {
		c := v[i]
		must := c <= 0x20 || c == 0x7f || c == '/' || c == '%' || c == '?' || c == '#'
		if must || r.Intn(5) == 0 {
			h := hexU
			if r.Intn(2) == 0 {
				h = hexL
			}
			sb.WriteByte('%')
			sb.WriteByte(h[c>>4])
			sb.WriteByte(h[c&15])
		} else {
			sb.WriteByte(c)
		}
	}
	return sb.String()
}

var valueAlphabet = []string{":", "*", "#", ";", "=", "%2F", "%25", "+", " ", "{", "}", "é", "\x00", ".", "..", "~", "a", "ab", "x", "users", "@", "&", "$", ",", "!", "'", "(", ")", "%", "/", "?", "\xff", "json", ".json", "-", "A", "Ab", "USERS", "Users"}

func genValue(r *rand.Rand) string {
	n := 1 + r.Intn(3)
	var sb strings.Builder
	for i := 0; i < n; i++ {
		sb.WriteString(valueAlphabet[r.Intn(len(valueAlphabet))])
	}
	return sb.String()
}

func instantiate(r *rand.Rand, base, tpl string) string {
	full := path.Join("/", base, tpl)
	var sb strings.Builder
	for _, s := range splitSegs(full) {
		sb.WriteByte('/')
		for _, p := range parseSeg(s) {
			if p.name == "" {
				if r.Intn(30) == 0 {
					sb.WriteString(encodeValue(r, p.lit))
				} else {
					sb.WriteString(p.lit)
				}
			} else {
				sb.WriteString(encodeValue(r, genValue(r)))
			}
		}
	}
	if sb.Len() == 0 {
		return "/"
	}
	return sb.String()
}

// hasCompositeSegment: some segment of the template has a placeholder and a literal, or several placeholders.
func hasCompositeSegment(tpl string) bool {
	for _, s := range splitSegs(tpl) {
		if len(parseSeg(s)) > 1 {
			return true
		}
	}
	return false
}

var foreignClosings = []string{".csv", ".sig", ".bz2", ":undo", "_v2", "x", "."}

// instantiateDamaged instantiates the template like instantiate, but one literal of one of its composite
// segments (2 times in 3 the literal that closes the segment, when there is one) is left out, cut short,
// written in another letter case, replaced by a foreign text or followed by one: /reports/7, /reports/7.csv,
// /reports/7.pdf.sig for /reports/{id}.pdf. Whether the result still instantiates some template is for the
// reference model to say.
func instantiateDamaged(r *rand.Rand, base, tpl string) string {
	full := path.Join("/", base, tpl)
	segs := splitSegs(full)
	var cands []int
	for i, s := range segs {
		if len(parseSeg(s)) > 1 {
			cands = append(cands, i)
		}
	}
	if len(cands) == 0 {
		return instantiate(r, base, tpl)
	}
	target := cands[r.Intn(len(cands))]
	var sb strings.Builder
	for i, s := range segs {
		sb.WriteByte('/')
		parts := parseSeg(s)
		hit := -1
		if i == target {
			var lits []int
			for j, p := range parts {
				if p.name == "" {
					lits = append(lits, j)
				}
			}
			if len(lits) > 0 {
				hit = lits[r.Intn(len(lits))]
				if last := len(parts) - 1; parts[last].name == "" && r.Intn(3) > 0 {
					hit = last
				}
			}
		}
		for j, p := range parts {
			switch {
			case p.name != "":
				sb.WriteString(encodeValue(r, genValue(r)))
			case j != hit:
				sb.WriteString(p.lit)
			default:
				switch r.Intn(6) {
				case 0, 1: // left out
				case 2: // cut short
					sb.WriteString(p.lit[:len(p.lit)-1])
				case 3: // replaced
					sb.WriteString(foreignClosings[r.Intn(len(foreignClosings))])
				case 4: // followed by a foreign text
					sb.WriteString(p.lit + foreignClosings[r.Intn(len(foreignClosings))])
				default: // another letter case (paths are case-sensitive)
					if up := strings.ToUpper(p.lit); up != p.lit {
						sb.WriteString(up)
					}
				}
			}
		}
	}
	return sb.String()
}

func mutateTarget(r *rand.Rand, t string) string {
	switch r.Intn(10) {
	case 9: // another letter case of one letter: paths are case-sensitive
		b := []byte(t)
		for tries := 0; tries < 8 && len(b) > 1; tries++ {
			i := 1 + r.Intn(len(b)-1)
			isLetter := (b[i] >= 'a' && b[i] <= 'z') || (b[i] >= 'A' && b[i] <= 'Z')
			inEscape := b[i-1] == '%' || (i >= 2 && b[i-2] == '%')
			if isLetter && !inEscape {
				b[i] ^= 0x20
				break
			}
		}
		return string(b)
	case 0:
		return t + "/"
	case 1:
		return strings.Replace(t, "/", "//", 1)
	case 2:
		i := strings.LastIndexByte(t, '/')
		return t[:i] + "/." + t[i:]
	case 3:
		i := strings.LastIndexByte(t, '/')
		return t[:i] + "/zz/.." + t[i:]
	case 4: // drop last segment
		i := strings.LastIndexByte(t, '/')
		if i > 0 {
			return t[:i]
		}
		return t
	case 5:
		return t + "/" + gen.Pick(r, gen.Words)
	case 6:
		return t + "?q=1"
	case 7:
		b := []byte(t)
		if len(b) > 1 {
			i := 1 + r.Intn(len(b)-1)
			if b[i] != '%' && b[i] != '/' && (i < 1 || b[i-1] != '%') && (i < 2 || b[i-2] != '%') {
				b[i] = ":*;=.~ab"[r.Intn(8)]
			}
		}
		return string(b)
	default:
		return t + "/../" + gen.Pick(r, gen.Words)
	}
}

var extensionMethods = []string{"PROPFIND", "TRACE", "LINK", "QUERY"}

func randCase(r *rand.Rand, s string) string {
	b := []byte(s)
	switch r.Intn(4) {
	case 0:
		return strings.ToLower(s)
	case 1:
		for i := range b {
			if r.Intn(2) == 0 {
				b[i] |= 0x20
			}
		}
		return string(b)
	}
	return s
}

func genRequests(r *rand.Rand, d *gen.Desc, n int) []Req {
	var out []Req
	for len(out) < n {
		op := d.Ops[r.Intn(len(d.Ops))]
		var t string
		if hasCompositeSegment(op.Template) && r.Intn(4) == 0 {
			// a request that misses (or garbles) a literal of a composite segment of the template
			t = instantiateDamaged(r, d.BasePath, op.Template)
		} else {
			t = instantiate(r, d.BasePath, op.Template)
		}
		if r.Intn(3) == 0 {
			t = mutateTarget(r, t)
		}
		if r.Intn(15) == 0 {
			t = "/" + gen.Pick(r, gen.Words) + "/" + encodeValue(r, genValue(r))
		}
		meth := op.Method
		if r.Intn(4) == 0 {
			meth = methods[r.Intn(len(methods))]
		}
		if r.Intn(20) == 0 {
			meth = extensionMethods[r.Intn(len(extensionMethods))] // no description can declare these
		}
		switch k := r.Intn(200); {
		case k < 5:
			t = "http://example.com" + t // absolute-form target (what a proxy receives)
		case k == 5:
			meth, t = "OPTIONS", "*" // asterisk-form
		}
		hdr := hdrPlain
		switch r.Intn(16) {
		case 0:
			hdr = hdrAcceptNone
		case 1:
			hdr = hdrCtypeNone
		case 2:
			hdr = hdrNoAccept
		}
		var extra [][2]string
		if len(op.Params) > len(gen.PlaceholderNames(op.Template)) && t != "*" && r.Intn(4) > 0 {
			// values for the query / header parameters of the operation that are named like its placeholders
			for _, p := range op.Params {
				v := []string{"qv1", "hv2", "", "a", "x%2Fy"}[r.Intn(5)]
				switch p.In {
				case "query":
					sep := "?"
					if strings.Contains(t, "?") {
						sep = "&"
					}
					t += sep + url.QueryEscape(p.Name) + "=" + v
				case "header":
					extra = append(extra, [2]string{p.Name, v})
				}
			}
		}
		out = append(out, Req{Method: randCase(r, meth), Target: mon.Q(t), Hdr: hdr, Extra: extra})
	}
	return out
}

// genEntry: 7 descriptions in 10 through RoutesHandler(nil) as before, 1 in 10 the way a generated server is
// built (a RoutableAPI handed to NewRoutableContext), the rest through the other exported constructors.
func genEntry(r *rand.Rand, d *gen.Desc) string {
	// a description with related names: every second one through an entry point where the matched route is seen
	// by a Builder or read by a generated-server style binder
	related := false
	for i := range d.Ops {
		if templateRelation(newRefTemplate(d.BasePath, &d.Ops[i])) != "" {
			related = true
		}
	}
	if related && r.Intn(2) == 0 {
		return []string{entryRoutable, entryRoutable, entryRoutesBuilder, entryAPI, entryServeBuilder}[r.Intn(5)]
	}
	switch r.Intn(20) {
	case 0, 1:
		return entryRoutable
	case 2:
		return entryRoutesBuilder
	case 3:
		return entryAPI
	case 4:
		return entryServe
	case 5:
		return entryServeBuilder
	}
	return entryRoutes
}

func run(m *mon.M) {
	r := m.Rand("desc")
	nd := m.N(500, 6000)
	for i := 0; i < nd; i++ {
		d := genDesc(r)
		if len(d.Ops) == 0 {
			continue
		}
		c := &Case{Desc: d, Requests: genRequests(r, &d, 60), Entry: genEntry(r, &d)}
		m.Begin(c)
		runCase(m, c)
	}
	// real TCP delivery
	nt := m.N(25, 300)
	for i := 0; i < nt; i++ {
		d := genDesc(r)
		if len(d.Ops) == 0 {
			continue
		}
		c := &Case{Desc: d, Requests: genRequests(r, &d, 40), TCP: true, Entry: genEntry(r, &d)}
		m.Begin(c)
		runCase(m, c)
		m.Class("tcp-descriptions")
	}
}

func replay(m *mon.M, raw json.RawMessage) {
	var c Case
	if err := json.Unmarshal(raw, &c); err != nil {
		m.Violate("bad-replay-case", err.Error(), nil)
		return
	}
	runCase(m, &c)
}
