// Package c01 monitors spec-driven dispatch: path+method select exactly the designated
// operation, parameters are the decoded instantiating texts, 405/Allow and 404 otherwise.
package c01

import (
	"bufio"
	"bytes"
	"encoding/json"
	"fmt"
	"io"
	"math/rand"
	"net"
	"net/http"
	"net/http/httptest"
	"net/url"
	"path"
	"sort"
	"strings"

	"github.com/go-openapi/runtime"
	"github.com/go-openapi/runtime/middleware"
	"github.com/go-openapi/runtime/middleware/untyped"

	"verif/gen"
	"verif/mon"
)

func init() {
	mon.Register(&mon.Property{
		ID:    "C01",
		Level: "exploration",
		Rule: "seeded API descriptions (base path in {/, '', /api, /api/, /a/b}; 1..12 templates over a 6-word alphabet with {name}, x{name}, {a}.{b}, {a}.json segments, trailing slashes, root; any method subset) x request targets " +
			"(template instantiations with hostile values under a hostile percent-encoder, then mutated: duplicate/trailing slashes, dot segments, edits) x methods in random letter case; requests are parsed by net/http's own request parser (http.ReadRequest; thorough: also real loopback TCP). " +
			"Oracle = segment-wise matcher on path.Clean(URL.EscapedPath()) written from the statement. non-trivial = (description hash, METHOD, cleaned target) where some template fits under some method or the target shares >= 2 leading segments with a template; distinct by that triple",
		Assumptions: []string{
			"descriptions with two templates of identical shape (after cleaning) are not generated (invalid Swagger)",
			"composite segments ({a}.{b}, {a}.json, x{a}): a split on the encoded or on the decoded segment text is accepted; preference between a partial-literal segment and a pure placeholder is not stated and not judged",
			"targets that net/http's parser rejects (invalid escapes, CTLs) never reach the handler and are not judged",
		},
		MinNontrivial: 300,
		Run:           run,
		Replay:        replay,
	})
}

// Req is one request line.
type Req struct {
	Method string `json:"method"`
	Target mon.Q  `json:"target"`
}

// Case is one description plus the requests sent to it.
type Case struct {
	Desc     gen.Desc `json:"desc"`
	Requests []Req    `json:"requests"`
	TCP      bool     `json:"tcp,omitempty"`
}

// ---------- reference model ----------

type segPart struct {
	lit  string // literal text (when name == "")
	name string
}

type refTemplate struct {
	op       *gen.Op
	segs     [][]segPart // per segment of the cleaned, joined template
	trailing bool        // the declared template ends in '/' (or is the root under a non-root base path)
	compos   bool        // some segment starts with a placeholder and continues ({a}.{b}, {a}.json)
	prefixed bool        // some segment has a literal before its first placeholder (x{a})
	// structAt >= 0: the template has placeholders AND its pure-literal segment structAt holds a ':' or
	// '*' after its first byte ("items:batchGet", "a*w9"), which the trie router reads as a parameter or
	// wildcard; structPrefix is the literal text before that byte, structStar tells which one it is
	structAt     int
	structPrefix string
	structStar   bool
}

func parseSeg(s string) []segPart {
	var parts []segPart
	for len(s) > 0 {
		i := strings.IndexByte(s, '{')
		if i < 0 {
			parts = append(parts, segPart{lit: s})
			break
		}
		if i > 0 {
			parts = append(parts, segPart{lit: s[:i]})
		}
		j := strings.IndexByte(s[i:], '}')
		if j < 0 {
			parts = append(parts, segPart{lit: s[i:]})
			break
		}
		parts = append(parts, segPart{name: s[i+1 : i+j]})
		s = s[i+j+1:]
	}
	return parts
}

func splitSegs(p string) []string {
	p = strings.Trim(p, "/")
	if p == "" {
		return nil
	}
	return strings.Split(p, "/")
}

func newRefTemplate(base string, op *gen.Op) *refTemplate {
	full := path.Clean(path.Join("/", base, op.Template))
	rt := &refTemplate{op: op, structAt: -1}
	hasPlaceholder := strings.Contains(full, "{")
	for si, s := range splitSegs(full) {
		parts := parseSeg(s)
		if hasPlaceholder && rt.structAt < 0 && isPureLit(parts) && len(s) > 1 {
			if k := strings.IndexAny(s[1:], ":*"); k >= 0 {
				rt.structAt, rt.structPrefix, rt.structStar = si, s[:k+1], s[k+1] == '*'
			}
		}
		if len(parts) > 1 {
			if parts[0].name == "" {
				rt.prefixed = true
			} else {
				rt.compos = true
			}
		}
		rt.segs = append(rt.segs, parts)
	}
	cleanBase := path.Clean("/" + base)
	rt.trailing = (len(op.Template) > 1 && strings.HasSuffix(op.Template, "/")) || (op.Template == "/" && cleanBase != "/")
	return rt
}

func isPureLit(parts []segPart) bool { return len(parts) == 1 && parts[0].name == "" }

// matchSeg matches text against parts; it returns every assignment (name -> text) with non-empty texts.
func matchSeg(parts []segPart, text string, acc map[string]string, out *[]map[string]string) {
	if len(parts) == 0 {
		if text == "" {
			cp := map[string]string{}
			for k, v := range acc {
				cp[k] = v
			}
			*out = append(*out, cp)
		}
		return
	}
	p := parts[0]
	if p.name == "" {
		if strings.HasPrefix(text, p.lit) {
			matchSeg(parts[1:], text[len(p.lit):], acc, out)
		}
		return
	}
	if len(parts) == 1 {
		if text != "" {
			acc[p.name] = text
			matchSeg(nil, "", acc, out)
			delete(acc, p.name)
		}
		return
	}
	for n := 1; n <= len(text); n++ {
		acc[p.name] = text[:n]
		matchSeg(parts[1:], text[n:], acc, out)
	}
	delete(acc, p.name)
}

// fit reports whether the cleaned encoded path instantiates the template; it returns the acceptable
// parameter assignments (decoded values).
func (rt *refTemplate) fit(segs []string) (assigns []map[string]string, ok bool) {
	if len(segs) != len(rt.segs) {
		return nil, false
	}
	cur := []map[string]string{{}}
	for i, parts := range rt.segs {
		enc := segs[i]
		if isPureLit(parts) {
			if parts[0].lit != enc {
				return nil, false
			}
			continue
		}
		var alts []map[string]string
		if len(parts) == 1 { // simple placeholder
			if enc == "" {
				return nil, false
			}
			v, err := url.PathUnescape(enc)
			if err != nil {
				return nil, false
			}
			alts = []map[string]string{{parts[0].name: v}}
		} else {
			// composite: accept splits of the encoded text (values then decoded) and of the decoded text
			var encSplits []map[string]string
			matchSeg(parts, enc, map[string]string{}, &encSplits)
			for _, a := range encSplits {
				d := map[string]string{}
				bad := false
				for k, v := range a {
					u, err := url.PathUnescape(v)
					if err != nil {
						bad = true
						break
					}
					d[k] = u
				}
				if !bad {
					alts = append(alts, d)
				}
			}
			if dec, err := url.PathUnescape(enc); err == nil && dec != enc {
				matchSeg(parts, dec, map[string]string{}, &alts)
			}
			if len(alts) == 0 {
				return nil, false
			}
		}
		var next []map[string]string
		for _, c := range cur {
			for _, a := range alts {
				m := map[string]string{}
				for k, v := range c {
					m[k] = v
				}
				for k, v := range a {
					m[k] = v
				}
				next = append(next, m)
			}
		}
		if len(next) > 64 {
			next = next[:64]
		}
		cur = next
	}
	return cur, true
}

// prefers reports whether a is owed precedence over b: at the first segment where they differ in
// kind, a has a pure literal where b has a placeholder.
func prefers(a, b *refTemplate) bool {
	for i := range a.segs {
		la, lb := isPureLit(a.segs[i]), isPureLit(b.segs[i])
		if la && !lb {
			return true
		}
		if !la && lb {
			return false
		}
		if !la && !lb {
			// both have placeholders; if their shapes differ (x{a} vs {b}) the statement does not rank them
			if shapeOf(a.segs[i]) != shapeOf(b.segs[i]) {
				return false
			}
		}
	}
	return false
}

func shapeOf(parts []segPart) string {
	var sb strings.Builder
	for _, p := range parts {
		if p.name == "" {
			sb.WriteString(p.lit)
		} else {
			sb.WriteString("{}")
		}
	}
	return sb.String()
}

// ---------- system under test ----------

type observation struct {
	ranOp  string
	ran    int
	params map[string]string
}

type sut struct {
	handler http.Handler
	obs     *observation
	srv     *httptest.Server
}

func build(d *gen.Desc) (*sut, error) {
	doc, err := d.Load()
	if err != nil {
		return nil, err
	}
	s := &sut{obs: &observation{}}
	api := untyped.NewAPI(doc)
	for i := range d.Ops {
		op := d.Ops[i]
		names := gen.PlaceholderNames(op.Template)
		api.RegisterOperation(op.Method, op.Template, runtime.OperationHandlerFunc(func(params interface{}) (interface{}, error) {
			s.obs.ran++
			s.obs.ranOp = op.ID
			s.obs.params = map[string]string{}
			if m, ok := params.(map[string]interface{}); ok {
				for _, n := range names {
					if v, ok := m[n]; ok {
						s.obs.params[n] = fmt.Sprint(v)
					}
				}
			}
			return map[string]string{"op": op.ID}, nil
		}))
	}
	ctx := middleware.NewContext(doc, api, nil)
	s.handler = ctx.RoutesHandler(nil)
	return s, nil
}

type response struct {
	status int
	allow  []string
	body   string
}

func (s *sut) serve(rq Req) (resp response, parsed *http.Request, perr error, panicked interface{}, stack string) {
	raw := rq.Method + " " + string(rq.Target) + " HTTP/1.1\r\nHost: example.com\r\nAccept: application/json\r\n\r\n"
	req, err := http.ReadRequest(bufio.NewReader(strings.NewReader(raw)))
	if err != nil {
		return resp, nil, err, nil, ""
	}
	rec := httptest.NewRecorder()
	*s.obs = observation{}
	pv, st := mon.Catch(func() { s.handler.ServeHTTP(rec, req) })
	if pv != nil {
		return resp, req, nil, pv, st
	}
	resp.status = rec.Code
	for _, a := range rec.Header().Values("Allow") {
		for _, x := range strings.Split(a, ",") {
			if x = strings.TrimSpace(x); x != "" {
				resp.allow = append(resp.allow, x)
			}
		}
	}
	sort.Strings(resp.allow)
	resp.body = rec.Body.String()
	return resp, req, nil, nil, ""
}

// serveTCP sends the raw request line over a real loopback connection; the parsed request is
// captured by a wrapper so that the oracle sees exactly what net/http delivered.
func (s *sut) serveTCP(rq Req) (resp response, parsed *http.Request, perr error) {
	var captured *http.Request
	if s.srv == nil {
		s.srv = httptest.NewServer(http.HandlerFunc(func(w http.ResponseWriter, r *http.Request) {
			s.handler.ServeHTTP(w, r)
		}))
	}
	*s.obs = observation{}
	conn, err := net.Dial("tcp", s.srv.Listener.Addr().String())
	if err != nil {
		return resp, nil, err
	}
	defer conn.Close()
	raw := rq.Method + " " + string(rq.Target) + " HTTP/1.1\r\nHost: example.com\r\nAccept: application/json\r\nConnection: close\r\n\r\n"
	if _, err := io.WriteString(conn, raw); err != nil {
		return resp, nil, err
	}
	br := bufio.NewReader(conn)
	// HEAD-like lower-case methods: tell the response parser the real method
	res, err := http.ReadResponse(br, &http.Request{Method: strings.ToUpper(rq.Method)})
	if err != nil {
		return resp, nil, err
	}
	b, _ := io.ReadAll(res.Body)
	res.Body.Close()
	resp.status = res.StatusCode
	for _, a := range res.Header.Values("Allow") {
		for _, x := range strings.Split(a, ",") {
			if x = strings.TrimSpace(x); x != "" {
				resp.allow = append(resp.allow, x)
			}
		}
	}
	sort.Strings(resp.allow)
	resp.body = string(b)
	// reconstruct what the server parsed with the same parser
	captured, perr = http.ReadRequest(bufio.NewReader(strings.NewReader(raw)))
	return resp, captured, perr
}

func (s *sut) close() {
	if s.srv != nil {
		s.srv.Close()
	}
}

// ---------- judging ----------

func descHash(d *gen.Desc) string {
	b, _ := json.Marshal(d)
	return fmt.Sprintf("%x", mon.Hash64(string(b)))
}

func runCase(m *mon.M, c *Case) {
	s, err := build(&c.Desc)
	if err != nil {
		m.Class("desc-rejected")
		return
	}
	defer s.close()
	var refs []*refTemplate
	for i := range c.Desc.Ops {
		refs = append(refs, newRefTemplate(c.Desc.BasePath, &c.Desc.Ops[i]))
	}
	dh := descHash(&c.Desc)
	for _, rq := range c.Requests {
		one := &Case{Desc: c.Desc, Requests: []Req{rq}, TCP: c.TCP}
		var resp response
		var req *http.Request
		if c.TCP {
			var perr error
			resp, req, perr = s.serveTCP(rq)
			if perr != nil || req == nil {
				m.Class("tcp-unparsable")
				continue
			}
			if resp.status == 400 && s.obs.ran == 0 && strings.Contains(resp.body, "400 Bad Request") {
				m.Class("tcp-400")
				continue
			}
			if string(rq.Target) == "*" {
				m.Class("tcp-asterisk-form-answered-by-net/http-itself") // it never reaches a handler
				continue
			}
		} else {
			var perr error
			var pv interface{}
			var st string
			resp, req, perr, pv, st = s.serve(rq)
			if perr != nil {
				m.Class("unparsable-target")
				continue
			}
			if pv != nil {
				m.Eval(1)
				pfeat := "simple"
				if req != nil {
					pfeat = inputFeature(refs, splitSegs(path.Clean(req.URL.EscapedPath())))
				}
				m.Violate("panic/"+pfeat, fmt.Sprintf("%s %q panicked: %v\n%s", rq.Method, rq.Target, pv, st), one)
				continue
			}
		}
		m.Eval(1)
		cleaned := path.Clean(req.URL.EscapedPath())
		segs := splitSegs(cleaned)
		method := strings.ToUpper(rq.Method)

		// reference: which templates fit, per method
		type fitT struct {
			rt      *refTemplate
			assigns []map[string]string
		}
		fits := map[string][]fitT{}
		anyFit := false
		// an asterisk-form target ("OPTIONS *") names no path at all: no template fits it
		rooted := strings.HasPrefix(req.URL.EscapedPath(), "/")
		for _, rt := range refs {
			if as, ok := rt.fit(segs); ok && rooted {
				mm := strings.ToUpper(rt.op.Method)
				fits[mm] = append(fits[mm], fitT{rt, as})
				anyFit = true
			}
		}
		if anyFit || sharesTwo(refs, segs) {
			m.NT(dh + "|" + method + "|" + cleaned)
		}
		mine := fits[method]
		feat := inputFeature(refs, segs)
		if feat == "composite-segment" && len(mine) > 0 {
			// The recorded defect of composite segments concerns requests that split in several ways or lack the
			// separator. A request that every fitting template splits in exactly ONE way is dispatched correctly
			// by the unchanged tree: it gets a class of its own, which no known finding covers.
			unambiguous := true
			fitting := map[*refTemplate]bool{}
			for _, fs := range fits {
				for _, f := range fs {
					fitting[f.rt] = true
					if len(f.assigns) != 1 {
						unambiguous = false
					}
					// every literal of a composite segment occurs exactly once in the request's segment (the
					// recorded defect includes splitting at the first occurrence when that leaves an empty part)
					for i, parts := range f.rt.segs {
						if len(parts) < 2 {
							continue
						}
						for _, pt := range parts {
							if pt.name == "" && (!occursOnce(segs[i], pt.lit) || !occursOnce(decodedOr(segs[i]), pt.lit)) {
								unambiguous = false
							}
						}
					}
				}
			}
			// ... and no other composite template gets in the way (one whose literal segments agree with the
			// request but which the request does not instantiate is routed to all the same: the known defect)
			for _, rt := range refs {
				if !rt.compos || fitting[rt] || len(rt.segs) != len(segs) {
					continue
				}
				loose := true
				for i, parts := range rt.segs {
					if isPureLit(parts) && parts[0].lit != segs[i] {
						loose = false
					}
				}
				if loose {
					unambiguous = false
				}
			}
			if unambiguous {
				feat = "composite-segment/unambiguous-split"
			}
		}
		if len(mine) > 0 {
			// the designated operations: those not beaten by another fitting one
			var best []fitT
			for _, f := range mine {
				beaten := false
				for _, g := range mine {
					if g.rt != f.rt && prefers(g.rt, f.rt) {
						beaten = true
					}
				}
				if !beaten {
					best = append(best, f)
				}
			}
			if s.obs.ran == 0 {
				m.Violate("no-handler-ran/"+feat,
					fmt.Sprintf("%s %q (cleaned %q): template %q of %s fits but no handler ran; status %d body %.120q", rq.Method, rq.Target, cleaned, best[0].rt.op.Template, best[0].rt.op.ID, resp.status, resp.body), one)
				continue
			}
			if s.obs.ran > 1 {
				m.Violate("handler-ran-twice/"+feat, fmt.Sprintf("%s %q: %d handler invocations", rq.Method, rq.Target, s.obs.ran), one)
				continue
			}
			var chosen *fitT
			for i := range best {
				if best[i].rt.op.ID == s.obs.ranOp {
					chosen = &best[i]
				}
			}
			if chosen == nil {
				ids := []string{}
				for _, b := range best {
					ids = append(ids, b.rt.op.ID+"="+b.rt.op.Template)
				}
				m.Violate("wrong-operation/"+feat, fmt.Sprintf("%s %q (cleaned %q): handler of %s ran, designated: %v", rq.Method, rq.Target, cleaned, s.obs.ranOp, ids), one)
				continue
			}
			okParams := false
			for _, a := range chosen.assigns {
				if sameMap(a, s.obs.params) {
					okParams = true
					break
				}
			}
			if !okParams {
				m.Violate("wrong-path-params/"+feat, fmt.Sprintf("%s %q (cleaned %q): %s received %v, expected one of %v", rq.Method, rq.Target, cleaned, s.obs.ranOp, s.obs.params, chosen.assigns), one)
				continue
			}
			if resp.status != 200 {
				m.Violate("wrong-status-after-handler/"+feat, fmt.Sprintf("%s %q: handler ran but status %d", rq.Method, rq.Target, resp.status), one)
				continue
			}
			m.Class("dispatched")
			if chosen.rt.compos {
				m.Class("dispatched-composite")
			}
			if len(mine) > 1 {
				m.Class("dispatched-with-competitors")
			}
		} else {
			if s.obs.ran > 0 {
				m.Violate("handler-ran-without-fit/"+feat, fmt.Sprintf("%s %q (cleaned %q): handler of %s ran although no template fits under %s", rq.Method, rq.Target, cleaned, s.obs.ranOp, method), one)
				continue
			}
			var allow []string
			for mm := range fits {
				allow = append(allow, mm)
			}
			sort.Strings(allow)
			otherFeat := feat
			if len(allow) > 0 {
				if resp.status != http.StatusMethodNotAllowed {
					m.Violate("wrong-status-expected-405/"+otherFeat, fmt.Sprintf("%s %q (cleaned %q): templates fit under %v, status %d", rq.Method, rq.Target, cleaned, allow, resp.status), one)
					continue
				}
				if strings.Join(allow, ",") != strings.Join(resp.allow, ",") {
					m.Violate("wrong-allow/"+otherFeat, fmt.Sprintf("%s %q (cleaned %q): Allow %v, expected %v", rq.Method, rq.Target, cleaned, resp.allow, allow), one)
					continue
				}
				m.Class("405")
			} else {
				if resp.status != http.StatusNotFound {
					m.Violate("wrong-status-expected-404/"+feat, fmt.Sprintf("%s %q (cleaned %q): no template fits under any method, status %d body %.120q", rq.Method, rq.Target, cleaned, resp.status, resp.body), one)
					continue
				}
				m.Class("404")
			}
		}
	}
	if m.WantSample() {
		sc := *c
		if len(sc.Requests) > 5 {
			sc.Requests = sc.Requests[:5]
		}
		m.Sample(sc)
	}
}

// inputFeature classifies the request by the kinds of template (of any method) that fit it loosely,
// i.e. whose pure-literal segments equal the request's and whose other segments are non-empty. It is a
// feature of the input only (used in signatures), never part of a verdict.
func inputFeature(refs []*refTemplate, segs []string) string {
	for _, rt := range refs {
		if rt.structAt >= 0 && len(segs) > rt.structAt && (rt.structStar || len(rt.segs) == len(segs)) {
			// the request gets as far as the literal with the ':' or '*' and shares the text before it
			ok := true
			for i := 0; i < rt.structAt; i++ {
				if isPureLit(rt.segs[i]) && rt.segs[i][0].lit != segs[i] {
					ok = false
				}
			}
			if ok && (strings.HasPrefix(segs[rt.structAt], rt.structPrefix) || strings.HasPrefix(decodedOr(segs[rt.structAt]), rt.structPrefix)) {
				return "colon-or-star-in-literal-of-parameterised-template"
			}
		}
	}
	feat := "simple"
	for _, rt := range refs {
		if len(rt.segs) != len(segs) {
			continue
		}
		ok := true
		for i, parts := range rt.segs {
			if isPureLit(parts) && parts[0].lit != segs[i] {
				ok = false
				break
			}
			// a segment "x{a}" is routed as the literal text it is written as: it only gets in the way
			// of requests whose segment starts with that literal (a template that also has a composite
			// segment captures anything there, so it stays in the loose class)
			if !rt.compos && len(parts) > 1 && parts[0].name == "" && !strings.HasPrefix(segs[i], parts[0].lit) && !strings.HasPrefix(decodedOr(segs[i]), parts[0].lit) {
				ok = false
				break
			}
		}
		if !ok {
			continue
		}
		switch {
		case rt.prefixed:
			return "prefixed-placeholder-segment"
		case rt.compos:
			feat = "composite-segment"
		}
	}
	return feat
}

// occursOnce: lit occurs in s at exactly one position (overlapping occurrences count: "---" holds "--" twice).
func occursOnce(s, lit string) bool {
	i := strings.Index(s, lit)
	return i >= 0 && !strings.Contains(s[i+1:], lit)
}

func decodedOr(seg string) string {
	if d, err := url.PathUnescape(seg); err == nil {
		return d
	}
	return seg
}

func sharesTwo(refs []*refTemplate, segs []string) bool {
	if len(segs) < 2 {
		return false
	}
	for _, rt := range refs {
		if len(rt.segs) >= 2 && isPureLit(rt.segs[0]) && rt.segs[0][0].lit == segs[0] {
			if !isPureLit(rt.segs[1]) || rt.segs[1][0].lit == segs[1] {
				return true
			}
		}
	}
	return false
}

func sameMap(a, b map[string]string) bool {
	if len(a) != len(b) {
		return false
	}
	for k, v := range a {
		if w, ok := b[k]; !ok || w != v {
			return false
		}
	}
	return true
}

// ---------- generation ----------

var methods = []string{"GET", "POST", "PUT", "DELETE", "PATCH", "HEAD", "OPTIONS"}
var basePaths = []string{"/", "", "/api", "/api/", "/a/b", "/", "/x"}

var richLiterals = []string{"items:batchGet", "a*w9", "v=1", "caf\u00e9", "Users", "x~y", "a;b", "a,b", "a+b", "@me"}

// (names with bytes outside [A-Za-z0-9_-] are legal; "a.b" is left out because the dependency that collects an
// operation's parameters keys them by their Go-ified name, under which "a.b" and "ab" are the same parameter)
var placeholderWords = append([]string{"api", "a", "b", "x", "p", "ap", "book.id", "v~1", "k$", "id!"}, gen.Words...)

func genTemplate(r *rand.Rand, id int) string {
	if r.Intn(25) == 0 {
		return "/"
	}
	nseg := 1 + r.Intn(4)
	var sb strings.Builder
	np := 0
	usedNames := map[string]bool{}
	name := func() string {
		np++
		if r.Intn(5) == 0 {
			// a name that also occurs as plain text in templates and base paths ("/tag/{tag}", "/api" + "/{a}")
			if w := gen.Pick(r, placeholderWords); !usedNames[w] {
				usedNames[w] = true
				return w
			}
		}
		return fmt.Sprintf("p%d_%d", id, np)
	}
	for s := 0; s < nseg; s++ {
		sb.WriteByte('/')
		switch k := r.Intn(120); {
		case k < 56:
			sb.WriteString(gen.Pick(r, gen.Words))
		case k < 110:
			sb.WriteString("{" + name() + "}")
		case k < 112:
			sb.WriteString(gen.Pick(r, gen.Words) + "{" + name() + "}")
		case k < 113:
			sb.WriteString("{" + name() + "}." + "{" + name() + "}")
		case k < 114:
			// a separator of several bytes between the two placeholders
			sb.WriteString("{" + name() + "}" + []string{".v", "--", "_of_"}[r.Intn(3)] + "{" + name() + "}")
		case k < 115:
			sb.WriteString("{" + name() + "}.json")
		case k < 117:
			sb.WriteString(gen.Pick(r, gen.Words) + "." + gen.Pick(r, gen.Words))
		case k < 119:
			// literal segments holding bytes that are special elsewhere (denco, URLs, letter case)
			w := gen.Pick(r, richLiterals)
			if usedNames[w] { // not twice in one template ("a*w9" twice would name two wildcards alike)
				w = gen.Pick(r, gen.Words)
			}
			usedNames[w] = true
			sb.WriteString(w)
		default:
			sb.WriteString(gen.Pick(r, gen.Words) + "-{" + name() + "}-{" + name() + "}")
		}
	}
	if r.Intn(12) == 0 {
		sb.WriteByte('/')
	}
	return sb.String()
}

func shapeKey(tpl string) string {
	var sb strings.Builder
	for _, s := range splitSegs(path.Clean("/" + tpl)) {
		sb.WriteByte('/')
		sb.WriteString(shapeOf(parseSeg(s)))
	}
	return sb.String()
}

func genDesc(r *rand.Rand) gen.Desc {
	d := gen.Desc{BasePath: basePaths[r.Intn(len(basePaths))]}
	n := 1 + r.Intn(12)
	seen := map[string]bool{}
	for t := 0; t < n*3 && len(seen) < n; t++ {
		tpl := genTemplate(r, len(seen))
		k := shapeKey(tpl)
		if seen[k] {
			continue
		}
		seen[k] = true
		nm := 1 + r.Intn(3)
		used := map[string]bool{}
		for j := 0; j < nm; j++ {
			meth := methods[r.Intn(len(methods))]
			if used[meth] {
				continue
			}
			used[meth] = true
			op := gen.Op{ID: fmt.Sprintf("op%d_%s", len(seen), meth), Method: meth, Template: tpl}
			for _, pn := range gen.PlaceholderNames(tpl) {
				op.Params = append(op.Params, gen.Param{Name: pn, In: "path", Type: "string", Required: true})
			}
			d.Ops = append(d.Ops, op)
		}
	}
	return d
}

const hexU = "0123456789ABCDEF"
const hexL = "0123456789abcdef"

// encodeValue percent-encodes a value with a hostile encoder: bytes that must be encoded always are,
// any other byte independently raw or encoded (upper/lower hex).
func encodeValue(r *rand.Rand, v string) string {
	var sb strings.Builder
	for i := 0; i < len(v); i++ {
		c := v[i]
		must := c <= 0x20 || c == 0x7f || c == '/' || c == '%' || c == '?' || c == '#'
		if must || r.Intn(5) == 0 {
			h := hexU
			if r.Intn(2) == 0 {
				h = hexL
			}
			sb.WriteByte('%')
			sb.WriteByte(h[c>>4])
			sb.WriteByte(h[c&15])
		} else {
			sb.WriteByte(c)
		}
	}
	return sb.String()
}

var valueAlphabet = []string{":", "*", "#", ";", "=", "%2F", "%25", "+", " ", "{", "}", "é", "\x00", ".", "..", "~", "a", "ab", "x", "users", "@", "&", "$", ",", "!", "'", "(", ")", "%", "/", "?", "\xff", "json", ".json", "-", "A", "Ab", "USERS", "Users"}

func genValue(r *rand.Rand) string {
	n := 1 + r.Intn(3)
	var sb strings.Builder
	for i := 0; i < n; i++ {
		sb.WriteString(valueAlphabet[r.Intn(len(valueAlphabet))])
	}
	return sb.String()
}

func instantiate(r *rand.Rand, base, tpl string) string {
	full := path.Join("/", base, tpl)
	var sb strings.Builder
	for _, s := range splitSegs(full) {
		sb.WriteByte('/')
		for _, p := range parseSeg(s) {
			if p.name == "" {
				if r.Intn(30) == 0 {
					sb.WriteString(encodeValue(r, p.lit))
				} else {
					sb.WriteString(p.lit)
				}
			} else {
				sb.WriteString(encodeValue(r, genValue(r)))
			}
		}
	}
	if sb.Len() == 0 {
		return "/"
	}
	return sb.String()
}

func mutateTarget(r *rand.Rand, t string) string {
	switch r.Intn(10) {
	case 9: // another letter case of one letter: paths are case-sensitive
		b := []byte(t)
		for tries := 0; tries < 8 && len(b) > 1; tries++ {
			i := 1 + r.Intn(len(b)-1)
			isLetter := (b[i] >= 'a' && b[i] <= 'z') || (b[i] >= 'A' && b[i] <= 'Z')
			inEscape := b[i-1] == '%' || (i >= 2 && b[i-2] == '%')
			if isLetter && !inEscape {
				b[i] ^= 0x20
				break
			}
		}
		return string(b)
	case 0:
		return t + "/"
	case 1:
		return strings.Replace(t, "/", "//", 1)
	case 2:
		i := strings.LastIndexByte(t, '/')
		return t[:i] + "/." + t[i:]
	case 3:
		i := strings.LastIndexByte(t, '/')
		return t[:i] + "/zz/.." + t[i:]
	case 4: // drop last segment
		i := strings.LastIndexByte(t, '/')
		if i > 0 {
			return t[:i]
		}
		return t
	case 5:
		return t + "/" + gen.Pick(r, gen.Words)
	case 6:
		return t + "?q=1"
	case 7:
		b := []byte(t)
		if len(b) > 1 {
			i := 1 + r.Intn(len(b)-1)
			if b[i] != '%' && b[i] != '/' && (i < 1 || b[i-1] != '%') && (i < 2 || b[i-2] != '%') {
				b[i] = ":*;=.~ab"[r.Intn(8)]
			}
		}
		return string(b)
	default:
		return t + "/../" + gen.Pick(r, gen.Words)
	}
}

var extensionMethods = []string{"PROPFIND", "TRACE", "LINK", "QUERY"}

func randCase(r *rand.Rand, s string) string {
	b := []byte(s)
	switch r.Intn(4) {
	case 0:
		return strings.ToLower(s)
	case 1:
		for i := range b {
			if r.Intn(2) == 0 {
				b[i] |= 0x20
			}
		}
		return string(b)
	}
	return s
}

func genRequests(r *rand.Rand, d *gen.Desc, n int) []Req {
	var out []Req
	for len(out) < n {
		op := d.Ops[r.Intn(len(d.Ops))]
		t := instantiate(r, d.BasePath, op.Template)
		if r.Intn(3) == 0 {
			t = mutateTarget(r, t)
		}
		if r.Intn(15) == 0 {
			t = "/" + gen.Pick(r, gen.Words) + "/" + encodeValue(r, genValue(r))
		}
		meth := op.Method
		if r.Intn(4) == 0 {
			meth = methods[r.Intn(len(methods))]
		}
		if r.Intn(20) == 0 {
			meth = extensionMethods[r.Intn(len(extensionMethods))] // no description can declare these
		}
		switch k := r.Intn(200); {
		case k < 5:
			t = "http://example.com" + t // absolute-form target (what a proxy receives)
		case k == 5:
			meth, t = "OPTIONS", "*" // asterisk-form
		}
		out = append(out, Req{Method: randCase(r, meth), Target: mon.Q(t)})
	}
	return out
}

func run(m *mon.M) {
	r := m.Rand("desc")
	nd := m.N(500, 6000)
	for i := 0; i < nd; i++ {
		d := genDesc(r)
		if len(d.Ops) == 0 {
			continue
		}
		c := &Case{Desc: d, Requests: genRequests(r, &d, 60)}
		m.Begin(c)
		runCase(m, c)
	}
	// real TCP delivery
	nt := m.N(25, 300)
	for i := 0; i < nt; i++ {
		d := genDesc(r)
		if len(d.Ops) == 0 {
			continue
		}
		c := &Case{Desc: d, Requests: genRequests(r, &d, 40), TCP: true}
		m.Begin(c)
		runCase(m, c)
		m.Class("tcp-descriptions")
	}
}

func replay(m *mon.M, raw json.RawMessage) {
	var c Case
	if err := json.Unmarshal(raw, &c); err != nil {
		m.Violate("bad-replay-case", err.Error(), nil)
		return
	}
	runCase(m, &c)
}

var _ = bytes.NewReader
