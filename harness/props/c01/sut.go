package c01

import (
	"bufio"
	"fmt"
	"io"
	"log"
	"net"
	"net/http"
	"net/http/httptest"
	"os"
	"sort"
	"strings"
	"time"

	"github.com/go-openapi/runtime"
	"github.com/go-openapi/runtime/middleware"
	"github.com/go-openapi/runtime/middleware/untyped"

	"verif/gen"
	"verif/mon"
)

// ---------- system under test ----------

// Entry points (Case.Entry). The dispatch oracle is the same for all of them.
const (
	entryRoutes        = ""               // NewContext(...).RoutesHandler(nil)                        (every case recorded before round 3)
	entryRoutesBuilder = "routes-builder" // NewContext(...).RoutesHandler(recording Builder)
	entryAPI           = "api"            // NewContext(...).APIHandler(recording Builder)
	entryServe         = "serve"          // middleware.Serve(doc, api)
	entryServeBuilder  = "serve-builder"  // middleware.ServeWithBuilder(doc, api, recording Builder)
	entryRoutable      = "routable"       // a generated-server style RoutableAPI: NewRoutableContext(doc, g, nil).APIHandler(recording Builder)
)

var entries = []string{entryRoutes, entryRoutesBuilder, entryAPI, entryServe, entryServeBuilder, entryRoutable}

func knownEntry(e string) bool {
	for _, x := range entries {
		if x == e {
			return true
		}
	}
	return false
}

type observation struct {
	ranOp  string
	ran    int
	params map[string]string
	// what a middleware installed through the Builder saw in the request's context (MatchedRouteFrom)
	mrCalls   int
	mrNil     bool
	mrPattern string
	mrParams  middleware.RouteParams
}

type sut struct {
	handler http.Handler
	obs     *observation
	builder bool // a recording Builder is installed

	srv    *http.Server
	addr   string
	traces chan *tcpTrace
}

// recordingBuilder is a middleware.Builder: the handler it returns sits between the router and the operation
// executor, where applications install their own middleware, and notes what MatchedRouteFrom yields there.
func (s *sut) recordingBuilder(next http.Handler) http.Handler {
	return http.HandlerFunc(func(w http.ResponseWriter, r *http.Request) {
		s.obs.mrCalls++
		if mr := middleware.MatchedRouteFrom(r); mr == nil {
			s.obs.mrNil = true
		} else {
			s.obs.mrPattern = mr.PathPattern
			s.obs.mrParams = append(middleware.RouteParams(nil), mr.Params...)
		}
		next.ServeHTTP(w, r)
	})
}

// genBinder is the parameter object of a generated server: it reads the path values from the matched route,
// the way generated BindRequest methods do (route.Params.GetOK / Get).
type genBinder struct {
	names []string
	got   map[string]string
}

func (b *genBinder) BindRequest(_ *http.Request, route *middleware.MatchedRoute) error {
	b.got = map[string]string{}
	for _, n := range b.names {
		if _, has, _ := route.Params.GetOK(n); has {
			b.got[n] = route.Params.Get(n)
		}
	}
	return nil
}

func build(d *gen.Desc, entry string) (*sut, error) {
	if !knownEntry(entry) {
		return nil, fmt.Errorf("unknown entry point %q", entry)
	}
	doc, err := d.Load()
	if err != nil {
		return nil, err
	}
	s := &sut{obs: &observation{}}
	api := untyped.NewAPI(doc)
	if entry == entryRoutable {
		g := gen.NewGeneratedAPI(api)
		for i := range d.Ops {
			op := d.Ops[i]
			names := gen.PlaceholderNames(op.Template)
			g.Operation(op.Method, op.Template, gen.GeneratedOp{
				NewBinder: func() middleware.RequestBinder { return &genBinder{names: names} },
				Handle: func(_ *http.Request, params middleware.RequestBinder, _ interface{}) interface{} {
					s.obs.ran++
					s.obs.ranOp = op.ID
					s.obs.params = map[string]string{}
					if b, ok := params.(*genBinder); ok {
						for k, v := range b.got {
							s.obs.params[k] = v
						}
					}
					return map[string]string{"op": op.ID}
				},
			})
		}
		ctx := middleware.NewRoutableContext(doc, g, nil)
		g.SetContext(ctx)
		s.builder = true
		s.handler = ctx.APIHandler(s.recordingBuilder)
		return s, nil
	}
	for i := range d.Ops {
		op := d.Ops[i]
		names := gen.PlaceholderNames(op.Template)
		api.RegisterOperation(op.Method, op.Template, runtime.OperationHandlerFunc(func(params interface{}) (interface{}, error) {
			s.obs.ran++
			s.obs.ranOp = op.ID
			s.obs.params = map[string]string{}
			if m, ok := params.(map[string]interface{}); ok {
				for _, n := range names {
					if v, ok := m[n]; ok {
						s.obs.params[n] = fmt.Sprint(v)
					}
				}
			}
			return map[string]string{"op": op.ID}, nil
		}))
	}
	switch entry {
	case entryRoutes:
		s.handler = middleware.NewContext(doc, api, nil).RoutesHandler(nil)
	case entryRoutesBuilder:
		s.builder = true
		s.handler = middleware.NewContext(doc, api, nil).RoutesHandler(s.recordingBuilder)
	case entryAPI:
		s.builder = true
		s.handler = middleware.NewContext(doc, api, nil).APIHandler(s.recordingBuilder)
	case entryServe:
		s.handler = middleware.Serve(doc, api)
	case entryServeBuilder:
		s.builder = true
		s.handler = middleware.ServeWithBuilder(doc, api, s.recordingBuilder)
	}
	return s, nil
}

type response struct {
	status int
	allow  []string
	body   string
}

// Header variants of a request (Req.Hdr). "" is what every case recorded before round 3 sent.
const (
	hdrPlain      = ""            // Accept: application/json, no body
	hdrAcceptNone = "accept-none" // Accept: text/x-none (nothing the API produces)
	hdrCtypeNone  = "ctype-none"  // Content-Type: text/x-none and a 2-byte body (nothing the API consumes)
	hdrNoAccept   = "no-accept"   // no Accept header at all
)

func knownHdr(h string) bool {
	return h == hdrPlain || h == hdrAcceptNone || h == hdrCtypeNone || h == hdrNoAccept
}

// rawRequest renders the request as it goes over the wire.
func rawRequest(rq Req, closeConn bool) string {
	var sb strings.Builder
	sb.WriteString(rq.Method + " " + string(rq.Target) + " HTTP/1.1\r\nHost: example.com\r\n")
	switch rq.Hdr {
	case hdrAcceptNone:
		sb.WriteString("Accept: text/x-none\r\n")
	case hdrCtypeNone:
		sb.WriteString("Accept: application/json\r\nContent-Type: text/x-none\r\nContent-Length: 2\r\n")
	case hdrNoAccept:
	default:
		sb.WriteString("Accept: application/json\r\n")
	}
	for _, h := range rq.Extra {
		sb.WriteString(h[0] + ": " + h[1] + "\r\n")
	}
	if closeConn {
		sb.WriteString("Connection: close\r\n")
	}
	sb.WriteString("\r\n")
	if rq.Hdr == hdrCtypeNone {
		sb.WriteString("{}")
	}
	return sb.String()
}

// delivered is what net/http handed to the library, noted BEFORE the library saw the request.
type delivered struct {
	esc       string // URL.EscapedPath()
	rewritten bool   // the library changed the URL of the request it was given
}

func urlSnapshot(r *http.Request) string {
	u := r.URL
	return fmt.Sprintf("%q %q %q %q %q %q %q", u.Scheme, u.Host, u.Path, u.RawPath, u.RawQuery, u.Opaque, r.RequestURI)
}

func parseAllow(values []string) []string {
	var allow []string
	for _, a := range values {
		for _, x := range strings.Split(a, ",") {
			if x = strings.TrimSpace(x); x != "" {
				allow = append(allow, x)
			}
		}
	}
	sort.Strings(allow)
	return allow
}

func (s *sut) serve(rq Req) (resp response, dl *delivered, perr error, panicked interface{}, stack string) {
	req, err := http.ReadRequest(bufio.NewReader(strings.NewReader(rawRequest(rq, false))))
	if err != nil {
		return resp, nil, err, nil, ""
	}
	// the oracle judges what was delivered, not what the request looks like after the library has had it
	dl = &delivered{esc: req.URL.EscapedPath()}
	before := urlSnapshot(req)
	rec := httptest.NewRecorder()
	*s.obs = observation{}
	pv, st := mon.Catch(func() { s.handler.ServeHTTP(rec, req) })
	dl.rewritten = urlSnapshot(req) != before
	if pv != nil {
		return resp, dl, nil, pv, st
	}
	resp.status = rec.Code
	resp.allow = parseAllow(rec.Header().Values("Allow"))
	resp.body = rec.Body.String()
	return resp, dl, nil, nil, ""
}

// ---------- real loopback TCP ----------

// tcpTrace is what the wrapper around the library's handler saw of one delivered request.
type tcpTrace struct {
	esc      string
	panicVal interface{}
	stack    string
}

// startTCP opens the loopback listener (a few attempts: the machine may be out of ports for a moment).
func (s *sut) startTCP() error {
	var l net.Listener
	var err error
	for attempt := 0; attempt < 5; attempt++ {
		if l, err = net.Listen("tcp", "127.0.0.1:0"); err == nil {
			break
		}
		time.Sleep(time.Duration(50<<attempt) * time.Millisecond)
	}
	if err != nil {
		return err
	}
	s.traces = make(chan *tcpTrace, 16)
	s.addr = l.Addr().String()
	s.srv = &http.Server{
		ErrorLog: log.New(io.Discard, "", 0),
		Handler: http.HandlerFunc(func(w http.ResponseWriter, r *http.Request) {
			tr := &tcpTrace{esc: r.URL.EscapedPath()}
			tr.panicVal, tr.stack = mon.Catch(func() { s.handler.ServeHTTP(w, r) })
			select {
			case s.traces <- tr:
			default:
			}
		}),
	}
	go func() { _ = s.srv.Serve(l) }()
	return nil
}

func (s *sut) takeTrace(wait time.Duration) *tcpTrace {
	select {
	case tr := <-s.traces:
		return tr
	default:
	}
	select {
	case tr := <-s.traces:
		return tr
	case <-time.After(wait):
		return nil
	}
}

// tcpOutcome of one request after the retries.
type tcpOutcome struct {
	resp     response
	answered bool      // a parsable HTTP response came back
	tr       *tcpTrace // nil: the wrapped handler never saw the request
	attempts int
	// every attempt went the same way: the library's handler got the request and returned normally, and no
	// parsable answer came back
	alwaysMute bool
	lastError  error
}

const tcpAttempts = 3

// serveTCP sends the raw request over a real loopback connection. A failure to connect, to write or to read
// is a fact about the machine unless the library's handler was seen to run: it is retried on a fresh
// connection and, when it persists without the handler having been reached, reported as undelivered (never
// as a violation). Waiting times are watchdogs and retry pauses only.
func (s *sut) serveTCP(rq Req) (out tcpOutcome) {
	raw := rawRequest(rq, true)
	mute := 0
	for attempt := 1; attempt <= tcpAttempts; attempt++ {
		out.attempts = attempt
		for len(s.traces) > 0 {
			<-s.traces
		}
		*s.obs = observation{}
		resp, err := s.roundTrip(rq, raw)
		if err == nil {
			out.resp, out.answered, out.lastError = resp, true, nil
			out.tr = s.takeTrace(300 * time.Millisecond)
			return out
		}
		out.lastError = err
		// no parsable answer: did the library's handler get the request?
		out.tr = s.takeTrace(2 * time.Second)
		if out.tr != nil && out.tr.panicVal != nil {
			return out // the library panicked: net/http dropped the connection
		}
		if out.tr != nil {
			mute++
		}
		time.Sleep(time.Duration(20*attempt) * time.Millisecond)
	}
	out.alwaysMute = mute == tcpAttempts
	if !out.alwaysMute {
		out.tr = nil // the attempts disagree: the machine, not the library
	}
	return out
}

func (s *sut) roundTrip(rq Req, raw string) (resp response, err error) {
	conn, err := net.DialTimeout("tcp", s.addr, 10*time.Second)
	if err != nil {
		return resp, err
	}
	defer conn.Close()
	_ = conn.SetDeadline(time.Now().Add(30 * time.Second))
	if _, err := io.WriteString(conn, raw); err != nil {
		return resp, err
	}
	// tell the response parser the real method (HEAD answers carry no body)
	res, err := http.ReadResponse(bufio.NewReader(conn), &http.Request{Method: strings.ToUpper(rq.Method)})
	if err != nil {
		return resp, err
	}
	b, err := io.ReadAll(res.Body)
	res.Body.Close()
	if err != nil {
		return resp, err
	}
	resp.status = res.StatusCode
	resp.allow = parseAllow(res.Header.Values("Allow"))
	resp.body = string(b)
	return resp, nil
}

func (s *sut) close() {
	if s.srv != nil {
		_ = s.srv.Close()
	}
}

func harnessNote(format string, a ...interface{}) {
	fmt.Fprintf(os.Stderr, "C01 harness: "+format+"\n", a...)
}
