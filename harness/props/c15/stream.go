package c15

import (
	"context"
	"errors"
	"fmt"
	"io"
	"os"
	goruntime "runtime"
)

// Script is the behaviour of one scripted stream (or stream-like payload).
//
// As a reader: Chunks are the sizes of the successive non-empty reads (cycled; empty = as much as
// the caller's buffer takes); a 0 entry is a zero-length read (0, nil) - never more than
// maxZeroRun in a row, whatever the script says; EOFData returns the last bytes together with
// io.EOF; Fault makes the stream fail once ErrAt bytes were delivered (ErrData: the error comes
// together with the last bytes before ErrAt instead of on the next call).
//
// As a writer: Fault makes the write that would carry byte number ErrAt fail after accepting the
// bytes before it; Sticky keeps every later write failing too.
//
// Err names the error VALUE the fault reports (see errValues): "" is the harness's own sentinel; the other names
// are values real streams report (a truncated HTTP body, a closed pipe, a cancelled context, a deadline ...). The
// property's error clause does not depend on which value it is: whatever the stream reported as a failure must
// come back as a failure.
type Script struct {
	Chunks  []int  `json:"chunks,omitempty"`
	EOFData bool   `json:"eof_with_data,omitempty"`
	Fault   bool   `json:"fault,omitempty"`
	ErrAt   int    `json:"err_at,omitempty"`
	ErrData bool   `json:"err_with_data,omitempty"`
	Sticky  bool   `json:"sticky,omitempty"`
	Err     string `json:"err,omitempty"`
}

const maxZeroRun = 50 // bufio gives up after 100 consecutive (0, nil) reads

var errInjected = errors.New("verif: injected stream error")

// timeoutErr is a net.Error whose Timeout() is true (what a connection reports once its deadline has passed).
type timeoutErr struct{}

func (timeoutErr) Error() string   { return "verif: i/o timeout on the scripted stream" }
func (timeoutErr) Timeout() bool   { return true }
func (timeoutErr) Temporary() bool { return true }

// errValues: the error values a scripted fault can report, by name (Script.Err). None of them IS io.EOF: each one
// is a failure of the stream, not its end, for a reader (io.Reader: only io.EOF itself ends a stream) as for a writer.
var errValues = map[string]error{
	"":                       errInjected,
	"unexpected-eof":         io.ErrUnexpectedEOF, // net/http: a body shorter than its Content-Length; gzip/flate: truncated input
	"wrapped-unexpected-eof": fmt.Errorf("verif: body cut short: %w", io.ErrUnexpectedEOF),
	"wrapped-eof":            fmt.Errorf("verif: connection lost: %w", io.EOF),
	"eof-text":               errors.New("EOF"), // reads like io.EOF, is another value
	"closed-pipe":            io.ErrClosedPipe,
	"short-write":            io.ErrShortWrite,
	"short-buffer":           io.ErrShortBuffer,
	"no-progress":            io.ErrNoProgress,
	"ctx-canceled":           context.Canceled,
	"ctx-deadline":           context.DeadlineExceeded,
	"os-deadline":            os.ErrDeadlineExceeded,
	"os-closed":              os.ErrClosed,
	"net-timeout":            timeoutErr{},
	"wrapped-net-timeout":    fmt.Errorf("verif: read tcp: %w", timeoutErr{}),
}

// errNames: the names of errValues but "", in a fixed order (generation must not depend on map order).
var errNames = []string{"unexpected-eof", "wrapped-unexpected-eof", "wrapped-eof", "eof-text", "closed-pipe", "short-write", "short-buffer",
	"no-progress", "ctx-canceled", "ctx-deadline", "os-deadline", "os-closed", "net-timeout", "wrapped-net-timeout"}

// err is the error value the script's fault reports (an unknown name in a replay file: the sentinel).
func (s Script) err() error {
	if e, ok := errValues[s.Err]; ok {
		return e
	}
	return errInjected
}

// errFeat is the input feature class an error value adds to a signature ("" for the sentinel, so that the
// signatures of the pinned witnesses keep their spelling).
func (s Script) errFeat() string {
	if !s.Fault || s.Err == "" {
		return ""
	}
	if _, ok := errValues[s.Err]; !ok {
		return ""
	}
	return "/err=" + s.Err
}

// errUsedAfterClose is what a scripted stream answers once it was closed, as a file or an HTTP body does.
var errUsedAfterClose = errors.New("verif: stream used after Close")

// class names the behaviour class of a script (evidence and fingerprints).
func (s Script) class(total int) string {
	c := "whole"
	if len(s.Chunks) > 0 {
		ones, zeros := true, false
		for _, n := range s.Chunks {
			if n != 1 {
				ones = false
			}
			if n == 0 {
				zeros = true
			}
		}
		switch {
		case zeros:
			c = "zero-len-reads"
		case ones:
			c = "1-byte"
		default:
			c = "chunked"
		}
	}
	if s.EOFData {
		c += "+data-with-eof"
	}
	if s.Fault {
		switch {
		case s.ErrAt <= 0:
			c += "+err@0"
		case s.ErrAt >= total:
			c += "+err@end"
		default:
			c += "+err@mid"
		}
		if s.ErrData {
			c += "(with-data)"
		}
		if s.Sticky {
			c += "(sticky)"
		}
		if f := s.errFeat(); f != "" {
			c += "(" + f[1:] + ")"
		}
	}
	return c
}

// sReader is a scripted io.ReadCloser.
type sReader struct {
	data []byte
	// pat/total: a content generated lazily (pat repeated up to total bytes) instead of data
	pat   []byte
	total int
	pos   int
	sc    Script
	ci    int
	zero  int

	reads, closes, readsAfterClose int
	errDelivered, eofDelivered     bool

	// yield: the reader gives the processor away before every read (concurrent cases: the calls that share
	// one codec instance then interleave whatever the scheduler and the number of processors)
	yield bool
}

func newReader(data []byte, sc Script) *sReader { return &sReader{data: data, sc: sc} }

// newLazyReader reads total bytes of the repeated pattern without ever holding them.
func newLazyReader(pat []byte, total int, sc Script) *sReader {
	return &sReader{pat: pat, total: total, sc: sc}
}

func (r *sReader) size() int {
	if r.pat != nil {
		return r.total
	}
	return len(r.data)
}

func (r *sReader) limit() int {
	if r.sc.Fault && r.sc.ErrAt < r.size() {
		if r.sc.ErrAt < 0 {
			return 0
		}
		return r.sc.ErrAt
	}
	return r.size()
}

func (r *sReader) Read(p []byte) (int, error) {
	if r.yield {
		goruntime.Gosched()
	}
	r.reads++
	if r.closes > 0 {
		r.readsAfterClose++
		return 0, errUsedAfterClose
	}
	if r.errDelivered {
		return 0, r.sc.err()
	}
	lim := r.limit()
	if r.pos >= lim {
		if r.sc.Fault {
			r.errDelivered = true
			return 0, r.sc.err()
		}
		r.eofDelivered = true
		return 0, io.EOF
	}
	if len(p) == 0 {
		return 0, nil
	}
	c := len(p)
	if len(r.sc.Chunks) > 0 {
		c = r.sc.Chunks[r.ci%len(r.sc.Chunks)]
		r.ci++
		if c < 0 {
			c = 1
		}
	}
	if c == 0 {
		if r.zero < maxZeroRun {
			r.zero++
			return 0, nil
		}
		c = 1
	}
	r.zero = 0
	n := c
	if n > len(p) {
		n = len(p)
	}
	if n > lim-r.pos {
		n = lim - r.pos
	}
	if r.pat != nil {
		off := r.pos % len(r.pat)
		for i := 0; i < n; {
			k := copy(p[i:n], r.pat[off:])
			i, off = i+k, 0
		}
	} else {
		copy(p, r.data[r.pos:r.pos+n])
	}
	r.pos += n
	if r.pos >= lim {
		if r.sc.Fault && r.sc.ErrData {
			r.errDelivered = true
			return n, r.sc.err()
		}
		if !r.sc.Fault && r.sc.EOFData {
			r.eofDelivered = true
			return n, io.EOF
		}
	}
	return n, nil
}

func (r *sReader) Close() error { r.closes++; return nil }

// readerOnly hides Close (and everything else) of a scripted reader.
type readerOnly struct{ r *sReader }

func (o readerOnly) Read(p []byte) (int, error) { return o.r.Read(p) }

// sWriter is a scripted io.WriteCloser.
type sWriter struct {
	buf []byte
	sc  Script

	writes, closes, writesAfterClose int
	errDelivered                     bool

	yield bool // see sReader.yield
}

func newWriter(sc Script) *sWriter { return &sWriter{sc: sc} }

func (w *sWriter) Write(p []byte) (int, error) {
	if w.yield {
		goruntime.Gosched()
	}
	w.writes++
	if w.closes > 0 {
		w.writesAfterClose++
		return 0, errUsedAfterClose
	}
	if w.sc.Fault {
		if w.errDelivered {
			if w.sc.Sticky {
				return 0, w.sc.err()
			}
		} else if len(w.buf)+len(p) > w.sc.ErrAt {
			n := w.sc.ErrAt - len(w.buf)
			if n < 0 {
				n = 0
			}
			w.buf = append(w.buf, p[:n]...)
			w.errDelivered = true
			return n, w.sc.err()
		}
	}
	w.buf = append(w.buf, p...)
	return len(p), nil
}

func (w *sWriter) Close() error { w.closes++; return nil }
