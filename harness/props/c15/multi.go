package c15

import (
	"bytes"
	"encoding/hex"
	"encoding/json"
	"errors"
	"fmt"
	"hash/crc32"
	"io"
	"math/big"
	"math/rand"
	"net/url"
	"strings"
	"time"

	"verif/mon"
)

// Source values that implement SEVERAL of the interfaces the byte-stream and text producers look for, each with a
// rendering of its own, produced and then consumed into the matching destination (Dir "roundtrip" of the codecs
// "bytestream" and "text").
//
// Kinds: "multi:<set>" (a struct value) and "*multi:<set>" (a pointer to it), <set> a subset of the letters
//
//	W io.WriterTo   R io.Reader   C io.ReadCloser   B encoding.BinaryMarshaler   T encoding.TextMarshaler   E error   S fmt.Stringer
//
// in that order (R and C exclude one another); the rendering of the value through the interface of letter L is
// "L:" followed by the content, so that what was written says which interface was asked. The unmarshalers of
// the same types (UnmarshalBinary, UnmarshalText: pointer receivers) accept their own marshaler's form only, as
// time.Time and the like do. Besides them the standard values that have several text forms: "time.Time",
// "*time.Time" (B, T, S), "*big.Float", "*big.Int" (T, S), "*url.URL" (B, S), built from the content.
//
// Which rendering is owed:
//   - byte stream: ByteStreamProducer's doc comment gives the order "io.WriterTo, io.Reader (a ReadCloser is closed
//     before exiting), encoding.BinaryMarshaler, error, []byte, string, struct and other slices as JSON": the first
//     interface of that list the value has; a value with none of the four is a struct (JSON: judged for success
//     and a non-empty output only). What was written is then consumed by ByteStreamConsumer into the matching
//     destination: a pointer to the same type (encoding.BinaryUnmarshaler comes first among what that type
//     has in the consumer's documented order) when the binary form is owed, a *[]byte otherwise.
//   - text: TextProducer documents no order. The statement's round trip decides: TextConsumer fills a destination
//     through its UnmarshalText, the inverse of MarshalText, so a value that has MarshalText must come back equal
//     in a pointer to its own type. For a value without MarshalText that is an error, a Stringer or both, the
//     destination is a *string and what is written must be one of the value's own renderings (which one: not judged).

var letterNames = map[byte]string{'W': "writerto", 'R': "reader", 'C': "readcloser", 'B': "binarymarshaler", 'T': "textmarshaler", 'E': "error", 'S': "stringer"}

func rendering(letter byte, content []byte) []byte {
	return append([]byte{letter, ':'}, content...)
}

// mcore is what the parts of one combination value share.
type mcore struct {
	content  []byte
	rd       *sReader // behind Read (and Close): "R:" / "C:" + content
	wt       *wtSrc   // behind WriteTo: "W:" + content
	stored   []byte   // what an unmarshaler of this value (as a destination) stored, tag removed
	storedBy byte
	ucalls   int
}

var errNotMyForm = errors.New("verif: these bytes are not in the form this type's own marshaler writes")

type mixW struct{ k *mcore }

func (m mixW) WriteTo(w io.Writer) (int64, error) { return m.k.wt.WriteTo(w) }

type mixR struct{ k *mcore }

func (m mixR) Read(p []byte) (int, error) { return m.k.rd.Read(p) }

type mixC struct{ k *mcore }

func (m mixC) Read(p []byte) (int, error) { return m.k.rd.Read(p) }
func (m mixC) Close() error               { return m.k.rd.Close() }

type mixB struct{ k *mcore }

func (m mixB) MarshalBinary() ([]byte, error) { return rendering('B', m.k.content), nil }
func (m *mixB) UnmarshalBinary(b []byte) error {
	m.k.ucalls++
	if !bytes.HasPrefix(b, []byte("B:")) {
		return errNotMyForm
	}
	m.k.stored, m.k.storedBy = append([]byte{}, b[2:]...), 'B'
	return nil
}

type mixT struct{ k *mcore }

func (m mixT) MarshalText() ([]byte, error) { return rendering('T', m.k.content), nil }
func (m *mixT) UnmarshalText(b []byte) error {
	m.k.ucalls++
	if !bytes.HasPrefix(b, []byte("T:")) {
		return errNotMyForm
	}
	m.k.stored, m.k.storedBy = append([]byte{}, b[2:]...), 'T'
	return nil
}

type mixE struct{ k *mcore }

func (m mixE) Error() string { return string(rendering('E', m.k.content)) }

type mixS struct{ k *mcore }

func (m mixS) String() string { return string(rendering('S', m.k.content)) }

// multiVal is one source value of these kinds, and what the oracle needs to know about it.
type multiVal struct {
	v       interface{}
	set     string          // the letters of the interfaces it has
	forms   map[byte][]byte // letter -> the value's rendering through that interface
	closer  *sReader        // the closable payload (letter C)
	newDest func() (dst interface{}, equal func() (bool, string))
}

var realKinds = []string{"time.Time", "*time.Time", "*big.Float", "*big.Int", "*url.URL"}

func multiKinds() []string {
	var out []string
	for _, s := range multiSets {
		out = append(out, "multi:"+s, "*multi:"+s)
	}
	return append(out, realKinds...)
}

func isMultiKind(kind string) bool {
	return strings.HasPrefix(kind, "multi:") || strings.HasPrefix(kind, "*multi:") || isIn(realKinds, kind)
}

func digitsOf(content []byte, n int) string {
	var sb strings.Builder
	h := crc32.ChecksumIEEE(content)
	for sb.Len() < n {
		h = h*1664525 + 1013904223
		fmt.Fprintf(&sb, "%09d", h%1000000000)
	}
	return sb.String()[:n]
}

func mkMulti(kind string, content []byte, o Script) (mv multiVal, ok bool) {
	h := crc32.ChecksumIEEE(content)
	switch kind {
	case "time.Time", "*time.Time":
		t := time.Unix(int64(h), int64(h>>2)*7%1000000000).In(time.FixedZone("", (int(h%49)-24)*1800))
		mv.set = "BTS"
		bin, _ := t.MarshalBinary()
		txt, _ := t.MarshalText()
		mv.forms = map[byte][]byte{'B': bin, 'T': txt, 'S': []byte(t.String())}
		mv.v = t
		if kind[0] == '*' {
			tt := t
			mv.v = &tt
		}
		mv.newDest = func() (interface{}, func() (bool, string)) {
			d := new(time.Time)
			return d, func() (bool, string) {
				_, o1 := t.Zone()
				_, o2 := d.Zone()
				return d.Equal(t) && o1 == o2, d.Format(time.RFC3339Nano)
			}
		}
		return mv, true
	case "*big.Float":
		ds := digitsOf(content, 36)
		lit := fmt.Sprintf("%s%s.%se%d", []string{"", "-"}[h%2], ds[:1], ds[1:], int(h%41)-20)
		f, _, err := big.ParseFloat(lit, 10, 200, big.ToNearestEven)
		if err != nil {
			return mv, false
		}
		mv.set = "TS"
		txt, _ := f.MarshalText()
		mv.forms = map[byte][]byte{'T': txt, 'S': []byte(f.String())}
		mv.v = f
		mv.newDest = func() (interface{}, func() (bool, string)) {
			d := new(big.Float).SetPrec(f.Prec())
			return d, func() (bool, string) { return d.Cmp(f) == 0, d.Text('g', 50) }
		}
		return mv, true
	case "*big.Int":
		n, _ := new(big.Int).SetString([]string{"", "-"}[h%2]+"1"+digitsOf(content, 30), 10)
		mv.set = "TS"
		txt, _ := n.MarshalText()
		mv.forms = map[byte][]byte{'T': txt, 'S': []byte(n.String())}
		mv.v = n
		mv.newDest = func() (interface{}, func() (bool, string)) {
			d := new(big.Int)
			return d, func() (bool, string) { return d.Cmp(n) == 0, d.String() }
		}
		return mv, true
	case "*url.URL":
		head := content
		if len(head) > 8 {
			head = head[:8]
		}
		u, err := url.Parse(fmt.Sprintf("http://h%d.example/p/%s?q=%d", h%1000, hex.EncodeToString(head), h))
		if err != nil {
			return mv, false
		}
		mv.set = "BS"
		bin, _ := u.MarshalBinary()
		mv.forms = map[byte][]byte{'B': bin, 'S': []byte(u.String())}
		mv.v = u
		mv.newDest = func() (interface{}, func() (bool, string)) {
			d := new(url.URL)
			return d, func() (bool, string) { return d.String() == u.String(), d.String() }
		}
		return mv, true
	}
	ptr := strings.HasPrefix(kind, "*")
	set := strings.TrimPrefix(strings.TrimPrefix(kind, "*"), "multi:")
	mk := multiMake[set]
	if mk == nil || !strings.HasPrefix(strings.TrimPrefix(kind, "*"), "multi:") {
		return mv, false
	}
	k := &mcore{content: content}
	mv.set, mv.forms = set, map[byte][]byte{}
	for i := 0; i < len(set); i++ {
		mv.forms[set[i]] = rendering(set[i], content)
	}
	if strings.ContainsAny(set, "RC") {
		l := byte('R')
		if strings.Contains(set, "C") {
			l = 'C'
		}
		k.rd = newReader(rendering(l, content), cleanScript(o))
		if l == 'C' {
			mv.closer = k.rd
		}
	}
	if strings.Contains(set, "W") {
		k.wt = &wtSrc{data: rendering('W', content), sc: cleanScript(o)}
	}
	val, p := mk(k)
	mv.v = val
	if ptr {
		mv.v = p
	}
	mv.newDest = func() (interface{}, func() (bool, string)) {
		k2 := &mcore{}
		_, d := mk(k2)
		return d, func() (bool, string) {
			return k2.storedBy != 0 && bytes.Equal(k2.stored, content), fmt.Sprintf("stored through Unmarshal%s: %s", map[byte]string{'B': "Binary", 'T': "Text", 0: "(nothing)"}[k2.storedBy], short(k2.stored))
		}
	}
	return mv, true
}

// owed gives the letter of the rendering the codec owes for a value with the interfaces of set. 0: none of the
// interfaces the codec names (the value is written by its kind: a struct, as JSON); '?': text codec, no
// MarshalText, an error and/or a Stringer (any of the value's own renderings).
func owed(codec, set string) byte {
	if codec == "bytestream" {
		for _, l := range []byte("WRCBE") { // ByteStreamProducer's documented order
			if strings.IndexByte(set, l) >= 0 {
				return l
			}
		}
		return 0
	}
	switch {
	case strings.Contains(set, "T"):
		return 'T'
	case strings.ContainsAny(set, "ES"):
		return '?'
	}
	return 0
}

// writtenAs names which of the value's renderings the written bytes are.
func writtenAs(written []byte, forms map[byte][]byte) string {
	for _, l := range []byte("WRCBTES") {
		if f, has := forms[l]; has && bytes.Equal(f, written) {
			return letterNames[l]
		}
	}
	if json.Valid(written) {
		return "json"
	}
	return "something-else"
}

func runByteRoundTrip(m *mon.M, c *Case) {
	data := c.content()
	mv, ok := mkMulti(c.Kind, data, c.O)
	if !ok {
		m.Violate("bad-replay-case", "unknown source kind "+c.Kind, c)
		return
	}
	w := newWriter(c.W)
	wr, out, ok := produceWriter(c, w)
	if !ok {
		m.Violate("bad-replay-case", "unknown writer kind "+c.WK, c)
		return
	}
	prod, cons := producerOf(c), consumerOf(c)
	ow := owed(c.Codec, mv.set)
	owName := letterNames[ow]
	switch ow {
	case 0:
		owName = "json-of-the-struct"
	case '?':
		owName = "error-or-stringer"
	}
	var err error
	pv, st := mon.Catch(func() { err = prod.Produce(wr, mv.v) })
	m.NT(c.fp("roundtrip"))
	m.Class(c.Codec + "/roundtrip/several-interfaces/owed-" + owName)
	m.Class("content/" + contentClass(data))
	if pv != nil {
		m.Violate("produce-panic/"+c.Codec+"/source-with-several-interfaces", fmt.Sprintf("%s Produce from %s (%T) panicked: %v\n%s", c.Codec, c.Kind, mv.v, pv, st), c)
		return
	}
	if c.WK == "" {
		closeRules(m, c, "writer", w.closes, w.writes)
	} else {
		m.Class(c.Codec + "/produce/writer=" + c.WK)
	}
	if mv.closer != nil && c.Codec == "bytestream" && mv.closer.closes == 0 {
		m.Violate("source-payload-not-closed/bytestream", fmt.Sprintf("bytestream Produce from %s (writer kind %q): the io.ReadCloser payload was not closed (err=%v)", c.Kind, c.WK, err), c)
	}
	if usedAfterClose(m, c, "writer", w.writesAfterClose, err) {
		return
	}
	if mv.closer != nil && usedAfterClose(m, c, "source-payload", mv.closer.readsAfterClose, err) {
		return
	}
	if c.WK == "nil" {
		if err == nil {
			m.Violate("nil-stream-accepted/"+c.Codec+"/produce", fmt.Sprintf("%s Produce from %s (%T) into a nil writer returned nil", c.Codec, c.Kind, mv.v), c)
		}
		return
	}
	if w.errDelivered {
		m.Class("fault-delivered")
		if err == nil {
			m.Violate("write-error-swallowed/"+c.Codec+"/produce"+c.W.errFeat(), fmt.Sprintf("%s Produce from %s: the write error was delivered and nil was returned (written %s)", c.Codec, c.Kind, short(w.buf)), c)
		}
		return
	}
	if err != nil {
		m.Violate("spurious-error/"+c.Codec+"/produce", fmt.Sprintf("%s Produce from %s (%T: interfaces %s, a struct besides) failed on a clean stream: %v", c.Codec, c.Kind, mv.v, mv.set, err), c)
		return
	}
	written := append([]byte(nil), out()...)
	if w.errDelivered {
		m.Class("fault-met-by-the-callers-flush-only")
		return
	}
	as := writtenAs(written, mv.forms)
	wrong := func(why string) {
		m.Violate("wrong-rendering/"+c.Codec+"/owed-"+owName+"-written-"+as, fmt.Sprintf("%s Produce from %s (%T, which has the interfaces %s): written %s; %s", c.Codec, c.Kind, mv.v, mv.set, short(written), why), c)
	}
	// what the producer's documentation settles is judged on the bytes written
	switch {
	case ow == 0:
		if len(written) == 0 {
			m.Violate("silent-success/"+c.Codec+"/produce/documented-source", fmt.Sprintf("%s Produce from %s (%T): nothing was written and nil was returned", c.Codec, c.Kind, mv.v), c)
			return
		}
		m.Class("written-by-kind(json: not judged further)")
	case ow == '?':
		if !bytes.Equal(written, mv.forms['E']) && !bytes.Equal(written, mv.forms['S']) || len(written) == 0 {
			wrong("the value is an error and/or a Stringer and has no MarshalText: neither of its own renderings was written")
			return
		}
	case c.Codec == "bytestream":
		if !bytes.Equal(written, mv.forms[ow]) {
			wrong(fmt.Sprintf("ByteStreamProducer documents the order io.WriterTo, io.Reader, encoding.BinaryMarshaler, error, []byte, string, struct: owed is %s", short(mv.forms[ow])))
			return
		}
	}
	// consuming what was written, into the destination that matches the rendering owed
	var dst interface{}
	var equal func() (bool, string)
	var bytesOf func() []byte
	own := ow == 'B' || ow == 'T'
	switch {
	case own:
		dst, equal = mv.newDest()
	case c.Codec == "bytestream":
		x := new([]byte)
		dst, bytesOf = x, func() []byte { return *x }
	default:
		x := new(string)
		dst, bytesOf = x, func() []byte { return []byte(*x) }
	}
	r := newReader(written, c.R)
	pv, st = mon.Catch(func() { err = cons.Consume(r, dst) })
	if pv != nil {
		m.Violate("consume-panic/"+c.Codec+"/own-output", fmt.Sprintf("%s Consume of the producer's output for %s into a %T panicked: %v\n%s", c.Codec, c.Kind, dst, pv, st), c)
		return
	}
	closeRules(m, c, "reader", r.closes, r.reads)
	if usedAfterClose(m, c, "reader", r.readsAfterClose, err) {
		return
	}
	if r.errDelivered {
		m.Class("fault-delivered")
		if err == nil {
			m.Violate("read-error-swallowed/"+c.Codec+"/consume"+c.R.errFeat(), fmt.Sprintf("%s Consume into %T: the read error at byte %d of %d was delivered and nil was returned", c.Codec, dst, c.R.ErrAt, len(written)), c)
		}
		return
	}
	if own {
		good, now := false, "-"
		if err == nil {
			good, now = equal()
		}
		if good {
			m.Class("roundtrip-ok/into-the-values-own-type")
			return
		}
		if bytes.Equal(written, mv.forms[ow]) {
			// the producer wrote the marshaler's form: the consumer did not deliver it
			m.Violate("roundtrip-mismatch/"+c.Codec+"/into-the-values-own-type", fmt.Sprintf("%s: %s (%T) was written as %s, its %s form; Consume into a %T: err=%v, destination %s", c.Codec, c.Kind, mv.v, short(written), owName, dst, err, now), c)
			return
		}
		wrong(fmt.Sprintf("consumed into a %T (the consumer hands the bytes to the destination's Unmarshal%s, the inverse of the %s form %s): err=%v, destination %s: not the value produced", dst, map[byte]string{'B': "Binary", 'T': "Text"}[ow], owName, short(mv.forms[ow]), err, now))
		return
	}
	if err != nil {
		m.Violate("spurious-error/"+c.Codec+"/consume-own-output", fmt.Sprintf("%s Consume of the producer's output for %s into a %T failed on a clean stream: %v", c.Codec, c.Kind, dst, err), c)
		return
	}
	if got := bytesOf(); !bytes.Equal(got, written) {
		m.Violate("stored-mismatch/"+c.Codec+"/"+mismatchMode(got, written), fmt.Sprintf("%s Consume into %T: read %s, stored %s (script %s)", c.Codec, dst, short(written), short(got), c.R.class(len(written))), c)
		return
	}
	m.Class("roundtrip-ok/bytes")
}

// ---- generation ----

// multiSweep: every combination, as a value and as a pointer, and the standard values, through both codecs.
func multiSweep() []*Case {
	var out []*Case
	add := func(c Case) { cc := c; out = append(out, &cc) }
	L := len(sweepBytes) + 2
	for _, codec := range []string{"bytestream", "text"} {
		closes := []bool{false}
		if codec == "bytestream" {
			closes = []bool{false, true}
		}
		for _, cl := range closes {
			for i, kind := range multiKinds() {
				base := Case{Codec: codec, Dir: "roundtrip", Kind: kind, Content: mon.Q(sweepBytes), Close: cl}
				add(base)
				e := base
				e.Content = ""
				add(e)
				e = base
				e.Content = "plain text 123"
				e.R, e.O = Script{Chunks: []int{1}}, Script{Chunks: []int{3}}
				add(e)
				e = base
				e.WK = writerKinds[i%len(writerKinds)]
				e.R = Script{Chunks: []int{5}, EOFData: true}
				add(e)
				if strings.HasPrefix(kind, "*multi:") {
					continue
				}
				for _, k := range []int{0, 1, L - 1, L} {
					f := base
					f.W, f.O = Script{Fault: true, ErrAt: k, Sticky: k%2 == 0}, Script{Chunks: []int{4}}
					add(f)
					f = base
					f.R = Script{Chunks: []int{3}, Fault: true, ErrAt: k, ErrData: k%2 == 1}
					add(f)
				}
			}
		}
	}
	return out
}

// genMultiCase draws one seeded case of these kinds.
func genMultiCase(r *rand.Rand) *Case {
	c := &Case{Dir: "roundtrip", Codec: "text"}
	if r.Intn(2) == 0 {
		c.Codec = "bytestream"
		c.Close = r.Intn(2) == 0
	}
	if r.Intn(5) == 0 {
		c.Kind = pick(r, realKinds)
	} else {
		c.Kind = "multi:" + pick(r, multiSets)
		if r.Intn(3) == 0 {
			c.Kind = "*" + c.Kind
		}
	}
	content, rep := genBytes(r, false)
	c.Content, c.Rep = mon.Q(content), rep
	total := len(content)*maxInt(1, rep) + 2
	switch r.Intn(6) {
	case 0:
		c.W = genWriteScript(r, total, 100)
	case 1:
		c.R = genReadScript(r, total, 100)
	default:
		c.R = genReadScript(r, total, 0)
	}
	c.O = cleanScript(genReadScript(r, total, 0))
	if r.Intn(4) == 0 {
		c.WK = pick(r, writerKinds)
	}
	return c
}
