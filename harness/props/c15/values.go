package c15

import (
	"encoding/json"
	"encoding/xml"
	"hash/fnv"
	"math"
	"reflect"
	"strconv"
	"strings"
)

// Values for the structured codecs are built deterministically from the case's text and number
// literal, so that a replay file stays readable: every string-like member holds the text (or a
// piece of it), every number-like member is derived from its hash, the json.Number members hold
// the literal.

func h64(s string) uint64 {
	h := fnv.New64a()
	h.Write([]byte(s))
	return h.Sum64()
}

func fracFloat(s string) float64 {
	// finite, with a fractional part (so that no codec may legitimately read it back as an integer)
	u := h64(s)
	return float64(int64(u>>20)%100000000) + 0.5 + float64(u%1000)/4096
}

func pieces(s string) []string {
	p := strings.Split(s, ",")
	return p
}

type jsonInner struct {
	A string `json:"a"`
	N int64  `json:"n"`
}

type jsonRec struct {
	Name string            `json:"name"`
	Data []byte            `json:"data"`
	I    int64             `json:"i"`
	U    uint64            `json:"u"`
	F    float64           `json:"f"`
	B    bool              `json:"b"`
	Num  json.Number       `json:"num"`
	Tags []string          `json:"tags"`
	M    map[string]string `json:"m"`
	In   jsonInner         `json:"in"`
	P    *jsonInner        `json:"p"`
	Any  interface{}       `json:"any"`
}

func jsonGeneric(s, num string, depth int) interface{} {
	n := json.Number(num)
	m := map[string]interface{}{
		"s":    s,
		"n":    n,
		"t":    true,
		"null": nil,
		"l":    []interface{}{n, s, false, nil, map[string]interface{}{}},
		s:      "key-is-text",
	}
	if depth > 0 {
		m["deep"] = jsonGeneric(s, num, depth-1)
		m["l2"] = []interface{}{[]interface{}{}, jsonGeneric(num, num, 0)}
	}
	return m
}

func mkJSONRec(s, num string) jsonRec {
	u := h64(s)
	r := jsonRec{
		Name: s, Data: []byte(s), I: int64(u), U: u, F: fracFloat(s), B: len(s)%2 == 0, Num: json.Number(num),
		Tags: pieces(s), M: map[string]string{"k": s, s: "v"}, In: jsonInner{A: s, N: math.MaxInt64 - int64(len(s))},
		Any: jsonGeneric(s, num, 0),
	}
	if len(s)%3 != 0 {
		r.P = &jsonInner{A: num, N: math.MinInt64 + int64(len(s))}
	}
	return r
}

var jsonKinds = []string{"struct", "*struct", "slice-struct", "map", "generic", "generic-deep", "number", "number-typed", "string", "named-string", "bytes", "int64", "float64", "slice-string"}

// buildJSON returns the source value and a fresh destination pointer for it.
func buildJSON(kind, s, num string) (v interface{}, dst interface{}, ok bool) {
	switch kind {
	case "struct":
		v = mkJSONRec(s, num)
	case "*struct":
		x := mkJSONRec(s, num)
		v = &x
	case "slice-struct":
		v = []jsonRec{mkJSONRec(s, num), mkJSONRec(num, num)}
	case "map":
		v = jsonGeneric(s, num, 1).(map[string]interface{})
	case "generic":
		return jsonGeneric(s, num, 0), new(interface{}), true
	case "generic-deep":
		return jsonGeneric(s, num, 2), new(interface{}), true
	case "number":
		return json.Number(num), new(interface{}), true
	case "number-typed":
		v = json.Number(num)
	case "string":
		v = s
	case "named-string":
		v = namedString(s)
	case "bytes":
		v = append([]byte{}, s...)
	case "int64":
		v = int64(h64(s))
	case "float64":
		v = fracFloat(s)
	case "slice-string":
		v = pieces(s)
	default:
		return nil, nil, false
	}
	return v, reflect.New(reflect.TypeOf(v)).Interface(), true
}

// ---- XML ----

type xmlItem struct {
	K string `xml:"k,attr"`
	V string `xml:",chardata"`
}

type xmlRec struct {
	XMLName xml.Name  `xml:"rec"`
	Name    string    `xml:"name"`
	ID      int64     `xml:"id,attr"`
	Label   string    `xml:"label,attr"`
	F       float64   `xml:"f"`
	B       bool      `xml:"b"`
	Items   []xmlItem `xml:"items>item"`
	Tags    []string  `xml:"tag"`
	Note    *string   `xml:"note"`
}

func mkXMLRec(s, num string) xmlRec {
	r := xmlRec{XMLName: xml.Name{Local: "rec"}, Name: s, ID: int64(h64(s)), Label: s, F: fracFloat(s), B: len(s)%2 == 0, Tags: pieces(s)}
	for i, p := range pieces(s) {
		r.Items = append(r.Items, xmlItem{K: num + "#" + strconv.Itoa(i), V: p})
	}
	if len(s)%3 != 0 {
		n := num + s
		r.Note = &n
	}
	return r
}

var xmlKinds = []string{"struct", "*struct", "string", "int64"}

func buildXML(kind, s, num string) (v interface{}, dst interface{}, ok bool) {
	switch kind {
	case "struct":
		v = mkXMLRec(s, num)
	case "*struct":
		x := mkXMLRec(s, num)
		v = &x
	case "string":
		v = s
	case "int64":
		v = int64(h64(s))
	default:
		return nil, nil, false
	}
	return v, reflect.New(reflect.TypeOf(v)).Interface(), true
}

// ---- YAML ----

type yamlInner struct {
	A string `yaml:"a"`
	N int64  `yaml:"n"`
}

type yamlRec struct {
	Name string            `yaml:"name"`
	I    int64             `yaml:"i"`
	U    uint64            `yaml:"u"`
	F    float64           `yaml:"f"`
	B    bool              `yaml:"b"`
	Tags []string          `yaml:"tags"`
	M    map[string]string `yaml:"m"`
	In   yamlInner         `yaml:"in"`
	P    *yamlInner        `yaml:"p"`
	Any  interface{}       `yaml:"any"`
}

func yamlGeneric(s, num string, depth int) interface{} {
	m := map[string]interface{}{
		"s":    s,
		"i":    int(int32(h64(s))),
		"f":    fracFloat(s),
		"t":    true,
		"null": nil,
		"num":  num, // a string that looks like a number must stay a string
		"l":    []interface{}{s, 7, false, nil, num},
	}
	if depth > 0 {
		m["deep"] = yamlGeneric(s, num, depth-1)
	}
	return m
}

func mkYAMLRec(s, num string) yamlRec {
	u := h64(s)
	r := yamlRec{Name: s, I: int64(u), U: u, F: fracFloat(s), B: len(s)%2 == 0, Tags: pieces(s),
		M: map[string]string{"k": s, "n": num}, In: yamlInner{A: num, N: math.MaxInt64 - int64(len(s))}, Any: yamlGeneric(s, num, 0)}
	if len(s)%3 != 0 {
		r.P = &yamlInner{A: s, N: math.MinInt64 + int64(len(s))}
	}
	return r
}

var yamlKinds = []string{"struct", "*struct", "slice-struct", "map", "generic", "generic-deep", "string", "int64", "slice-string", "jsonm-struct", "*jsonm-struct"}

// jsonModel is what a generated model looks like: plain fields, and a MarshalJSON of its own (value
// receiver, so that the value and the pointer are both json.Marshalers). Its integers are odd and, for
// nearly every text, beyond 2^53: no float64 holds them.
type jsonModel struct {
	ID      int64             `json:"id" yaml:"id"`
	Balance uint64            `json:"balance" yaml:"balance"`
	Name    string            `json:"name" yaml:"name"`
	Tags    []string          `json:"tags" yaml:"tags"`
	Props   map[string]string `json:"props" yaml:"props"`
	In      yamlInner         `json:"in" yaml:"in"`
}

func (m jsonModel) MarshalJSON() ([]byte, error) {
	type plain jsonModel
	return json.Marshal(plain(m))
}

func mkJSONModel(s, num string) jsonModel {
	u := h64(s)
	return jsonModel{ID: int64(u) | 1, Balance: h64(num+s) | 1, Name: s, Tags: pieces(s), Props: map[string]string{"k": s, "n": num},
		In: yamlInner{A: num, N: math.MaxInt64 - 2*int64(len(s))}}
}

func buildYAML(kind, s, num string) (v interface{}, dst interface{}, ok bool) {
	switch kind {
	case "struct":
		v = mkYAMLRec(s, num)
	case "*struct":
		x := mkYAMLRec(s, num)
		v = &x
	case "slice-struct":
		v = []yamlRec{mkYAMLRec(s, num), mkYAMLRec(num, num)}
	case "jsonm-struct":
		v = mkJSONModel(s, num)
	case "*jsonm-struct":
		x := mkJSONModel(s, num)
		v = &x
	case "map":
		v = yamlGeneric(s, num, 1).(map[string]interface{})
	case "generic":
		return yamlGeneric(s, num, 0), new(interface{}), true
	case "generic-deep":
		return yamlGeneric(s, num, 2), new(interface{}), true
	case "string":
		v = s
	case "int64":
		v = int64(h64(s))
	case "slice-string":
		v = pieces(s)
	default:
		return nil, nil, false
	}
	return v, reflect.New(reflect.TypeOf(v)).Interface(), true
}

// ---- destinations for the totality clause of the structured consumers ----

// mustErr: the kind can hold nothing (nil, typed nil, non-pointer scalar), so a non-empty
// document can only be answered with an error. Other kinds are judged for panics only.
var structDestMustErr = []string{"nil", "nil-*struct", "nil-*string", "nil-*iface", "nil-*map", "struct", "string", "int", "nil-map", "nil-slice"}
var structDestNoPanic = []string{"map", "chan", "func", "*chan", "*func", "*int", "*string", "*struct-prepop", "*map-prepop", "*slice-prepop", "*iface-prepop", "*iface-ptr-prepop", "**struct", "*[2]int", "*complex"}

type totRec struct {
	XMLName xml.Name          `json:"-" yaml:"-" xml:"rec"`
	Name    string            `json:"name" yaml:"name" xml:"name"`
	N       int               `json:"n" yaml:"n" xml:"n"`
	Tags    []string          `json:"tags" yaml:"tags" xml:"tag"`
	M       map[string]string `json:"m" yaml:"m" xml:"-"`
	P       *totRec           `json:"p" yaml:"p" xml:"p"`
}

func mkStructDest(kind string) (v interface{}, mustErr, ok bool) {
	mustErr = isIn(structDestMustErr, kind)
	switch kind {
	case "nil":
		v = nil
	case "nil-*struct":
		v = (*totRec)(nil)
	case "nil-*string":
		v = (*string)(nil)
	case "nil-*iface":
		v = (*interface{})(nil)
	case "nil-*map":
		v = (*map[string]interface{})(nil)
	case "struct":
		v = totRec{}
	case "string":
		v = "old"
	case "int":
		v = 7
	case "nil-map":
		v = map[string]interface{}(nil)
	case "nil-slice":
		v = []interface{}(nil)
	case "map":
		v = map[string]interface{}{"old": 1}
	case "chan":
		v = make(chan int)
	case "func":
		v = func() {}
	case "*chan":
		x := make(chan int)
		v = &x
	case "*func":
		x := func() {}
		v = &x
	case "*int":
		v = new(int)
	case "*string":
		x := "old"
		v = &x
	case "*struct-prepop":
		v = &totRec{Name: "old", N: 9, Tags: []string{"o1", "o2", "o3", "o4", "o5", "o6"}, M: map[string]string{"old": "x"}, P: &totRec{Name: "oldp"}}
	case "*map-prepop":
		v = &map[string]interface{}{"old": 1, "name": []int{1}}
	case "*slice-prepop":
		v = &[]interface{}{1, "two", nil, 4.0, 5, 6, 7, 8}
	case "*iface-prepop":
		x := new(interface{})
		*x = map[string]interface{}{"old": 1}
		v = x
	case "*iface-ptr-prepop":
		x := new(interface{})
		*x = &totRec{Name: "old"}
		v = x
	case "**struct":
		x := &totRec{Name: "old"}
		v = &x
	case "*[2]int":
		v = &[2]int{1, 2}
	case "*complex":
		v = new(complex128)
	default:
		return nil, false, false
	}
	return v, mustErr, true
}
