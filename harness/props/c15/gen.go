package c15

import (
	"encoding/json"
	"encoding/xml"
	"math/rand"
	"strings"

	"gopkg.in/yaml.v3"

	"verif/mon"
)

// ---- contents ----

var sweepBytes = " \tHe\xffl\x00o,w\r\n" // space-edged, invalid UTF-8, NUL, CR LF: 12 bytes

var allBytes = func() string {
	b := make([]byte, 256)
	for i := range b {
		b[i] = byte(i)
	}
	return string(b)
}()

var boundarySizes = []int{1, 2, 255, 256, 511, 512, 513, 1023, 1024, 1025, 4095, 4096, 4097, 32767, 32768, 32769, 65535, 65536, 65537, 100000}

// genBytes returns a content (and a repetition count) for the byte-oriented codecs.
func genBytes(r *rand.Rand, allowHuge bool) (string, int) {
	switch k := r.Intn(100); {
	case k < 8:
		return "", 0
	case k < 28:
		n := 1 + r.Intn(24)
		b := make([]byte, n)
		for i := range b {
			b[i] = "abcXYZ019 ,.-_/"[r.Intn(15)]
		}
		return string(b), 0
	case k < 40:
		edges := []string{" ", "\n", "\t", "\r\n", "  ", "\x00", "\v", "\f", " ", " "}
		return edges[r.Intn(len(edges))] + "core text" + edges[r.Intn(len(edges))], 0
	case k < 45:
		return allBytes, 0
	case k < 62:
		n := 1 + r.Intn(300)
		if r.Intn(6) == 0 {
			n = 1 + r.Intn(3000)
		}
		b := make([]byte, n)
		r.Read(b)
		return string(b), 0
	case k < 70:
		bad := []string{"\xff", "\xc3", "a\xe2\x82", "\xed\xa0\x80", "\xf8\x88\x80\x80\x80", "ok\x80ok", "\xc0\xaf"}
		return bad[r.Intn(len(bad))] + bad[r.Intn(len(bad))], 0
	case k < 76:
		return strings.Repeat("\x00", 1+r.Intn(9)), 0
	case k < 92:
		return "q", boundarySizes[r.Intn(len(boundarySizes))]
	case !allowHuge:
		return "q", 513
	case k < 98:
		return "0123456789abcde\n", (64 << 10) / 16
	default:
		return "0123456789abcde\n", (1 << 20) / 16
	}
}

// ---- scripts ----

func genChunks(r *rand.Rand, total int, zeros bool) []int {
	lo := 1
	if total > 64<<10 {
		lo = 1000
	}
	n := 1 + r.Intn(6)
	out := make([]int, 0, n+4)
	for i := 0; i < n; i++ {
		if zeros && r.Intn(2) == 0 {
			run := 1 + r.Intn(4)
			if r.Intn(5) == 0 {
				run = 45 + r.Intn(15) // around the cap: the reader never returns more than 50 in a row
			}
			for j := 0; j < run; j++ {
				out = append(out, 0)
			}
		}
		out = append(out, lo+r.Intn(17*lo))
	}
	return out
}

func genReadScript(r *rand.Rand, total int, faultPct int) Script {
	var s Script
	switch k := r.Intn(100); {
	case k < 22:
	case k < 42:
		if total <= 64<<10 {
			s.Chunks = []int{1}
		} else {
			s.Chunks = []int{4096}
		}
	case k < 72:
		s.Chunks = genChunks(r, total, false)
	default:
		s.Chunks = genChunks(r, total, total <= 4096)
	}
	s.EOFData = r.Intn(10) < 3
	if r.Intn(100) < faultPct {
		s.Fault = true
		s.ErrAt = faultOffset(r, total)
		s.ErrData = r.Intn(5) < 2
	}
	return s
}

func faultOffset(r *rand.Rand, total int) int {
	switch r.Intn(6) {
	case 0:
		return 0
	case 1:
		return total
	case 2:
		if total > 0 {
			return total - 1
		}
	}
	return r.Intn(total + 1)
}

func genWriteScript(r *rand.Rand, total int, faultPct int) Script {
	var s Script
	if r.Intn(100) < faultPct {
		s.Fault = true
		s.ErrAt = faultOffset(r, total)
		s.Sticky = r.Intn(2) == 0
	}
	return s
}

// ---- texts for the structured codecs ----

var jsonAtoms = []string{"a", "B", "7", " ", ",", "\"", "\\", "/", "<", ">", "&", "'", "\n", "\t", "\r", "\x00", "\x1f", "\x7f", "\u00e9", "\u4e16", "\U0001F600", "\u2028", "\u00a0", "\ufeff", "\ufffd", "{", "}", "[", "]", ":", "null", "true"}
var xmlAtoms = []string{"a", "B", "7", " ", ",", "\"", "'", "<", ">", "&", "]]>", "<!--", "&amp;", "\n", "\t", "é", "世", "😀", " ", "{", "}", ";", "=", "/"}
var yamlAtoms = []string{"a", "B", "7", " ", ",", "\"", "'", ":", "- ", "#", "&", "*", "!", "|", ">", "%", "@", "`", "{", "}", "[", "]", "?", "é", "世", "😀", "\\", "~", "=", "<<"}
var yamlWords = []string{"true", "false", "null", "~", "yes", "no", "on", "off", "123", "0x1F", "0o17", "1e3", ".inf", ".nan", "-", "1_000", "2001-01-01", "2001-01-01T10:00:00Z", "0.5", "+1", "", " lead", "trail ", "a: b", "- x", "#c", "key:", "!!str x", "&anchor", "*alias", "multi\nline", "multi\nline\n", "\nlead-newline", " lead-blank\nsecond", "\tlead-tab\nsecond", "tab\tinside", "'q'", "\"dq\"", "null,true"}

func genText(r *rand.Rand, codec string) string {
	atoms := jsonAtoms
	switch codec {
	case "xml":
		atoms = xmlAtoms
	case "yaml":
		if r.Intn(3) == 0 {
			return yamlWords[r.Intn(len(yamlWords))]
		}
		atoms = yamlAtoms
	}
	n := r.Intn(10)
	if r.Intn(8) == 0 {
		n = 10 + r.Intn(40)
	}
	var sb strings.Builder
	for i := 0; i < n; i++ {
		sb.WriteString(atoms[r.Intn(len(atoms))])
	}
	return sb.String()
}

var numPool = []string{"0", "-0", "1", "-1", "12345678901234567890123456789", "9007199254740993", "-9007199254740993", "18446744073709551616",
	"1e400", "-1.5E-300", "0.1000000000000000055511151231257827", "1.0", "100", "1E2", "3.141592653589793238462643383279", "9223372036854775808", "0.000000000000000000000000000001"}

// ---- document pools for the totality clause ----

var docPool = map[string][]string{
	"json": {`{"name":"x","n":1,"tags":["a","b"],"m":{"k":"v"},"p":{"name":"q"}}`, `"str"`, `[1,"a",null]`, `null`, `12345678901234567890`, ``, `{"name":`, `{"name":1,"n":"x"}`, `{"a":{"b":{"c":[{}]}}}` + "\n", `7 8`},
	"xml":  {`<rec><name>x</name><n>1</n><tag>a</tag><tag>b</tag><p><name>q</name></p></rec>`, `<string>s</string>`, ``, `<rec><name>x</rec>`, `<rec/>`, `<?xml version="1.0"?><rec><n>notanumber</n></rec>`, `just text`},
	"yaml": {"name: x\nn: 1\ntags: [a, b]\nm: {k: v}\np: {name: q}\n", "just a string\n", "- 1\n- a\n- null\n", "null\n", "", "name: [unclosed\n", "name: {a: b}\nn: x\n", "--- 7\n--- 8\n", "a: &x [1, 2]\nb: *x\n", "? [complex, key]\n: v\n"},
}

// refLen bounds the fault sweep of a round-trip case with the length the underlying library gives
// (the library is called directly: the codec under test is not involved in generation).
func refLen(codec string, v interface{}) int {
	var n int
	switch codec {
	case "json":
		b, _ := json.Marshal(v)
		n = len(b) + 1
	case "xml":
		b, _ := xml.Marshal(v)
		n = len(b)
	case "yaml":
		b, _ := yaml.Marshal(v)
		n = len(b)
	}
	return n
}

func offsets(total int, all bool) []int {
	var out []int
	for k := 0; k <= total; k++ {
		if all || total <= 96 || k < 40 || k > total-40 || k%9 == 0 {
			out = append(out, k)
		}
	}
	return out
}

// sweepCases enumerates part (a) of the rule: a fault at every offset for every documented kind.
func sweepCases(all bool) []*Case {
	var out []*Case
	add := func(c Case) { cc := c; out = append(out, &cc) }
	L := len(sweepBytes)
	for _, codec := range []string{"bytestream", "text"} {
		closes := []bool{false}
		dk, sk := textDestSupported, textSrcKinds
		if codec == "bytestream" {
			closes = []bool{false, true}
			dk, sk = bsDestSupported, bsSrcKinds
		}
		for _, cl := range closes {
			for _, kind := range dk {
				for _, pre := range []string{"", "previous content, longer than the input"} {
					if pre != "" && !strings.HasPrefix(kind, "*") {
						continue
					}
					base := Case{Codec: codec, Dir: "consume", Kind: kind, Content: mon.Q(sweepBytes), Pre: mon.Q(pre), Close: cl, DBuf: 5}
					add(base)
					e := base
					e.Content = ""
					add(e)
					for _, ch := range [][]int{{1}, {5}, {0, 0, 3}} {
						c := base
						c.R = Script{Chunks: ch, EOFData: len(ch) == 1 && ch[0] == 5}
						add(c)
					}
					for _, rk := range append([]string{"plain"}, concreteReaders...) {
						c := base
						c.RK = rk
						add(c)
						c.Content = ""
						add(c)
					}
					{
						// the judged call follows a clean and a failed call on the same consumer
						c := base
						c.Warm, c.WarmFail = 1, true
						add(c)
						c.R = Script{Chunks: []int{5}, EOFData: true}
						add(c)
					}
					if isIn(userFailDestKinds, kind) && pre == "" {
						for _, content := range []string{sweepBytes, "x", ""} {
							c := base
							c.Content, c.UFail = mon.Q(content), true
							add(c)
							c.R = Script{Chunks: []int{1}}
							add(c)
						}
					}
					if pre != "" {
						continue
					}
					for k := 0; k <= L; k++ {
						for _, wd := range []bool{false, true} {
							c := base
							c.R = Script{Chunks: []int{3}, Fault: true, ErrAt: k, ErrData: wd}
							add(c)
						}
					}
					if kind == "writer" {
						for k := 0; k <= L; k++ {
							c := base
							c.O = Script{Fault: true, ErrAt: k, Sticky: k%2 == 0}
							add(c)
						}
					}
				}
			}
			for _, kind := range sk {
				base := Case{Codec: codec, Dir: "produce", Kind: kind, Content: mon.Q(sweepBytes), Close: cl}
				add(base)
				e := base
				e.Content = ""
				add(e)
				e = base
				e.Warm = 2
				add(e)
				e.WarmFail = true
				add(e)
				for _, wk := range writerKinds {
					c := base
					c.WK = wk
					add(c)
					c.Content = ""
					add(c)
					c = base
					c.WK, c.O = wk, Script{Chunks: []int{4}}
					add(c)
					if wk == "bytes.Buffer" {
						continue
					}
					for k := 0; k <= L+16; k += 1 {
						if k > L && !jsonRendered(kind) {
							break
						}
						c := base
						c.WK, c.W, c.O = wk, Script{Fault: true, ErrAt: k, Sticky: k%2 == 0}, Script{Chunks: []int{4}}
						add(c)
					}
				}
				if isIn(userFailSrcKinds, kind) {
					for _, content := range []string{sweepBytes, ""} {
						for _, wk := range append([]string{""}, writerKinds...) {
							c := base
							c.Content, c.UFail, c.WK = mon.Q(content), true, wk
							add(c)
						}
					}
				}
				for k := 0; k <= L+16; k++ {
					if k > L && !jsonRendered(kind) {
						break
					}
					for _, st := range []bool{false, true} {
						c := base
						c.W = Script{Fault: true, ErrAt: k, Sticky: st}
						c.O = Script{Chunks: []int{4}}
						add(c)
					}
				}
				if kind == "writerto" || kind == "reader" || kind == "readcloser" || kind == "dual" {
					for k := 0; k <= L; k++ {
						for _, wd := range []bool{false, true} {
							c := base
							c.O = Script{Chunks: []int{4}, Fault: true, ErrAt: k, ErrData: wd}
							add(c)
						}
					}
					for _, ch := range [][]int{{1}, {0, 0, 2}, {7}} {
						c := base
						c.O = Script{Chunks: ch, EOFData: ch[0] == 7}
						add(c)
					}
				}
			}
			for _, kind := range append(append([]string{}, bsDestOther...), textDestOther...) {
				if codec == "text" && !isIn(textDestOther, kind) || codec == "bytestream" && !isIn(bsDestOther, kind) {
					continue
				}
				for _, content := range []string{"", "x", sweepBytes} {
					add(Case{Codec: codec, Dir: "consume", Kind: kind, Content: mon.Q(content), Pre: "old", Close: cl})
				}
			}
			// refusal paths of the producers: sources no producer documents (nil and typed-nil pointers included),
			// into every writer kind and into no writer at all, on a fresh and on a used producer
			_, so := srcKindsOf(codec)
			for _, kind := range so {
				for _, content := range []string{sweepBytes, ""} {
					for _, wk := range append([]string{"", "nil"}, writerKinds...) {
						add(Case{Codec: codec, Dir: "produce", Kind: kind, Content: mon.Q(content), Close: cl, WK: wk})
					}
				}
				base := Case{Codec: codec, Dir: "produce", Kind: kind, Content: mon.Q(sweepBytes), Close: cl}
				c := base
				c.Warm = 1
				add(c)
				c.WarmFail = true
				add(c)
				c = base
				c.W = Script{Fault: true, ErrAt: 0, Sticky: true}
				add(c)
			}
			// no writer at all, for every documented source (a closable payload is closed all the same)
			for _, kind := range sk {
				for _, content := range []string{sweepBytes, ""} {
					add(Case{Codec: codec, Dir: "produce", Kind: kind, Content: mon.Q(content), Close: cl, WK: "nil", O: Script{Chunks: []int{4}}})
				}
				if isIn(userFailSrcKinds, kind) {
					add(Case{Codec: codec, Dir: "produce", Kind: kind, Content: mon.Q(sweepBytes), Close: cl, WK: "nil", UFail: true})
				}
				add(Case{Codec: codec, Dir: "produce", Kind: kind, Content: mon.Q(sweepBytes), Close: cl, WK: "nil", Warm: 1})
			}
			// no reader at all, for every destination kind
			do := bsDestOther
			if codec == "text" {
				do = textDestOther
			}
			for _, kind := range append(append([]string{}, dk...), do...) {
				pre := ""
				if strings.HasPrefix(kind, "*") {
					pre = "old"
				}
				add(Case{Codec: codec, Dir: "consume", Kind: kind, Content: mon.Q(sweepBytes), Pre: mon.Q(pre), Close: cl, RK: "nil"})
				add(Case{Codec: codec, Dir: "consume", Kind: kind, Content: mon.Q(sweepBytes), Pre: mon.Q(pre), Close: cl, RK: "nil", Warm: 1})
			}
			// ONE codec instance called by several goroutines at the same time (what Runtime.Consumers / Producers hold)
			for _, kind := range dk {
				big := Case{Codec: codec, Dir: "consume", Kind: kind, Content: "0123456789abcde\n", Rep: (64 << 10) / 16, Close: cl, Par: sweepPar,
					R: Script{Chunks: []int{4096, 1, 700}, EOFData: true}, DBuf: 512}
				add(big)
				small := big
				small.Content, small.Rep, small.R = mon.Q(sweepBytes), 0, Script{Chunks: []int{1}}
				add(small)
				for _, rk := range []string{"plain", "bytes.Buffer"} {
					c := big
					c.RK = rk
					add(c)
				}
			}
			for _, kind := range sk {
				big := Case{Codec: codec, Dir: "produce", Kind: kind, Content: "0123456789abcde\n", Rep: (64 << 10) / 16, Close: cl, Par: sweepPar,
					O: Script{Chunks: []int{4096, 1, 700}}}
				add(big)
				small := big
				small.Content, small.Rep, small.O = mon.Q(sweepBytes), 0, Script{Chunks: []int{1}}
				add(small)
				for _, wk := range []string{"plain", "bufio"} {
					c := big
					c.WK = wk
					add(c)
				}
			}
		}
	}
	type sk struct {
		codec string
		kinds []string
		text  string
	}
	for _, s := range []sk{{"json", jsonKinds, "a,<b>&\"é\\ ,\x00c"}, {"xml", xmlKinds, "a,<b>&\"é' ,c"}, {"yaml", yamlKinds, "a,<b>: #é' ,c"}} {
		for _, kind := range s.kinds {
			base := Case{Codec: s.codec, Dir: "roundtrip", Kind: kind, Content: mon.Q(s.text), Num: "12345678901234567890123456789.5e-3"}
			add(base)
			wm := base
			wm.Warm = 1
			add(wm)
			wm.WarmFail = true
			add(wm)
			for _, wk := range writerKinds {
				c := base
				c.WK = wk
				add(c)
			}
			for _, ch := range [][]int{{1}, {0, 0, 2}, {7}} {
				c := base
				c.R = Script{Chunks: ch, EOFData: ch[0] == 7}
				add(c)
			}
			v, _, ok := buildValue(&base)
			if !ok {
				continue
			}
			n := refLen(s.codec, v)
			for _, k := range offsets(n, all) {
				c := base
				c.W = Script{Fault: true, ErrAt: k, Sticky: k%2 == 0}
				add(c)
				if all || k%4 == 1 {
					c.WK = []string{"plain", "bufio"}[(k/4)%2]
					add(c)
				}
				c = base
				c.R = Script{Chunks: []int{5}, Fault: true, ErrAt: k, ErrData: k%2 == 1}
				add(c)
			}
		}
		// the producer and the consumer instances shared by several goroutines
		for _, kind := range s.kinds {
			add(Case{Codec: s.codec, Dir: "roundtrip", Kind: kind, Content: mon.Q(s.text), Num: "12345678901234567890123456789.5e-3", Par: sweepPar, R: Script{Chunks: []int{7}}})
			add(Case{Codec: s.codec, Dir: "roundtrip", Kind: kind, Content: "0123456789abcde,", Rep: 256, Num: "9007199254740993", Par: sweepPar, R: Script{Chunks: []int{512, 1}, EOFData: true}})
		}
		for _, kind := range append(append([]string{}, structDestMustErr...), structDestNoPanic...) {
			for _, doc := range docPool[s.codec] {
				add(Case{Codec: s.codec, Dir: "consume", Kind: kind, Content: mon.Q(doc)})
				add(Case{Codec: s.codec, Dir: "consume", Kind: kind, Content: mon.Q(doc), R: Script{Chunks: []int{1}, EOFData: true}})
			}
		}
	}
	// 1 MiB contents, present in every run of either tier
	const mib = (1 << 20) / 16
	for _, kind := range []string{"*[]byte", "readerfrom", "writer", "*iface-bytes"} {
		add(Case{Codec: "bytestream", Dir: "consume", Kind: kind, Content: "0123456789abcde\n", Rep: mib, R: Script{Chunks: []int{4096, 1, 70000}, EOFData: true}, DBuf: 4096})
	}
	for _, kind := range []string{"reader", "readcloser", "writerto", "[]byte", "string"} {
		add(Case{Codec: "bytestream", Dir: "produce", Kind: kind, Content: "0123456789abcde\n", Rep: mib, O: Script{Chunks: []int{4096, 1, 70000}}})
	}
	for _, rk := range concreteReaders {
		add(Case{Codec: "bytestream", Dir: "consume", Kind: "*[]byte", Content: "0123456789abcde\n", Rep: mib, RK: rk})
		add(Case{Codec: "bytestream", Dir: "consume", Kind: "*iface-bytes", Content: "0123456789abcde\n", Rep: mib / 16, RK: rk})
	}
	add(Case{Codec: "text", Dir: "consume", Kind: "*string", Content: "0123456789abcde\n", Rep: mib, R: Script{Chunks: []int{33000}}})
	add(Case{Codec: "text", Dir: "produce", Kind: "string", Content: "0123456789abcde\n", Rep: mib})
	for _, codec := range []string{"json", "xml", "yaml"} {
		add(Case{Codec: codec, Dir: "roundtrip", Kind: "string", Content: "0123456789abcdef", Rep: mib, Num: "1", R: Script{Chunks: []int{4096, 1, 70000}, EOFData: true}})
		add(Case{Codec: codec, Dir: "roundtrip", Kind: "struct", Content: "0123456789abcdef", Rep: mib, Num: "1"})
	}
	// one content above 32 MiB in every run (the quick tier: one case; the reader generates it from the pattern)
	bigKinds := []string{"*[]byte"}
	if all {
		bigKinds = []string{"*[]byte", "*string", "*iface-bytes", "*named-string", "binunm", "writer", "readerfrom"}
	}
	for i, kind := range bigKinds {
		add(Case{Codec: "bytestream", Dir: "consume", Kind: kind, Content: bigPattern, Rep: bigRep, Close: i%2 == 1, R: Script{Chunks: []int{65536, 1, 70000}, EOFData: i%2 == 0}, DBuf: 65536})
	}
	if all {
		add(Case{Codec: "text", Dir: "consume", Kind: "*string", Content: bigPattern, Rep: bigRep, R: Script{Chunks: []int{1 << 20}}})
		add(Case{Codec: "bytestream", Dir: "consume", Kind: "*[]byte", Content: bigPattern, Rep: bigRep, RK: "plain", R: Script{Chunks: []int{1 << 20}, Fault: true, ErrAt: 33554432}})
	}
	for _, kind := range []string{"*string", "*[]byte", "buffer", "nil", "nil-*string"} {
		add(Case{Codec: "discard", Dir: "consume", Kind: kind, Content: "payload", Pre: "old"})
	}
	for _, kind := range []string{"string", "[]byte", "reader", "readcloser", "writerto", "struct"} {
		add(Case{Codec: "discard", Dir: "produce", Kind: kind, Content: "payload"})
	}
	return out
}

// faulty reports whether one of the case's scripts injects a fault.
func (c *Case) faulty() bool { return c.R.Fault || c.W.Fault || c.O.Fault }

// setErr gives every faulty script of the case the named error value.
func (c *Case) setErr(name string) {
	if c.R.Fault {
		c.R.Err = name
	}
	if c.W.Fault {
		c.W.Err = name
	}
	if c.O.Fault {
		c.O.Err = name
	}
}

// crossErrValues adds the error VALUE as a dimension of the fault sweep: every swept case with a fault (every
// codec, both directions, stream and payload faults, every offset) is run again with each value of errNames in
// place of the harness's sentinel. In the quick tier the JSON/XML/YAML round trips (whose sweep is the longest)
// take three values per (case, offset), rotating with the position, so that every value meets every kind and
// every offset class; the byte-stream and text codecs always take them all.
func crossErrValues(cases []*Case, all bool) []*Case {
	out := make([]*Case, 0, len(cases)*4)
	nf := 0
	for _, c := range cases {
		out = append(out, c)
		if !c.faulty() || c.total() > bigContent {
			continue
		}
		nf++
		names := errNames
		if !all && c.Codec != "bytestream" && c.Codec != "text" {
			names = nil
			for j := 0; j < 3; j++ {
				names = append(names, errNames[(nf*3+j)%len(errNames)])
			}
		}
		for _, name := range names {
			cc := *c
			cc.setErr(name)
			out = append(out, &cc)
		}
	}
	return out
}

// drawErrValue gives the faults of a seeded case an error value: the sentinel in one case of four, else one of errNames.
func drawErrValue(r *rand.Rand, c *Case) {
	if !c.faulty() {
		return
	}
	if k := r.Intn(len(errNames) + len(errNames)/3 + 1); k < len(errNames) {
		c.setErr(errNames[k])
	}
}

// sweepPar: the number of goroutines that share one codec instance in the concurrent cases.
const sweepPar = 8

// jsonRendered: the documented source kinds the byte-stream and text producers write as JSON.
func jsonRendered(kind string) bool {
	return kind == "struct" || kind == "*struct" || kind == "slice" || kind == "jsonm"
}

var concreteReaders = []string{"bytes.Buffer", "bytes.Reader", "strings.Reader"}

// writerKinds: the writers handed to Produce besides the scripted io.WriteCloser.
var writerKinds = []string{"plain", "bytes.Buffer", "bufio"}

// bigPattern x bigRep = 33554443 bytes: 11 bytes above 32 MiB; the 13-byte pattern is aligned with no buffer size.
const bigPattern = "0123456789ab\n"
const bigRep = 2581111

func pick(r *rand.Rand, l []string) string { return l[r.Intn(len(l))] }

// genCase draws one seeded case (part (b) of the rule).
func genCase(r *rand.Rand, allowHuge bool) *Case {
	c := &Case{}
	switch k := r.Intn(100); {
	case k < 30:
		c.Codec = "bytestream"
	case k < 50:
		c.Codec = "text"
	case k < 68:
		c.Codec = "json"
	case k < 82:
		c.Codec = "xml"
	case k < 97:
		c.Codec = "yaml"
	default:
		c.Codec = "discard"
	}
	switch c.Codec {
	case "bytestream", "text":
		content, rep := genBytes(r, allowHuge)
		c.Content, c.Rep = mon.Q(content), rep
		total := len(content) * maxInt(1, rep)
		c.Close = c.Codec == "bytestream" && r.Intn(2) == 0
		if r.Intn(2) == 0 {
			c.Dir = "consume"
			sup, other := bsDestSupported, bsDestOther
			if c.Codec == "text" {
				sup, other = textDestSupported, textDestOther
			}
			if r.Intn(4) == 0 {
				c.Kind = pick(r, other)
				if r.Intn(2) == 0 {
					c.Pre = "old"
				}
			} else {
				c.Kind = pick(r, sup)
				if r.Intn(4) == 0 && total < 100000 {
					c.Warm = 1 + r.Intn(2)
					c.WarmFail = r.Intn(2) == 0
				}
				if isIn(userFailDestKinds, c.Kind) && r.Intn(3) == 0 {
					c.UFail = true
				}
				if strings.HasPrefix(c.Kind, "*") && r.Intn(3) == 0 {
					p, _ := genBytes(r, false)
					if len(p) > 64 {
						p = p[:64]
					}
					c.Pre = mon.Q(p)
				}
			}
			c.R = genReadScript(r, total, 25)
			// the reader: without Close, or one of the concrete standard readers
			switch r.Intn(10) {
			case 0:
				c.RK = "plain"
			case 1, 2:
				c.RK, c.R = concreteReaders[r.Intn(len(concreteReaders))], Script{}
			}
			c.DBuf = []int{0, 1, 3, 64, 512, 4096}[r.Intn(6)]
			if total > 64<<10 && c.DBuf < 512 {
				c.DBuf = 512
			}
			if c.Kind == "writer" {
				c.O = genWriteScript(r, total, 25)
			}
			if r.Intn(25) == 0 {
				c.RK, c.R = "nil", Script{} // no reader at all
			}
			if r.Intn(60) == 0 && isIn(sup, c.Kind) && total <= 70000 && c.RK != "nil" {
				c.Par, c.Warm, c.WarmFail, c.UFail, c.O = 2+r.Intn(7), 0, false, false, Script{}
			}
		} else {
			c.Dir = "produce"
			documented, other := srcKindsOf(c.Codec)
			c.Kind = pick(r, documented)
			if r.Intn(6) == 0 {
				c.Kind = pick(r, other) // refusal paths
			}
			c.W = genWriteScript(r, total, 25)
			switch c.Kind {
			case "reader", "readcloser", "dual", "writerto":
				c.O = genReadScript(r, total, 15)
			}
			if r.Intn(4) == 0 && total < 100000 {
				c.Warm = 1 + r.Intn(2) // the producer instance is reused
				c.WarmFail = r.Intn(2) == 0
			}
			if r.Intn(4) == 0 {
				c.WK = pick(r, writerKinds)
			}
			if isIn(userFailSrcKinds, c.Kind) && r.Intn(3) == 0 {
				c.UFail = true
			}
			if r.Intn(25) == 0 {
				c.WK, c.W = "nil", Script{} // no writer at all
			}
			if r.Intn(60) == 0 && isIn(documented, c.Kind) && total <= 70000 && c.WK != "nil" {
				c.Par, c.Warm, c.WarmFail, c.UFail = 2+r.Intn(7), 0, false, false
			}
		}
	case "json", "xml", "yaml":
		if r.Intn(5) == 0 {
			c.Dir = "consume"
			if r.Intn(2) == 0 {
				c.Kind = pick(r, structDestMustErr)
			} else {
				c.Kind = pick(r, structDestNoPanic)
			}
			doc := pick(r, docPool[c.Codec])
			if r.Intn(4) == 0 && len(doc) > 0 {
				doc = doc[:r.Intn(len(doc))] // truncated document
			}
			c.Content = mon.Q(doc)
			c.R = genReadScript(r, len(doc), 20)
			return c
		}
		c.Dir = "roundtrip"
		switch c.Codec {
		case "json":
			c.Kind = pick(r, jsonKinds)
		case "xml":
			c.Kind = pick(r, xmlKinds)
		default:
			c.Kind = pick(r, yamlKinds)
		}
		c.Content = mon.Q(genText(r, c.Codec))
		if allowHuge && r.Intn(400) == 0 {
			// 64 KiB cut into 4096 pieces, or 1 MiB in one piece
			c.Content, c.Rep = "0123456789abcde,", (64<<10)/16
			if r.Intn(4) == 0 {
				c.Content, c.Rep = "0123456789abcdef", (1<<20)/16
			}
		}
		c.Num = pick(r, numPool)
		if r.Intn(5) == 0 {
			c.Warm = 1 // producer and consumer instances are reused
			c.WarmFail = r.Intn(2) == 0
		}
		if r.Intn(5) == 0 {
			c.WK = pick(r, writerKinds)
		}
		v, _, _ := buildValue(c)
		n := refLen(c.Codec, v)
		// at most one side is faulty, so that each fault is actually reached
		switch r.Intn(5) {
		case 0:
			c.W = genWriteScript(r, n, 100)
		case 1:
			c.R = genReadScript(r, n, 100)
		default:
			c.R = genReadScript(r, n, 0)
		}
		if r.Intn(60) == 0 && c.Rep == 0 {
			c.Par, c.Warm, c.WarmFail, c.WK = 2+r.Intn(7), 0, false, ""
		}
	default: // discard
		content, _ := genBytes(r, false)
		c.Content = mon.Q(content)
		if r.Intn(2) == 0 {
			c.Dir, c.Kind, c.Pre = "consume", pick(r, bsDestSupported), "old"
			if !strings.HasPrefix(c.Kind, "*") {
				c.Pre = ""
			}
		} else {
			c.Dir, c.Kind = "produce", pick(r, bsSrcKinds)
		}
	}
	return c
}

// Two shapes raised violations on the unchanged tree and were repaired in the library by 8b3e578 (witnesses pinned in
// known_findings.json): a typed-nil pointer source made ByteStreamProducer and TextProducer panic in reflect
// (produce-panic/<codec>/typed-nil-source), and ByteStreamProducer refused a nil writer before it had arranged for a
// closable payload to be closed (source-payload-not-closed/bytestream/nil-writer). Nothing is kept out of the generator.
func triagePending(*Case) bool { return false }

func run(m *mon.M) {
	sweep := crossErrValues(append(sweepCases(!m.Quick()), multiSweep()...), !m.Quick())
	n := 0
	for i, c := range sweep {
		if i%m.NShards != m.Shard {
			continue
		}
		if triagePending(c) {
			m.Class("triage-pending/shape-not-run")
			continue
		}
		m.Begin(c)
		runCase(m, c)
		n++
	}
	m.Note("sweep_cases", int64(n))
	m.Note("sweep_cases_total_all_shards", int64(len(sweep))/int64(m.NShards))
	r := m.Rand("cases")
	// the error values of the seeded faults: a PRNG stream of its own, so that the cases of parts (b) and (e) are what
	// they were in everything else
	re := m.Rand("error-values")
	total := m.N(40000, 300000)
	for i := 0; i < total; i++ {
		// a handful of 64 KiB / 1 MiB contents per shard in the quick tier, about 1 in 50 in the thorough tier
		c := genCase(r, !m.Quick() || i%400 == 7)
		drawErrValue(re, c)
		if triagePending(c) {
			m.Class("triage-pending/shape-not-run")
			continue
		}
		m.Begin(c)
		runCase(m, c)
	}
	m.Note("seeded_cases", int64(total))
	// part (e), seeded: a PRNG stream of its own, so that the cases of part (b) are what they were
	rm := m.Rand("several-interfaces")
	nm := m.N(4000, 30000)
	for i := 0; i < nm; i++ {
		c := genMultiCase(rm)
		drawErrValue(re, c)
		m.Begin(c)
		runCase(m, c)
	}
	m.Note("seeded_cases_several_interfaces", int64(nm))
}
