package c15

import (
	"os"
	"strconv"
	"strings"
)

// memAvailable answers how much memory the machine (and, where it can be read, the control group of the process)
// can still give, in bytes. ok = false: not known (no /proc): the caller goes ahead.
func memAvailable() (avail int64, ok bool) {
	b, err := os.ReadFile("/proc/meminfo")
	if err != nil {
		return 0, false
	}
	for _, line := range strings.Split(string(b), "\n") {
		if !strings.HasPrefix(line, "MemAvailable:") {
			continue
		}
		f := strings.Fields(line)
		if len(f) < 2 {
			return 0, false
		}
		kb, err := strconv.ParseInt(f[1], 10, 64)
		if err != nil {
			return 0, false
		}
		avail, ok = kb<<10, true
	}
	if !ok {
		return 0, false
	}
	// control group (v2, then v1): limit minus usage, when a limit is set
	for _, p := range [][2]string{{"/sys/fs/cgroup/memory.max", "/sys/fs/cgroup/memory.current"}, {"/sys/fs/cgroup/memory/memory.limit_in_bytes", "/sys/fs/cgroup/memory/memory.usage_in_bytes"}} {
		lim, err1 := readInt(p[0])
		cur, err2 := readInt(p[1])
		if err1 != nil || err2 != nil || lim <= 0 || lim > 1<<60 {
			continue
		}
		if left := lim - cur; left < avail {
			avail = left
		}
	}
	return avail, true
}

func readInt(path string) (int64, error) {
	b, err := os.ReadFile(path)
	if err != nil {
		return 0, err
	}
	return strconv.ParseInt(strings.TrimSpace(string(b)), 10, 64)
}
