package c15

import (
	"bytes"
	"encoding/json"
	"fmt"
	"io"
	"reflect"
	"sync"
	"unicode/utf8"

	"verif/mon"
)

// One codec instance is what a process has: Runtime.Consumers / Runtime.Producers and the API's maps hold one value
// per media type, and every concurrent request goes through it. The statement quantifies over all inputs and
// behaviours without an exception for calls that overlap, so each of Par overlapping calls on one instance is
// judged exactly as a call that was alone: its own bytes, its own destination, its own streams.

const maxPar = 32

// parContent is the content of goroutine i: tagged, rotated, and of a length of its own.
func parContent(base []byte, i int) []byte {
	out := []byte(fmt.Sprintf("<call %02d>", i))
	if len(base) == 0 {
		return out
	}
	k := (i * 7919) % len(base)
	out = append(out, base[k:]...)
	out = append(out, base[:k]...)
	cut := (i * 131) % (len(out)/4 + 1)
	return out[:len(out)-cut]
}

// parText is the text of goroutine i for the structured codecs (no rotation: the text stays well-formed).
func parText(base string, i int) string {
	return fmt.Sprintf("call %02d,%s,%0*d", i, base, i+1, i)
}

type parOutcome struct {
	pv    interface{}
	stack string
	err   error
}

// parallel runs f(0..n-1) on n goroutines released together.
func parallel(n int, f func(i int) error) []parOutcome {
	out := make([]parOutcome, n)
	start := make(chan struct{})
	var wg sync.WaitGroup
	for i := 0; i < n; i++ {
		wg.Add(1)
		go func(i int) {
			defer wg.Done()
			<-start
			out[i].pv, out[i].stack = mon.Catch(func() { out[i].err = f(i) })
		}(i)
	}
	close(start)
	wg.Wait()
	return out
}

func cleanScript(s Script) Script {
	s.Fault, s.ErrAt, s.ErrData, s.Sticky, s.Err = false, 0, false, false, ""
	return s
}

// whose names the call whose content b is (or starts like), for the detail of a violation.
func whose(b []byte, datas [][]byte) string {
	for j, d := range datas {
		if bytes.Equal(b, d) {
			return fmt.Sprintf("exactly the content of call %d", j)
		}
	}
	if len(b) >= 9 {
		return fmt.Sprintf("starts like %q", b[:9])
	}
	return "matches no call"
}

func runConcurrent(m *mon.M, c *Case) {
	n := c.Par
	if n > maxPar {
		n = maxPar
	}
	m.Eval(n - 1)
	byteCodec := c.Codec == "bytestream" || c.Codec == "text"
	switch {
	case byteCodec && c.Dir == "consume":
		runConcurrentConsume(m, c, n)
	case byteCodec && c.Dir == "produce":
		runConcurrentProduce(m, c, n)
	case !byteCodec && c.Codec != "discard" && c.Dir == "roundtrip":
		runConcurrentRoundTrip(m, c, n)
	default:
		m.Violate("bad-replay-case", "no concurrent form of "+c.Codec+"/"+c.Dir, c)
	}
}

func runConcurrentConsume(m *mon.M, c *Case, n int) {
	base := c.content()
	cc := *c
	cc.R = cleanScript(c.R)
	dests := make([]dest, n)
	datas := make([][]byte, n)
	readers := make([]*sReader, n)
	rds := make([]io.Reader, n)
	for i := 0; i < n; i++ {
		d, ok := mkDest(c.Codec, c.Kind, []byte(c.Pre), Script{}, c.DBuf)
		if !ok || !d.supported {
			m.Violate("bad-replay-case", "concurrent consume needs a documented destination kind, got "+c.Kind, c)
			return
		}
		dests[i], datas[i] = d, parContent(base, i)
		rd, sr, _, ok := consumeReader(&cc, datas[i])
		if !ok || c.RK == "nil" {
			m.Violate("bad-replay-case", "unknown reader kind "+c.RK, c)
			return
		}
		sr.yield = true
		readers[i], rds[i] = sr, rd
	}
	cons := consumerOf(c)
	res := parallel(n, func(i int) error {
		return cons.Consume(rds[i], dests[i].v)
	})
	m.NT(c.fp("consume"))
	m.Class(c.Codec + "/consume/concurrent-calls-on-one-instance")
	for i, o := range res {
		if o.pv != nil {
			m.Violate("concurrent-panic/"+c.Codec+"/consume", fmt.Sprintf("%s Consume into %s, call %d of %d overlapping calls on ONE consumer, panicked: %v\n%s", c.Codec, c.Kind, i, n, o.pv, o.stack), c)
			return
		}
	}
	for i, o := range res {
		r := readers[i]
		if c.RK == "" {
			closeRules(m, c, "reader", r.closes, r.reads)
		}
		if usedAfterClose(m, c, "reader", r.readsAfterClose, o.err) {
			return
		}
		if o.err != nil {
			m.Violate("concurrent-spurious-error/"+c.Codec+"/consume", fmt.Sprintf("%s Consume into %s, call %d of %d overlapping calls on ONE consumer, failed on a clean stream: %v", c.Codec, c.Kind, i, n, o.err), c)
			return
		}
		if got := get(dests[i]); !bytes.Equal(got, datas[i]) {
			m.Violate("concurrent-calls-interfere/"+c.Codec+"/consume", fmt.Sprintf("%s Consume into %s, %d overlapping calls on ONE consumer: call %d read %s (%d bytes) and stored %s (%d bytes: %s)", c.Codec, c.Kind, n, i, short(datas[i]), len(datas[i]), short(got), len(got), whose(got, datas)), c)
			return
		}
	}
	m.Class("concurrent-calls-independent")
}

func runConcurrentProduce(m *mon.M, c *Case, n int) {
	base := c.content()
	documented, _ := srcKindsOf(c.Codec)
	if !isIn(documented, c.Kind) || c.WK == "nil" {
		m.Violate("bad-replay-case", "concurrent produce needs a documented source kind and a writer, got "+c.Kind+"/"+c.WK, c)
		return
	}
	cc := *c
	cc.W = cleanScript(c.W)
	srcs := make([]source, n)
	datas := make([][]byte, n)
	sinks := make([]*sWriter, n)
	wrs := make([]io.Writer, n)
	outs := make([]func() []byte, n)
	for i := 0; i < n; i++ {
		datas[i] = parContent(base, i)
		s, ok := mkSource(c.Kind, datas[i], cleanScript(c.O))
		if !ok {
			m.Violate("bad-replay-case", "unknown source kind "+c.Kind, c)
			return
		}
		if s.rd != nil {
			s.rd.yield = true
		}
		w := newWriter(cc.W)
		w.yield = true
		wr, out, ok := produceWriter(&cc, w)
		if !ok {
			m.Violate("bad-replay-case", "unknown writer kind "+c.WK, c)
			return
		}
		srcs[i], sinks[i], wrs[i], outs[i] = s, w, wr, out
	}
	prod := producerOf(c)
	res := parallel(n, func(i int) error {
		return prod.Produce(wrs[i], srcs[i].v)
	})
	m.NT(c.fp("produce"))
	m.Class(c.Codec + "/produce/concurrent-calls-on-one-instance")
	for i, o := range res {
		if o.pv != nil {
			m.Violate("concurrent-panic/"+c.Codec+"/produce", fmt.Sprintf("%s Produce from %s, call %d of %d overlapping calls on ONE producer, panicked: %v\n%s", c.Codec, c.Kind, i, n, o.pv, o.stack), c)
			return
		}
	}
	for i, o := range res {
		s, w := srcs[i], sinks[i]
		if c.WK == "" {
			closeRules(m, c, "writer", w.closes, w.writes)
		}
		if s.closer != nil && s.closer.closes == 0 {
			m.Violate("source-payload-not-closed/"+c.Codec, fmt.Sprintf("%s Produce from %s, call %d of %d overlapping calls on ONE producer: the io.ReadCloser payload was not closed (err=%v)", c.Codec, c.Kind, i, n, o.err), c)
			return
		}
		if usedAfterClose(m, c, "writer", w.writesAfterClose, o.err) {
			return
		}
		if s.closer != nil && usedAfterClose(m, c, "source-payload", s.closer.readsAfterClose, o.err) {
			return
		}
		if o.err != nil {
			m.Violate("concurrent-spurious-error/"+c.Codec+"/produce", fmt.Sprintf("%s Produce from %s, call %d of %d overlapping calls on ONE producer, failed on a clean stream: %v", c.Codec, c.Kind, i, n, o.err), c)
			return
		}
		written := outs[i]()
		if s.byteSrc {
			if !bytes.Equal(written, datas[i]) {
				m.Violate("concurrent-calls-interfere/"+c.Codec+"/produce", fmt.Sprintf("%s Produce from %s, %d overlapping calls on ONE producer: call %d had the source %s (%d bytes), its writer received %s (%d bytes: %s)", c.Codec, c.Kind, n, i, short(datas[i]), len(datas[i]), short(written), len(written), whose(written, datas)), c)
				return
			}
			continue
		}
		if !utf8.Valid(datas[i]) {
			continue
		}
		back := reflect.New(reflect.TypeOf(s.jsonOf))
		if uerr := json.Unmarshal(written, back.Interface()); uerr != nil || !reflect.DeepEqual(back.Elem().Interface(), s.jsonOf) {
			m.Violate("concurrent-calls-interfere/"+c.Codec+"/produce", fmt.Sprintf("%s Produce from %s, %d overlapping calls on ONE producer: what the writer of call %d received, %s, does not decode to its source value (%v)", c.Codec, c.Kind, n, i, short(written), uerr), c)
			return
		}
	}
	m.Class("concurrent-calls-independent")
}

func runConcurrentRoundTrip(m *mon.M, c *Case, n int) {
	base := string(c.content())
	vals := make([]interface{}, n)
	dsts := make([]interface{}, n)
	cis := make([]*Case, n)
	sinks := make([]*sWriter, n)
	readers := make([]*sReader, n)
	for i := 0; i < n; i++ {
		ci := *c
		ci.Content, ci.Rep = mon.Q(parText(base, i)), 0
		v, dst, ok := buildValue(&ci)
		if !ok {
			m.Violate("bad-replay-case", "unknown value kind "+c.Kind, c)
			return
		}
		vals[i], dsts[i], cis[i] = v, dst, &ci
		sinks[i] = newWriter(Script{})
		sinks[i].yield = true
	}
	prod, cons := producerOf(c), consumerOf(c)
	rsc := cleanScript(c.R)
	res := parallel(n, func(i int) error {
		if err := prod.Produce(sinks[i], vals[i]); err != nil {
			return fmt.Errorf("produce: %w", err)
		}
		r := newReader(append([]byte(nil), sinks[i].buf...), rsc)
		r.yield = true
		readers[i] = r
		if err := cons.Consume(r, dsts[i]); err != nil {
			return fmt.Errorf("consume: %w", err)
		}
		return nil
	})
	m.NT(c.fp("roundtrip"))
	m.Class(c.Codec + "/roundtrip/concurrent-calls-on-one-instance")
	for i, o := range res {
		if o.pv != nil {
			m.Violate("concurrent-panic/"+c.Codec+"/roundtrip", fmt.Sprintf("%s round trip of %s, call %d of %d overlapping round trips on ONE producer and ONE consumer, panicked: %v\n%s", c.Codec, c.Kind, i, n, o.pv, o.stack), c)
			return
		}
	}
	for i, o := range res {
		closeRules(m, c, "writer", sinks[i].closes, sinks[i].writes)
		if readers[i] != nil {
			closeRules(m, c, "reader", readers[i].closes, readers[i].reads)
		}
		if yamlBlockScalarFeature(cis[i]) {
			m.Class("concurrent/yaml-known-feature-not-judged")
			continue
		}
		if o.err != nil {
			m.Violate("concurrent-spurious-error/"+c.Codec+"/roundtrip", fmt.Sprintf("%s round trip of %s, call %d of %d overlapping round trips on ONE producer and ONE consumer, failed on clean streams: %v", c.Codec, c.Kind, i, n, o.err), c)
			return
		}
		if got := reflect.ValueOf(dsts[i]).Elem().Interface(); !reflect.DeepEqual(got, vals[i]) {
			m.Violate("concurrent-calls-interfere/"+c.Codec+"/roundtrip", fmt.Sprintf("%s round trip of %s, %d overlapping round trips on ONE producer and ONE consumer: call %d produced %s\n got  %#v\n want %#v", c.Codec, c.Kind, n, i, short(sinks[i].buf), got, vals[i]), c)
			return
		}
	}
	m.Class("concurrent-calls-independent")
}
