package c15

import (
	"bufio"
	"bytes"
	"compress/gzip"
	"encoding/hex"
	"encoding/json"
	"errors"
	"io"
	"strings"
)

// ---- named forms of the concrete kinds ----

type namedString string
type namedBytes []byte
type plainStruct struct {
	A string `json:"a"`
	B int    `json:"b"`
}

// ---- destinations that are interfaces ----

// rfDest is an io.ReaderFrom (and nothing else): it reads with its own buffer size until EOF.
type rfDest struct {
	bufsz  int
	stored []byte
	calls  int
}

func (d *rfDest) ReadFrom(r io.Reader) (int64, error) {
	d.calls++
	sz := d.bufsz
	if sz <= 0 {
		sz = 512
	}
	buf := make([]byte, sz)
	var total int64
	for guard := 0; guard < 1<<26; guard++ {
		n, err := r.Read(buf)
		d.stored = append(d.stored, buf[:n]...)
		total += int64(n)
		if err == io.EOF {
			return total, nil
		}
		if err != nil {
			return total, err
		}
	}
	return total, errors.New("rfDest: reader makes no progress")
}

// wDest is an io.Writer (and nothing else) that may fail at a byte offset.
type wDest struct{ w *sWriter }

func (d wDest) Write(p []byte) (int, error) { return d.w.Write(p) }

// buDest is an encoding.BinaryUnmarshaler.
type buDest struct {
	stored []byte
	calls  int
	fail   bool // the destination's own method rejects what it is given
}

func (d *buDest) UnmarshalBinary(b []byte) error {
	d.calls++
	if d.fail {
		return errUserMethod
	}
	d.stored = append([]byte(nil), b...)
	return nil
}

// tuDest is an encoding.TextUnmarshaler.
type tuDest struct {
	stored []byte
	calls  int
	fail   bool
}

// errUserMethod is what a failing user (un)marshaler answers.
var errUserMethod = errors.New("verif: the value's own (un)marshaler failed")

func (d *tuDest) UnmarshalText(b []byte) error {
	d.calls++
	if d.fail {
		return errUserMethod
	}
	d.stored = append([]byte(nil), b...)
	return nil
}

// Destinations whose kind is string / []byte and which ALSO implement the unmarshaler interface, with a
// stored form that is not the identity: what they hold tells whether the interface was honoured.
type hexText string

func (h *hexText) UnmarshalText(b []byte) error { *h = hexText(hex.EncodeToString(b)); return nil }

type hexBin string

func (h *hexBin) UnmarshalBinary(b []byte) error { *h = hexBin(hex.EncodeToString(b)); return nil }

type hexBytes []byte

func (h *hexBytes) UnmarshalBinary(b []byte) error {
	*h = hexBytes(hex.EncodeToString(b))
	return nil
}

func unhex(stored string) []byte {
	b, err := hex.DecodeString(stored)
	if err != nil {
		return []byte("<stored without the destination's unmarshaler>:" + stored)
	}
	return b
}

// ---- sources that are interfaces ----

// wtSrc is an io.WriterTo (and nothing else): it writes its content in scripted chunk sizes and
// may fail by itself once ErrAt bytes were written.
type wtSrc struct {
	data  []byte
	sc    Script
	calls int
}

func (s *wtSrc) WriteTo(w io.Writer) (int64, error) {
	s.calls++
	var total int64
	pos, ci := 0, 0
	lim := len(s.data)
	if s.sc.Fault && s.sc.ErrAt < lim {
		lim = s.sc.ErrAt
		if lim < 0 {
			lim = 0
		}
	}
	for pos < lim {
		c := lim - pos
		if len(s.sc.Chunks) > 0 {
			c = s.sc.Chunks[ci%len(s.sc.Chunks)]
			ci++
			if c <= 0 {
				c = 1
			}
			if c > lim-pos {
				c = lim - pos
			}
		}
		n, err := w.Write(s.data[pos : pos+c])
		total += int64(n)
		pos += n
		if err != nil {
			return total, err
		}
		if n < c {
			return total, io.ErrShortWrite
		}
	}
	if s.sc.Fault {
		return total, s.sc.err()
	}
	return total, nil
}

// dualSrc is an io.ReadCloser that is also an io.WriterTo (like *os.File).
type dualSrc struct {
	*sReader
	wt *wtSrc
}

func (d dualSrc) WriteTo(w io.Writer) (int64, error) { return d.wt.WriteTo(w) }

type bmSrc struct {
	data  []byte
	fail  bool
	calls *int
}

func (s bmSrc) MarshalBinary() ([]byte, error) {
	*s.calls++
	if s.fail {
		return append([]byte(nil), s.data...), errUserMethod
	}
	return append([]byte(nil), s.data...), nil
}

type tmSrc struct {
	data  []byte
	fail  bool
	calls *int
}

func (s tmSrc) MarshalText() ([]byte, error) {
	*s.calls++
	if s.fail {
		return append([]byte(nil), s.data...), errUserMethod
	}
	return append([]byte(nil), s.data...), nil
}

// jmSrc is a struct with a MarshalJSON of its own (what a generated model is): the byte-stream and text producers
// write structs as JSON, so what arrives must decode to plainStruct{A, len(A)}.
type jmSrc struct {
	A     string
	fail  bool
	calls *int
}

func (s jmSrc) MarshalJSON() ([]byte, error) {
	*s.calls++
	if s.fail {
		return nil, errUserMethod
	}
	return json.Marshal(plainStruct{A: s.A, B: len(s.A)})
}

// chanStruct is of a documented kind (struct: written as JSON) that JSON cannot render.
type chanStruct struct {
	A string   `json:"a"`
	C chan int `json:"c"`
}

// userFailKinds: the destination / source kinds whose own (un)marshaler can be made to fail (Case.UFail).
var userFailDestKinds = []string{"binunm", "textunm"}
var userFailSrcKinds = []string{"binm", "textm", "jsonm"}

type errSrc struct{ msg string }

func (e errSrc) Error() string { return e.msg }

type strSrc struct{ s string }

func (s strSrc) String() string { return s.s }

// ---- destination factory for the byte-oriented codecs (bytestream, text) ----

// dest describes one destination handed to Consume.
type dest struct {
	v         interface{}
	get       func() []byte // bytes held by the destination after the call (nil func: nothing readable)
	supported bool          // the codec documents this kind: a clean stream must be stored and succeed
	sink      *sWriter      // the scripted writer behind a "writer" destination
	ucalls    func() int    // calls of the destination's own UnmarshalBinary / UnmarshalText
	setFail   func()        // makes that method fail
}

func clone(b []byte) []byte {
	if len(b) == 0 {
		return nil
	}
	return append([]byte(nil), b...)
}

// kinds the byte-stream consumer documents, and kinds it does not.
var bsDestSupported = []string{"readerfrom", "writer", "buffer", "binunm", "*string", "*[]byte", "*named-string", "*named-bytes", "*iface-string", "*iface-bytes", "bufio-writer", "gzip-writer", "binunm-strkind", "binunm-byteskind"}
var bsDestOther = []string{"nil", "nil-*string", "nil-*[]byte", "nil-*named-string", "nil-*named-bytes", "nil-*struct", "nil-*iface",
	"string", "[]byte", "int", "*int", "*struct", "*iface-nil", "*iface-int", "**string", "**[]byte", "map", "*map", "chan", "func", "*[]string", "*[]uint16", "*[4]byte"}

// typed-nil pointers of the kinds a consumer recognises through an INTERFACE before it looks at the value: a nil
// *bytes.Buffer / *bufio.Writer (io.ReaderFrom and io.Writer), a nil *strings.Builder (io.Writer only), nil pointers
// to user types whose ReadFrom / UnmarshalBinary / UnmarshalText has a pointer receiver. "nil ... destinations yield
// an error, never a panic": the consumer must refuse them before it calls a method on the nil receiver.
var bsDestNilIface = []string{"nil-*buffer", "nil-*builder", "nil-*bufio-writer", "nil-*readerfrom", "nil-*binunm", "nil-*binunm-strkind", "nil-*binunm-byteskind"}
var textDestNilIface = []string{"nil-*textunm", "nil-*textunm-strkind"}

// TextConsumer called UnmarshalText on a nil pointer destination that implements encoding.TextUnmarshaler (non-empty input)
// and panicked in the user's method: repaired in the library by 5fbb442 and pinned. The kinds are generated for the text codec
// (true would leave them out).
const triagePendingTextNilUnmarshaler = false

func init() {
	bsDestOther = append(bsDestOther, bsDestNilIface...)
	if !triagePendingTextNilUnmarshaler {
		textDestOther = append(textDestOther, textDestNilIface...)
	}
}

var textDestSupported = []string{"textunm", "*string", "*named-string", "textunm-strkind"}
var textDestOther = []string{"nil", "nil-*string", "nil-*named-string", "nil-*struct", "string", "int", "*int", "*struct", "*[]byte", "*iface-string", "**string", "map", "chan", "func"}

func isIn(l []string, s string) bool {
	for _, e := range l {
		if e == s {
			return true
		}
	}
	return false
}

// mkDest builds the destination named by kind. pre is its prior content where the kind has one.
func mkDest(codec, kind string, pre []byte, o Script, bufsz int) (d dest, ok bool) {
	switch codec {
	case "bytestream":
		d.supported = isIn(bsDestSupported, kind)
	case "text":
		d.supported = isIn(textDestSupported, kind)
	}
	switch kind {
	case "readerfrom":
		x := &rfDest{bufsz: bufsz}
		d.v, d.get = x, func() []byte { return x.stored }
	case "writer":
		w := newWriter(o)
		d.v, d.get, d.sink = wDest{w}, func() []byte { return w.buf }, w
	case "buffer":
		x := &bytes.Buffer{}
		d.v, d.get = x, func() []byte { return x.Bytes() }
	case "bufio-writer": // a buffering writer (it has Flush) over a plain writer
		w := newWriter(o)
		x := bufio.NewWriterSize(wDest{w}, 64)
		d.v, d.sink = x, w
		d.get = func() []byte { _ = x.Flush(); return w.buf }
	case "gzip-writer": // a compressing writer (it has Flush and Close)
		under := &bytes.Buffer{}
		x := gzip.NewWriter(under)
		d.v = x
		d.get = func() []byte {
			_ = x.Close()
			zr, err := gzip.NewReader(bytes.NewReader(under.Bytes()))
			if err != nil {
				return nil
			}
			b, _ := io.ReadAll(zr)
			return b
		}
	case "binunm":
		x := &buDest{}
		d.v, d.get = x, func() []byte { return x.stored }
		d.ucalls, d.setFail = func() int { return x.calls }, func() { x.fail = true }
	case "textunm":
		x := &tuDest{}
		d.v, d.get = x, func() []byte { return x.stored }
		d.ucalls, d.setFail = func() int { return x.calls }, func() { x.fail = true }
	case "textunm-strkind":
		x := new(hexText)
		d.v, d.get = x, func() []byte { return unhex(string(*x)) }
	case "binunm-strkind":
		x := new(hexBin)
		d.v, d.get = x, func() []byte { return unhex(string(*x)) }
	case "binunm-byteskind":
		x := new(hexBytes)
		d.v, d.get = x, func() []byte { return unhex(string(*x)) }
	case "*string":
		x := new(string)
		*x = string(pre)
		d.v, d.get = x, func() []byte { return []byte(*x) }
	case "*[]byte":
		x := new([]byte)
		*x = clone(pre)
		d.v, d.get = x, func() []byte { return *x }
	case "*named-string":
		x := new(namedString)
		*x = namedString(pre)
		d.v, d.get = x, func() []byte { return []byte(*x) }
	case "*named-bytes":
		x := new(namedBytes)
		*x = namedBytes(clone(pre))
		d.v, d.get = x, func() []byte { return []byte(*x) }
	case "*iface-string":
		x := new(interface{})
		*x = string(pre)
		d.v, d.get = x, func() []byte {
			if s, isS := (*x).(string); isS {
				return []byte(s)
			}
			return nil
		}
	case "*iface-bytes":
		x := new(interface{})
		*x = append([]byte{}, pre...)
		d.v, d.get = x, func() []byte {
			if s, isB := (*x).([]byte); isB {
				return s
			}
			return nil
		}
	case "nil":
		d.v = nil
	case "nil-*string":
		d.v = (*string)(nil)
	case "nil-*[]byte":
		d.v = (*[]byte)(nil)
	case "nil-*named-string":
		d.v = (*namedString)(nil)
	case "nil-*named-bytes":
		d.v = (*namedBytes)(nil)
	case "nil-*struct":
		d.v = (*plainStruct)(nil)
	case "nil-*iface":
		d.v = (*interface{})(nil)
	case "nil-*buffer":
		d.v = (*bytes.Buffer)(nil)
	case "nil-*builder":
		d.v = (*strings.Builder)(nil)
	case "nil-*bufio-writer":
		d.v = (*bufio.Writer)(nil)
	case "nil-*readerfrom":
		d.v = (*rfDest)(nil)
	case "nil-*binunm":
		d.v = (*buDest)(nil)
	case "nil-*binunm-strkind":
		d.v = (*hexBin)(nil)
	case "nil-*binunm-byteskind":
		d.v = (*hexBytes)(nil)
	case "nil-*textunm":
		d.v = (*tuDest)(nil)
	case "nil-*textunm-strkind":
		d.v = (*hexText)(nil)
	case "string":
		d.v = string(pre)
	case "[]byte":
		d.v = append([]byte{}, pre...)
	case "int":
		d.v = 42
	case "*int":
		d.v = new(int)
	case "*struct":
		d.v = &plainStruct{}
	case "*iface-nil":
		d.v = new(interface{})
	case "*iface-int":
		x := new(interface{})
		*x = 42
		d.v = x
	case "**string":
		x := new(string)
		*x = string(pre)
		d.v = &x
	case "**[]byte":
		var x *[]byte
		d.v = &x
	case "map":
		d.v = map[string]string{}
	case "*map":
		d.v = &map[string]string{}
	case "chan":
		d.v = make(chan int)
	case "func":
		d.v = func() {}
	case "*[]string":
		d.v = &[]string{}
	case "*[]uint16":
		d.v = &[]uint16{}
	case "*[4]byte":
		d.v = &[4]byte{}
	default:
		return d, false
	}
	return d, true
}

// ---- source factory for the byte-oriented producers ----

var bsSrcKinds = []string{"writerto", "reader", "readcloser", "dual", "binm", "error", "[]byte", "string", "named-bytes", "named-string",
	"*string", "*[]byte", "*named-string", "*named-bytes", "struct", "*struct", "slice", "jsonm"}
var textSrcKinds = []string{"textm", "error", "stringer", "string", "*string", "named-string", "*named-string", "struct", "*struct", "slice", "jsonm"}

// sources the producers do not document (or cannot render): nil, typed-nil pointers, scalars, maps, channels,
// functions, arrays, and struct / slice values that JSON refuses.
var bsSrcOther = []string{"nil", "nil-*string", "nil-*[]byte", "nil-*struct", "nil-*iface", "int", "*int", "bool", "float", "map", "*map", "chan", "func",
	"*iface-nil", "[4]byte", "struct-chan", "*struct-chan", "slice-chan"}
var textSrcOther = []string{"nil", "nil-*string", "nil-*[]byte", "nil-*struct", "nil-*iface", "int", "*int", "bool", "float", "map", "*map", "chan", "func",
	"*iface-nil", "[4]byte", "struct-chan", "*struct-chan", "slice-chan", "[]byte", "*[]byte"}

func srcKindsOf(codec string) (documented, other []string) {
	if codec == "text" {
		return textSrcKinds, textSrcOther
	}
	return bsSrcKinds, bsSrcOther
}

// srcClass names the class of a source kind for signatures.
func srcClass(codec, kind string) string {
	documented, _ := srcKindsOf(codec)
	switch {
	case kind == "nil":
		return "nil-source"
	case len(kind) > 4 && kind[:4] == "nil-":
		return "typed-nil-source"
	case isIn(documented, kind):
		return "documented-source"
	}
	return "unsupported-source"
}

type source struct {
	v       interface{}
	closer  *sReader // the closable payload, when the kind has one
	rd      *sReader // the readable payload (fault delivery)
	wt      *wtSrc
	jsonOf  interface{} // for struct/slice kinds: the value whose JSON form is expected
	byteSrc bool        // the bytes written must be exactly the content
	raw     []byte      // for []byte-kind sources: the very slice handed to Produce
	ucalls  *int        // calls of the source's own MarshalBinary / MarshalText
}

func mkSource(kind string, content []byte, o Script) (s source, ok bool) {
	return mkSourceF(kind, content, o, false)
}

// mkSourceF: ufail makes the source's own MarshalBinary / MarshalText fail (kinds binm, textm).
func mkSourceF(kind string, content []byte, o Script, ufail bool) (s source, ok bool) {
	s.byteSrc = true
	switch kind {
	case "writerto":
		s.wt = &wtSrc{data: content, sc: o}
		s.v = s.wt
	case "reader":
		s.rd = newReader(content, o)
		s.v = readerOnly{s.rd}
	case "readcloser":
		s.rd = newReader(content, o)
		s.closer = s.rd
		s.v = s.rd
	case "dual":
		s.rd = newReader(content, o)
		s.closer = s.rd
		s.wt = &wtSrc{data: content, sc: o}
		s.v = dualSrc{s.rd, s.wt}
	case "binm":
		s.ucalls = new(int)
		s.v = bmSrc{content, ufail, s.ucalls}
	case "textm":
		s.ucalls = new(int)
		s.v = tmSrc{content, ufail, s.ucalls}
	case "error":
		s.v = errSrc{string(content)}
	case "stringer":
		s.v = strSrc{string(content)}
	case "[]byte":
		s.raw = append([]byte{}, content...)
		s.v = s.raw
	case "string":
		s.v = string(content)
	case "named-bytes":
		s.raw = append([]byte{}, content...)
		s.v = namedBytes(s.raw)
	case "named-string":
		s.v = namedString(content)
	case "*string":
		x := string(content)
		s.v = &x
	case "*[]byte":
		x := append([]byte{}, content...)
		s.v, s.raw = &x, x
	case "*named-string":
		x := namedString(content)
		s.v = &x
	case "*named-bytes":
		x := namedBytes(append([]byte{}, content...))
		s.v, s.raw = &x, x
	case "struct":
		x := plainStruct{A: string(content), B: len(content)}
		s.v, s.jsonOf, s.byteSrc = x, x, false
	case "*struct":
		x := plainStruct{A: string(content), B: len(content)}
		s.v, s.jsonOf, s.byteSrc = &x, x, false
	case "slice":
		x := []string{string(content), "x"}
		s.v, s.jsonOf, s.byteSrc = x, x, false
	case "jsonm":
		s.ucalls = new(int)
		s.v, s.jsonOf, s.byteSrc = jmSrc{string(content), ufail, s.ucalls}, plainStruct{A: string(content), B: len(content)}, false
	// ---- kinds no producer documents: every one of them carries a value (the content, or a non-zero scalar) ----
	case "nil":
		s.v, s.byteSrc = nil, false
	case "nil-*string":
		s.v, s.byteSrc = (*string)(nil), false
	case "nil-*[]byte":
		s.v, s.byteSrc = (*[]byte)(nil), false
	case "nil-*struct":
		s.v, s.byteSrc = (*plainStruct)(nil), false
	case "nil-*iface":
		s.v, s.byteSrc = (*interface{})(nil), false
	case "int":
		s.v, s.byteSrc = 42+len(content), false
	case "*int":
		x := 42 + len(content)
		s.v, s.byteSrc = &x, false
	case "bool":
		s.v, s.byteSrc = true, false
	case "float":
		s.v, s.byteSrc = 1.5+float64(len(content)), false
	case "map":
		s.v, s.byteSrc = map[string]string{"k": string(content)}, false
	case "*map":
		s.v, s.byteSrc = &map[string]string{"k": string(content)}, false
	case "chan":
		s.v, s.byteSrc = make(chan int), false
	case "func":
		s.v, s.byteSrc = func() {}, false
	case "*iface-nil":
		s.v, s.byteSrc = new(interface{}), false
	case "[4]byte":
		s.v, s.byteSrc = [4]byte{'a', 'b', 'c', 'd'}, false
	case "struct-chan":
		s.v, s.byteSrc = chanStruct{string(content), make(chan int)}, false
	case "*struct-chan":
		s.v, s.byteSrc = &chanStruct{string(content), make(chan int)}, false
	case "slice-chan":
		s.v, s.byteSrc = []chan int{make(chan int)}, false
	default:
		return s, false
	}
	return s, true
}
