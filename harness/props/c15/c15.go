// Package c15 monitors the built-in codecs (byte stream, text, JSON, XML, YAML, discard):
// round trips, byte exactness under scripted chunking, error propagation at every offset,
// closing discipline and totality over destination kinds.
package c15

import (
	"bufio"
	"bytes"
	"encoding/json"
	"fmt"
	"hash/crc32"
	"io"
	"reflect"
	"strings"
	"unicode/utf8"

	"github.com/go-openapi/runtime"
	"github.com/go-openapi/runtime/yamlpc"

	"verif/mon"
)

func init() {
	mon.Register(&mon.Property{
		ID:    "C15",
		Level: "exploration",
		Rule: "cases = (codec, direction, source/destination kind, content, reader/writer script, closing option). " +
			"(a) sweep: for every codec x direction x documented kind, a fixed content with a stream fault at EVERY byte offset 0..len (error alone / error together with the last bytes; writer faults one-shot / sticky), closing option on and off, each fault reporting in turn the harness's own sentinel and every error VALUE of a fixed vocabulary (io.ErrUnexpectedEOF, errors wrapping io.ErrUnexpectedEOF and io.EOF, an error whose text is 'EOF', io.ErrClosedPipe, io.ErrShortWrite, io.ErrShortBuffer, io.ErrNoProgress, context.Canceled, context.DeadlineExceeded, os.ErrDeadlineExceeded, os.ErrClosed, a net.Error with Timeout() true, bare and wrapped; quick tier: three of them per offset, in rotation, for the JSON/XML/YAML round trips); " +
			"(b) seeded: kinds (documented ones, and nil / typed-nil / non-pointer / foreign / pre-populated destinations) x contents (empty, ASCII, whitespace-edged, all 256 byte values, invalid UTF-8, buffer-boundary sizes, 64 KiB..1 MiB, JSON number literals beyond float64) x scripts (whole, 1-byte, random chunks, runs of <= 50 zero-length reads, data together with EOF, fault at a random offset, reporting an error value drawn from the same vocabulary). " +
			"(c) refusal paths, in the sweep and seeded: no reader / no writer at all for the byte-stream and text codecs, sources no producer documents (nil, typed-nil pointers, scalars, maps, channels, functions, arrays, structs and slices JSON refuses) into every writer kind, on fresh and on used producer instances; " +
			"(d) 2..8 goroutines calling ONE codec instance at the same time, each with its own content (up to 64 KiB), streams and destination, the scripted streams yielding the processor before every read and write. " +
			"(e) sources that implement SEVERAL of the interfaces the byte-stream and text producers look for (io.WriterTo, io.Reader, io.ReadCloser, encoding.BinaryMarshaler, encoding.TextMarshaler, error, fmt.Stringer): every subset of them as a struct value and as a pointer, each interface with a rendering of its own, and time.Time, *time.Time, *big.Float, *big.Int, *url.URL; produced, then consumed into the matching destination (a pointer to the same type, whose UnmarshalBinary / UnmarshalText accepts its own marshaler's form only; else *[]byte / *string), swept and seeded with chunked and faulty streams and every writer kind. " +
			"Every case drives the real Consume/Produce on scripted streams that count reads, writes and closes. " +
			"non-trivial = every case whose kind belongs to the codec's table; distinct by (codec, direction, kind, pre-populated?, stream behaviour class, payload behaviour class, closing option)",
		Assumptions: []string{
			"no reader / no writer at all (a nil io.Reader / io.Writer) is generated for the byte-stream and text codecs only: the call must be refused (an error, never a panic), and a closable source payload is closed all the same; JSON/XML/YAML hand the stream to the standard decoder / encoder and are not driven without one (the statement's nil clause is about destinations)",
			"producers given a source they do not document: no panic, both directions of the closing clause, an error for a nil source, and no success that did not happen (nil returned with nothing written, or with the reflect package's '<T Value>' placeholder written); what an undocumented kind is otherwise written as is not judged",
			"DiscardConsumer / DiscardProducer: an error, a closed stream, bytes written or an altered destination are violations; READING the stream or the payload is not (the statement has no clause about it: draining is what connection reuse wants)",
			"overlapping calls on ONE codec instance (what Runtime.Consumers / Producers and the API's maps hold) are each judged as a call that was alone: the statement quantifies over all inputs without an exception for calls that overlap; faults are not scripted there, and the build is not a -race build (interference is seen in the bytes, the values, the close counters or as a panic)",
			"the content above 32 MiB is not run (class content/above-32MiB/not-run-for-lack-of-memory) on a machine with less than 1 GiB (quick) / 4 GiB (thorough) of available memory: a worker killed for lack of memory would be reported as a crash of the code under test",
			"typed-nil pointers of the kinds a consumer recognises through an interface (nil *bytes.Buffer, *strings.Builder, *bufio.Writer; nil pointers to user types whose ReadFrom / UnmarshalBinary / UnmarshalText has a pointer receiver) are destinations like any other nil pointer: an error, never a panic - the statement has no exception for a panic raised inside a method the consumer chose to call on a nil receiver. Byte-stream consumer: generated (sweep, seeded, with no reader). Text consumer: generated too (nil-*textunm, nil-*textunm-strkind; the panic there was repaired by 5fbb442)",
			"both directions of the closing clause are judged on every call, refusals before the stream was used included (the code used to leave the stream open there: repaired, commit 3e4ffa7)",
			"a destination kind the codec does not document must not panic, must not report success after silently dropping a non-empty input, and must be refused (an error) for an empty input too: the statement has no exception for empty streams (the text consumer used to accept anything then: repaired, commit 822f195); the same holds for the nil / typed-nil / non-pointer destinations of the JSON, XML and YAML consumers on an empty or blank document",
			"a failure of the value's own MarshalBinary / MarshalText / UnmarshalBinary / UnmarshalText must come back as an error: nil would report a success that did not happen (which error is not judged)",
			"producers are also driven into a writer without Close, a *bytes.Buffer and a *bufio.Writer over a failing sink: no panic, same bytes (read after the caller's own Flush), the sink's error returned when it was met during Produce",
			"one content above 32 MiB is consumed in every run: it is generated by the reader from a repeated pattern, and what was stored is compared with it by length and CRC-32",
			"pre-populated *string / *[]byte / *interface{} destinations must hold exactly the bytes read after a successful call; pre-populated struct/map/slice destinations of JSON/XML/YAML are judged for panics only (merging is the decoder's documented behaviour)",
			"JSON/XML/YAML round-trip values: valid UTF-8 only (XML: XML-1.0 characters; YAML: printable text), finite floats with a fractional part, non-empty collections (nil versus empty is not distinguished), interface{} members hold only the types the decoder itself produces (JSON: json.Number for numbers)",
			"a fault delivered after the decoder already holds a complete document may be ignored by JSON/XML/YAML consumers: only 'nil error with a value different from the full one' is a shorter success",
			"struct and slice sources of the byte-stream and text producers: the bytes written must be JSON that decodes to an equal value (only for valid UTF-8 text)",
			"a source with several of the producers' interfaces: the byte-stream producer owes the rendering of the first interface in the order its doc comment gives (io.WriterTo, io.Reader, encoding.BinaryMarshaler, error, then the kind); the text producer documents no order, and the round trip decides: a value that has MarshalText must come back equal from TextConsumer in a pointer to its own type (UnmarshalText is the inverse of MarshalText, not of String or Error); a value without MarshalText that is an error and a Stringer may be written as either; a value with none of the codec's interfaces is a struct (JSON: success and a non-empty output only)",
			"the error clause is judged the same way for every error value a stream reports: only io.EOF itself, from a reader, is the end of a stream (io.Reader); io.ErrUnexpectedEOF, an error that wraps io.EOF, a time-out ... are failures, and a nil return after one of them was delivered is a shorter success (which error comes back is not judged); a writer never fails with io.EOF itself",
			"short writes without error (a violation of io.Writer's contract) are not scripted",
			"a stream (or closable source payload) that is read or written after the codec closed it is a violation whatever the outcome: scripted streams fail once closed, as files and HTTP bodies do",
			"the byte-stream and text consumers are also driven from a reader without Close and from *bytes.Buffer / *bytes.Reader / *strings.Reader; what they stored must survive the caller overwriting its source buffer, and what a producer wrote must survive the caller overwriting its []byte source",
			"the known YAML finding covers the affected text pieces only: a case that shows it is judged a second time with those pieces made harmless and everything else unchanged",
		},
		MinNontrivial: 300,
		Run:           run,
		Replay:        replay,
	})
}

// Case is one call (or one produce-then-consume round trip) of one codec.
type Case struct {
	Codec string `json:"codec"` // bytestream | text | json | xml | yaml | discard
	Dir   string `json:"dir"`   // consume | produce | roundtrip
	// Kind names the destination (consume) or the source (produce, roundtrip) by a string tag.
	Kind string `json:"kind"`
	// Content: consume = the bytes on the stream; produce = the source bytes; roundtrip = the text
	// every string-like member of the value is built from. The effective content is Content x Rep.
	Content mon.Q  `json:"content"`
	Rep     int    `json:"rep,omitempty"`
	Num     string `json:"num,omitempty"` // JSON number literal for json.Number members
	Pre     mon.Q  `json:"pre,omitempty"` // prior content of a pre-populated destination
	Close   bool   `json:"close,omitempty"`
	// R scripts the stream read by Consume, W the stream written by Produce, O the payload when it
	// is itself stream-like (reader / writer-to source, writer destination). DBuf is the buffer
	// size of a ReaderFrom destination.
	R    Script `json:"r"`
	W    Script `json:"w"`
	O    Script `json:"o"`
	DBuf int    `json:"dbuf,omitempty"`
	// Warm: number of earlier Consume calls made on the SAME codec instance (other content, other
	// destination of the same kind) before the judged call; their results must survive it.
	// (produce: earlier Produce calls on the same producer instance into other writers, whose output must
	// survive it; roundtrip: one earlier produce-and-consume on the same producer and consumer instances).
	Warm int `json:"warm,omitempty"`
	// RK: the reader handed to the byte-stream / text Consume. "" = the scripted io.ReadCloser; "plain" =
	// the scripted reader without Close; "bytes.Buffer" / "bytes.Reader" / "strings.Reader" = the concrete
	// standard types (the script R does not apply to them; there is nothing the closing option could close);
	// "nil" = no reader at all (a nil io.Reader: the call can only be refused).
	RK string `json:"rk,omitempty"`
	// WK: the writer handed to Produce (produce and roundtrip cases). "" = the scripted io.WriteCloser; "plain" =
	// the scripted writer without Close; "bytes.Buffer" = a *bytes.Buffer (the script W does not apply); "bufio" =
	// a *bufio.Writer (16 bytes) over the scripted writer without Close: it is flushed by the harness after Produce
	// returned, and a fault of the sink that only that flush meets is not the producer's. "nil" (byte-stream and
	// text producers only) = no writer at all (a nil io.Writer: the call can only be refused).
	WK string `json:"wk,omitempty"`
	// WarmFail: with Warm > 0, one more earlier call is made on the same instance(s) right before the judged one,
	// and that call FAILS (read fault at mid-content for consumers, write fault for producers).
	WarmFail bool `json:"warm_fail,omitempty"`
	// UFail: the destination's own UnmarshalBinary / UnmarshalText (kinds binunm, textunm) or the source's own
	// MarshalBinary / MarshalText (kinds binm, textm) returns an error.
	UFail bool `json:"ufail,omitempty"`
	// Par > 1: that many goroutines call ONE codec instance at the same time, each with a content of its own
	// (derived from Content), its own streams and its own destination; the scripted streams give the processor
	// away before every read and write. Each call is judged as if it had been alone. Faults are not scripted.
	Par int `json:"par,omitempty"`
}

// bigContent: from this size on a consume case is run by runBigConsume, which never holds the content itself
// (the reader generates it from the repeated pattern; what was stored is compared by length and checksum).
const bigContent = 16 << 20

func (c *Case) total() int { return len(c.Content) * maxInt(1, c.Rep) }

func (c *Case) content() []byte {
	if c.Rep > 1 {
		return bytes.Repeat([]byte(c.Content), c.Rep)
	}
	return []byte(c.Content)
}

func consumerOf(c *Case) runtime.Consumer {
	switch c.Codec {
	case "bytestream":
		if c.Close {
			return runtime.ByteStreamConsumer(runtime.ClosesStream)
		}
		return runtime.ByteStreamConsumer()
	case "text":
		return runtime.TextConsumer()
	case "json":
		return runtime.JSONConsumer()
	case "xml":
		return runtime.XMLConsumer()
	case "yaml":
		return yamlpc.YAMLConsumer()
	case "discard":
		return runtime.DiscardConsumer
	}
	return nil
}

func producerOf(c *Case) runtime.Producer {
	switch c.Codec {
	case "bytestream":
		if c.Close {
			return runtime.ByteStreamProducer(runtime.ClosesStream)
		}
		return runtime.ByteStreamProducer()
	case "text":
		return runtime.TextProducer()
	case "json":
		return runtime.JSONProducer()
	case "xml":
		return runtime.XMLProducer()
	case "yaml":
		return yamlpc.YAMLProducer()
	case "discard":
		return runtime.DiscardProducer
	}
	return nil
}

func contentClass(b []byte) string {
	switch {
	case len(b) == 0:
		return "empty"
	case len(b) >= 1<<20:
		return "1MiB+"
	case len(b) >= 32<<10:
		return "32KiB+"
	case !utf8.Valid(b):
		return "invalid-utf8"
	case len(bytes.TrimSpace(b)) != len(b):
		return "space-edged"
	}
	return "text"
}

func short(b []byte) string {
	if len(b) > 48 {
		return fmt.Sprintf("%q…(%d bytes)", b[:48], len(b))
	}
	return fmt.Sprintf("%q", b)
}

// mismatchMode names HOW stored/written bytes differ from the expected ones.
func mismatchMode(got, want []byte) string {
	switch {
	case len(want) == 0:
		return "stale-content-after-empty-input"
	case len(got) < len(want) && bytes.HasPrefix(want, got):
		return "truncated"
	case bytes.Equal(got, bytes.TrimSpace(want)):
		return "whitespace-trimmed"
	case len(got) > len(want) && bytes.HasSuffix(got, want):
		return "appended-to-prior-content"
	case len(got) > len(want) && bytes.HasPrefix(got, want):
		return "trailing-garbage"
	}
	return "corrupted"
}

func kindClass(kind string) string {
	switch {
	case kind == "nil":
		return "nil-destination"
	case isIn(bsDestNilIface, kind) || isIn(textDestNilIface, kind):
		return "typed-nil-destination-of-an-interface-kind"
	case strings.HasPrefix(kind, "nil-"):
		return "typed-nil-destination"
	case strings.HasPrefix(kind, "*") || kind == "readerfrom" || kind == "writer" || kind == "buffer" || strings.HasPrefix(kind, "binunm") || strings.HasPrefix(kind, "textunm"):
		return "pointer-destination"
	}
	return "non-pointer-destination"
}

func (c *Case) fp(dir string) string {
	n := len(c.Content) * maxInt(1, c.Rep)
	pre := ""
	if len(c.Pre) > 0 {
		pre = "pre"
	}
	extra := c.RK
	if c.WK != "" {
		extra += "+w=" + c.WK
	}
	if c.WarmFail && c.Warm > 0 {
		extra += "+warmfail"
	}
	if c.UFail {
		extra += "+ufail"
	}
	if n > bigContent {
		extra += "+above-32MiB"
	}
	if c.Par > 1 {
		extra += "+concurrent"
	}
	return strings.Join([]string{c.Codec, dir, c.Kind, pre, c.R.class(n), c.W.class(n), c.O.class(n), fmt.Sprint(c.Close), fmt.Sprint(c.Warm), extra}, "|")
}

func maxInt(a, b int) int {
	if a > b {
		return a
	}
	return b
}

// closeRules applies the closing clause to one scripted stream.
func closeRules(m *mon.M, c *Case, side string, closes, touches int) {
	hasOption := c.Codec == "bytestream" && c.Close
	if closes > 0 && !hasOption {
		m.Violate("closed-without-option/"+c.Codec+"/"+side, fmt.Sprintf("%s %s: the %s stream was closed %d time(s) although no closing option was requested", c.Codec, c.Dir, side, closes), c)
	}
	if hasOption && closes == 0 {
		// "closed if and only if the closing option was requested": also when the call refuses its
		// destination or payload before touching the stream
		feat := "stream-used"
		if touches == 0 {
			feat = "refused-before-use"
		}
		m.Violate("not-closed-with-option/"+c.Codec+"/"+side+"/"+feat, fmt.Sprintf("%s %s (%s): ClosesStream requested, the %s stream (%d calls) was never closed", c.Codec, c.Dir, c.Kind, side, touches), c)
	}
	if closes > 0 {
		m.Class("stream-closed")
	}
}

// usedAfterClose raises a stream that was read or written after the codec had closed it: a file or an
// HTTP body fails from then on, so bytes are lost whatever the scripted stream was still willing to give.
func usedAfterClose(m *mon.M, c *Case, side string, n int, err error) bool {
	if n == 0 {
		return false
	}
	m.Violate("used-after-close/"+c.Codec+"/"+side, fmt.Sprintf("%s %s (%s): the %s was used %d time(s) after the codec had closed it (err=%v)", c.Codec, c.Dir, c.Kind, side, n, err), c)
	return true
}

// consumeReader builds the reader handed to Consume. sr carries the counters of the scripted kinds (a
// blank one for the concrete standard readers); src is the memory a *bytes.Buffer / *bytes.Reader reads from.
func consumeReader(c *Case, data []byte) (rd io.Reader, sr *sReader, src []byte, ok bool) {
	switch c.RK {
	case "":
		sr = newReader(data, c.R)
		return sr, sr, nil, true
	case "plain":
		sr = newReader(data, c.R)
		return readerOnly{sr}, sr, nil, true
	case "bytes.Buffer":
		src = append([]byte{}, data...)
		return bytes.NewBuffer(src), &sReader{}, src, true
	case "bytes.Reader":
		src = append([]byte{}, data...)
		return bytes.NewReader(src), &sReader{}, src, true
	case "strings.Reader":
		return strings.NewReader(string(data)), &sReader{}, nil, true
	case "nil":
		return nil, &sReader{}, nil, true
	}
	return nil, nil, nil, false
}

// produceWriter builds the writer handed to Produce. w is the scripted sink behind it (its counters apply to
// every kind but "bytes.Buffer"); out reads the bytes that arrived, flushing a buffering writer first.
func produceWriter(c *Case, w *sWriter) (wr io.Writer, out func() []byte, ok bool) {
	switch c.WK {
	case "":
		return w, func() []byte { return w.buf }, true
	case "plain":
		return wDest{w}, func() []byte { return w.buf }, true
	case "bytes.Buffer":
		b := &bytes.Buffer{}
		return b, b.Bytes, true
	case "bufio":
		bw := bufio.NewWriterSize(wDest{w}, 16)
		return bw, func() []byte { _ = bw.Flush(); return w.buf }, true
	case "nil":
		if c.Codec == "bytestream" || c.Codec == "text" {
			return nil, func() []byte { return nil }, true
		}
	}
	return nil, nil, false
}

func runCase(m *mon.M, c *Case) {
	m.Eval(1)
	switch {
	case c.Par > 1:
		runConcurrent(m, c)
	case c.Codec == "discard":
		runDiscard(m, c)
	case (c.Codec == "bytestream" || c.Codec == "text") && c.Dir == "roundtrip":
		runByteRoundTrip(m, c)
	case (c.Codec == "bytestream" || c.Codec == "text") && c.Dir == "consume":
		runByteConsume(m, c)
	case (c.Codec == "bytestream" || c.Codec == "text") && c.Dir == "produce":
		runByteProduce(m, c)
	case c.Dir == "roundtrip":
		runRoundTrip(m, c)
	case c.Dir == "consume":
		runStructConsume(m, c)
	default:
		m.Violate("bad-replay-case", "unknown codec/direction "+c.Codec+"/"+c.Dir, c)
		return
	}
	if m.WantSample() {
		s := *c
		if len(s.Content) > 200 {
			s.Content = s.Content[:200]
		}
		m.Sample(s)
	}
}

// ---- byte-oriented consumers ----

func runByteConsume(m *mon.M, c *Case) {
	if c.total() > bigContent {
		runBigConsume(m, c)
		return
	}
	data := c.content()
	d, ok := mkDest(c.Codec, c.Kind, []byte(c.Pre), c.O, c.DBuf)
	if !ok {
		m.Violate("bad-replay-case", "unknown destination kind "+c.Kind, c)
		return
	}
	if c.UFail && d.setFail != nil {
		d.setFail()
	}
	rd, r, src, ok := consumeReader(c, data)
	if !ok {
		m.Violate("bad-replay-case", "unknown reader kind "+c.RK, c)
		return
	}
	cons := consumerOf(c)
	// earlier calls on the same instance: their stored results must not be touched by later calls
	type earlier struct {
		d    dest
		want []byte
	}
	var warm []earlier
	for i := 0; i < c.Warm && d.supported; i++ {
		wd, ok := mkDest(c.Codec, c.Kind, nil, Script{}, c.DBuf)
		if !ok {
			break
		}
		wdata := append([]byte(fmt.Sprintf("earlier-call-%d:", i)), bytes.ToUpper(data)...)
		var werr error
		if pv, _ := mon.Catch(func() { werr = cons.Consume(newReader(wdata, Script{}), wd.v) }); pv != nil || werr != nil {
			break
		}
		warm = append(warm, earlier{wd, wdata})
	}
	if c.WarmFail && c.Warm > 0 && d.supported {
		// one earlier call that fails half-way: nothing of it may show in the judged call
		if fd, ok := mkDest(c.Codec, c.Kind, nil, Script{}, c.DBuf); ok {
			fdata := append([]byte("failed-earlier-call:"), bytes.ToUpper(data)...)
			_, _ = mon.Catch(func() {
				_ = cons.Consume(newReader(fdata, Script{Chunks: []int{7}, Fault: true, ErrAt: len(fdata) / 2}), fd.v)
			})
			m.Class("consumer-instance-reused-after-a-failed-call")
		}
	}
	var err error
	pv, st := mon.Catch(func() { err = cons.Consume(rd, d.v) })
	for i, w := range warm {
		if w.d.get != nil && !bytes.Equal(w.d.get(), w.want) {
			m.Violate("earlier-result-altered-by-later-call/"+c.Codec, fmt.Sprintf("%s Consume into %s: the value stored by call #%d (%s) reads %s after a later call on the same consumer stored %s", c.Codec, c.Kind, i+1, short(w.want), short(w.d.get()), short(data)), c)
			return
		}
	}
	if len(warm) > 0 {
		m.Class("consumer-instance-reused")
	}
	m.NT(c.fp("consume"))
	m.Class(c.Codec + "/consume/" + kindClass(c.Kind))
	m.Class("content/" + contentClass(data))
	if pv != nil {
		feat := kindClass(c.Kind)
		if c.RK == "nil" {
			feat = "nil-reader"
		}
		m.Violate("consume-panic/"+c.Codec+"/"+feat, fmt.Sprintf("%s Consume into %s (%T) panicked: %v\n%s", c.Codec, c.Kind, d.v, pv, st), c)
		return
	}
	if c.RK == "" {
		closeRules(m, c, "reader", r.closes, r.reads)
	} else {
		m.Class(c.Codec + "/consume/reader=" + c.RK)
	}
	if c.RK == "nil" {
		// nothing can be read from no reader at all: the call can only be refused ("nil ... yield an error, never a panic")
		if err == nil {
			m.Violate("nil-stream-accepted/"+c.Codec+"/consume", fmt.Sprintf("%s Consume from a nil reader into %s (%T) returned nil (destination now %s)", c.Codec, c.Kind, d.v, short(get(d))), c)
		}
		return
	}
	if usedAfterClose(m, c, "reader", r.readsAfterClose, err) {
		return
	}
	destFault := d.sink != nil && d.sink.errDelivered
	if r.errDelivered || destFault {
		m.Class("fault-delivered")
		if err == nil {
			what, feat := "read", c.R.errFeat()
			if !r.errDelivered {
				what, feat = "destination-write", c.O.errFeat()
			}
			m.Violate(what+"-error-swallowed/"+c.Codec+"/consume"+feat, fmt.Sprintf("%s Consume into %s: the %s error at byte %d was delivered and nil was returned (stored %s)", c.Codec, c.Kind, what, c.R.ErrAt, short(get(d))), c)
		}
		return
	}
	if c.UFail && d.ucalls != nil {
		// the destination's own unmarshaler rejected the bytes: nil would report a success that did not happen
		m.Class("user-unmarshaler-fails")
		if d.ucalls() > 0 {
			if err == nil {
				m.Violate("user-unmarshaler-error-swallowed/"+c.Codec, fmt.Sprintf("%s Consume into %s: the destination's own unmarshaler was called %d time(s), returned an error each time, and Consume returned nil", c.Codec, c.Kind, d.ucalls()), c)
			}
			return
		}
		if err != nil {
			return
		}
		// never called, nil returned: judged like any other delivery (only an empty input explains it)
	}
	if d.supported {
		if err != nil {
			m.Violate("spurious-error/"+c.Codec+"/consume", fmt.Sprintf("%s Consume into documented kind %s failed on a clean stream: %v", c.Codec, c.Kind, err), c)
			return
		}
		got := get(d)
		if !bytes.Equal(got, data) {
			pre := ""
			if len(c.Pre) > 0 {
				pre = "/pre-populated"
			}
			m.Violate("stored-mismatch/"+c.Codec+"/"+mismatchMode(got, data)+pre, fmt.Sprintf("%s Consume into %s: read %s, stored %s (script %s)", c.Codec, c.Kind, short(data), short(got), c.R.class(len(data))), c)
			return
		}
		if src != nil && len(src) > 0 {
			// what was stored must not share memory with the caller's source buffer
			for i := range src {
				src[i] ^= 0xFF
			}
			if again := get(d); !bytes.Equal(again, data) {
				m.Violate("stored-aliases-source/"+c.Codec+"/"+c.RK, fmt.Sprintf("%s Consume from a *%s into %s: stored %s; after the source buffer was overwritten the destination reads %s", c.Codec, c.RK, c.Kind, short(data), short(again)), c)
				return
			}
			m.Class("source-overwritten-destination-intact")
		}
		m.Class("stored-ok")
		return
	}
	// a kind the codec does not document
	if err != nil {
		m.Class("unsupported-rejected")
		return
	}
	if len(data) == 0 {
		// "unsupported, nil or pre-populated destinations yield an error": the statement has no exception for an
		// empty stream
		m.Violate("empty-input-accepted/"+c.Codec+"/"+kindClass(c.Kind), fmt.Sprintf("%s Consume of an empty stream into %s (%T), a destination the codec cannot fill: nil returned", c.Codec, c.Kind, d.v), c)
		return
	}
	if d.get != nil && bytes.Equal(d.get(), data) {
		m.Class("undocumented-kind-stored-exactly")
		return
	}
	m.Violate("silent-success/"+c.Codec+"/"+kindClass(c.Kind), fmt.Sprintf("%s Consume into %s (%T): %d bytes read, nothing stored, nil returned", c.Codec, c.Kind, d.v, len(data)), c)
}

// patternCRC is the CRC-32 of the first n bytes of pat repeated, computed block-wise.
func patternCRC(pat []byte, n int) uint32 {
	block := bytes.Repeat(pat, (64<<10)/len(pat)+1)
	var crc uint32
	for n > 0 {
		k := len(block)
		if k > n {
			k = n
		}
		crc = crc32.Update(crc, crc32.IEEETable, block[:k])
		n -= k
	}
	return crc
}

// runBigConsume is runByteConsume for a content above bigContent: the reader generates the content from the
// pattern, and what was stored is compared with it by length and CRC-32.
func runBigConsume(m *mon.M, c *Case) {
	pat, total := []byte(c.Content), c.total()
	if len(pat) == 0 {
		m.Violate("bad-replay-case", "empty pattern", c)
		return
	}
	// the case peaks at several times its 32 MiB (buffer doubling, the stored copy): a worker killed for lack of
	// memory would be reported as a crash of the code under test, so the case is not run on a machine that
	// cannot give that (the thorough tier runs up to nine of them at the same time)
	need := int64(1) << 30
	if !m.Quick() {
		need = 4 << 30
	}
	if avail, ok := memAvailable(); ok && avail < need {
		m.Class("content/above-32MiB/not-run-for-lack-of-memory")
		return
	}
	d, ok := mkDest(c.Codec, c.Kind, []byte(c.Pre), c.O, c.DBuf)
	if !ok {
		m.Violate("bad-replay-case", "unknown destination kind "+c.Kind, c)
		return
	}
	r := newLazyReader(pat, total, c.R)
	var rd io.Reader = r
	if c.RK != "" {
		rd = readerOnly{r}
	}
	cons := consumerOf(c)
	var err error
	pv, st := mon.Catch(func() { err = cons.Consume(rd, d.v) })
	m.NT(c.fp("consume"))
	m.Class(c.Codec + "/consume/" + kindClass(c.Kind))
	m.Class("content/above-32MiB")
	if pv != nil {
		m.Violate("consume-panic/"+c.Codec+"/"+kindClass(c.Kind), fmt.Sprintf("%s Consume of %d bytes into %s (%T) panicked: %v\n%s", c.Codec, total, c.Kind, d.v, pv, st), c)
		return
	}
	if c.RK == "" {
		closeRules(m, c, "reader", r.closes, r.reads)
	}
	if usedAfterClose(m, c, "reader", r.readsAfterClose, err) {
		return
	}
	if r.errDelivered {
		m.Class("fault-delivered")
		if err == nil {
			m.Violate("read-error-swallowed/"+c.Codec+"/consume"+c.R.errFeat(), fmt.Sprintf("%s Consume into %s: the read error at byte %d of %d was delivered and nil was returned (%d bytes stored)", c.Codec, c.Kind, c.R.ErrAt, total, len(get(d))), c)
		}
		return
	}
	if !d.supported {
		if err == nil {
			m.Violate("silent-success/"+c.Codec+"/"+kindClass(c.Kind), fmt.Sprintf("%s Consume into %s (%T): %d bytes read, nothing stored, nil returned", c.Codec, c.Kind, d.v, total), c)
		}
		return
	}
	if err != nil {
		m.Violate("spurious-error/"+c.Codec+"/consume", fmt.Sprintf("%s Consume of %d bytes into documented kind %s failed on a clean stream: %v", c.Codec, total, c.Kind, err), c)
		return
	}
	got := get(d)
	if gotCRC := crc32.ChecksumIEEE(got); len(got) != total || gotCRC != patternCRC(pat, total) {
		mode := "corrupted"
		if len(got) < total && gotCRC == patternCRC(pat, len(got)) {
			mode = "truncated"
		}
		m.Violate("stored-mismatch/"+c.Codec+"/"+mode+"/above-32MiB", fmt.Sprintf("%s Consume into %s: %d bytes read (the reader met end of stream: %v, after %d reads), nil returned, %d bytes stored (CRC-32 %08x; the %d bytes read have %08x)", c.Codec, c.Kind, r.pos, r.eofDelivered, r.reads, len(got), gotCRC, total, patternCRC(pat, total)), c)
		return
	}
	m.Class("stored-ok")
}

func get(d dest) []byte {
	if d.get == nil {
		return nil
	}
	return d.get()
}

// ---- byte-oriented producers ----

func runByteProduce(m *mon.M, c *Case) {
	data := c.content()
	s, ok := mkSourceF(c.Kind, data, c.O, c.UFail)
	if !ok {
		m.Violate("bad-replay-case", "unknown source kind "+c.Kind, c)
		return
	}
	w := newWriter(c.W)
	wr, out, ok := produceWriter(c, w)
	if !ok {
		m.Violate("bad-replay-case", "unknown writer kind "+c.WK, c)
		return
	}
	prod := producerOf(c)
	documented, _ := srcKindsOf(c.Codec)
	supported := isIn(documented, c.Kind)
	// earlier calls on the same instance: what they wrote into their own writers must not be touched by later calls
	type earlierW struct {
		w      *sWriter
		wrote  []byte
		writes int
	}
	var warm []earlierW
	for i := 0; i < c.Warm; i++ {
		wdata := append([]byte(fmt.Sprintf("earlier-call-%d:", i)), bytes.ToUpper(data)...)
		ws, ok := mkSource(c.Kind, wdata, Script{})
		if !ok {
			break
		}
		ww := newWriter(Script{})
		var werr error
		if pv, _ := mon.Catch(func() { werr = prod.Produce(ww, ws.v) }); pv != nil || werr != nil {
			break
		}
		if ws.byteSrc && !bytes.Equal(ww.buf, wdata) {
			break // judged by the case that has this content as its own
		}
		warm = append(warm, earlierW{ww, append([]byte(nil), ww.buf...), ww.writes})
	}
	if c.WarmFail && c.Warm > 0 {
		// one earlier call whose writer fails half-way: nothing of it may show in the judged call
		fdata := append([]byte("failed-earlier-call:"), bytes.ToUpper(data)...)
		if fs, ok := mkSource(c.Kind, fdata, Script{Chunks: []int{7}}); ok {
			_, _ = mon.Catch(func() { _ = prod.Produce(newWriter(Script{Fault: true, ErrAt: len(fdata) / 2, Sticky: true}), fs.v) })
			m.Class("producer-instance-reused-after-a-failed-call")
		}
	}
	var err error
	pv, st := mon.Catch(func() { err = prod.Produce(wr, s.v) })
	for i, e := range warm {
		if !bytes.Equal(e.w.buf, e.wrote) || e.w.writes != e.writes {
			m.Violate("earlier-output-altered-by-later-call/"+c.Codec, fmt.Sprintf("%s Produce from %s: the writer of call #%d held %s after %d writes; after a later call on the same producer (source %s) it holds %s after %d writes", c.Codec, c.Kind, i+1, short(e.wrote), e.writes, short(data), short(e.w.buf), e.w.writes), c)
			return
		}
	}
	if len(warm) > 0 {
		m.Class("producer-instance-reused")
	}
	m.NT(c.fp("produce"))
	m.Class(c.Codec + "/produce/" + c.Kind)
	m.Class("content/" + contentClass(data))
	if pv != nil {
		feat := srcClass(c.Codec, c.Kind)
		if c.WK == "nil" {
			if supported {
				feat = "nil-writer"
			} else {
				feat += "+nil-writer"
			}
		}
		m.Violate("produce-panic/"+c.Codec+"/"+feat, fmt.Sprintf("%s Produce from %s (%T) panicked: %v\n%s", c.Codec, c.Kind, s.v, pv, st), c)
		return
	}
	// the closing clause holds on every path: refusals of a nil or unsupported source included
	if c.WK == "" {
		closeRules(m, c, "writer", w.closes, w.writes)
	} else {
		m.Class(c.Codec + "/produce/writer=" + c.WK)
	}
	if s.closer != nil && s.closer.closes == 0 {
		sig := "source-payload-not-closed/" + c.Codec
		if c.WK == "nil" {
			sig += "/nil-writer" // "a closable source payload is ALWAYS closed": also when the call is refused for its writer
		}
		m.Violate(sig, fmt.Sprintf("%s Produce from %s (writer kind %q): the io.ReadCloser payload was not closed (err=%v)", c.Codec, c.Kind, c.WK, err), c)
	}
	if usedAfterClose(m, c, "writer", w.writesAfterClose, err) {
		return
	}
	if s.closer != nil && usedAfterClose(m, c, "source-payload", s.closer.readsAfterClose, err) {
		return
	}
	if c.WK == "nil" {
		// nothing can be written to no writer at all: the call can only be refused
		m.Class("nil-writer-call")
		if err == nil {
			m.Violate("nil-stream-accepted/"+c.Codec+"/produce", fmt.Sprintf("%s Produce from %s (%T) into a nil writer returned nil", c.Codec, c.Kind, s.v), c)
		}
		return
	}
	srcFault := c.O.Fault && ((s.rd != nil && s.rd.errDelivered) || (s.wt != nil && s.wt.calls > 0))
	if w.errDelivered || srcFault {
		m.Class("fault-delivered")
		if err == nil {
			what, feat := "write", c.W.errFeat()
			if !w.errDelivered {
				what, feat = "source-read", c.O.errFeat()
			}
			m.Violate(what+"-error-swallowed/"+c.Codec+"/produce"+feat, fmt.Sprintf("%s Produce from %s: the %s error was delivered and nil was returned (written %s)", c.Codec, c.Kind, what, short(w.buf)), c)
		}
		return
	}
	if c.UFail && s.ucalls != nil && *s.ucalls > 0 {
		// the source's own marshaler failed: nil would report a success that did not happen
		m.Class("user-marshaler-fails")
		if err == nil {
			m.Violate("user-marshaler-error-swallowed/"+c.Codec, fmt.Sprintf("%s Produce from %s: the source's own marshaler returned an error and Produce returned nil (written %s)", c.Codec, c.Kind, short(out())), c)
		}
		return
	}
	if !supported {
		// a source the producer does not document (or cannot render): no panic (judged above), the closing clause
		// (judged above), and no success that did not happen
		cls := srcClass(c.Codec, c.Kind)
		if err != nil {
			m.Class(cls + "-rejected")
			return
		}
		written := out()
		if w.errDelivered {
			// the sink failed under the harness's own flush of the buffering writer, after Produce had returned
			m.Class("fault-met-by-the-callers-flush-only")
			return
		}
		switch {
		case c.Kind == "nil":
			m.Violate("nil-source-accepted/"+c.Codec, fmt.Sprintf("%s Produce from nil returned nil (written %s)", c.Codec, short(written)), c)
		case len(written) == 0:
			m.Violate("silent-success/"+c.Codec+"/produce/"+cls, fmt.Sprintf("%s Produce from %s (%T): nothing was written and nil was returned", c.Codec, c.Kind, s.v), c)
		case reflectPlaceholder(written):
			m.Violate("placeholder-written/"+c.Codec+"/"+cls, fmt.Sprintf("%s Produce from %s (%T): %s was written (the reflect package's placeholder for a value that is not a string) and nil was returned", c.Codec, c.Kind, s.v, short(written)), c)
		default:
			m.Class("undocumented-source-written")
		}
		return
	}
	if err != nil {
		m.Violate("spurious-error/"+c.Codec+"/produce", fmt.Sprintf("%s Produce from documented kind %s failed on a clean stream: %v", c.Codec, c.Kind, err), c)
		return
	}
	written := out()
	if w.errDelivered {
		// the sink failed under the harness's own flush of the buffering writer, after Produce had returned
		m.Class("fault-met-by-the-callers-flush-only")
		return
	}
	if s.byteSrc {
		if !bytes.Equal(written, data) {
			m.Violate("written-mismatch/"+c.Codec+"/"+mismatchMode(written, data), fmt.Sprintf("%s Produce from %s: source %s, written %s", c.Codec, c.Kind, short(data), short(written)), c)
			return
		}
		if len(s.raw) > 0 {
			// what was written must not depend on the caller's slice any more once Produce has returned
			writes := w.writes
			for i := range s.raw {
				s.raw[i] ^= 0xFF
			}
			if now := out(); !bytes.Equal(now, data) || w.writes != writes {
				m.Violate("written-aliases-source/"+c.Codec, fmt.Sprintf("%s Produce from %s: written %s; after the source slice was overwritten the writer holds %s (%d more writes)", c.Codec, c.Kind, short(data), short(now), w.writes-writes), c)
				return
			}
			m.Class("source-overwritten-output-intact")
		}
		m.Class("written-ok")
		return
	}
	if !utf8.Valid(data) {
		m.Class("json-form-not-judged")
		return
	}
	back := reflect.New(reflect.TypeOf(s.jsonOf))
	if uerr := json.Unmarshal(written, back.Interface()); uerr != nil || !reflect.DeepEqual(back.Elem().Interface(), s.jsonOf) {
		m.Violate("written-mismatch/"+c.Codec+"/json-form", fmt.Sprintf("%s Produce from %s: written %s does not decode to the source value (%v)", c.Codec, c.Kind, short(written), uerr), c)
	}
	m.Class("written-json-ok")
}

// reflectPlaceholder: "<int Value>", "<map[string]string Value>" ... is what reflect.Value.String answers for a
// value that is not a string; it is never a rendition of the value.
func reflectPlaceholder(b []byte) bool {
	return len(b) > 8 && b[0] == '<' && bytes.HasSuffix(b, []byte(" Value>"))
}

// ---- structured codecs: produce, then consume what was produced ----

func buildValue(c *Case) (v, dst interface{}, ok bool) {
	s := string(c.content())
	switch c.Codec {
	case "json":
		return buildJSON(c.Kind, s, c.Num)
	case "xml":
		return buildXML(c.Kind, s, c.Num)
	case "yaml":
		return buildYAML(c.Kind, s, c.Num)
	}
	return nil, nil, false
}

func runRoundTrip(m *mon.M, c *Case) {
	v, dst, ok := buildValue(c)
	if !ok {
		m.Violate("bad-replay-case", "unknown value kind "+c.Kind, c)
		return
	}
	m.NT(c.fp("roundtrip"))
	m.Class(c.Codec + "/roundtrip/" + c.Kind)
	w := newWriter(c.W)
	wr, out, ok := produceWriter(c, w)
	if !ok {
		m.Violate("bad-replay-case", "unknown writer kind "+c.WK, c)
		return
	}
	prod, cons := producerOf(c), consumerOf(c)
	// an earlier round trip on the same producer and consumer instances: what it delivered must survive the judged one
	var v0, dst0 interface{}
	warmOK := false
	if c.Warm > 0 {
		c0 := *c
		c0.Content, c0.Rep, c0.Num = "earlier,call on the same,instances", 0, "7"
		var ok0 bool
		if v0, dst0, ok0 = buildValue(&c0); ok0 {
			w0 := newWriter(Script{})
			var e1, e2 error
			pv0, _ := mon.Catch(func() {
				if e1 = prod.Produce(w0, v0); e1 == nil {
					e2 = cons.Consume(newReader(w0.buf, Script{}), dst0)
				}
			})
			warmOK = pv0 == nil && e1 == nil && e2 == nil && reflect.DeepEqual(reflect.ValueOf(dst0).Elem().Interface(), v0)
			if warmOK && c.WarmFail {
				// then one produce whose writer fails and one consume whose reader fails half-way, same instances
				if _, dstF, okF := buildValue(&c0); okF {
					_, _ = mon.Catch(func() {
						_ = prod.Produce(newWriter(Script{Fault: true, ErrAt: len(w0.buf) / 2, Sticky: true}), v0)
						_ = cons.Consume(newReader(w0.buf, Script{Chunks: []int{7}, Fault: true, ErrAt: len(w0.buf) / 2}), dstF)
					})
					m.Class("codec-instances-reused-after-failed-calls")
				}
			}
		}
	}
	earlierIntact := func() bool {
		if !warmOK {
			return true
		}
		m.Class("codec-instances-reused")
		if got0 := reflect.ValueOf(dst0).Elem().Interface(); !reflect.DeepEqual(got0, v0) {
			m.Violate("earlier-result-altered-by-later-call/"+c.Codec, fmt.Sprintf("%s round trip of %s: the value an earlier round trip on the same producer and consumer delivered was %#v; after the judged round trip it reads %#v", c.Codec, c.Kind, v0, got0), c)
			return false
		}
		return true
	}
	var err error
	pv, st := mon.Catch(func() { err = prod.Produce(wr, v) })
	if pv != nil {
		m.Violate("produce-panic/"+c.Codec+"/supported-value", fmt.Sprintf("%s Produce of %s panicked: %v\n%s", c.Codec, c.Kind, pv, st), c)
		return
	}
	if c.WK == "" {
		closeRules(m, c, "writer", w.closes, w.writes)
	} else {
		m.Class(c.Codec + "/produce/writer=" + c.WK)
	}
	if usedAfterClose(m, c, "writer", w.writesAfterClose, err) {
		return
	}
	if w.errDelivered {
		m.Class("fault-delivered")
		if err == nil {
			m.Violate("write-error-swallowed/"+c.Codec+"/produce"+c.W.errFeat(), fmt.Sprintf("%s Produce of %s: the write error at byte %d was delivered and nil was returned", c.Codec, c.Kind, c.W.ErrAt), c)
		}
		return
	}
	if err != nil {
		m.Violate("spurious-error/"+c.Codec+"/produce", fmt.Sprintf("%s Produce of supported %s failed on a clean stream: %v", c.Codec, c.Kind, err), c)
		return
	}
	encoded := out()
	if w.errDelivered {
		// the sink failed under the harness's own flush of the buffering writer, after Produce had returned
		m.Class("fault-met-by-the-callers-flush-only")
		return
	}
	m.Note("encoded_bytes", int64(len(encoded)))
	r := newReader(encoded, c.R)
	pv, st = mon.Catch(func() { err = cons.Consume(r, dst) })
	if pv != nil {
		m.Violate("consume-panic/"+c.Codec+"/own-output", fmt.Sprintf("%s Consume of its own output for %s panicked: %v\n%s", c.Codec, c.Kind, pv, st), c)
		return
	}
	closeRules(m, c, "reader", r.closes, r.reads)
	if usedAfterClose(m, c, "reader", r.readsAfterClose, err) {
		return
	}
	if !earlierIntact() {
		return
	}
	got := reflect.ValueOf(dst).Elem().Interface()
	equal := reflect.DeepEqual(got, v)
	if r.errDelivered {
		m.Class("fault-delivered")
		if err == nil && !equal {
			m.Violate("read-error-swallowed/"+c.Codec+"/consume"+c.R.errFeat(), fmt.Sprintf("%s Consume of %s: read error at byte %d of %d delivered, nil returned, value differs from the full one", c.Codec, c.Kind, c.R.ErrAt, len(encoded)), c)
		} else if err == nil {
			m.Class("fault-after-complete-document")
		}
		return
	}
	if (err != nil || !equal) && yamlBlockScalarFeature(c) {
		// one failure mode of the YAML library's emitter, whatever the kind that carries the text
		m.Violate("roundtrip-broken/yaml/multiline-text-with-leading-blank", fmt.Sprintf("yaml round trip of %s: a multi-line text starting with a blank or a line break is written as a block scalar the consumer misreads (err=%v)\nproduced %s\n got  %#v\n want %#v", c.Kind, err, short(encoded), got, v), c)
		// the known finding accounts for the affected text pieces only: the same value with those pieces made
		// harmless (everything else - numbers, booleans, maps, the other pieces, the scripts - unchanged) is
		// judged on its own, so that any other failure on this input still surfaces under its own signature
		if c2, ok := yamlWithoutBlockScalarFeature(c); ok {
			m.Class("yaml-known-feature/rejudged-without-the-affected-text")
			m.Eval(1)
			runRoundTrip(m, c2)
		}
		return
	}
	if err != nil {
		m.Violate("spurious-error/"+c.Codec+"/consume-own-output", fmt.Sprintf("%s Consume of its own output for %s failed on a clean stream: %v\noutput: %s", c.Codec, c.Kind, err, short(encoded)), c)
		return
	}
	if !equal {
		m.Violate("roundtrip-mismatch/"+c.Codec+"/"+c.Kind, fmt.Sprintf("%s round trip of %s (script %s): produced %s\n got  %#v\n want %#v", c.Codec, c.Kind, c.R.class(len(encoded)), short(encoded), got, v), c)
		return
	}
	m.Class("roundtrip-ok")
	// the concrete reader types callers commonly pass must decode to the same value as any other reader
	for _, rk := range []string{"bytes.Buffer", "bytes.Reader", "strings.Reader"} {
		_, dst2, _ := buildValue(c)
		var rd io.Reader
		switch rk {
		case "bytes.Buffer":
			rd = bytes.NewBuffer(append([]byte(nil), encoded...))
		case "bytes.Reader":
			rd = bytes.NewReader(encoded)
		default:
			rd = strings.NewReader(string(encoded))
		}
		var err2 error
		pv, st := mon.Catch(func() { err2 = consumerOf(c).Consume(rd, dst2) })
		m.Eval(1)
		if pv != nil {
			m.Violate("consume-panic/"+c.Codec+"/"+rk+"-reader", fmt.Sprintf("%s Consume from a *%s panicked: %v\n%s", c.Codec, rk, pv, st), c)
			return
		}
		got2 := reflect.ValueOf(dst2).Elem().Interface()
		if err2 != nil || !reflect.DeepEqual(got2, v) {
			m.Violate("reader-kinds-disagree/"+c.Codec+"/"+rk, fmt.Sprintf("%s Consume of %s from a *%s: err=%v\n got  %#v\n want %#v (as decoded from a plain io.Reader)", c.Codec, short(encoded), rk, err2, got2, v), c)
			return
		}
	}
	m.Class("roundtrip-concrete-readers-ok")
}

// yamlBlockScalarFeature reports whether the case is a YAML round trip whose text (or one of the
// comma-separated pieces the value builders cut it into) spans several lines and starts with a
// space, a tab or a line break.
func yamlBlockScalarFeature(c *Case) bool {
	if c.Codec != "yaml" {
		return false
	}
	s := string(c.content())
	for _, p := range append([]string{s}, pieces(s)...) {
		if strings.ContainsAny(p, "\n\r\u0085\u2028\u2029") && p != "" && strings.ContainsRune(" \t\n\r\u0085\u2028\u2029", []rune(p)[0]) {
			return true
		}
	}
	return false
}

const yamlBlanks = " \t\n\r\u0085\u2028\u2029"

// yamlWithoutBlockScalarFeature returns the case with every affected text piece (and the text as a whole)
// deprived of its leading blanks and line breaks; nothing else changes.
func yamlWithoutBlockScalarFeature(c *Case) (*Case, bool) {
	affected := func(p string) bool {
		return p != "" && strings.ContainsAny(p, "\n\r\u0085\u2028\u2029") && strings.ContainsRune(yamlBlanks, []rune(p)[0])
	}
	ps := pieces(string(c.content()))
	for i, p := range ps {
		if affected(p) {
			ps[i] = "x" + strings.TrimLeft(p, yamlBlanks)
		}
	}
	s := strings.Join(ps, ",")
	if affected(s) {
		s = "x" + strings.TrimLeft(s, yamlBlanks)
	}
	c2 := *c
	c2.Content, c2.Rep = mon.Q(s), 0
	if yamlBlockScalarFeature(&c2) {
		return nil, false
	}
	return &c2, true
}

// ---- structured consumers: totality over destinations ----

func runStructConsume(m *mon.M, c *Case) {
	data := c.content()
	v, mustErr, ok := mkStructDest(c.Kind)
	if !ok {
		m.Violate("bad-replay-case", "unknown destination kind "+c.Kind, c)
		return
	}
	m.NT(c.fp("consume"))
	m.Class(c.Codec + "/consume/" + kindClass(c.Kind))
	r := newReader(data, c.R)
	var err error
	pv, st := mon.Catch(func() { err = consumerOf(c).Consume(r, v) })
	if pv != nil {
		m.Violate("consume-panic/"+c.Codec+"/"+kindClass(c.Kind), fmt.Sprintf("%s Consume of %s into %s (%T) panicked: %v\n%s", c.Codec, short(data), c.Kind, v, pv, st), c)
		return
	}
	closeRules(m, c, "reader", r.closes, r.reads)
	if usedAfterClose(m, c, "reader", r.readsAfterClose, err) {
		return
	}
	if mustErr && err == nil {
		// "unsupported, nil ... destinations yield an error": the statement has no exception for an empty (or blank) stream
		sig := "silent-success/"
		if len(bytes.TrimSpace(data)) == 0 {
			sig = "empty-input-accepted/"
		}
		m.Violate(sig+c.Codec+"/"+kindClass(c.Kind), fmt.Sprintf("%s Consume of %s into %s (%T) returned nil", c.Codec, short(data), c.Kind, v), c)
		return
	}
	if err != nil {
		m.Class("rejected")
	} else {
		m.Class("accepted")
	}
}

// ---- discard ----

func runDiscard(m *mon.M, c *Case) {
	data := c.content()
	m.NT(c.fp(c.Dir))
	m.Class("discard/" + c.Dir)
	var err error
	if c.Dir == "consume" {
		r := newReader(data, c.R)
		d, ok := mkDest("discard", c.Kind, []byte(c.Pre), c.O, c.DBuf)
		if !ok {
			m.Violate("bad-replay-case", "unknown destination kind "+c.Kind, c)
			return
		}
		pv, st := mon.Catch(func() { err = runtime.DiscardConsumer.Consume(r, d.v) })
		if pv != nil {
			m.Violate("consume-panic/discard", fmt.Sprintf("DiscardConsumer panicked: %v\n%s", pv, st), c)
			return
		}
		// the statement has no clause about reading: a discarding consumer that drains its stream is correct code
		if r.reads > 0 {
			m.Class("discard/consume/stream-read")
		}
		if err != nil || r.closes > 0 || (d.get != nil && strings.HasPrefix(c.Kind, "*") && !bytes.Equal(d.get(), []byte(c.Pre))) {
			m.Violate("discard-touched/consume", fmt.Sprintf("DiscardConsumer: err=%v reads=%d closes=%d destination now %s (was %s)", err, r.reads, r.closes, short(get(d)), short([]byte(c.Pre))), c)
		}
		return
	}
	w := newWriter(c.W)
	s, ok := mkSource(c.Kind, data, c.O)
	if !ok {
		m.Violate("bad-replay-case", "unknown source kind "+c.Kind, c)
		return
	}
	pv, st := mon.Catch(func() { err = runtime.DiscardProducer.Produce(w, s.v) })
	if pv != nil {
		m.Violate("produce-panic/discard", fmt.Sprintf("DiscardProducer panicked: %v\n%s", pv, st), c)
		return
	}
	// reading (or closing) the source payload is not forbidden by the statement: classed, not judged
	touched := (s.rd != nil && (s.rd.reads > 0 || s.rd.closes > 0)) || (s.wt != nil && s.wt.calls > 0)
	if touched {
		m.Class("discard/produce/source-touched")
	}
	if err != nil || w.writes > 0 || w.closes > 0 {
		m.Violate("discard-touched/produce", fmt.Sprintf("DiscardProducer: err=%v writes=%d closes=%d source touched=%v", err, w.writes, w.closes, touched), c)
	}
}

func replay(m *mon.M, raw json.RawMessage) {
	var c Case
	if err := json.Unmarshal(raw, &c); err != nil {
		m.Violate("bad-replay-case", err.Error(), nil)
		return
	}
	runCase(m, &c)
}
