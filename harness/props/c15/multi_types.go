package c15

// The combination types of multi.go: one struct type per set of the interfaces the byte-stream and text producers
// look for (W io.WriterTo, R io.Reader, C io.ReadCloser, B encoding.BinaryMarshaler, T encoding.TextMarshaler, E error,
// S fmt.Stringer), made of the embedded one-interface parts. Written out in full (Go has no way to build a type with
// methods at run time); the list is every subset of {W, R|C, B, T, E, S} but the empty one.

type mB struct {
	mixB
}

type mT struct {
	mixT
}

type mE struct {
	mixE
}

type mS struct {
	mixS
}

type mBT struct {
	mixB
	mixT
}

type mBE struct {
	mixB
	mixE
}

type mBS struct {
	mixB
	mixS
}

type mTE struct {
	mixT
	mixE
}

type mTS struct {
	mixT
	mixS
}

type mES struct {
	mixE
	mixS
}

type mBTE struct {
	mixB
	mixT
	mixE
}

type mBTS struct {
	mixB
	mixT
	mixS
}

type mBES struct {
	mixB
	mixE
	mixS
}

type mTES struct {
	mixT
	mixE
	mixS
}

type mBTES struct {
	mixB
	mixT
	mixE
	mixS
}

type mR struct {
	mixR
}

type mRB struct {
	mixR
	mixB
}

type mRT struct {
	mixR
	mixT
}

type mRE struct {
	mixR
	mixE
}

type mRS struct {
	mixR
	mixS
}

type mRBT struct {
	mixR
	mixB
	mixT
}

type mRBE struct {
	mixR
	mixB
	mixE
}

type mRBS struct {
	mixR
	mixB
	mixS
}

type mRTE struct {
	mixR
	mixT
	mixE
}

type mRTS struct {
	mixR
	mixT
	mixS
}

type mRES struct {
	mixR
	mixE
	mixS
}

type mRBTE struct {
	mixR
	mixB
	mixT
	mixE
}

type mRBTS struct {
	mixR
	mixB
	mixT
	mixS
}

type mRBES struct {
	mixR
	mixB
	mixE
	mixS
}

type mRTES struct {
	mixR
	mixT
	mixE
	mixS
}

type mRBTES struct {
	mixR
	mixB
	mixT
	mixE
	mixS
}

type mC struct {
	mixC
}

type mCB struct {
	mixC
	mixB
}

type mCT struct {
	mixC
	mixT
}

type mCE struct {
	mixC
	mixE
}

type mCS struct {
	mixC
	mixS
}

type mCBT struct {
	mixC
	mixB
	mixT
}

type mCBE struct {
	mixC
	mixB
	mixE
}

type mCBS struct {
	mixC
	mixB
	mixS
}

type mCTE struct {
	mixC
	mixT
	mixE
}

type mCTS struct {
	mixC
	mixT
	mixS
}

type mCES struct {
	mixC
	mixE
	mixS
}

type mCBTE struct {
	mixC
	mixB
	mixT
	mixE
}

type mCBTS struct {
	mixC
	mixB
	mixT
	mixS
}

type mCBES struct {
	mixC
	mixB
	mixE
	mixS
}

type mCTES struct {
	mixC
	mixT
	mixE
	mixS
}

type mCBTES struct {
	mixC
	mixB
	mixT
	mixE
	mixS
}

type mW struct {
	mixW
}

type mWB struct {
	mixW
	mixB
}

type mWT struct {
	mixW
	mixT
}

type mWE struct {
	mixW
	mixE
}

type mWS struct {
	mixW
	mixS
}

type mWBT struct {
	mixW
	mixB
	mixT
}

type mWBE struct {
	mixW
	mixB
	mixE
}

type mWBS struct {
	mixW
	mixB
	mixS
}

type mWTE struct {
	mixW
	mixT
	mixE
}

type mWTS struct {
	mixW
	mixT
	mixS
}

type mWES struct {
	mixW
	mixE
	mixS
}

type mWBTE struct {
	mixW
	mixB
	mixT
	mixE
}

type mWBTS struct {
	mixW
	mixB
	mixT
	mixS
}

type mWBES struct {
	mixW
	mixB
	mixE
	mixS
}

type mWTES struct {
	mixW
	mixT
	mixE
	mixS
}

type mWBTES struct {
	mixW
	mixB
	mixT
	mixE
	mixS
}

type mWR struct {
	mixW
	mixR
}

type mWRB struct {
	mixW
	mixR
	mixB
}

type mWRT struct {
	mixW
	mixR
	mixT
}

type mWRE struct {
	mixW
	mixR
	mixE
}

type mWRS struct {
	mixW
	mixR
	mixS
}

type mWRBT struct {
	mixW
	mixR
	mixB
	mixT
}

type mWRBE struct {
	mixW
	mixR
	mixB
	mixE
}

type mWRBS struct {
	mixW
	mixR
	mixB
	mixS
}

type mWRTE struct {
	mixW
	mixR
	mixT
	mixE
}

type mWRTS struct {
	mixW
	mixR
	mixT
	mixS
}

type mWRES struct {
	mixW
	mixR
	mixE
	mixS
}

type mWRBTE struct {
	mixW
	mixR
	mixB
	mixT
	mixE
}

type mWRBTS struct {
	mixW
	mixR
	mixB
	mixT
	mixS
}

type mWRBES struct {
	mixW
	mixR
	mixB
	mixE
	mixS
}

type mWRTES struct {
	mixW
	mixR
	mixT
	mixE
	mixS
}

type mWRBTES struct {
	mixW
	mixR
	mixB
	mixT
	mixE
	mixS
}

type mWC struct {
	mixW
	mixC
}

type mWCB struct {
	mixW
	mixC
	mixB
}

type mWCT struct {
	mixW
	mixC
	mixT
}

type mWCE struct {
	mixW
	mixC
	mixE
}

type mWCS struct {
	mixW
	mixC
	mixS
}

type mWCBT struct {
	mixW
	mixC
	mixB
	mixT
}

type mWCBE struct {
	mixW
	mixC
	mixB
	mixE
}

type mWCBS struct {
	mixW
	mixC
	mixB
	mixS
}

type mWCTE struct {
	mixW
	mixC
	mixT
	mixE
}

type mWCTS struct {
	mixW
	mixC
	mixT
	mixS
}

type mWCES struct {
	mixW
	mixC
	mixE
	mixS
}

type mWCBTE struct {
	mixW
	mixC
	mixB
	mixT
	mixE
}

type mWCBTS struct {
	mixW
	mixC
	mixB
	mixT
	mixS
}

type mWCBES struct {
	mixW
	mixC
	mixB
	mixE
	mixS
}

type mWCTES struct {
	mixW
	mixC
	mixT
	mixE
	mixS
}

type mWCBTES struct {
	mixW
	mixC
	mixB
	mixT
	mixE
	mixS
}

// multiMake builds, for a set of letters, the value and a pointer to (a copy of) it, every part on the core k.
var multiMake = map[string]func(k *mcore) (val, ptr interface{}){
	"B":   func(k *mcore) (interface{}, interface{}) { v := mB{mixB{k}}; p := v; return v, &p },
	"T":   func(k *mcore) (interface{}, interface{}) { v := mT{mixT{k}}; p := v; return v, &p },
	"E":   func(k *mcore) (interface{}, interface{}) { v := mE{mixE{k}}; p := v; return v, &p },
	"S":   func(k *mcore) (interface{}, interface{}) { v := mS{mixS{k}}; p := v; return v, &p },
	"BT":  func(k *mcore) (interface{}, interface{}) { v := mBT{mixB{k}, mixT{k}}; p := v; return v, &p },
	"BE":  func(k *mcore) (interface{}, interface{}) { v := mBE{mixB{k}, mixE{k}}; p := v; return v, &p },
	"BS":  func(k *mcore) (interface{}, interface{}) { v := mBS{mixB{k}, mixS{k}}; p := v; return v, &p },
	"TE":  func(k *mcore) (interface{}, interface{}) { v := mTE{mixT{k}, mixE{k}}; p := v; return v, &p },
	"TS":  func(k *mcore) (interface{}, interface{}) { v := mTS{mixT{k}, mixS{k}}; p := v; return v, &p },
	"ES":  func(k *mcore) (interface{}, interface{}) { v := mES{mixE{k}, mixS{k}}; p := v; return v, &p },
	"BTE": func(k *mcore) (interface{}, interface{}) { v := mBTE{mixB{k}, mixT{k}, mixE{k}}; p := v; return v, &p },
	"BTS": func(k *mcore) (interface{}, interface{}) { v := mBTS{mixB{k}, mixT{k}, mixS{k}}; p := v; return v, &p },
	"BES": func(k *mcore) (interface{}, interface{}) { v := mBES{mixB{k}, mixE{k}, mixS{k}}; p := v; return v, &p },
	"TES": func(k *mcore) (interface{}, interface{}) { v := mTES{mixT{k}, mixE{k}, mixS{k}}; p := v; return v, &p },
	"BTES": func(k *mcore) (interface{}, interface{}) {
		v := mBTES{mixB{k}, mixT{k}, mixE{k}, mixS{k}}
		p := v
		return v, &p
	},
	"R":   func(k *mcore) (interface{}, interface{}) { v := mR{mixR{k}}; p := v; return v, &p },
	"RB":  func(k *mcore) (interface{}, interface{}) { v := mRB{mixR{k}, mixB{k}}; p := v; return v, &p },
	"RT":  func(k *mcore) (interface{}, interface{}) { v := mRT{mixR{k}, mixT{k}}; p := v; return v, &p },
	"RE":  func(k *mcore) (interface{}, interface{}) { v := mRE{mixR{k}, mixE{k}}; p := v; return v, &p },
	"RS":  func(k *mcore) (interface{}, interface{}) { v := mRS{mixR{k}, mixS{k}}; p := v; return v, &p },
	"RBT": func(k *mcore) (interface{}, interface{}) { v := mRBT{mixR{k}, mixB{k}, mixT{k}}; p := v; return v, &p },
	"RBE": func(k *mcore) (interface{}, interface{}) { v := mRBE{mixR{k}, mixB{k}, mixE{k}}; p := v; return v, &p },
	"RBS": func(k *mcore) (interface{}, interface{}) { v := mRBS{mixR{k}, mixB{k}, mixS{k}}; p := v; return v, &p },
	"RTE": func(k *mcore) (interface{}, interface{}) { v := mRTE{mixR{k}, mixT{k}, mixE{k}}; p := v; return v, &p },
	"RTS": func(k *mcore) (interface{}, interface{}) { v := mRTS{mixR{k}, mixT{k}, mixS{k}}; p := v; return v, &p },
	"RES": func(k *mcore) (interface{}, interface{}) { v := mRES{mixR{k}, mixE{k}, mixS{k}}; p := v; return v, &p },
	"RBTE": func(k *mcore) (interface{}, interface{}) {
		v := mRBTE{mixR{k}, mixB{k}, mixT{k}, mixE{k}}
		p := v
		return v, &p
	},
	"RBTS": func(k *mcore) (interface{}, interface{}) {
		v := mRBTS{mixR{k}, mixB{k}, mixT{k}, mixS{k}}
		p := v
		return v, &p
	},
	"RBES": func(k *mcore) (interface{}, interface{}) {
		v := mRBES{mixR{k}, mixB{k}, mixE{k}, mixS{k}}
		p := v
		return v, &p
	},
	"RTES": func(k *mcore) (interface{}, interface{}) {
		v := mRTES{mixR{k}, mixT{k}, mixE{k}, mixS{k}}
		p := v
		return v, &p
	},
	"RBTES": func(k *mcore) (interface{}, interface{}) {
		v := mRBTES{mixR{k}, mixB{k}, mixT{k}, mixE{k}, mixS{k}}
		p := v
		return v, &p
	},
	"C":   func(k *mcore) (interface{}, interface{}) { v := mC{mixC{k}}; p := v; return v, &p },
	"CB":  func(k *mcore) (interface{}, interface{}) { v := mCB{mixC{k}, mixB{k}}; p := v; return v, &p },
	"CT":  func(k *mcore) (interface{}, interface{}) { v := mCT{mixC{k}, mixT{k}}; p := v; return v, &p },
	"CE":  func(k *mcore) (interface{}, interface{}) { v := mCE{mixC{k}, mixE{k}}; p := v; return v, &p },
	"CS":  func(k *mcore) (interface{}, interface{}) { v := mCS{mixC{k}, mixS{k}}; p := v; return v, &p },
	"CBT": func(k *mcore) (interface{}, interface{}) { v := mCBT{mixC{k}, mixB{k}, mixT{k}}; p := v; return v, &p },
	"CBE": func(k *mcore) (interface{}, interface{}) { v := mCBE{mixC{k}, mixB{k}, mixE{k}}; p := v; return v, &p },
	"CBS": func(k *mcore) (interface{}, interface{}) { v := mCBS{mixC{k}, mixB{k}, mixS{k}}; p := v; return v, &p },
	"CTE": func(k *mcore) (interface{}, interface{}) { v := mCTE{mixC{k}, mixT{k}, mixE{k}}; p := v; return v, &p },
	"CTS": func(k *mcore) (interface{}, interface{}) { v := mCTS{mixC{k}, mixT{k}, mixS{k}}; p := v; return v, &p },
	"CES": func(k *mcore) (interface{}, interface{}) { v := mCES{mixC{k}, mixE{k}, mixS{k}}; p := v; return v, &p },
	"CBTE": func(k *mcore) (interface{}, interface{}) {
		v := mCBTE{mixC{k}, mixB{k}, mixT{k}, mixE{k}}
		p := v
		return v, &p
	},
	"CBTS": func(k *mcore) (interface{}, interface{}) {
		v := mCBTS{mixC{k}, mixB{k}, mixT{k}, mixS{k}}
		p := v
		return v, &p
	},
	"CBES": func(k *mcore) (interface{}, interface{}) {
		v := mCBES{mixC{k}, mixB{k}, mixE{k}, mixS{k}}
		p := v
		return v, &p
	},
	"CTES": func(k *mcore) (interface{}, interface{}) {
		v := mCTES{mixC{k}, mixT{k}, mixE{k}, mixS{k}}
		p := v
		return v, &p
	},
	"CBTES": func(k *mcore) (interface{}, interface{}) {
		v := mCBTES{mixC{k}, mixB{k}, mixT{k}, mixE{k}, mixS{k}}
		p := v
		return v, &p
	},
	"W":   func(k *mcore) (interface{}, interface{}) { v := mW{mixW{k}}; p := v; return v, &p },
	"WB":  func(k *mcore) (interface{}, interface{}) { v := mWB{mixW{k}, mixB{k}}; p := v; return v, &p },
	"WT":  func(k *mcore) (interface{}, interface{}) { v := mWT{mixW{k}, mixT{k}}; p := v; return v, &p },
	"WE":  func(k *mcore) (interface{}, interface{}) { v := mWE{mixW{k}, mixE{k}}; p := v; return v, &p },
	"WS":  func(k *mcore) (interface{}, interface{}) { v := mWS{mixW{k}, mixS{k}}; p := v; return v, &p },
	"WBT": func(k *mcore) (interface{}, interface{}) { v := mWBT{mixW{k}, mixB{k}, mixT{k}}; p := v; return v, &p },
	"WBE": func(k *mcore) (interface{}, interface{}) { v := mWBE{mixW{k}, mixB{k}, mixE{k}}; p := v; return v, &p },
	"WBS": func(k *mcore) (interface{}, interface{}) { v := mWBS{mixW{k}, mixB{k}, mixS{k}}; p := v; return v, &p },
	"WTE": func(k *mcore) (interface{}, interface{}) { v := mWTE{mixW{k}, mixT{k}, mixE{k}}; p := v; return v, &p },
	"WTS": func(k *mcore) (interface{}, interface{}) { v := mWTS{mixW{k}, mixT{k}, mixS{k}}; p := v; return v, &p },
	"WES": func(k *mcore) (interface{}, interface{}) { v := mWES{mixW{k}, mixE{k}, mixS{k}}; p := v; return v, &p },
	"WBTE": func(k *mcore) (interface{}, interface{}) {
		v := mWBTE{mixW{k}, mixB{k}, mixT{k}, mixE{k}}
		p := v
		return v, &p
	},
	"WBTS": func(k *mcore) (interface{}, interface{}) {
		v := mWBTS{mixW{k}, mixB{k}, mixT{k}, mixS{k}}
		p := v
		return v, &p
	},
	"WBES": func(k *mcore) (interface{}, interface{}) {
		v := mWBES{mixW{k}, mixB{k}, mixE{k}, mixS{k}}
		p := v
		return v, &p
	},
	"WTES": func(k *mcore) (interface{}, interface{}) {
		v := mWTES{mixW{k}, mixT{k}, mixE{k}, mixS{k}}
		p := v
		return v, &p
	},
	"WBTES": func(k *mcore) (interface{}, interface{}) {
		v := mWBTES{mixW{k}, mixB{k}, mixT{k}, mixE{k}, mixS{k}}
		p := v
		return v, &p
	},
	"WR":  func(k *mcore) (interface{}, interface{}) { v := mWR{mixW{k}, mixR{k}}; p := v; return v, &p },
	"WRB": func(k *mcore) (interface{}, interface{}) { v := mWRB{mixW{k}, mixR{k}, mixB{k}}; p := v; return v, &p },
	"WRT": func(k *mcore) (interface{}, interface{}) { v := mWRT{mixW{k}, mixR{k}, mixT{k}}; p := v; return v, &p },
	"WRE": func(k *mcore) (interface{}, interface{}) { v := mWRE{mixW{k}, mixR{k}, mixE{k}}; p := v; return v, &p },
	"WRS": func(k *mcore) (interface{}, interface{}) { v := mWRS{mixW{k}, mixR{k}, mixS{k}}; p := v; return v, &p },
	"WRBT": func(k *mcore) (interface{}, interface{}) {
		v := mWRBT{mixW{k}, mixR{k}, mixB{k}, mixT{k}}
		p := v
		return v, &p
	},
	"WRBE": func(k *mcore) (interface{}, interface{}) {
		v := mWRBE{mixW{k}, mixR{k}, mixB{k}, mixE{k}}
		p := v
		return v, &p
	},
	"WRBS": func(k *mcore) (interface{}, interface{}) {
		v := mWRBS{mixW{k}, mixR{k}, mixB{k}, mixS{k}}
		p := v
		return v, &p
	},
	"WRTE": func(k *mcore) (interface{}, interface{}) {
		v := mWRTE{mixW{k}, mixR{k}, mixT{k}, mixE{k}}
		p := v
		return v, &p
	},
	"WRTS": func(k *mcore) (interface{}, interface{}) {
		v := mWRTS{mixW{k}, mixR{k}, mixT{k}, mixS{k}}
		p := v
		return v, &p
	},
	"WRES": func(k *mcore) (interface{}, interface{}) {
		v := mWRES{mixW{k}, mixR{k}, mixE{k}, mixS{k}}
		p := v
		return v, &p
	},
	"WRBTE": func(k *mcore) (interface{}, interface{}) {
		v := mWRBTE{mixW{k}, mixR{k}, mixB{k}, mixT{k}, mixE{k}}
		p := v
		return v, &p
	},
	"WRBTS": func(k *mcore) (interface{}, interface{}) {
		v := mWRBTS{mixW{k}, mixR{k}, mixB{k}, mixT{k}, mixS{k}}
		p := v
		return v, &p
	},
	"WRBES": func(k *mcore) (interface{}, interface{}) {
		v := mWRBES{mixW{k}, mixR{k}, mixB{k}, mixE{k}, mixS{k}}
		p := v
		return v, &p
	},
	"WRTES": func(k *mcore) (interface{}, interface{}) {
		v := mWRTES{mixW{k}, mixR{k}, mixT{k}, mixE{k}, mixS{k}}
		p := v
		return v, &p
	},
	"WRBTES": func(k *mcore) (interface{}, interface{}) {
		v := mWRBTES{mixW{k}, mixR{k}, mixB{k}, mixT{k}, mixE{k}, mixS{k}}
		p := v
		return v, &p
	},
	"WC":  func(k *mcore) (interface{}, interface{}) { v := mWC{mixW{k}, mixC{k}}; p := v; return v, &p },
	"WCB": func(k *mcore) (interface{}, interface{}) { v := mWCB{mixW{k}, mixC{k}, mixB{k}}; p := v; return v, &p },
	"WCT": func(k *mcore) (interface{}, interface{}) { v := mWCT{mixW{k}, mixC{k}, mixT{k}}; p := v; return v, &p },
	"WCE": func(k *mcore) (interface{}, interface{}) { v := mWCE{mixW{k}, mixC{k}, mixE{k}}; p := v; return v, &p },
	"WCS": func(k *mcore) (interface{}, interface{}) { v := mWCS{mixW{k}, mixC{k}, mixS{k}}; p := v; return v, &p },
	"WCBT": func(k *mcore) (interface{}, interface{}) {
		v := mWCBT{mixW{k}, mixC{k}, mixB{k}, mixT{k}}
		p := v
		return v, &p
	},
	"WCBE": func(k *mcore) (interface{}, interface{}) {
		v := mWCBE{mixW{k}, mixC{k}, mixB{k}, mixE{k}}
		p := v
		return v, &p
	},
	"WCBS": func(k *mcore) (interface{}, interface{}) {
		v := mWCBS{mixW{k}, mixC{k}, mixB{k}, mixS{k}}
		p := v
		return v, &p
	},
	"WCTE": func(k *mcore) (interface{}, interface{}) {
		v := mWCTE{mixW{k}, mixC{k}, mixT{k}, mixE{k}}
		p := v
		return v, &p
	},
	"WCTS": func(k *mcore) (interface{}, interface{}) {
		v := mWCTS{mixW{k}, mixC{k}, mixT{k}, mixS{k}}
		p := v
		return v, &p
	},
	"WCES": func(k *mcore) (interface{}, interface{}) {
		v := mWCES{mixW{k}, mixC{k}, mixE{k}, mixS{k}}
		p := v
		return v, &p
	},
	"WCBTE": func(k *mcore) (interface{}, interface{}) {
		v := mWCBTE{mixW{k}, mixC{k}, mixB{k}, mixT{k}, mixE{k}}
		p := v
		return v, &p
	},
	"WCBTS": func(k *mcore) (interface{}, interface{}) {
		v := mWCBTS{mixW{k}, mixC{k}, mixB{k}, mixT{k}, mixS{k}}
		p := v
		return v, &p
	},
	"WCBES": func(k *mcore) (interface{}, interface{}) {
		v := mWCBES{mixW{k}, mixC{k}, mixB{k}, mixE{k}, mixS{k}}
		p := v
		return v, &p
	},
	"WCTES": func(k *mcore) (interface{}, interface{}) {
		v := mWCTES{mixW{k}, mixC{k}, mixT{k}, mixE{k}, mixS{k}}
		p := v
		return v, &p
	},
	"WCBTES": func(k *mcore) (interface{}, interface{}) {
		v := mWCBTES{mixW{k}, mixC{k}, mixB{k}, mixT{k}, mixE{k}, mixS{k}}
		p := v
		return v, &p
	},
}

// multiSets: the sets of letters, in a fixed order.
var multiSets = []string{"B", "T", "E", "S", "BT", "BE", "BS", "TE", "TS", "ES", "BTE", "BTS", "BES", "TES", "BTES", "R", "RB", "RT", "RE", "RS", "RBT", "RBE", "RBS", "RTE", "RTS", "RES", "RBTE", "RBTS", "RBES", "RTES", "RBTES", "C", "CB", "CT", "CE", "CS", "CBT", "CBE", "CBS", "CTE", "CTS", "CES", "CBTE", "CBTS", "CBES", "CTES", "CBTES", "W", "WB", "WT", "WE", "WS", "WBT", "WBE", "WBS", "WTE", "WTS", "WES", "WBTE", "WBTS", "WBES", "WTES", "WBTES", "WR", "WRB", "WRT", "WRE", "WRS", "WRBT", "WRBE", "WRBS", "WRTE", "WRTS", "WRES", "WRBTE", "WRBTS", "WRBES", "WRTES", "WRBTES", "WC", "WCB", "WCT", "WCE", "WCS", "WCBT", "WCBE", "WCBS", "WCTE", "WCTS", "WCES", "WCBTE", "WCBTS", "WCBES", "WCTES", "WCBTES"}
