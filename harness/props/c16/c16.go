// Package c16 monitors the CSV codec: for every source and destination kind and every option set
// the records delivered are those of an encoding/csv parse of the input (same reader options)
// minus the skipped ones, byte destinations hold what an encoding/csv writer (same writer options)
// makes of them, malformed input is answered with the parser's error, nothing panics, and
// delivered records do not alias one another.
package c16

import (
	"bufio"
	"bytes"
	"encoding/csv"
	"encoding/json"
	"errors"
	"fmt"
	"io"
	"strings"
	"sync"
	"unicode/utf8"

	"github.com/go-openapi/runtime"

	"verif/mon"
)

func init() {
	mon.Register(&mon.Property{
		ID:    "C16",
		Level: "exploration",
		Race:  true,
		Rule: "a group = one CSV text drawn from a grammar (plain/quoted fields, embedded separators, line breaks and quotes, empty fields, blank lines, ragged rows, comment lines, CR LF endings, missing final newline, and malformed quoting) + one option set (reader comma, comment, lazy quotes, trim, fields per record, reuse record; writer comma, CRLF; skipped lines 0..records+2; closing option); " +
			"every group is pushed through EVERY destination kind of the consumer (record kinds and byte kinds; record tables fresh, pre-populated shorter / equal / longer / with spare capacity, typed-nil; kinds the codec does not document) and EVERY source kind of the producer (text kinds and record-table kinds), each on a scripted stream (1-byte / random chunks, <= 50 zero-length reads, data with EOF, fault at an offset; for some consumes a reader without Close or a *bytes.Buffer / *bytes.Reader / *strings.Reader), some with earlier and later calls on the same codec instance; one text in 40 has 120..320 records (4..12 KiB), half of those a count at or next to 32, 64, 128, 256, 257, 300, 512, 513, and half of the large texts are malformed, mostly in one of their last three records (a codec that moves records in batches would deliver the well-formed batches before the parser's error). " +
			"one produce in 4 writes into the caller's own *bufio.Writer (4096 bytes, which encoding/csv adopts as its buffer, or 16 bytes) over the scripted sink or into a *bytes.Buffer; a CSVReader source that hands out one reused slice; " +
			"one group in 20 makes every call while two other goroutines use the SAME codec instance with their own texts and objects (joined with a WaitGroup, each judged against its own reference; the race detector watches); " +
			"caller-set LazyQuotes / TrimLeadingSpace / ReuseRecord on a *csv.Reader source and UseCRLF on a *csv.Writer destination (outcome must be that of one of the two readings; classed); one group in 8 also calls with no reader, no writer, no data and a typed-nil pointer source. " +
			"one text in 8 starts with a mark that is field text to a CSV parse (a byte order mark mostly; also a zero-width space, a no-break space, a NUL; once or twice; before a plain or quoted field, a comment line, alone on the first line), marks also occur inside; " +
			"half of the option sets hand the option functions (WithCSVReaderOpts / WriterOpts / SkipLines / ClosesStream) to the codec in a random order instead of reader-writer-skip-close, now and then with a function spelt out with its zero value: the option SET, hence the expectation, is the same; " +
			"expectation = encoding/csv itself with the same options, so all kinds are compared with one reference and therefore with one another. " +
			"non-trivial = every executed case; distinct by (text feature set, direction, kind, destination pre-state, option set, stream class)",
		Assumptions: []string{
			"'skipped lines' are counted in records, as the parser delivers them (a quoted header spanning two lines is one)",
			"an unset option (zero rune, zero fields-per-record) means the encoding/csv default, as the codec documents",
			"record-table and CSVReader sources carry the records that the reference parse of the group's text yields; groups whose text does not parse are not run through those kinds",
			"CSVWriter destinations are judged on the records passed to Write (copied at the time of the call, as csv.Writer does); aliasing is judged for record-table destinations, which the codec fills itself, and for a second CSVWriter kind that keeps the very slices it is handed -- except with the reuse-record option, which means precisely that a slice handed to Write is valid during the call only (that combination is not generated and not judged)",
			"a nil reader, a nil writer and nil data must be answered with an error - not a panic, not nil - and leave destination and writer untouched (nothing can be parsed or written; the codec documents these refusals). Typed-nil pointer SOURCES are outside the no-panic clause (it names destination state and options): they are probed and classed (probe:typed-nil-source/...), not judged",
			"whether the stream is closed is recorded, not judged (the statement has no closing clause); a stream or closable source that is still used after the codec closed it is a violation (a closed file or HTTP body fails, so records are lost): scripted streams fail once closed",
			"a failure of the destination's or source's own methods (CSVWriter.Write / Error, io.ReaderFrom, encoding.BinaryUnmarshaler, CSVReader.Read, encoding.BinaryMarshaler) must surface as an error, like a stream fault",
			"'the parser's error instead of partial success': after the parser's error a destination the codec fills in one piece (record tables, *[]byte, *string and their named forms) must not hold anything new; streaming destinations (writers, CSVWriter) necessarily received the records before the malformed one",
			"what a call delivered must still be there, and share no memory with it, after later calls on the same codec instance and on a fresh one, and after the caller overwrote its *bytes.Buffer / *bytes.Reader source",
			"record-table and CSVReader sources may also hold nil, empty and one-empty-field records: the bytes written must be what encoding/csv's writer makes of those records",
			"a scripted read or write fault must surface as an error (a shorter success would be 'records delivered != parse of the input'); which error is not judged",
			"for malformed input the error must be the reference parser's error (same text); this includes the io.WriterTo source (whose pipe used to surface 'io: read/write on closed pipe' from the writing side first: repaired defect)",
			"destination kinds the codec does not document must not panic and must not report success while dropping records",
			"a *csv.Reader source / *csv.Writer destination may come with the caller's own separator, comment rune or fields-per-record (reader) / separator (writer) while the codec has no option of that name: the object's setting is then the dialect of the 'standard CSV parse' (writer: of the bytes written). a setting both on the object and in the codec options is not generated",
			"caller-set BOOLEAN settings (LazyQuotes, TrimLeadingSpace, ReuseRecord on a *csv.Reader source; UseCRLF on a *csv.Writer destination) with the codec option of that name unset: the statement does not say whether the object's 'true' or the codec option's 'false' is the dialect (a boolean option has no 'unset'), so the outcome must be exactly what encoding/csv yields under ONE of the two readings (per boolean); which one is classed as probe:caller-set-boolean/... for triage, and whether the codec rewrote the field of the caller's object is classed too. Where the readings agree on the text the case is judged as usual",
			"'the parser's error' is judged by identity as well as by text: when the reference error is a *csv.ParseError the codec's error must satisfy errors.As for *csv.ParseError with the same StartLine, Line and Column, and errors.Is for its cause (csv.ErrBareQuote, csv.ErrQuote, csv.ErrFieldCount)",
			"'instead of partial success' on the produce side: a source the codec holds in memory as a whole (encoding.BinaryMarshaler, []byte, string, their named and pointer forms) is known to be malformed before anything is written, so next to the parser's error the writer must have received nothing; for streaming sources (readers, *csv.Reader, io.WriterTo) what was written before the malformed record is classed, not judged",
			"a caller's own *bufio.Writer is flushed by the harness (as its owner would) after Produce returned and before the bytes are judged; whether the codec had flushed it already is classed. A sink fault that is only met by that flush is not the codec's to report",
			"one codec instance used by several goroutines at once is outside the statement's quantifier (no schedules); it is exercised because servers share one consumer / producer per media type: each goroutine's outcome is judged against its own reference with a reduced oracle (outcome class, error text, records / bytes), and data races are reported by the race detector",
			"io.ReaderFrom and encoding.BinaryUnmarshaler destinations are filled in one piece too: after the parser's error their method must not have been called",
			"an option set is a SET: each option function is given at most once and the four functions name disjoint settings, so the order in which they are given must not matter; an option function given with its zero value (WithCSVSkipLines(0), WithCSVReaderOpts(csv.Reader{}), WithCSVWriterOpts(csv.Writer{})) is an unset option. The same function given twice with different values is not generated (which one wins is not in the statement)",
			"a byte order mark (or any other character) at the start of the text is part of the first field for a standard CSV parse (encoding/csv keeps it), so 'same field text' and 'all kinds agree' hold for it as for any other text: no decoding step is part of the statement",
		},
		MinNontrivial: 500,
		QuickTimeout:  0,
		Run:           run,
		Replay:        replay,
	})
}

// Opts is the option set of one case.
type Opts struct {
	Comma   string `json:"comma,omitempty"`   // reader separator ("" = not set)
	Comment string `json:"comment,omitempty"` // reader comment rune
	Lazy    bool   `json:"lazy_quotes,omitempty"`
	Trim    bool   `json:"trim_leading_space,omitempty"`
	FPR     int    `json:"fields_per_record,omitempty"`
	Reuse   bool   `json:"reuse_record,omitempty"`
	WComma  string `json:"writer_comma,omitempty"`
	CRLF    bool   `json:"use_crlf,omitempty"`
	Skip    int    `json:"skip,omitempty"`
	Close   bool   `json:"close,omitempty"`
	// Order: the option FUNCTIONS handed to CSVConsumer / CSVProducer, in the order they are given: a comma-separated
	// list of "reader" (WithCSVReaderOpts), "writer" (WithCSVWriterOpts), "skip" (WithCSVSkipLines), "close"
	// (WithCSVClosesStream). A function named here is given even when its value is the zero value (an explicit
	// WithCSVSkipLines(0), WithCSVReaderOpts(csv.Reader{}) ...: an unset option); a function that carries a setting and
	// is not named follows in the canonical order. "" = reader, writer, skip, close, each only when it carries a
	// setting. The option SET is the same whatever the order: each function is given at most once and the four name
	// disjoint settings, so the order changes no expectation.
	Order string `json:"order,omitempty"`
}

// optionFuncs are the option functions in the canonical order.
var optionFuncs = []string{"reader", "writer", "skip", "close"}

func r1(s string) rune {
	if s == "" {
		return 0
	}
	r, _ := utf8.DecodeRuneInString(s)
	return r
}

func (o Opts) set() string {
	var b []string
	add := func(c bool, s string) {
		if c {
			b = append(b, s)
		}
	}
	add(o.Comma != "", "comma="+o.Comma)
	add(o.Comment != "", "comment")
	add(o.Lazy, "lazy")
	add(o.Trim, "trim")
	add(o.FPR < 0, "fpr<0")
	add(o.FPR > 0, "fpr>0")
	add(o.Reuse, "reuse")
	add(o.WComma != "", "wcomma="+o.WComma)
	add(o.CRLF, "crlf")
	add(o.Skip > 0, "skip")
	add(o.Close, "close")
	add(o.Order != "", "order="+strings.ReplaceAll(o.Order, ",", ">"))
	return strings.Join(b, ",")
}

// carries says which option functions carry a setting (a non-zero value).
func (o Opts) carries() map[string]bool {
	return map[string]bool{
		"reader": o.Comma != "" || o.Comment != "" || o.Lazy || o.Trim || o.FPR != 0 || o.Reuse,
		"writer": o.WComma != "" || o.CRLF,
		"skip":   o.Skip != 0,
		"close":  o.Close,
	}
}

// given lists the option functions in the order they are handed to the codec.
func (o Opts) given() []string {
	need := o.carries()
	done := map[string]bool{}
	var l []string
	for _, name := range strings.Split(o.Order, ",") {
		if _, known := need[name]; !known || done[name] || (name == "close" && !o.Close) {
			continue
		}
		done[name] = true
		l = append(l, name)
	}
	for _, name := range optionFuncs {
		if need[name] && !done[name] {
			l = append(l, name)
		}
	}
	return l
}

func (o Opts) sut() []runtime.CSVOpt {
	var l []runtime.CSVOpt
	for _, name := range o.given() {
		switch name {
		case "reader":
			l = append(l, runtime.WithCSVReaderOpts(csv.Reader{Comma: r1(o.Comma), Comment: r1(o.Comment), LazyQuotes: o.Lazy, TrimLeadingSpace: o.Trim, FieldsPerRecord: o.FPR, ReuseRecord: o.Reuse}))
		case "writer":
			l = append(l, runtime.WithCSVWriterOpts(csv.Writer{Comma: r1(o.WComma), UseCRLF: o.CRLF}))
		case "skip":
			l = append(l, runtime.WithCSVSkipLines(o.Skip))
		case "close":
			l = append(l, runtime.WithCSVClosesStream())
		}
	}
	return l
}

// orderClasses names what the order of the option functions exercises: every ordered pair of functions given, and
// the functions given with their zero value.
func (o Opts) orderClasses() []string {
	if o.Order == "" {
		return nil
	}
	out := []string{"option-functions/order-given"}
	g, need := o.given(), o.carries()
	for i := range g {
		if !need[g[i]] {
			out = append(out, "option-functions/given-with-zero-value/"+g[i])
		}
		for j := i + 1; j < len(g); j++ {
			out = append(out, "option-functions/"+g[i]+"-before-"+g[j])
		}
	}
	return out
}

// ---- reference: encoding/csv with the same options ----

func refParse(text string, o Opts, withOptions bool) ([][]string, error) {
	r := csv.NewReader(strings.NewReader(text))
	if withOptions {
		if c := r1(o.Comma); c != 0 {
			r.Comma = c
		}
		if c := r1(o.Comment); c != 0 {
			r.Comment = c
		}
		if o.FPR != 0 {
			r.FieldsPerRecord = o.FPR
		}
		r.LazyQuotes = o.Lazy
		r.TrimLeadingSpace = o.Trim
	}
	recs, err := r.ReadAll()
	if err != nil {
		return nil, err
	}
	return recs, nil
}

func refWrite(recs [][]string, o Opts, withOptions bool) ([]byte, error) {
	var b bytes.Buffer
	w := csv.NewWriter(&b)
	if withOptions {
		if c := r1(o.WComma); c != 0 {
			w.Comma = c
		}
		w.UseCRLF = o.CRLF
	}
	if err := w.WriteAll(recs); err != nil {
		return nil, err
	}
	return b.Bytes(), nil
}

func skipRecs(recs [][]string, k int) [][]string {
	if k < 0 {
		k = 0
	}
	if k > len(recs) {
		k = len(recs)
	}
	return recs[k:]
}

// Case is one call of the CSV consumer or producer.
type Case struct {
	Dir  string `json:"dir"`  // consume | produce
	Kind string `json:"kind"` // destination kind (consume) or source kind (produce), a string tag
	Text mon.Q  `json:"text"` // the CSV input (record-table sources carry its reference parse)
	Opts Opts   `json:"opts"`
	// destination pre-state (consume)
	PreLen  int    `json:"pre_len,omitempty"`  // records already in a record-table destination
	PreCap  int    `json:"pre_cap,omitempty"`  // its capacity (>= PreLen)
	PreText string `json:"pre_text,omitempty"` // prior content of a byte/string destination
	PreNil  bool   `json:"pre_nil,omitempty"`  // the destination is the typed-nil pointer of its kind
	// S scripts the stream (reader of Consume, writer of Produce); O scripts the payload when it is
	// stream-like (reader / writer-to / *csv.Reader source; writer-backed destination).
	S Script `json:"s"`
	O Script `json:"o"`
	// Warm: number of earlier calls made on the SAME codec instance (same input, throw-away
	// destination) before the judged call, which must behave exactly like the first one.
	Warm int `json:"warm,omitempty"`
	// Post: later calls made AFTER the judged one (1: one more on the same codec instance with another
	// text; 2: also one on a fresh codec with an unrelated text and default options); what the judged
	// call delivered is then read again and must not have changed.
	Post int `json:"post,omitempty"`
	// RK: the reader handed to Consume. "" = the scripted io.ReadCloser; "plain" = the scripted reader
	// without Close; "bytes.Buffer" / "bytes.Reader" / "strings.Reader" = the concrete standard types
	// (the script S does not apply to them).
	RK string `json:"rk,omitempty"`
	// Table: for record-table and CSVReader SOURCES, the records handed over when they are not the
	// parse of Text (tables holding nil or empty records, which no parse yields).
	Table [][]string `json:"table,omitempty"`
	// Obj: settings the CALLER made on the object it hands over, before the call: the *csv.Reader source of a
	// produce case (comma, comment, fields per record) or the *csv.Writer destination of a consume case (comma).
	// The codec option of the same name is then left unset: the object's own setting is the dialect of that
	// source / destination.
	Obj *ObjOpts `json:"obj,omitempty"`
	// WK: the writer handed to Produce. "" = the scripted io.WriteCloser; "bufio" / "bufio16" = a *bufio.Writer of
	// 4096 / 16 bytes over the scripted sink (csv.NewWriter adopts a *bufio.Writer of 4096 bytes or more as its own
	// buffer); "bytes.Buffer" = a *bytes.Buffer (the script S does not apply); "nil" = no writer at all.
	WK string `json:"wk,omitempty"`
	// Conc > 1: the judged call is made while Conc-1 other goroutines use the SAME codec instance (their own
	// texts, their own streams and destinations / sources), each judged against its own reference.
	Conc int `json:"conc,omitempty"`
}

// ObjOpts are settings made on a caller-supplied *csv.Reader / *csv.Writer.
type ObjOpts struct {
	Comma   string `json:"comma,omitempty"`
	Comment string `json:"comment,omitempty"`
	FPR     int    `json:"fields_per_record,omitempty"`
	// the boolean settings: LazyQuotes, TrimLeadingSpace, ReuseRecord of a *csv.Reader, UseCRLF of a *csv.Writer.
	// Whether such a setting of the caller's object or the codec's (unset, hence false) option is the dialect is not
	// in the statement: the outcome must be that of ONE of the two readings and is classed (probe), see objReadings.
	Lazy  bool `json:"lazy_quotes,omitempty"`
	Trim  bool `json:"trim_leading_space,omitempty"`
	Reuse bool `json:"reuse_record,omitempty"`
	CRLF  bool `json:"use_crlf,omitempty"`
}

// refOpts returns the option set the reference parse and the reference writer work with: the codec options,
// plus the settings the caller made on its own reader / writer object. ok = false: a setting is made on the object
// AND named by a codec option (which of the two wins is not in the statement: such a case is not judged).
func (c *Case) refOpts() (o Opts, ok bool) {
	o = c.Opts
	if c.Obj == nil {
		return o, true
	}
	switch {
	case c.Dir == "produce" && c.Kind == "*csv.Reader":
		if (c.Obj.Comma != "" && o.Comma != "") || (c.Obj.Comment != "" && o.Comment != "") || (c.Obj.FPR != 0 && o.FPR != 0) {
			return o, false
		}
		if c.Obj.Comma != "" {
			o.Comma = c.Obj.Comma
		}
		if c.Obj.Comment != "" {
			o.Comment = c.Obj.Comment
		}
		if c.Obj.FPR != 0 {
			o.FPR = c.Obj.FPR
		}
		o.Lazy = o.Lazy || c.Obj.Lazy
		o.Trim = o.Trim || c.Obj.Trim
	case c.Dir == "consume" && c.Kind == "*csv.Writer":
		if c.Obj.Comma != "" && o.WComma != "" {
			return o, false
		}
		if c.Obj.Comma != "" {
			o.WComma = c.Obj.Comma
		}
		o.CRLF = o.CRLF || c.Obj.CRLF
	}
	return o, true
}

func (c *Case) objSet() bool {
	return c.Obj != nil && (c.Obj.Comma != "" || c.Obj.Comment != "" || c.Obj.FPR != 0 || c.Obj.Lazy || c.Obj.Trim || c.Obj.Reuse || c.Obj.CRLF) && (c.Kind == "*csv.Reader" || c.Kind == "*csv.Writer")
}

// objBools: the caller made a boolean setting on its own reader / writer object.
func (c *Case) objBools() bool {
	if c.Obj == nil {
		return false
	}
	switch {
	case c.Dir == "produce" && c.Kind == "*csv.Reader":
		return c.Obj.Lazy || c.Obj.Trim || c.Obj.Reuse
	case c.Dir == "consume" && c.Kind == "*csv.Writer":
		return c.Obj.CRLF
	}
	return false
}

// reading is one way to read a case whose caller set booleans on its own object: the option set the reference works
// with, and which of those settings it honours.
type reading struct {
	o     Opts
	label string
}

// objReadings lists the readings of a case with caller-set booleans: every subset of them honoured (the first
// reading honours all, the last none: there the codec's own, unset option rules). ReuseRecord changes no parse.
func (c *Case) objReadings(ropts Opts) []reading {
	type bit struct {
		name string
		set  func(o *Opts, v bool)
	}
	var bits []bit
	switch {
	case c.Dir == "produce" && c.Kind == "*csv.Reader":
		if c.Obj.Lazy && !c.Opts.Lazy {
			bits = append(bits, bit{"lazy-quotes", func(o *Opts, v bool) { o.Lazy = v }})
		}
		if c.Obj.Trim && !c.Opts.Trim {
			bits = append(bits, bit{"trim-leading-space", func(o *Opts, v bool) { o.Trim = v }})
		}
	case c.Dir == "consume" && c.Kind == "*csv.Writer":
		if c.Obj.CRLF && !c.Opts.CRLF {
			bits = append(bits, bit{"use-crlf", func(o *Opts, v bool) { o.CRLF = v }})
		}
	}
	var out []reading
	for mask := (1 << len(bits)) - 1; mask >= 0; mask-- {
		o := ropts
		var l []string
		for i, b := range bits {
			on := mask&(1<<i) != 0
			b.set(&o, on)
			if on {
				l = append(l, b.name+"=kept")
			} else {
				l = append(l, b.name+"=overridden-by-the-codec")
			}
		}
		out = append(out, reading{o, strings.Join(l, "+")})
	}
	return out
}

// outcome is what the reference yields for a text under one option set: the bytes written, the parser's error, or
// (invalid writer options next to a parse error or to records to write) some error.
type outcome struct {
	kind    string // bytes | parse-error | any-error
	errText string
	b       []byte
}

func refOutcome(text string, o Opts, skip int) outcome {
	recs, perr := refParse(text, o, true)
	if perr != nil {
		if writerOptionsInvalid(o) {
			return outcome{kind: "any-error"}
		}
		return outcome{kind: "parse-error", errText: perr.Error()}
	}
	b, werr := refWrite(skipRecs(recs, skip), o, true)
	if werr != nil {
		return outcome{kind: "any-error"}
	}
	return outcome{kind: "bytes", b: b}
}

func (x outcome) equal(y outcome) bool {
	return x.kind == y.kind && x.errText == y.errText && bytes.Equal(x.b, y.b)
}

func (x outcome) matches(got []byte, err error) bool {
	switch x.kind {
	case "bytes":
		return err == nil && bytes.Equal(got, x.b)
	case "parse-error":
		return err != nil && err.Error() == x.errText
	}
	return err != nil
}

func (x outcome) String() string {
	switch x.kind {
	case "bytes":
		return "bytes " + short(x.b)
	case "parse-error":
		return fmt.Sprintf("the parser's error %q", x.errText)
	}
	return "an error"
}

// probeObjBools handles a case whose caller set booleans on its own *csv.Reader / *csv.Writer and on whose text
// the readings differ. done = the case was dealt with here (classed, or flagged when the outcome is that of no reading).
func probeObjBools(m *mon.M, c *Case, ropts Opts, got []byte, err error, where string) (done bool) {
	rs := c.objReadings(ropts)
	if len(rs) < 2 {
		return false
	}
	text := string(c.Text)
	outs := make([]outcome, len(rs))
	differ := false
	for i, rd := range rs {
		outs[i] = refOutcome(text, rd.o, c.Opts.Skip)
		if i > 0 && !outs[i].equal(outs[0]) {
			differ = true
		}
	}
	if !differ {
		m.Class("probe:caller-set-boolean/" + where + "/makes-no-difference-on-this-text")
		return false
	}
	for i, rd := range rs {
		if outs[i].matches(got, err) {
			m.Class("probe:caller-set-boolean/" + where + "/" + rd.label)
			return true
		}
	}
	m.Violate("caller-set-boolean-outcome-of-no-reading/"+where, fmt.Sprintf("%s with a caller-configured object %+v: input %s options {%s}: the outcome (err=%s, bytes %s) is neither what encoding/csv yields with the object's own boolean settings (%s) nor with the codec's (%s)", where, *c.Obj, short([]byte(text)), c.Opts.set(), errText(err), short(got), outs[0], outs[len(outs)-1]), c)
	return true
}

// sameParserError judges "the parser's error" by identity, not only by text: when the reference error is a
// *csv.ParseError the codec's error must be one too (errors.As), with the same position, and wrap the same cause.
func sameParserError(err, perr error) (bool, string) {
	var want *csv.ParseError
	if !errors.As(perr, &want) {
		return true, ""
	}
	var got *csv.ParseError
	if !errors.As(err, &got) {
		return false, fmt.Sprintf("the error is a %T, which errors.As cannot turn into a *csv.ParseError", err)
	}
	if got.StartLine != want.StartLine || got.Line != want.Line || got.Column != want.Column {
		return false, fmt.Sprintf("*csv.ParseError at start line %d, line %d, column %d; the reference says %d, %d, %d", got.StartLine, got.Line, got.Column, want.StartLine, want.Line, want.Column)
	}
	if want.Err != nil && !errors.Is(err, want.Err) {
		return false, fmt.Sprintf("errors.Is(err, %q) is false", want.Err)
	}
	return true, ""
}

// leadingMarks are character sequences that text-handling code is tempted to take for an encoding mark or for padding
// and to drop at the start of a text. To a standard CSV parse they are field text like any other: "same field text".
var leadingMarks = []struct{ name, mark string }{
	{"byte-order-mark", "\ufeff"},
	{"zero-width-space", "\u200b"},
	{"no-break-space", "\u00a0"},
	{"nul", "\x00"},
}

// leadingMark names the mark a text starts with, and lists the text without it (one mark dropped; all of them dropped).
func leadingMark(text string) (name string, without []string) {
	for _, lm := range leadingMarks {
		if strings.HasPrefix(text, lm.mark) {
			one := strings.TrimPrefix(text, lm.mark)
			without = append(without, one)
			all := one
			for strings.HasPrefix(all, lm.mark) {
				all = strings.TrimPrefix(all, lm.mark)
			}
			if all != one {
				without = append(without, all)
			}
			return lm.name, without
		}
	}
	return "", nil
}

// explainInput names the input feature that accounts for an outcome which is NOT the reference's (called on the
// violating branches only; the expectation is never taken from here). c is the case as the reference sees it, all
// the records of the whole input before skipping (nil when it does not parse); the observation is the error, and
// the records (isRecs) or the bytes delivered.
//
//   - "leading-<mark>-dropped": the text starts with a mark and the observation is what encoding/csv yields for the
//     text without it;
//   - "nothing-skipped/option-functions-in-another-order": lines were to be skipped, the option functions were not
//     given in the canonical order, and the observation is the whole parse with nothing skipped.
func explainInput(c *Case, all [][]string, gotRecs [][]string, gotBytes []byte, isRecs bool, err error) string {
	same := func(want [][]string) bool {
		if err != nil {
			return false
		}
		if isRecs {
			return sameRecords(gotRecs, want)
		}
		b, werr := refWrite(want, c.Opts, true)
		return werr == nil && bytes.Equal(b, gotBytes)
	}
	if c.Opts.Order != "" && c.Opts.Skip > 0 && len(all) > 0 && same(all) {
		return "nothing-skipped/option-functions-in-another-order"
	}
	name, without := leadingMark(string(c.Text))
	for _, alt := range without {
		recs, perr := refParse(alt, c.Opts, true)
		if perr != nil {
			if err != nil && err.Error() == perr.Error() {
				return "leading-" + name + "-dropped"
			}
			continue
		}
		if same(skipRecs(recs, c.Opts.Skip)) {
			return "leading-" + name + "-dropped"
		}
	}
	return ""
}

// explainObserved is explainInput for what a destination holds.
func explainObserved(c *Case, all [][]string, d dest, err error) string {
	switch {
	case d.records != nil:
		return explainInput(c, all, d.records(), nil, true, err)
	case d.bytes != nil:
		return explainInput(c, all, nil, d.bytes(), false, err)
	}
	return ""
}

// withFeature appends the input feature (if one accounts for the outcome) to a signature.
func withFeature(sig, feat string) string {
	if feat == "" {
		return sig
	}
	return sig + "/" + feat
}

func textFeatures(t string) string {
	var f []string
	add := func(c bool, s string) {
		if c {
			f = append(f, s)
		}
	}
	add(t == "", "empty")
	add(strings.Contains(t, `"`), "quotes")
	add(strings.Contains(t, `""`), "escaped-quote")
	add(strings.Contains(t, "\r\n"), "crlf")
	add(strings.Contains(t, "\n\n") || strings.HasPrefix(t, "\n"), "blank-line")
	add(strings.Contains(t, ",,") || strings.Contains(t, ",\n") || strings.Contains(t, "\n,"), "empty-field")
	add(strings.Contains(t, "#"), "hash")
	add(strings.ContainsAny(t, ";\t|"), "alt-sep")
	add(t != "" && !strings.HasSuffix(t, "\n"), "no-final-newline")
	add(strings.Contains(t, ", ") || strings.Contains(t, "\n "), "lead-space")
	if name, _ := leadingMark(t); name != "" {
		add(true, "leading-"+name)
	}
	add(strings.Contains(strings.TrimPrefix(t, "\ufeff"), "\ufeff"), "inner-byte-order-mark")
	return strings.Join(f, "+")
}

func destClass(kind string) string {
	switch {
	case kind == "*[]named-record" || kind == "*[][]named-field":
		return "record-table-named-elements"
	case isIn(destTableKinds, kind):
		return "record-table"
	case kind == "csvwriter":
		return "csv-writer-interface"
	case kind == "csvwriter-retaining":
		return "csv-writer-retaining"
	case kind == "*csv.Writer":
		return "csv.Writer"
	case isIn(destByteKinds, kind):
		return "bytes"
	}
	return "undocumented-kind"
}

func srcClass(kind string) string {
	switch {
	case kind == "binm":
		return "binary-marshaler"
	case kind == "writerto":
		return "writer-to"
	case kind == "csvreader":
		return "csv-reader-interface"
	case kind == "csvreader-reusing":
		return "csv-reader-reusing-one-slice"
	case kind == "[]named-record" || kind == "[][]named-field":
		return "record-table-named-elements"
	case isIn(srcTableKinds, kind):
		return "record-table"
	case kind == "*csv.Reader":
		return "csv.Reader"
	case kind == "reader" || kind == "readcloser" || kind == "buffer":
		return "reader"
	}
	return "bytes-or-string"
}

func short(b []byte) string {
	if len(b) > 120 {
		return fmt.Sprintf("%q…(%d bytes)", b[:120], len(b))
	}
	return fmt.Sprintf("%q", b)
}

func shortRecs(r [][]string) string {
	s := fmt.Sprintf("%q", r)
	if len(s) > 300 {
		s = s[:300] + "…"
	}
	return fmt.Sprintf("%d records %s", len(r), s)
}

func sameRecords(a, b [][]string) bool {
	if len(a) != len(b) {
		return false
	}
	for i := range a {
		if len(a[i]) != len(b[i]) {
			return false
		}
		for j := range a[i] {
			if a[i][j] != b[i][j] {
				return false
			}
		}
	}
	return true
}

// aliased reports two delivered records that share storage: every cell record i can reach (its fields
// and the spare capacity an append to it would write into) is overwritten and the other records are
// read again.
func aliased(recs [][]string) (int, int, bool) {
	snap := make([][]string, len(recs))
	for i, r := range recs {
		snap[i] = append([]string(nil), r...)
	}
	for i := range recs {
		full := recs[i][:cap(recs[i])]
		if len(full) == 0 {
			continue
		}
		saved := append([]string(nil), full...)
		for j := range full {
			full[j] = "\x00verif-overwritten\x00"
		}
		for k := range recs {
			if k == i {
				continue
			}
			for j := range recs[k] {
				if recs[k][j] != snap[k][j] {
					copy(full, saved)
					return i, k, true
				}
			}
		}
		copy(full, saved)
	}
	return 0, 0, false
}

// explainRecords names the input feature that accounts for a record mismatch.
func explainRecords(c *Case, got, want [][]string, nodefault [][]string, nodefaultOK bool) string {
	switch {
	case c.Opts.Reuse:
		return "reuse-record"
	case nodefaultOK && !sameRecords(nodefault, want) && sameRecords(got, nodefault):
		return "reader-options-ignored"
	case len(got) == len(want)+1 && sameRecords(got[1:], want):
		return "one-skipped-record-too-few"
	case len(got)+1 == len(want) && sameRecords(got, want[1:]):
		return "one-skipped-record-too-many"
	case len(got) < len(want) && sameRecords(got, want[:len(got)]):
		return "records-missing-at-the-end"
	case c.Dir == "consume" && c.PreLen > 0:
		return "pre-populated-table"
	}
	return "other"
}

func preState(c *Case, n int) string {
	switch {
	case c.PreNil:
		return "typed-nil"
	case isIn(destTableKinds, c.Kind):
		switch {
		case c.PreLen == 0 && c.PreCap == 0:
			return "fresh"
		case c.PreLen > n:
			return "pre-populated-longer"
		case c.PreLen == n:
			return "pre-populated-equal"
		case c.PreLen == 0:
			return "empty-with-capacity"
		}
		return "pre-populated-shorter"
	case c.PreText != "":
		return "pre-populated"
	}
	return "fresh"
}

func (c *Case) fp(pre string) string {
	if c.Warm > 0 {
		pre += fmt.Sprintf("+warm%d", c.Warm)
	}
	if c.Post > 0 {
		pre += fmt.Sprintf("+post%d", c.Post)
	}
	if c.RK != "" {
		pre += "+reader=" + c.RK
	}
	if len(c.Table) > 0 {
		pre += "+odd-table"
	}
	if len(c.Text) > 4096 {
		pre += "+over-4KiB"
	}
	if longestLine(string(c.Text)) > 4096 {
		pre += "+line-over-4KiB"
	}
	if c.objSet() {
		pre += "+caller-configured-object"
	}
	if c.objBools() {
		pre += "+caller-set-boolean"
	}
	if c.WK != "" {
		pre += "+writer=" + c.WK
	}
	if c.Conc > 1 {
		pre += "+concurrent"
	}
	return strings.Join([]string{textFeatures(string(c.Text)), c.Dir, c.Kind, pre, c.Opts.set(), c.S.class(len(c.Text)), c.O.class(len(c.Text))}, "|")
}

func longestLine(t string) int {
	best := 0
	for _, l := range strings.Split(t, "\n") {
		if len(l) > best {
			best = len(l)
		}
	}
	return best
}

func runCase(m *mon.M, c *Case) {
	m.Eval(1)
	if len(c.Text) > 4096 && longestLine(string(c.Text)) > 4096 {
		m.Class("text/one-line-over-4KiB/" + c.Dir)
	}
	for _, cl := range c.Opts.orderClasses() {
		m.Class(cl)
	}
	if name, _ := leadingMark(string(c.Text)); name != "" {
		m.Class("text/leading-" + name + "/" + c.Dir)
	}
	switch c.Dir {
	case "consume":
		runConsume(m, c)
	case "produce":
		runProduce(m, c)
	default:
		m.Violate("bad-replay-case", "unknown direction "+c.Dir, c)
		return
	}
	if m.WantSample() {
		m.Sample(c)
	}
}

func errText(e error) string {
	if e == nil {
		return "<nil>"
	}
	return e.Error()
}

func noteClose(m *mon.M, c *Case, closes int) {
	switch {
	case closes > 0 && c.Opts.Close:
		m.Class("stream-closed-with-option")
	case closes > 0:
		m.Class("stream-closed-WITHOUT-option")
	case c.Opts.Close:
		m.Class("stream-not-closed-with-option")
	}
}

// ---- consumer ----

// byValueKinds are the destinations the codec fills itself, in one piece, once the input was parsed.
var byValueKinds = []string{"*[][]string", "*named-table", "*[]named-record", "*[][]named-field", "*[]byte", "*named-bytes", "*string", "*named-string"}

// held is a deep copy of what a destination holds at one moment.
type held struct {
	recs   [][]string
	b      []byte
	isRecs bool
	isB    bool
}

func copyRecs(r [][]string) [][]string {
	out := make([][]string, len(r))
	for i := range r {
		if r[i] != nil {
			out[i] = append(make([]string, 0, len(r[i])), r[i]...)
		}
	}
	return out
}

func snapshot(d dest) held {
	var h held
	if d.records != nil {
		h.isRecs, h.recs = true, copyRecs(d.records())
	}
	if d.bytes != nil {
		h.isB, h.b = true, append([]byte(nil), d.bytes()...)
	}
	return h
}

func (h held) same(d dest) bool {
	if h.isRecs && !sameRecords(h.recs, d.records()) {
		return false
	}
	if h.isB && !bytes.Equal(h.b, d.bytes()) {
		return false
	}
	return true
}

func (h held) String() string {
	if h.isRecs {
		return shortRecs(h.recs)
	}
	return short(h.b)
}

func (h held) empty() bool { return len(h.recs) == 0 && len(h.b) == 0 }

// consumeReader builds the reader handed to Consume. sr carries the counters of the scripted kinds (a
// blank one for the concrete standard readers); src is the memory a *bytes.Buffer / *bytes.Reader reads from.
func consumeReader(c *Case, text string) (rd io.Reader, sr *sReader, src []byte, ok bool) {
	switch c.RK {
	case "":
		sr = newReader([]byte(text), c.S)
		return sr, sr, nil, true
	case "plain":
		sr = newReader([]byte(text), c.S)
		return readerOnly{sr}, sr, nil, true
	case "bytes.Buffer":
		src = []byte(text)
		return bytes.NewBuffer(src), &sReader{}, src, true
	case "bytes.Reader":
		src = []byte(text)
		return bytes.NewReader(src), &sReader{}, src, true
	case "strings.Reader":
		return strings.NewReader(text), &sReader{}, nil, true
	}
	return nil, nil, nil, false
}

// laterText is a text a later call consumes or produces: same structure as the judged one (so that it
// parses under the same options), other letters.
func laterText(text string) string { return strings.ToUpper(text) }

// unrelatedText is a plain text, valid under the default options, longer than n bytes.
func unrelatedText(n int) string { return strings.Repeat("x,y,z\n0,2,3\n", n/12+2) }

// laterConsumes makes the calls that follow the judged one and reads again what the judged call delivered
// (h: what it held right after the judged call). It reports whether everything is still in place.
func laterConsumes(m *mon.M, c *Case, cons runtime.Consumer, d dest, h held, dc string) bool {
	if c.Post <= 0 {
		return true
	}
	text := string(c.Text)
	var later []dest
	if pd, ok := mkDest(c.Kind, 0, 0, "", false, Script{}); ok {
		_, _ = mon.Catch(func() { _ = cons.Consume(newReader([]byte(laterText(text)), Script{}), pd.v) })
		later = append(later, pd)
	}
	if c.Post >= 2 {
		if pd, ok := mkDest("*[]byte", 0, 0, "", false, Script{}); ok {
			_, _ = mon.Catch(func() {
				_ = runtime.CSVConsumer().Consume(newReader([]byte(unrelatedText(len(h.b)+len(text))), Script{}), pd.v)
			})
			later = append(later, pd)
		}
	}
	m.Class("later-calls-made")
	if !h.same(d) {
		m.Violate("delivered-result-altered-by-later-call/consume/"+dc, fmt.Sprintf("CSVConsumer into %s: input %s options {%s}: the judged call delivered %s; after %d later call(s) (same codec with %s, then a fresh codec with an unrelated text) the same destination reads %s", c.Kind, short([]byte(text)), c.Opts.set(), h, c.Post, short([]byte(laterText(text))), snapshot(d)), c)
		return false
	}
	// what the judged call delivered must not share memory with what a later call delivered
	var lh []held
	for _, pd := range later {
		lh = append(lh, snapshot(pd))
	}
	shared := -1
	if d.records != nil {
		for _, rec := range d.records() {
			full := rec[:cap(rec)]
			saved := append([]string(nil), full...)
			for j := range full {
				full[j] = "\x00verif-overwritten\x00"
			}
			for k, pd := range later {
				if !lh[k].same(pd) {
					shared = k
				}
			}
			copy(full, saved)
		}
	}
	if d.bytes != nil {
		b := d.bytes()
		full := b[:cap(b)]
		saved := append([]byte(nil), full...)
		for j := range full {
			full[j] = 0xAA
		}
		for k, pd := range later {
			if !lh[k].same(pd) {
				shared = k
			}
		}
		copy(full, saved)
	}
	if shared >= 0 {
		m.Violate("delivered-result-shared-with-later-call/consume/"+dc, fmt.Sprintf("CSVConsumer into %s: overwriting what the judged call delivered (%s) changed what later call #%d delivered into another destination", c.Kind, h, shared+1), c)
		return false
	}
	return true
}

func runConsume(m *mon.M, c *Case) {
	text := string(c.Text)
	if c.RK == "nil" {
		runConsumeNilReader(m, c)
		return
	}
	ropts, judged := c.refOpts()
	if !judged {
		m.Class("not-judged:setting-made-on-the-object-and-named-by-a-codec-option")
		return
	}
	rcv := *c
	rcv.Opts = ropts
	rc := &rcv // the case as the reference sees it: the caller's own settings on its object included
	recs, perr := refParse(text, ropts, true)
	want := skipRecs(recs, c.Opts.Skip)
	pre := preState(c, len(want))
	d, ok := mkDest(c.Kind, c.PreLen, c.PreCap, c.PreText, c.PreNil, c.O)
	if !ok {
		m.Violate("bad-replay-case", "unknown destination kind "+c.Kind, c)
		return
	}
	applyObj(c, d.csvw, nil)
	before := snapshot(d) // the destination's own pre-state, copied before the codec can touch it
	rd, r, src, ok := consumeReader(c, text)
	if !ok {
		m.Violate("bad-replay-case", "unknown reader kind "+c.RK, c)
		return
	}
	cons := runtime.CSVConsumer(c.Opts.sut()...)
	for i := 0; i < c.Warm; i++ {
		if wd, ok := mkDest(c.Kind, 0, 0, "", false, Script{}); ok {
			_, _ = mon.Catch(func() { _ = cons.Consume(newReader([]byte(text), Script{}), wd.v) })
			m.Class("codec-instance-reused")
		}
	}
	dc := destClass(c.Kind)
	var join func() []compFinding
	if c.Conc > 1 && !c.objBools() && !c.PreNil && dc != "undocumented-kind" {
		var release func()
		release, join = consumeCompanions(c, cons, ropts, c.Conc-1)
		release()
	}
	var err error
	pv, st := mon.Catch(func() { err = cons.Consume(rd, d.v) })
	m.NT(c.fp(pre))
	m.Class("consume/" + dc + "/" + pre)
	if join != nil {
		// the other goroutines that used the same codec instance meanwhile, each against its own reference
		m.Class("concurrent-use/consume")
		for _, f := range join() {
			m.Violate("concurrent-use/consume/"+dc+"/"+f.kind, fmt.Sprintf("CSVConsumer into %s, options {%s}, one codec instance used by %d goroutines at once (each with its own reader and destination): %s", c.Kind, c.Opts.set(), c.Conc, f.detail), c)
		}
	}
	if c.objSet() {
		m.Class("consume/caller-configured-csv.Writer")
	}
	if c.RK != "" {
		m.Class("consume/reader=" + c.RK)
	}
	if pv != nil {
		sig := "consume-panic/" + dc + "/" + pre
		switch {
		case c.PreNil:
			sig = "consume-panic/typed-nil-destination"
		case dc == "record-table-named-elements" || dc == "undocumented-kind":
			sig = "consume-panic/" + dc
		}
		m.Violate(sig, fmt.Sprintf("CSVConsumer into %s (%T, %s) panicked: %v\ninput %s options {%s}; the reference parse yields %d records after skipping (err=%s)\n%s", c.Kind, d.v, pre, pv, short([]byte(text)), c.Opts.set(), len(want), errText(perr), st), c)
		return
	}
	noteClose(m, c, r.closes)
	if r.readsAfterClose > 0 {
		// a closed file or HTTP body answers with an error: records are lost
		m.Violate("stream-used-after-close/consume/reader", fmt.Sprintf("CSVConsumer into %s, options {%s}: the reader was read %d time(s) after the codec had closed it (err=%s)", c.Kind, c.Opts.set(), r.readsAfterClose, errText(err)), c)
		return
	}
	if src != nil && err == nil && (d.records != nil || d.bytes != nil) {
		// the destination must not share memory with the caller's source buffer
		h := snapshot(d)
		for i := range src {
			src[i] = 0xAA
		}
		if !h.same(d) {
			m.Violate("destination-aliases-source/consume/"+dc, fmt.Sprintf("CSVConsumer from a *%s into %s: the destination held %s; after the source buffer was overwritten it reads %s", c.RK, c.Kind, h, snapshot(d)), c)
			return
		}
		copy(src, text)
	}
	documented := dc != "undocumented-kind" && dc != "record-table-named-elements" && !c.PreNil
	if !documented {
		// an error is a fine answer; so is a correct delivery (judged below); a success that drops records is not
		if err != nil {
			m.Class("undocumented-or-nil-rejected")
			return
		}
		if d.records == nil && d.bytes == nil {
			if perr == nil && len(want) > 0 {
				m.Violate("silent-success/"+dc+"/"+pre, fmt.Sprintf("CSVConsumer into %s (%T): %d records parsed, none deliverable, nil returned", c.Kind, d.v, len(want)), c)
			}
			return
		}
	}
	if collab := d.faulted != nil && d.faulted(); r.errDelivered || (d.sink != nil && d.sink.errDelivered) || collab {
		m.Class("fault-delivered")
		if err == nil {
			what := "read"
			if !r.errDelivered {
				what = "destination-write"
			}
			sig := "stream-" + what + "-error-swallowed/consume/" + dc
			if what == "destination-write" && collab {
				what, sig = "destination's own (Write / Error / ReadFrom / UnmarshalBinary)", "collaborator-error-swallowed/consume/"+dc
			}
			m.Violate(sig, fmt.Sprintf("CSVConsumer into %s: the scripted %s error was delivered and nil was returned", c.Kind, what), c)
		}
		if collab {
			m.Class("collaborator-fault-delivered/" + dc)
		}
		if r.errDelivered && err != nil && isIn(byValueKinds, c.Kind) && !before.same(d) {
			m.Class("destination-touched-on-read-fault")
		}
		return
	}
	if c.objBools() && d.bytes != nil && documented {
		m.Class("consume/caller-set-boolean-on-csv.Writer")
		if d.csvw != nil && d.csvw.UseCRLF != c.Obj.CRLF {
			m.Class("probe:caller-object-field-rewritten/csv.Writer.UseCRLF")
		}
		if probeObjBools(m, c, ropts, d.bytes(), err, "consume/csv.Writer") {
			return
		}
	}
	if d.bytes != nil && writerOptionsInvalid(ropts) {
		// encoding/csv's writer rejects these options as soon as one record is written: with a
		// malformed input either error may come first, so only the presence of an error is judged
		m.Class("writer-options-rejected-by-reference")
		if noR, noE := outcomeWith(rc, false); err == nil && (perr != nil || len(want) > 0) && noE == "" && len(noR) == 0 {
			m.Violate("reader-options-ignored/consume/"+dc, fmt.Sprintf("CSVConsumer into %s: input %s options {%s}: nil returned although the writer options are invalid: without the reader options the text holds no record to write", c.Kind, short([]byte(text)), c.Opts.set()), c)
		} else if err == nil && (perr != nil || len(want) > 0) {
			m.Violate("writer-error-swallowed/consume/"+dc, fmt.Sprintf("CSVConsumer into %s: encoding/csv's writer rejects the options {%s}, the consumer returned nil", c.Kind, c.Opts.set()), c)
		}
		return
	}
	if consumeIgnoresReaderOptions(rc, d, err, recs, perr) {
		m.Violate("reader-options-ignored/consume/"+dc, fmt.Sprintf("CSVConsumer into %s: input %s options {%s}: the outcome (err=%s) is what encoding/csv gives WITHOUT the reader options, not with them (with: err=%s, %d records)", c.Kind, short([]byte(text)), c.Opts.set(), errText(err), errText(perr), len(recs)), c)
		return
	}
	if perr != nil {
		m.Class("malformed-input")
		if err == nil {
			m.Violate(withFeature("malformed-accepted/consume/"+dc, explainObserved(rc, nil, d, err)), fmt.Sprintf("CSVConsumer into %s: input %s options {%s}: encoding/csv says %q, the consumer returned nil", c.Kind, short([]byte(text)), c.Opts.set(), perr), c)
		} else if err.Error() != perr.Error() {
			m.Violate(withFeature("not-the-parser-error/consume/"+dc, explainObserved(rc, nil, d, err)), fmt.Sprintf("CSVConsumer into %s: input %s options {%s}: encoding/csv says %q, the consumer says %q", c.Kind, short([]byte(text)), c.Opts.set(), perr, err), c)
		} else if same, why := sameParserError(err, perr); !same {
			// the text of the parser's error, but not the parser's error: callers tell it with errors.As / errors.Is
			m.Violate("parser-error-identity-lost/consume/"+dc, fmt.Sprintf("CSVConsumer into %s: input %s options {%s}: the error reads %q like the parser's, but %s", c.Kind, short([]byte(text)), c.Opts.set(), err, why), c)
		} else if d.calls != nil && (d.calls() > 0 || len(d.bytes()) > 0) {
			// io.ReaderFrom / encoding.BinaryUnmarshaler destinations are filled in one piece from the codec's own
			// buffer: next to the parser's error they must have been handed nothing
			m.Violate("partial-delivery-on-error/consume/"+dc+"/"+c.Kind, fmt.Sprintf("CSVConsumer into %s: input %s options {%s}: the parser's error %q was returned, and the destination's own method was called %d time(s) and was handed %s", c.Kind, short([]byte(text)), c.Opts.set(), err, d.calls(), short(d.bytes())), c)
		} else if isIn(byValueKinds, c.Kind) && !before.same(d) {
			// "the parser's error instead of partial success": a destination the codec fills itself must not
			// hold a part of the malformed input next to the error (the streaming kinds cannot help it)
			if now := snapshot(d); !now.empty() {
				m.Violate("partial-delivery-on-error/consume/"+dc+"/"+pre, fmt.Sprintf("CSVConsumer into %s (%s): input %s options {%s}: the parser's error %q was returned, and the destination, which held %s, now holds %s", c.Kind, pre, short([]byte(text)), c.Opts.set(), err, before, now), c)
			} else {
				m.Class("destination-emptied-on-error")
			}
		}
		return
	}
	nodef, nderr := refParse(text, ropts, false)
	nodef = skipRecs(nodef, c.Opts.Skip)
	if d.records != nil {
		if err != nil {
			m.Violate("spurious-error/consume/"+dc, fmt.Sprintf("CSVConsumer into %s (%s): well-formed input %s options {%s} rejected: %v", c.Kind, pre, short([]byte(text)), c.Opts.set(), err), c)
			return
		}
		got := d.records()
		if c.Kind == "csvwriter-retaining" && c.Opts.Reuse {
			m.Class("not-judged:retaining-csvwriter-with-reuse-record")
			return
		}
		if isIn(destTableKinds, c.Kind) || c.Kind == "csvwriter-retaining" {
			if i, k, al := aliased(got); al {
				feature := "plain-options"
				if c.Opts.Reuse {
					feature = "reuse-record"
				}
				if c.Kind == "csvwriter-retaining" {
					// the records the codec handed to the CSVWriter's Write, kept as they were handed over
					feature = "csv-writer-retaining/" + feature
				}
				m.Violate("aliased-records/"+feature, fmt.Sprintf("CSVConsumer into %s: overwriting delivered record %d changed delivered record %d (options {%s}); delivered %s, expected %s", c.Kind, i, k, c.Opts.set(), shortRecs(got), shortRecs(want)), c)
				return
			}
		}
		if !sameRecords(got, want) {
			feat := explainObserved(rc, recs, d, err)
			if feat == "" {
				feat = explainRecords(c, got, want, nodef, nderr == nil)
			}
			m.Violate("records-mismatch/consume/"+dc+"/"+feat, fmt.Sprintf("CSVConsumer into %s (%s): input %s options {%s}\n delivered %s\n expected  %s", c.Kind, pre, short([]byte(text)), c.Opts.set(), shortRecs(got), shortRecs(want)), c)
			return
		}
		if d.rw != nil && len(want) > 0 && (d.rw.flushes == 0 || d.rw.flushedAt != len(want)) {
			m.Violate("csvwriter-not-flushed/consume", fmt.Sprintf("CSVConsumer into a CSVWriter: %d records written, Flush called %d times (last after %d records)", len(want), d.rw.flushes, d.rw.flushedAt), c)
		}
		if !laterConsumes(m, c, cons, d, snapshot(d), dc) {
			return
		}
		m.Class("records-ok")
		return
	}
	// byte destinations
	wantBytes, werr := refWrite(want, ropts, true)
	if werr != nil {
		m.Class("writer-options-rejected-by-reference")
		if err == nil {
			m.Violate("writer-error-swallowed/consume/"+dc, fmt.Sprintf("CSVConsumer into %s: encoding/csv's writer rejects the options {%s} (%v), the consumer returned nil", c.Kind, c.Opts.set(), werr), c)
		}
		return
	}
	if err != nil {
		m.Violate("spurious-error/consume/"+dc, fmt.Sprintf("CSVConsumer into %s (%s): well-formed input %s options {%s} rejected: %v", c.Kind, pre, short([]byte(text)), c.Opts.set(), err), c)
		return
	}
	got := d.bytes()
	if !bytes.Equal(got, wantBytes) {
		feat := explainObserved(rc, recs, d, err)
		if feat == "" {
			feat = explainBytes(rc, got, wantBytes, want, nodef, nderr == nil)
		}
		if c.objSet() && (feat == "writer-options-ignored" || feat == "writer-comma-ignored") {
			// the separator the caller had set on its own *csv.Writer (no codec option names one) was replaced
			feat = "caller-writer-comma-overridden"
		}
		m.Violate("bytes-mismatch/consume/"+dc+"/"+feat, fmt.Sprintf("CSVConsumer into %s (%s): input %s options {%s}\n stored   %s\n expected %s", c.Kind, pre, short([]byte(text)), c.Opts.set(), short(got), short(wantBytes)), c)
		return
	}
	if !laterConsumes(m, c, cons, d, snapshot(d), dc) {
		return
	}
	m.Class("bytes-ok")
}

// explainBytes names the input feature that accounts for a byte mismatch.
func explainBytes(c *Case, got, wantBytes []byte, want, nodef [][]string, nodefOK bool) string {
	if alt, err := refWrite(want, c.Opts, false); err == nil && !bytes.Equal(alt, wantBytes) && bytes.Equal(got, alt) {
		return "writer-options-ignored"
	}
	if c.Opts.CRLF {
		o := c.Opts
		o.CRLF = false
		if alt, err := refWrite(want, o, true); err == nil && bytes.Equal(got, alt) {
			return "crlf-option-ignored"
		}
	}
	if c.Opts.WComma != "" {
		o := c.Opts
		o.WComma = ""
		if alt, err := refWrite(want, o, true); err == nil && bytes.Equal(got, alt) {
			return "writer-comma-ignored"
		}
	}
	if nodefOK && !sameRecords(nodef, want) {
		if alt, err := refWrite(nodef, c.Opts, true); err == nil && bytes.Equal(got, alt) {
			return "reader-options-ignored"
		}
	}
	if len(got) < len(wantBytes) && bytes.HasPrefix(wantBytes, got) {
		return "output-truncated"
	}
	if len(got) > len(wantBytes) && bytes.HasSuffix(got, wantBytes) {
		if c.Dir == "consume" && c.PreText != "" {
			return "appended-to-prior-content"
		}
		return "one-skipped-record-too-few"
	}
	if len(got) < len(wantBytes) && bytes.HasSuffix(wantBytes, got) {
		return "one-skipped-record-too-many"
	}
	return "other"
}

// outcomeWith computes what encoding/csv yields for the text, with or without the reader options:
// the error text, or the records after skipping.
func outcomeWith(c *Case, withOptions bool) ([][]string, string) {
	recs, err := refParse(string(c.Text), c.Opts, withOptions)
	if err != nil {
		return nil, err.Error()
	}
	return skipRecs(recs, c.Opts.Skip), ""
}

// produceIgnoresReaderOptions: the observed outcome differs from the reference with the reader
// options and equals the reference without them.
func produceIgnoresReaderOptions(c *Case, got []byte, err error, recs [][]string, perr error) bool {
	withR, withE := outcomeWith(c, true)
	noR, noE := outcomeWith(c, false)
	if withE == noE && sameRecords(withR, noR) {
		return false // the options make no difference on this text
	}
	if noE != "" {
		return err != nil && err.Error() == noE && withE != noE
	}
	if err != nil {
		return false
	}
	alt, werr := refWrite(noR, c.Opts, true)
	if werr != nil {
		return false
	}
	if withE == "" {
		if exp, e2 := refWrite(withR, c.Opts, true); e2 == nil && bytes.Equal(exp, got) {
			return false
		}
	}
	return bytes.Equal(got, alt)
}

func consumeIgnoresReaderOptions(c *Case, d dest, err error, recs [][]string, perr error) bool {
	withR, withE := outcomeWith(c, true)
	noR, noE := outcomeWith(c, false)
	if withE == noE && sameRecords(withR, noR) {
		return false
	}
	if noE != "" {
		return err != nil && err.Error() == noE && withE != noE
	}
	if err != nil {
		return false
	}
	if d.records != nil {
		got := d.records()
		return sameRecords(got, noR) && !(withE == "" && sameRecords(got, withR))
	}
	if d.bytes != nil {
		alt, werr := refWrite(noR, c.Opts, true)
		if werr != nil {
			return false
		}
		if withE == "" {
			if exp, e2 := refWrite(withR, c.Opts, true); e2 == nil && bytes.Equal(exp, d.bytes()) {
				return false
			}
		}
		return bytes.Equal(d.bytes(), alt)
	}
	return false
}

func writerOptionsInvalid(o Opts) bool {
	_, err := refWrite([][]string{{"x"}}, o, true)
	return err != nil
}

// ---- producer ----

func upperRecs(recs [][]string) [][]string {
	out := copyRecs(recs)
	for i := range out {
		for j := range out[i] {
			out[i][j] = strings.ToUpper(out[i][j])
		}
	}
	return out
}

// laterProduces makes the calls that follow the judged one and reads again what the judged call wrote.
func laterProduces(m *mon.M, c *Case, prod runtime.Producer, w *sWriter, out func() []byte, table [][]string, sc string) bool {
	if c.Post <= 0 {
		return true
	}
	text := string(c.Text)
	written, writes := append([]byte(nil), out()...), w.writes
	if ps, ok := mkSource(c.Kind, []byte(laterText(text)), upperRecs(table), Script{}); ok {
		_, _ = mon.Catch(func() { _ = prod.Produce(newWriter(Script{}), ps.v) })
	}
	if c.Post >= 2 {
		_, _ = mon.Catch(func() { _ = runtime.CSVProducer().Produce(newWriter(Script{}), []byte(unrelatedText(len(text)))) })
	}
	m.Class("later-calls-made")
	if !bytes.Equal(out(), written) || w.writes != writes {
		m.Violate("written-result-altered-by-later-call/produce/"+sc, fmt.Sprintf("CSVProducer from %s: input %s options {%s}: the judged call wrote %s in %d writes; after %d later call(s) on other writers the same writer holds %s after %d writes", c.Kind, short([]byte(text)), c.Opts.set(), short(written), writes, c.Post, short(out()), w.writes), c)
		return false
	}
	return true
}

// produceWriter builds the writer handed to Produce: w is the scripted sink (behind a *bufio.Writer for the bufio
// kinds, unused for a *bytes.Buffer); bw is the caller's own buffering writer, which the caller flushes itself after
// the call; out reads the bytes that arrived.
func produceWriter(c *Case, w *sWriter) (wr io.Writer, bw *bufio.Writer, out func() []byte, ok bool) {
	switch c.WK {
	case "":
		return w, nil, func() []byte { return w.buf }, true
	case "bufio":
		bw = bufio.NewWriterSize(w, 4096)
		return bw, bw, func() []byte { return w.buf }, true
	case "bufio16":
		bw = bufio.NewWriterSize(w, 16)
		return bw, bw, func() []byte { return w.buf }, true
	case "bytes.Buffer":
		b := &bytes.Buffer{}
		return b, nil, b.Bytes, true
	}
	return nil, nil, nil, false
}

// inMemorySrcKinds are the sources the codec holds entirely in memory before it parses them: it can know that the
// input is malformed before it writes anything.
var inMemorySrcKinds = []string{"binm", "[]byte", "named-bytes", "*[]byte", "string", "named-string", "*string"}

func runProduce(m *mon.M, c *Case) {
	text := string(c.Text)
	if c.WK == "nil" || isIn(srcNilKinds, c.Kind) {
		runProduceNil(m, c)
		return
	}
	ropts, judged := c.refOpts()
	if !judged {
		m.Class("not-judged:setting-made-on-the-object-and-named-by-a-codec-option")
		return
	}
	rcv := *c
	rcv.Opts = ropts
	rc := &rcv // the case as the reference sees it: the caller's own settings on its object included
	recs, perr := refParse(text, ropts, true)
	tableKind := isIn(srcTableKinds, c.Kind)
	if tableKind && len(c.Table) > 0 {
		// a table no parse yields (nil / empty records): the records handed over ARE the input
		recs, perr = copyRecs(c.Table), nil
	}
	if tableKind && perr != nil {
		m.Class("table-source-skipped-unparsable-text")
		return
	}
	want := skipRecs(recs, c.Opts.Skip)
	ecv := rcv
	if tableKind {
		ecv.Text = "" // a record table holds no text a mark could be dropped from
	}
	ec := &ecv // the case the explanations of a mismatch work with
	s, ok := mkSource(c.Kind, []byte(text), copyRecs(recs), c.O)
	if !ok {
		m.Violate("bad-replay-case", "unknown source kind "+c.Kind, c)
		return
	}
	applyObj(c, nil, s.csvr)
	w := newWriter(c.S)
	wr, bw, out, ok := produceWriter(c, w)
	if !ok {
		m.Violate("bad-replay-case", "unknown writer kind "+c.WK, c)
		return
	}
	prod := runtime.CSVProducer(c.Opts.sut()...)
	for i := 0; i < c.Warm; i++ {
		if ws, ok := mkSource(c.Kind, []byte(text), copyRecs(recs), Script{}); ok {
			applyObj(c, nil, ws.csvr)
			_, _ = mon.Catch(func() { _ = prod.Produce(newWriter(Script{}), ws.v) })
			m.Class("codec-instance-reused")
		}
	}
	sc := srcClass(c.Kind)
	var join func() []compFinding
	if c.Conc > 1 && !c.objBools() {
		var release func()
		release, join = produceCompanions(c, prod, ropts, recs, c.Conc-1)
		release()
	}
	var err error
	pv, st := mon.Catch(func() { err = prod.Produce(wr, s.v) })
	m.NT(c.fp(""))
	m.Class("produce/" + sc)
	if c.WK != "" {
		m.Class("produce/writer=" + c.WK)
	}
	if join != nil {
		m.Class("concurrent-use/produce")
		for _, f := range join() {
			m.Violate("concurrent-use/produce/"+sc+"/"+f.kind, fmt.Sprintf("CSVProducer from %s, options {%s}, one codec instance used by %d goroutines at once (each with its own source and writer): %s", c.Kind, c.Opts.set(), c.Conc, f.detail), c)
		}
	}
	if c.objSet() {
		m.Class("produce/caller-configured-csv.Reader")
	}
	if tableKind && len(c.Table) > 0 {
		m.Class("produce/table-with-nil-or-empty-records")
	}
	if pv != nil {
		feat := sc
		if tableKind && len(c.Table) > 0 {
			feat += "/nil-or-empty-records"
		}
		m.Violate("produce-panic/"+feat, fmt.Sprintf("CSVProducer from %s (%T) panicked: %v\ninput %s options {%s}\n%s", c.Kind, s.v, pv, short([]byte(text)), c.Opts.set(), st), c)
		return
	}
	if bw != nil {
		// the caller's own buffering writer: what the codec left in it is the caller's to flush (csv.NewWriter adopts
		// a *bufio.Writer of 4096 bytes or more as its own buffer, which the codec's Flush then empties)
		metDuringCall, arrived := w.errDelivered, len(w.buf)
		_ = bw.Flush()
		if len(w.buf) == arrived {
			m.Class("produce/" + c.WK + "-writer/everything-flushed-by-the-codec")
		} else {
			m.Class("produce/" + c.WK + "-writer/bytes-left-in-the-callers-buffer")
		}
		if w.errDelivered && !metDuringCall {
			// the sink failed under the caller's own Flush, after the call: the codec could not know
			m.Class("sink-fault-met-by-the-callers-own-flush")
			return
		}
	}
	got := out()
	noteClose(m, c, w.closes)
	if c.Kind == "readcloser" && s.rd.closes == 0 {
		m.Class("closable-source-not-closed")
	}
	if w.writesAfterClose > 0 {
		m.Violate("stream-used-after-close/produce/writer", fmt.Sprintf("CSVProducer from %s, options {%s}: the writer was written to %d time(s) after the codec had closed it (err=%s, written %s)", c.Kind, c.Opts.set(), w.writesAfterClose, errText(err), short(got)), c)
		return
	}
	if s.rd != nil && s.rd.readsAfterClose > 0 {
		m.Violate("stream-used-after-close/produce/source-payload", fmt.Sprintf("CSVProducer from %s, options {%s}: the closable source was read %d time(s) after the codec had closed it (err=%s)", c.Kind, c.Opts.set(), s.rd.readsAfterClose, errText(err)), c)
		return
	}
	collab := s.faulted != nil && s.faulted()
	srcFault := c.O.Fault && ((s.rd != nil && s.rd.errDelivered) || (s.wt != nil && s.wt.calls > 0))
	if w.errDelivered || srcFault || collab {
		m.Class("fault-delivered")
		if collab {
			m.Class("collaborator-fault-delivered/" + sc)
		}
		if err == nil {
			what := "write"
			if !w.errDelivered {
				what = "source-read"
			}
			sig := "stream-" + what + "-error-swallowed/produce/" + sc
			if what == "source-read" && collab {
				what, sig = "source's own (Read / MarshalBinary)", "collaborator-error-swallowed/produce/"+sc
			}
			m.Violate(sig, fmt.Sprintf("CSVProducer from %s: the scripted %s error was delivered and nil was returned (written %s)", c.Kind, what, short(got)), c)
		}
		return
	}
	if c.objBools() {
		m.Class("produce/caller-set-boolean-on-csv.Reader")
		if s.csvr != nil {
			if s.csvr.LazyQuotes != (c.Obj.Lazy || c.Opts.Lazy) {
				m.Class("probe:caller-object-field-rewritten/csv.Reader.LazyQuotes")
			}
			if s.csvr.TrimLeadingSpace != (c.Obj.Trim || c.Opts.Trim) {
				m.Class("probe:caller-object-field-rewritten/csv.Reader.TrimLeadingSpace")
			}
			if s.csvr.ReuseRecord != (c.Obj.Reuse || c.Opts.Reuse) {
				m.Class("probe:caller-object-field-rewritten/csv.Reader.ReuseRecord")
			}
		}
		if probeObjBools(m, c, ropts, got, err, "produce/csv.Reader") {
			return
		}
	}
	if writerOptionsInvalid(ropts) {
		m.Class("writer-options-rejected-by-reference")
		if noR, noE := outcomeWith(rc, false); err == nil && (perr != nil || len(want) > 0) && !tableKind && noE == "" && len(noR) == 0 {
			m.Violate("reader-options-ignored/produce/"+sc, fmt.Sprintf("CSVProducer from %s: input %s options {%s}: nil returned although the writer options are invalid: without the reader options the text holds no record to write", c.Kind, short([]byte(text)), c.Opts.set()), c)
		} else if err == nil && (perr != nil || len(want) > 0) {
			m.Violate("writer-error-swallowed/produce/"+sc, fmt.Sprintf("CSVProducer from %s: encoding/csv's writer rejects the options {%s}, the producer returned nil", c.Kind, c.Opts.set()), c)
		}
		return
	}
	if !tableKind && produceIgnoresReaderOptions(rc, got, err, recs, perr) {
		sig := "reader-options-ignored/produce/" + sc
		if c.objSet() {
			// the settings the caller had made on its own *csv.Reader (no codec option names them) were replaced
			sig = "caller-reader-settings-overridden/produce/" + sc
		}
		m.Violate(sig, fmt.Sprintf("CSVProducer from %s: input %s options {%s}: the outcome (err=%s, written %s) is what encoding/csv gives WITHOUT the reader options, not with them (with: err=%s)", c.Kind, short([]byte(text)), c.Opts.set(), errText(err), short(got), errText(perr)), c)
		return
	}
	if sc == "record-table-named-elements" && err != nil {
		m.Class("named-element-table-source-rejected")
		return
	}
	if perr != nil {
		m.Class("malformed-input")
		if err == nil {
			m.Violate(withFeature("malformed-accepted/produce/"+sc, explainInput(ec, nil, nil, got, false, err)), fmt.Sprintf("CSVProducer from %s: input %s options {%s}: encoding/csv says %q, the producer returned nil (written %s)", c.Kind, short([]byte(text)), c.Opts.set(), perr, short(got)), c)
		} else if err.Error() != perr.Error() {
			if c.Kind == "writerto" {
				m.Class("writer-to-pipe-error-instead-of-parser-error")
			}
			m.Violate(withFeature("not-the-parser-error/produce/"+sc, explainInput(ec, nil, nil, got, false, err)), fmt.Sprintf("CSVProducer from %s: input %s options {%s}: encoding/csv says %q, the producer says %q", c.Kind, short([]byte(text)), c.Opts.set(), perr, err), c)
		} else if same, why := sameParserError(err, perr); !same {
			// the text of the parser's error, but not the parser's error: callers tell it with errors.As / errors.Is
			m.Violate("parser-error-identity-lost/produce/"+sc, fmt.Sprintf("CSVProducer from %s: input %s options {%s}: the error reads %q like the parser's, but %s", c.Kind, short([]byte(text)), c.Opts.set(), err, why), c)
		} else if len(got) > 0 || w.writes > 0 {
			if isIn(inMemorySrcKinds, c.Kind) {
				// "the parser's error instead of partial success": a source the codec holds in memory as a whole is known
				// to be malformed before the first byte is written; a well-formed prefix next to the error is a partial success
				m.Violate("partial-output-on-error/produce/"+sc, fmt.Sprintf("CSVProducer from %s: input %s options {%s}: the parser's error %q was returned, and the writer had received %s in %d write(s)", c.Kind, short([]byte(text)), c.Opts.set(), err, short(got), w.writes), c)
			} else {
				// a streaming source: the records before the malformed one were necessarily on their way
				m.Class("output-before-the-parser-error/streaming-source")
			}
		}
		return
	}
	wantBytes, werr := refWrite(want, ropts, true)
	if werr != nil {
		m.Class("writer-options-rejected-by-reference")
		if err == nil {
			m.Violate("writer-error-swallowed/produce/"+sc, fmt.Sprintf("CSVProducer from %s: encoding/csv's writer rejects the options {%s} (%v), the producer returned nil", c.Kind, c.Opts.set(), werr), c)
		}
		return
	}
	if err != nil {
		m.Violate("spurious-error/produce/"+sc, fmt.Sprintf("CSVProducer from %s: well-formed input %s options {%s} rejected: %v", c.Kind, short([]byte(text)), c.Opts.set(), err), c)
		return
	}
	if !bytes.Equal(got, wantBytes) {
		var nodef [][]string
		var nderr error
		if tableKind {
			nodef, nderr = nil, fmt.Errorf("n/a")
		} else {
			nodef, nderr = refParse(text, ropts, false)
			nodef = skipRecs(nodef, c.Opts.Skip)
		}
		feat := explainInput(ec, recs, nil, got, false, err)
		if feat == "" {
			feat = explainBytes(rc, got, wantBytes, want, nodef, nderr == nil)
		}
		if tableKind && len(c.Table) > 0 {
			feat = "nil-or-empty-records"
		}
		m.Violate("bytes-mismatch/produce/"+sc+"/"+feat, fmt.Sprintf("CSVProducer from %s: input %s options {%s}\n written  %s\n expected %s", c.Kind, short([]byte(text)), c.Opts.set(), short(got), short(wantBytes)), c)
		return
	}
	if !laterProduces(m, c, prod, w, out, recs, sc) {
		return
	}
	m.Class("bytes-ok")
}

// ---- one codec instance used by several goroutines ----

// compFinding is what one of the other goroutines saw go wrong.
type compFinding struct{ kind, detail string }

const companionRounds = 2

// companionText is the text goroutine number i works with: the judged text, or the same structure in other letters.
func companionText(text string, i int) string {
	if i%2 == 1 {
		return laterText(text)
	}
	return text
}

func companions(n int, work func(i int) *compFinding) (release func(), join func() []compFinding) {
	start := make(chan struct{})
	var wg sync.WaitGroup
	res := make([]*compFinding, n)
	for i := 0; i < n; i++ {
		wg.Add(1)
		go func(i int) {
			defer wg.Done()
			<-start
			for round := 0; round < companionRounds && res[i] == nil; round++ {
				res[i] = work(i + 1)
			}
		}(i)
	}
	return func() { close(start) }, func() []compFinding {
		wg.Wait() // a join, no clock
		var out []compFinding
		for _, f := range res {
			if f != nil {
				out = append(out, *f)
			}
		}
		return out
	}
}

// consumeCompanions starts n goroutines that consume, on the SAME codec instance, their own text from their own
// plain reader into their own fresh destination of the case's kind, and judge what they got against the reference
// parse of THEIR text (a reduced oracle: outcome class, error text, records or bytes).
func consumeCompanions(c *Case, cons runtime.Consumer, ropts Opts, n int) (release func(), join func() []compFinding) {
	return companions(n, func(i int) *compFinding {
		text := companionText(string(c.Text), i)
		d, ok := mkDest(c.Kind, 0, 0, "", false, Script{})
		if !ok {
			return nil
		}
		applyObj(c, d.csvw, nil)
		var err error
		pv, st := mon.Catch(func() { err = cons.Consume(newReader([]byte(text), Script{}), d.v) })
		if pv != nil {
			return &compFinding{"panic", fmt.Sprintf("goroutine %d panicked: %v\n%s", i, pv, st)}
		}
		recs, perr := refParse(text, ropts, true)
		want := skipRecs(recs, c.Opts.Skip)
		if destClass(c.Kind) == "record-table-named-elements" && err != nil {
			return nil // a kind the codec does not document may be refused
		}
		var got []byte
		if d.bytes != nil {
			got = d.bytes()
			return judgeCompanionBytes(i, text, ropts, c.Opts.Skip, got, err)
		}
		if d.records == nil {
			return nil
		}
		switch {
		case perr != nil && err == nil:
			return &compFinding{"malformed-accepted", fmt.Sprintf("goroutine %d: input %s: encoding/csv says %q, nil returned", i, short([]byte(text)), perr)}
		case perr != nil && err.Error() != perr.Error():
			return &compFinding{"not-the-parser-error", fmt.Sprintf("goroutine %d: input %s: encoding/csv says %q, the consumer says %q", i, short([]byte(text)), perr, err)}
		case perr != nil:
			return nil
		case err != nil:
			return &compFinding{"spurious-error", fmt.Sprintf("goroutine %d: well-formed input %s rejected: %v", i, short([]byte(text)), err)}
		case c.Kind == "csvwriter-retaining" && c.Opts.Reuse:
			return nil
		case !sameRecords(d.records(), want):
			return &compFinding{"records-mismatch", fmt.Sprintf("goroutine %d: input %s\n delivered %s\n expected  %s", i, short([]byte(text)), shortRecs(d.records()), shortRecs(want))}
		}
		return nil
	})
}

func judgeCompanionBytes(i int, text string, ropts Opts, skip int, got []byte, err error) *compFinding {
	exp := refOutcome(text, ropts, skip)
	if exp.kind == "any-error" && err == nil {
		// invalid writer options: an error is owed as soon as there is a record to write or the input is malformed
		// (with nothing to write the reference writer never looks at its options)
		if recs, perr := refParse(text, ropts, true); perr == nil && len(skipRecs(recs, skip)) == 0 {
			return nil
		}
	}
	if exp.matches(got, err) {
		return nil
	}
	kind := "bytes-mismatch"
	if exp.kind != "bytes" || err != nil {
		kind = "error-mismatch"
	}
	return &compFinding{kind, fmt.Sprintf("goroutine %d: input %s: got err=%s and bytes %s, expected %s", i, short([]byte(text)), errText(err), short(got), exp)}
}

// produceCompanions: the same for the producer; record-table kinds hand over the parse of their text (the judged
// call's table when their own text does not parse or the case carries a table no parse yields).
func produceCompanions(c *Case, prod runtime.Producer, ropts Opts, recs [][]string, n int) (release func(), join func() []compFinding) {
	tableKind := isIn(srcTableKinds, c.Kind)
	return companions(n, func(i int) *compFinding {
		text := companionText(string(c.Text), i)
		table := recs
		var exp outcome
		if tableKind {
			if own, perr := refParse(text, ropts, true); perr == nil && len(c.Table) == 0 {
				table = own
			}
			b, werr := refWrite(skipRecs(table, c.Opts.Skip), ropts, true)
			exp = outcome{kind: "bytes", b: b}
			if werr != nil {
				exp = outcome{kind: "any-error"}
			}
		} else {
			exp = refOutcome(text, ropts, c.Opts.Skip)
		}
		s, ok := mkSource(c.Kind, []byte(text), copyRecs(table), Script{})
		if !ok {
			return nil
		}
		applyObj(c, nil, s.csvr)
		w := newWriter(Script{})
		var err error
		pv, st := mon.Catch(func() { err = prod.Produce(w, s.v) })
		if pv != nil {
			return &compFinding{"panic", fmt.Sprintf("goroutine %d panicked: %v\n%s", i, pv, st)}
		}
		if srcClass(c.Kind) == "record-table-named-elements" && err != nil {
			return nil
		}
		if exp.kind == "any-error" && err == nil {
			if tableKind && len(skipRecs(table, c.Opts.Skip)) == 0 {
				return nil
			}
			if rr, perr := refParse(text, ropts, true); !tableKind && perr == nil && len(skipRecs(rr, c.Opts.Skip)) == 0 {
				return nil
			}
		}
		if exp.matches(w.buf, err) {
			return nil
		}
		kind := "bytes-mismatch"
		if exp.kind != "bytes" || err != nil {
			kind = "error-mismatch"
		}
		return &compFinding{kind, fmt.Sprintf("goroutine %d: input %s: got err=%s and bytes %s, expected %s", i, short([]byte(text)), errText(err), short(w.buf), exp)}
	})
}

// ---- no reader, no writer, no data ----

// runConsumeNilReader: Consume is handed no reader at all. Nothing can be parsed: an error is owed, not a panic and
// not a success, and the destination keeps what it held.
func runConsumeNilReader(m *mon.M, c *Case) {
	d, ok := mkDest(c.Kind, c.PreLen, c.PreCap, c.PreText, c.PreNil, Script{})
	if !ok {
		m.Violate("bad-replay-case", "unknown destination kind "+c.Kind, c)
		return
	}
	before := snapshot(d)
	cons := runtime.CSVConsumer(c.Opts.sut()...)
	var err error
	pv, st := mon.Catch(func() { err = cons.Consume(nil, d.v) })
	m.NT(c.fp("nil-reader"))
	m.Class("consume/nil-reader")
	switch {
	case pv != nil:
		m.Violate("consume-panic/nil-reader", fmt.Sprintf("CSVConsumer with a nil reader into %s (%T) panicked: %v\noptions {%s}\n%s", c.Kind, d.v, pv, c.Opts.set(), st), c)
	case err == nil:
		m.Violate("nil-reader-accepted/consume", fmt.Sprintf("CSVConsumer with a nil reader into %s (%T), options {%s}: nil returned, although there is nothing to parse", c.Kind, d.v, c.Opts.set()), c)
	case (d.records != nil || d.bytes != nil) && !before.same(d):
		m.Violate("destination-altered-without-input/consume/nil-reader", fmt.Sprintf("CSVConsumer with a nil reader into %s: error %q returned, and the destination, which held %s, now holds %s", c.Kind, err, before, snapshot(d)), c)
	default:
		m.Class("nil-reader-rejected")
	}
}

// runProduceNil: Produce is handed no writer, or no data, or the typed-nil pointer of a pointer source kind.
func runProduceNil(m *mon.M, c *Case) {
	text := string(c.Text)
	recs, perr := refParse(text, c.Opts, true)
	if perr != nil {
		recs = nil
	}
	s, ok := mkSource(c.Kind, []byte(text), copyRecs(recs), Script{})
	if !ok {
		m.Violate("bad-replay-case", "unknown source kind "+c.Kind, c)
		return
	}
	w := newWriter(Script{})
	var wr io.Writer = w
	what := "nil-data"
	switch {
	case c.WK == "nil":
		wr, what = nil, "nil-writer"
	case c.Kind != "nil":
		what = "typed-nil-source"
	}
	prod := runtime.CSVProducer(c.Opts.sut()...)
	var err error
	pv, st := mon.Catch(func() { err = prod.Produce(wr, s.v) })
	m.NT(c.fp(what))
	m.Class("produce/" + what)
	if what == "typed-nil-source" {
		// not in the statement's no-panic clause (destination state and options): probed and classed for triage
		switch {
		case pv != nil:
			m.Class("probe:typed-nil-source/" + c.Kind + "/PANIC")
		case err != nil:
			m.Class("probe:typed-nil-source/" + c.Kind + "/rejected")
		default:
			m.Class("probe:typed-nil-source/" + c.Kind + "/nil-returned")
		}
		return
	}
	switch {
	case pv != nil:
		m.Violate("produce-panic/"+what, fmt.Sprintf("CSVProducer (%s) from %s (%T) panicked: %v\noptions {%s}\n%s", what, c.Kind, s.v, pv, c.Opts.set(), st), c)
	case err == nil:
		m.Violate(what+"-accepted/produce", fmt.Sprintf("CSVProducer (%s) from %s (%T), options {%s}: nil returned, although nothing can have been written", what, c.Kind, s.v, c.Opts.set()), c)
	case len(w.buf) > 0 || w.writes > 0:
		m.Violate("output-without-input/produce/"+what, fmt.Sprintf("CSVProducer (%s): error %q returned, and the writer received %s", what, err, short(w.buf)), c)
	default:
		m.Class(what + "-rejected")
	}
}

// applyObj makes the caller's own settings on the object it hands over (before the call).
func applyObj(c *Case, w *csv.Writer, r *csv.Reader) {
	if c.Obj == nil {
		return
	}
	if w != nil && c.Obj.Comma != "" {
		w.Comma = r1(c.Obj.Comma)
	}
	if w != nil && c.Obj.CRLF {
		w.UseCRLF = true
	}
	if r != nil {
		if c.Obj.Lazy {
			r.LazyQuotes = true
		}
		if c.Obj.Trim {
			r.TrimLeadingSpace = true
		}
		if c.Obj.Reuse {
			r.ReuseRecord = true
		}
		if c.Obj.Comma != "" {
			r.Comma = r1(c.Obj.Comma)
		}
		if c.Obj.Comment != "" {
			r.Comment = r1(c.Obj.Comment)
		}
		if c.Obj.FPR != 0 {
			r.FieldsPerRecord = c.Obj.FPR
		}
	}
}

func replay(m *mon.M, raw json.RawMessage) {
	var c Case
	if err := json.Unmarshal(raw, &c); err != nil {
		m.Violate("bad-replay-case", err.Error(), nil)
		return
	}
	runCase(m, &c)
}
